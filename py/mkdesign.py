#!/usr/bin/env python3
"""Rewrites the generated regions of DESIGN.md (between <!-- BEGIN:x --> and <!-- END:x -->) from py/props*.py,
known_findings*.json and seeded/*/ : the per-property table, the findings list and the seeded-change table."""
import json, os, re, glob, sys
HERE = os.path.dirname(os.path.dirname(os.path.abspath(__file__)))
sys.path.insert(0, HERE + '/py')
import props

def findings():
    out = []
    for p in [HERE + '/known_findings.json'] + sorted(glob.glob(HERE + '/known_findings.d/*.json')):
        for k in json.load(open(p)).get('findings', []):
            k['_file'] = os.path.relpath(p, HERE)
            out.append(k)
    return out

def prop_table():
    ids = [json.loads(l)['id'] for l in open(HERE + '/properties.jsonl')]
    titles = {json.loads(l)['id']: json.loads(l)['title'] for l in open(HERE + '/properties.jsonl')}
    F = findings()
    rows = ['| id | property | theorems (Props/Cxx.v) | ties (quick size) | refuted / partial parts | findings: known / fixed |', '|---|---|---|---|---|---|']
    for pid in ids:
        P = props.PROPS.get(pid)
        if not P:
            rows.append('| %s | %s | — not claimed — | | | |' % (pid, titles[pid]))
            continue
        th = P['theorems']
        ref = [t for t in th if 'refuted' in t or 'partial' in t]
        ties = '; '.join('%s `%s`%s (%s)' % (t['name'], t['vh'], '' if t.get('model') else ' [monitor only]', t['n']['quick']) for t in P['ties'])
        kn = [k['id'] for k in F if k['property'] == pid and k.get('status', 'known') == 'known']
        fx = [k.get('commit', '?') for k in F if k['property'] == pid and k.get('status') == 'fixed']
        rows.append('| %s | %s | %d: %s | %s | %s | %s |' % (pid, titles[pid], len(th), ', '.join('`%s`' % t for t in th), ties,
                    ', '.join('`%s`' % t for t in ref) or '—', ('known: ' + ', '.join(kn) if kn else '') + (' fixed: ' + ', '.join(fx) if fx else '') or '—'))
    return '\n'.join(rows)

def findings_list():
    F = findings()
    out = ['**Repaired in /repo (one `fix:` commit each):**', '']
    for k in F:
        if k.get('status') == 'fixed':
            out.append('* `%s` %s — %s (%s)' % (k.get('commit', '?'), k['property'], (k.get('fixed') or k.get('what', '')).split(' ', 3)[-1][:400], k['id']))
    out += ['', '**Known findings (genuine, not repaired; the check prints `KNOWN-FINDING:` for exactly this input class):**', '']
    for k in F:
        if k.get('status', 'known') == 'known':
            out.append('* %s `%s` — %s *(where: %s)*' % (k['property'], k['id'], k.get('what', '')[:500], k.get('where', '')[:200]))
    return '\n'.join(out)

def seeds_table():
    rows = ['| seed | breaks | what it needs to manifest | confirmed (build / unit tests / demo) | checks run against it |', '|---|---|---|---|---|']
    for d in sorted(glob.glob(HERE + '/seeded/*')):
        m = {}
        if os.path.exists(d + '/meta.json'):
            try: m = json.load(open(d + '/meta.json'))
            except Exception: m = {}
        conf = open(d + '/confirmed.txt').read().strip() if os.path.exists(d + '/confirmed.txt') else 'confirmed in the session that produced it'
        chk = ''
        if os.path.exists(d + '/checks.txt'):
            txt = open(d + '/checks.txt').read()
            chk = '; '.join(sorted(set(re.findall(r'(C\d\d): (VIOLATION|OK)', txt) and ['%s %s' % x for x in re.findall(r'(C\d\d): (VIOLATION|OK)', txt)])))
        if os.path.exists(d + '/caught_by.txt'):
            chk = open(d + '/caught_by.txt').read().strip()
        rows.append('| %s | %s | %s | %s | %s |' % (os.path.basename(d), m.get('property', '?'), str(m.get('needs', ''))[:300].replace('|', '/').replace('\n', ' '), conf, chk or '?'))
    return '\n'.join(rows)

def mutants_table():
    res = {}
    for f in sorted(glob.glob(HERE + '/mutation/results*.jsonl')):
        for l in open(f):
            try: r = json.loads(l)
            except Exception: continue
            res[r['id']] = r          # later lines (re-runs after a check was strengthened) win
    eq = {}
    if os.path.exists(HERE + '/mutation/equivalent.json'):
        eq = json.load(open(HERE + '/mutation/equivalent.json'))
    if not res:
        return '(no sweep recorded yet)'
    by = {}
    for r in res.values():
        o = r.get('outcome', '?')
        if o == 'missed' and r['id'] in eq: o = 'equivalent'
        by.setdefault(r.get('area', ''), {}).setdefault(o, []).append(r)
    tot = {}
    rows = ['| area | mutants | detected (by check) | killed by the pinned unit tests | equivalent / outside the properties | missed |', '|---|---|---|---|---|---|']
    for a in sorted(by):
        d = by[a]
        n = sum(len(v) for v in d.values())
        det = {}
        for r in d.get('detected', []): det[r.get('by', '?')] = det.get(r.get('by', '?'), 0) + 1
        rows.append('| %s | %d | %d (%s) | %d | %d | %s |' % (a, n, len(d.get('detected', [])), ', '.join('%s×%d' % kv for kv in sorted(det.items())) or '—',
                    len(d.get('killed-by-tests', [])), len(d.get('equivalent', [])), ', '.join(r['id'] for r in d.get('missed', [])) or '—'))
        for k, v in d.items(): tot[k] = tot.get(k, 0) + len(v)
    rows.append('| **total** | %d | %d | %d | %d | %d |' % (sum(tot.values()), tot.get('detected', 0), tot.get('killed-by-tests', 0), tot.get('equivalent', 0), tot.get('missed', 0)))
    out = '\n'.join(rows)
    miss = [r for r in res.values() if r.get('outcome') == 'missed']
    if miss:
        out += '\n\nMissed or equivalent mutants:\n'
        for r in sorted(miss, key=lambda r: r['id']):
            out += '\n* `%s` %s — %s%s' % (r['id'], r['file'], r.get('desc', '')[:260], (' — **equivalent**: ' + eq[r['id']]) if r['id'] in eq else ' — **blind spot**')
    return out

def main():
    p = HERE + '/DESIGN.md'
    s = open(p).read()
    for name, fn in (('props', prop_table), ('findings', findings_list), ('seeds', seeds_table), ('mutants', mutants_table)):
        b, e = '<!-- BEGIN:%s -->' % name, '<!-- END:%s -->' % name
        if b in s and e in s:
            s = s[:s.index(b) + len(b)] + '\n' + fn() + '\n' + s[s.index(e):]
    open(p, 'w').write(s)

if __name__ == '__main__':
    main()
