"""Per-property configuration of bin/check: Coq target + theorem names, ties (harness command,
model command, sizes), trusted base notes."""

TRUSTED_COMMON = [
    'Coq 8.16.1 kernel (coqc; coqchk re-check in the thorough tier); vm_compute used in Example/witness proofs; no native_compute',
    'no axioms declared; Print Assumptions of every property theorem is recorded under coverage.theorems',
    'extraction: ExtrOcamlBasic + ExtrOcamlString only (bool, option, unit, prod, list, sumbool, sumor, ascii->char, string->char list); Z/N/positive/Q stay Coq datatypes; OCaml 4.13.1',
    'correspondence harness: Go files under /verif/harness/go compiled into /repo with -tags verif -overlay (add-only), generators, canonical printers, ocaml/modelrun.ml glue, bin/check',
]

PROPS = {}

PROPS['C24'] = dict(
    target='Props/C24',
    theorems=['C24_allocate', 'C24_nonneg', 'C24_remaining'],
    ties=[dict(name='TIE-C alloc', vh='alloc', model='alloc', n=dict(quick=4000, thorough=400000))],
    rule='portions from normalised random weights (sum exactly 1), specifics+remaining, arbitrary; amounts from the magnitude lattice '
         '(0,1,small,2^53±1,2^63±1,2^64±1,10^30,random ≤256 bit); non-trivial = accepted allotment summing to 100% with ≥2 parts and amount>0, distinct by input',
    explanation='Theorems C24_allocate/C24_nonneg/C24_remaining are about Machine/Allot.v (allocate, new_allotment); the tie runs the real '
                'machine.NewPortionSpecific/NewAllotment/Allocate and the extracted model on the same inputs and compares parts and error class; '
                'the monitor re-checks sum/floor/earliest-parts on the implementation output with big.Rat independently of the model.',
    trusted=['modelled not verified: math/big (Rat normalisation, Euclidean Div)'],
    technique='Coq proof (induction over the portion list, rational floor sandwich) + differential run of the extracted model against machine.Allotment',
    level_text='Unbounded theorem about the Gallina model of NewAllotment/Allocate (any amount, any number of parts, any denominators): parts sum to the amount, '
               'each is floor(amount*portion) or that +1, the +1s go to the earliest parts. Tied to the code by running model and real Go on the same generated inputs.',
    level_note='Trusted: Coq kernel, extraction (ExtrOcamlBasic/String), the OCaml glue, the Go harness; math/big is exercised not modelled. The compiler-side check that '
               'constant allotments sum to 100% is covered under C22 (VisitAllotment).',
)
NOT_CLAIMED = {}


def hist_tie(pid, quick=150, thorough=3000, extra=None):
    args = ['-monitors', pid, '-features', 'mixed'] + (extra or [])
    return dict(name='TIE-D hist', vh='hist', model='hist', n=dict(quick=quick, thorough=thorough), args=dict(all=args), kinds=[pid], case_head='hist')


HIST_RULE = ('histories of 1..12 operations generated online against the running implementation from one PRNG (VERIF_SEED): create (1-3 postings, accounts from a 6-name '
             'alphabet incl. world, src=dst, zero and >2^64 amounts, back/future-dated timestamps on a small lattice, references r1/r2 reused, metadata, account metadata, '
             'force), revert (force / atEffectiveDate, mostly of existing transactions), set/delete metadata on transactions and accounts, replays under an idempotency key '
             'with same or altered input, 8% dry runs; 5 feature sets; non-trivial = history with >=2 committed writes; after EVERY operation the ledger is read back through the '
             'real read paths (list transactions/accounts/volumes/logs with small page sizes, aggregated balances) plus the raw moves and metadata-history tables')
HIST_TRUST = ['pgsem (harness/go/pgsem): executable stand-in for PostgreSQL executing the SQL text the real code emits (statement snapshots, triggers parsed from the '
              'current migrations, unique indexes, sequences); all SQL-dependent verdicts are relative to it',
              'modelled, not verified: bun query building/scanning, encoding/json, math/big, the ANTLR Numscript front end (exercised through TxToScriptData), OpenTelemetry wrappers']
SCRIPTS_NOTE = (' With -scripts 30, 30% of the generated creates are Numscript requests whose script, after the sends, calls set_tx_meta (1-2 keys from the '
                'alphabet of the request metadata, 20% with the empty value) and set_account_meta (0-2 accounts, most often the account the request\'s accountMetadata names, '
                'common and disjoint keys) while the request carries metadata / accountMetadata beside it (model input IScript): METADATA_OVERRIDE, the key-by-key merge of '
                'account metadata and replays of such requests under their idempotency key are exercised.')
HIST_NOTE = ('Trusted: Coq kernel; extraction; the pgsem stand-in for PostgreSQL (no real database in the sandbox); the Go harness. The theorem is about Ledger/Core.v (mirror of '
             'storage + controller write path, one ledger, sequential); the differential run compares, after every operation, results and the full ledger state of model and real stack.')


def ledger_prop(pid, theorems, technique, level_text, explanation, quick=150, thorough=3000, extra=None, more_ties=None):
    PROPS[pid] = dict(target='Props/' + pid, theorems=theorems, ties=[hist_tie(pid, quick, thorough, extra)] + (more_ties or []),
                      rule=HIST_RULE, explanation=explanation, trusted=HIST_TRUST, technique=technique, level_text=level_text, level_note=HIST_NOTE)


ledger_prop('C01', ['C01_conservation', 'C01_fold_conservation', 'C01_moves_pairs'],
            'Coq proof (invariant by induction over histories: volumes = fold of postings, rows duplicate-free and covering) + differential run of the extracted model against the real stack on pgsem',
            'Unbounded theorem: after any history, for every asset, total input = total output over the rows of accounts_volumes (model Ledger/Core.v); same for any fold of postings over a covering key set (what PIT reads compute). Tie: model = real stack after every operation of generated histories; monitor re-checks conservation on volumes listing, aggregated balances, account reads and moves.',
            'C01_conservation is proved for every feature set and history; PIT/window forms are covered through C01_fold_conservation here and the read mirrors of C05. Monitor: Σin-Σout per asset on 4 read paths.')
ledger_prop('C02', ['C02_volumes_are_fold', 'C02_fold_meaning', 'C02_failed_noop', 'C02_dry_noop'],
            'Coq proof (refinement: incrementally maintained accounts_volumes row = fold of stored postings, by induction over histories) + differential run against the real stack',
            'Unbounded theorem: for every history and every account/asset the stored volumes equal (Σ credits, Σ debits) over the postings of the stored transactions, reverts included; failed and dry-run operations change no table. Tie: model = real stack after every operation; monitor folds the postings of the RESULTS the implementation returned and compares with three read paths.',
            'The theorem is at table level; the read paths (GetAccount/ListAccounts expand volumes, GetVolumesWithBalances, aggregated balances) are exercised for real on every step and compared with model and monitor.')
ledger_prop('C07', ['C07_error_no_trace', 'C07_dry_run_no_trace', 'C07_dry_run_same_answer', 'C07_replay_identity', 'C07_metadata_override_no_trace'],
            'Coq proof (frame property of the step function: error/dry-run/replay leave all tables equal) + differential run + snapshot-equality monitor on the real stack',
            'Unbounded theorem: any operation returning an error, any dry run and any idempotent replay leave all seven tables unchanged, and a dry run returns the answer of the real write. Tie: model = real stack; monitor compares complete ledger snapshots (all read paths + raw tables) before/after every failed or dry-run operation.',
            'In the model rollback is structural (one SQL transaction per operation); that the real code routes every store call through that transaction is what the snapshot monitor and the fault-injection tie check on the real stack.',
            extra=['-scripts', '30'])
ledger_prop('C14', ['C14_unique_references', 'C14_reuse_is_conflict', 'C14_empty_reference_exempt'],
            'Coq proof (invariant: non-empty references duplicate-free, by induction over histories) + differential run; the unique partial index is read from the current migration text by pgsem',
            'Unbounded theorem (sequential histories): at most one stored transaction per non-empty reference; a create reusing one returns reference-conflict with no effect; the empty reference is exempt. Tie: model = real stack; monitor checks uniqueness and the conflict outcome on the implementation.',
            'Concurrent racers are covered by the unique-index wait rule of pgsem in the schedule runs (C06/C13 harness), not by this theorem.')
ledger_prop('C16', ['C16_tx_ids_increase', 'C16_log_ids_increase', 'C16_ids_unique', 'C16_ids_below_sequence'],
            'Coq proof (invariant: stored ids strictly increasing in commit order and below the sequence) + differential run',
            'Unbounded theorem for sequential executions: transaction ids and log ids are unique and strictly increase in commit order, gaps only from rolled-back draws. Tie: model = real stack incl. ids after failures and dry runs.',
            'Sequential part only is proved; commit order vs id order under concurrency is examined by the schedule harness.')

ledger_prop('C03', ['C03_post_commit_is_state_after', 'C03_pre_commit_is_state_before', 'C03_moves_are_running_volumes', 'C03_frozen'],
            'Coq proof (the reverse unwinding loop of CommitTransaction equals the forward running volumes, by induction from the right; frame lemma for later steps) + differential run',
            'Unbounded theorems: postCommitVolumes = table right after the commit on exactly the touched pairs; pre = post − own postings = table right before; the recorded moves (source side then destination side per posting) carry the forward running volumes for ANY postings list incl. repeated accounts and source = destination; stored values are frozen along every later step. Tie: model = real stack (raw moves rows and transaction reads compared after every operation); monitor recomputes running volumes from returned results.',
            'C03_moves_are_running_volumes is about the loop of storage/ledger/transactions.go; the aliasing of RETURNING values into the caller-owned big.Ints is exercised for real.')
ledger_prop('C08', ['C08_commit_appends_one_log', 'C08_nothing_else_appends', 'C08_log_ids_increase', 'C08_replay_transactions', 'C08_replay_volumes'],
            'Coq proof (journal invariant: projection of the transactions table = replay of the stored log payloads; volumes = fold of replayed postings) + differential run + independent Go replay of the implementation\'s exported logs',
            'Unbounded theorems: exactly one log per committed write and none otherwise; log ids strictly increase; replaying the payloads (a fold that never reads the tables) reproduces transactions (ids, postings, metadata, timestamps, references, revert marks) and volumes. Tie: model = real stack; monitor replays the logs the implementation lists and compares with its reads, accounts and account metadata included.',
            'Account metadata/first-usage replay is checked by the monitor only (not yet a theorem). Concurrent id order: C16 notes.')
ledger_prop('C15', ['C15_shape', 'C15_reverse_postings', 'C15_once', 'C15_neutral'],
            'Coq proof (shape of the revert from the step function; single revert via the reverted mark; algebraic neutrality of postings ++ reversed postings) + differential run',
            'Unbounded theorems (sequential): a successful revert of T creates one transaction with T\'s postings swapped in reverse order, the revert mark, timestamp T.ts or the revert time; a second revert fails with already-reverted; T plus its revert leave every balance unchanged. Tie: model = real stack; monitor checks shape/mark/timestamp/once on the implementation.',
            'Concurrent reverts (row lock + re-evaluation of reverted_at IS NULL) are covered by the schedule harness. The nil-map panic of a non-forced revert (suspect S-15) is modelled as an explicit Panic outcome.')
ledger_prop('C17', ['C17_current_tx_metadata', 'C17_merge_last_write_wins', 'C17_delete_removes', 'C17_account_upsert', 'C17_tx_history_revision', 'C17_tx_metadata_as_of', 'C17_pit_read_uses_history', 'C17_account_metadata_as_of', 'C17_pit_account_read_uses_history',
                    'C17_script_tx_metadata', 'C17_script_account_metadata', 'C17_script_account_keys'],
            'Coq proof (current transaction metadata = replay of saves/deletes in log order; merge/delete algebra; history revision per rewrite) + differential run incl. raw history tables + metadata monitor',
            'Unbounded theorems: current transaction metadata equals creation metadata with saves (last write wins per key) and deletes applied in commit order; account upsert merges over stored metadata; with the history feature every row rewrite appends the new metadata as next revision dated updated_at. Tie: model = real stack on current metadata AND both raw history tables under 5 feature sets.',
            'The point-in-time read queries (as-of-t selection, DISABLED => current) are compared by the PIT read tie (C05 harness); chart default metadata is covered under C29.',
            extra=['-scripts', '30', '-oddkeys', '1'])
ledger_prop('C18', ['C18_partial_persistence', 'C18_partial_involved_listed', 'C18_partial_metadata_creates', 'C18_partial_metadata_lowers', 'C18_first_usage_is_earliest_event', 'C18_full_without_reverts', 'C18_refuted_revert'],
            'Coq proof of the partial statement + refutation witness of the full statement (vm_compute) replayed on the real code + differential run',
            'Proved for every history: an account is listed iff the log holds an event involving it (created transaction at its timestamp, metadata write at its date) and its first usage IS the earliest such event (C18_first_usage_is_earliest_event); the property as worded, revert transactions included, for every history without reverts (C18_full_without_reverts); accounts persist with constant address/insertion date, first usage never increases, committed creates list every involved account with first usage <= effective timestamp, metadata creates the account and counts as a usage at the time of the write (after the repair 2a129a1). REFUTED (witness C18_refuted_revert, known finding): a revert transaction whose effective timestamp precedes an account\'s first usage does not lower it. Tie: model = real stack; monitor computes earliest effective event per account and tags the known revert case.',
            'The full "earliest among all events" statement is false of the unchanged code (known_findings.json: KF-C18-revert-before-first-usage); any other first-usage discrepancy is reported as a violation.')


# ---- further properties: one file per group under py/props.d/ (executed in name order, sharing this namespace)
import glob as _glob, os as _os
for _f in sorted(_glob.glob(_os.path.join(_os.path.dirname(_os.path.abspath(__file__)), 'props.d', '*.py'))):
    exec(compile(open(_f).read(), _f, 'exec'))
