"""Per-property configuration of bin/check: Coq target + theorem names, ties (harness command,
model command, sizes), trusted base notes."""

TRUSTED_COMMON = [
    'Coq 8.16.1 kernel (coqc; coqchk re-check in the thorough tier); vm_compute used in Example/witness proofs; no native_compute',
    'no axioms declared; Print Assumptions of every property theorem is recorded under coverage.theorems',
    'extraction: ExtrOcamlBasic + ExtrOcamlString only (bool, option, unit, prod, list, sumbool, sumor, ascii->char, string->char list); Z/N/positive/Q stay Coq datatypes; OCaml 4.13.1',
    'correspondence harness: Go files under /verif/harness/go compiled into /repo with -tags verif -overlay (add-only), generators, canonical printers, ocaml/modelrun.ml glue, bin/check',
]

PROPS = {}

PROPS['C24'] = dict(
    target='Props/C24',
    theorems=['C24_allocate', 'C24_nonneg', 'C24_remaining'],
    ties=[dict(name='TIE-C alloc', vh='alloc', model='alloc', n=dict(quick=4000, thorough=400000))],
    rule='portions from normalised random weights (sum exactly 1), specifics+remaining, arbitrary; amounts from the magnitude lattice '
         '(0,1,small,2^53±1,2^63±1,2^64±1,10^30,random ≤256 bit); non-trivial = accepted allotment summing to 100% with ≥2 parts and amount>0, distinct by input',
    explanation='Theorems C24_allocate/C24_nonneg/C24_remaining are about Machine/Allot.v (allocate, new_allotment); the tie runs the real '
                'machine.NewPortionSpecific/NewAllotment/Allocate and the extracted model on the same inputs and compares parts and error class; '
                'the monitor re-checks sum/floor/earliest-parts on the implementation output with big.Rat independently of the model.',
    trusted=['modelled not verified: math/big (Rat normalisation, Euclidean Div)'],
    technique='Coq proof (induction over the portion list, rational floor sandwich) + differential run of the extracted model against machine.Allotment',
    level_text='Unbounded theorem about the Gallina model of NewAllotment/Allocate (any amount, any number of parts, any denominators): parts sum to the amount, '
               'each is floor(amount*portion) or that +1, the +1s go to the earliest parts. Tied to the code by running model and real Go on the same generated inputs.',
    level_note='Trusted: Coq kernel, extraction (ExtrOcamlBasic/String), the OCaml glue, the Go harness; math/big is exercised not modelled. The compiler-side check that '
               'constant allotments sum to 100% is covered under C22 (VisitAllotment).',
)
NOT_CLAIMED = {}
