"""s-expression reader (same format as ocaml/sexp.ml) and trace differ"""
import sys


def parse(s):
    pos = 0
    n = len(s)

    def skip():
        nonlocal pos
        while pos < n and s[pos] in ' \n\t':
            pos += 1

    def item():
        nonlocal pos
        skip()
        c = s[pos]
        if c == '(':
            pos += 1
            out = []
            while True:
                skip()
                if s[pos] == ')':
                    pos += 1
                    return out
                out.append(item())
        if c == '"':
            pos += 1
            b = []
            while s[pos] != '"':
                if s[pos] == '\\':
                    if s[pos + 1] == 'x':
                        b.append(chr(int(s[pos + 2:pos + 4], 16)))
                        pos += 4
                    else:
                        b.append(s[pos + 1])
                        pos += 2
                else:
                    b.append(s[pos])
                    pos += 1
            pos += 1
            return ('str', ''.join(b))
        st = pos
        while pos < n and s[pos] not in ' ()\n\t':
            pos += 1
        return s[st:pos]
    return item()


def show(x):
    if isinstance(x, list):
        return '(' + ' '.join(show(y) for y in x) + ')'
    if isinstance(x, tuple):
        return '"' + x[1].replace('\\', '\\\\').replace('"', '\\"') + '"'
    return x


def first_diff(a, b, path=''):
    if a == b:
        return None
    if isinstance(a, list) and isinstance(b, list):
        tag = ''
        for i in range(max(len(a), len(b))):
            if i >= len(a) or i >= len(b):
                return '%s[%d]: model=%s impl=%s' % (path, i, show(a[i]) if i < len(a) else '<missing>', show(b[i]) if i < len(b) else '<missing>')
            t = a[i][0] if isinstance(a[i], list) and a[i] and isinstance(a[i][0], str) else ''
            d = first_diff(a[i], b[i], '%s/%s%d' % (path, t + ':' if t else '', i))
            if d:
                return d
    return '%s: model=%s impl=%s' % (path, show(a)[:600], show(b)[:600])


def trace_diff(model_line, impl_line):
    try:
        m, i = parse(model_line), parse(impl_line)
    except Exception as e:
        return 'unparseable: %s' % e
    if m and i and m[0] == 'trace' and i[0] == 'trace':
        ms, is_ = m[1], i[1]
        for k in range(max(len(ms), len(is_))):
            if k >= len(ms) or k >= len(is_):
                return 'step %d: model has %d steps, impl has %d' % (k, len(ms), len(is_))
            if ms[k] != is_[k]:
                return 'step %d %s' % (k, first_diff(ms[k], is_[k]))
    return first_diff(m, i)


if __name__ == '__main__':
    ml = open(sys.argv[1]).read().split('\n')
    il = open(sys.argv[2]).read().split('\n')
    cl = open(sys.argv[3]).read().split('\n') if len(sys.argv) > 3 else None
    n = 0
    for k, (x, y) in enumerate(zip(ml, il)):
        if x != y:
            n += 1
            if n <= int(sys.argv[4]) if len(sys.argv) > 4 else 5:
                print('case %d: %s' % (k, trace_diff(x, y)))
                if cl:
                    c = parse(cl[k])
                    d = trace_diff(x, y)
                    if d.startswith('step '):
                        st = int(d.split()[1])
                        print('   op:', show(c[2][st]) if c[0] == 'hist' else '')
    print('differing cases:', n, 'of', len(ml))
