#!/usr/bin/env python3
"""Regenerates /verif/MANIFEST.json from py/props.py (claimed) and py/notclaimed.py."""
import json, sys
import os
HERE=os.path.dirname(os.path.dirname(os.path.abspath(__file__)))
sys.path.insert(0, HERE+'/py')
import props
allids = [json.loads(l)['id'] for l in open(HERE+'/properties.jsonl')]
checks = []
for pid in allids:
    if pid not in props.PROPS:
        continue
    P = props.PROPS[pid]
    checks.append(dict(
        property_id=pid,
        quick_cmd='bin/check %s --tier quick' % pid,
        thorough_cmd='bin/check %s --tier thorough' % pid,
        evidence_file='/verif/evidence/%s.json' % pid,
        replay_cmd_template='bin/check %s --replay {path}' % pid,
        engine='rocq-proof+correspondence',
        level_claimed=dict(category='proof', text=P['level_text'], design_ref=P.get('design_ref', 'DESIGN.md §9 ' + pid)),
        level_note=P['level_note'],
        technique=P['technique']))
na = [dict(property_id=pid, reason=props.NOT_CLAIMED.get(pid, 'not yet built: theorem file and tie for this property are not in place at this commit (see DESIGN.md §11 build order); no other technique is substituted'))
      for pid in allids if pid not in props.PROPS]
man = dict(
    version=1,
    setup_cmd='bin/setup',
    hooks=dict(guard='verif',
               enable='cd /repo && go build -tags verif -overlay /verif/build/overlay.json ./internal/verifh/vh  (harness files live in /verif/harness/go, injected by -overlay; /repo is never modified)',
               baseline_off_cmd="cd /repo && for m in . deployments/pulumi pkg/client; do (cd /repo/$m && go test -mod=mod -json -vet=off -count=1 -timeout 25m ./...); done",
               source_commits=[], add_only=True),
    engines=[dict(name='rocq-proof+correspondence', path='/verif/bin/check', serves_properties=[c['property_id'] for c in checks],
                  kind_free_text='Coq 8.16 theorems about hand-written executable Gallina models (coq/theories), tied to /repo by differential runs of the extracted model against the real Go code built from the current tree (pure functions directly; the storage/controller stack on pgsem, a stand-in for PostgreSQL that executes the SQL text the code emits)')],
    checks=checks,
    not_applicable=na,
    notes='See DESIGN.md. Properties listed under not_applicable with reason "not yet built" are unclaimed, not inapplicable.')
json.dump(man, open(HERE+'/MANIFEST.json', 'w'), indent=1)
print('claimed', len(checks), 'unclaimed', len(na))
