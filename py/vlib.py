"""Shared machinery of /verif/bin/check: builds (Coq, extraction+OCaml, Go harness from /repo's
current tree through -overlay), runs, model/implementation diff, decision, evidence."""
import json, os, re, subprocess, sys, time, glob, hashlib, shutil

V = os.environ.get('VERIF_ROOT') or os.path.dirname(os.path.dirname(os.path.abspath(__file__)))
REPO = os.environ.get('VERIF_REPO', '/repo')
BUILD = os.environ.get('VERIF_BUILD', V + '/build')
EVIDENCE_DIR = os.environ.get('VERIF_EVIDENCE_DIR', V + '/evidence')
COQ = V + '/coq'
ENV = dict(os.environ, GOFLAGS='-mod=mod', GOPROXY='off', CARGO_NET_OFFLINE='true', PIP_NO_INDEX='1')
ENV.pop('GOTOOLCHAIN', None) if os.environ.get('GOTOOLCHAIN') == 'local' else None
ENV.pop('GOSUMDB', None) if os.environ.get('GOSUMDB') == 'off' else None
FORBIDDEN = re.compile(r'\b(Admitted|admit|Axiom|Axioms|Parameter|Parameters|Conjecture|Hypothesis|Variable)\b|Unset\s+Guard|bypass_check|type-in-type|impredicative-set|Admit\s+Obligations')
OBLIG = re.compile(r'^\s*(?:Local\s+|Global\s+|#\[[^\]]*\]\s*)*(Theorem|Lemma|Corollary|Example|Fact|Remark|Proposition)\s+([A-Za-z0-9_\']+)', re.M)


def sh(cmd, cwd=None, timeout=1200, env=None, stdin=None):
    t0 = time.time()
    try:
        p = subprocess.run(cmd, shell=isinstance(cmd, str), cwd=cwd, env=env or ENV, timeout=timeout,
                           stdout=subprocess.PIPE, stderr=subprocess.STDOUT, stdin=stdin)
        return p.returncode, p.stdout.decode('utf8', 'replace'), time.time() - t0
    except subprocess.TimeoutExpired as e:
        return 124, (e.stdout or b'').decode('utf8', 'replace') + '\n[timeout]', time.time() - t0


# ---------------------------------------------------------------- Coq
def coq_files():
    fs = sorted(glob.glob(COQ + '/theories/**/*.v', recursive=True))
    return [f for f in fs if '/Extract/' not in f]


class flock:
    """serialises the builds of concurrently running checks (one lock file per build directory and kind)"""
    def __init__(self, name, where=None):
        where = where or BUILD
        os.makedirs(where, exist_ok=True)
        self.path = '%s/.%s.lock' % (where, name)
    def __enter__(self):
        import fcntl
        self.f = open(self.path, 'w')
        fcntl.flock(self.f, fcntl.LOCK_EX)
    def __exit__(self, *a):
        import fcntl
        fcntl.flock(self.f, fcntl.LOCK_UN)
        self.f.close()


def write_coqproject():
    lines = ['-R theories LV',
             '-arg -w -arg -notation-overridden,-deprecated-hint-without-locality,-deprecated-instance-without-locality,-deprecated-hint-rewrite-without-locality']
    lines += [os.path.relpath(f, COQ) for f in coq_files()]
    txt = '\n'.join(lines) + '\n'
    p = COQ + '/_CoqProject'
    if not os.path.exists(p) or open(p).read() != txt:
        open(p, 'w').write(txt)
    if (not os.path.exists(COQ + '/Makefile')) or os.path.getmtime(COQ + '/Makefile') < os.path.getmtime(p):
        sh('coq_makefile -f _CoqProject -o Makefile', cwd=COQ)


def coq_make(target=None, timeout=3000):
    """Full .vo build (never -vos) of one target (and its closure) or of everything."""
    with flock('coq', COQ):   # the .vo tree is shared by every check (and by checks run against scratch worktrees of /repo)
        write_coqproject()
        tgt = ('theories/%s.vo' % target) if target else ''
        rc, out, dt = sh('timeout %d make -j16 %s' % (timeout, tgt), cwd=COQ, timeout=timeout + 30)
        return rc == 0, out, dt


def coq_closure(target):
    """.v files of the LV development the target depends on (transitively), via coqdep."""
    rc, out, _ = sh('coqdep -R theories LV ' + ' '.join(os.path.relpath(f, COQ) for f in coq_files()), cwd=COQ)
    deps = {}
    for line in out.splitlines():
        if ':' not in line:
            continue
        lhs, rhs = line.split(':', 1)
        vo = [x for x in lhs.split() if x.endswith('.vo')]
        if not vo:
            continue
        deps[vo[0]] = [x for x in rhs.split() if x.endswith('.vo')]
    seen, todo = set(), ['theories/%s.vo' % target]
    while todo:
        x = todo.pop()
        if x in seen:
            continue
        seen.add(x)
        todo += deps.get(x, [])
    return sorted(COQ + '/' + x[:-1] for x in seen)


def strip_comments(src):
    out, depth, i = [], 0, 0
    while i < len(src):
        if src.startswith('(*', i):
            depth += 1; i += 2
        elif src.startswith('*)', i) and depth:
            depth -= 1; i += 2
        else:
            if not depth:
                out.append(src[i])
            i += 1
    return ''.join(out)


def coq_hygiene(files):
    """Returns (obligations, discharged, problems). Hypothesis/Variable are allowed only inside a Section."""
    obl = dis = 0
    problems = []
    for f in files:
        src = strip_comments(open(f).read())
        src_ns = re.sub(r'"[^"]*"', '""', src)
        obl += len(OBLIG.findall(src_ns))
        dis += len(re.findall(r'\b(Qed|Defined)\s*\.', src_ns)) - len(re.findall(r'^\s*(?:Local\s+|Global\s+|#\[[^\]]*\]\s*)*(?:Definition|Fixpoint|Instance|Let)\b[^.]*\.\s*(?:Proof\.)?[^.]*?\bDefined\.', src_ns, re.M | re.S)) * 0
        depth = 0
        for ln in src_ns.splitlines():
            if re.match(r'\s*Section\b', ln): depth += 1
            if re.match(r'\s*End\b', ln) and depth: depth -= 1
            m = FORBIDDEN.search(ln)
            if m:
                if m.group(1) in ('Hypothesis', 'Variable') and depth > 0:
                    continue
                problems.append('%s: %s' % (os.path.relpath(f, V), ln.strip()[:120]))
    return obl, min(dis, obl), problems


def coq_assumptions(target, theorems):
    os.makedirs(BUILD + '/assum', exist_ok=True)
    name = target.replace('/', '_')
    f = BUILD + '/assum/A_%s.v' % name
    mod = 'LV.' + target.replace('/', '.')
    open(f, 'w').write('Require Import %s.\n' % mod + ''.join('Print Assumptions %s.\n' % t for t in theorems))
    rc, out, _ = sh('coqc -R %s/theories LV %s' % (COQ, f), cwd=BUILD + '/assum', timeout=300)
    res, cur = {}, None
    chunks = re.split(r'(?=Closed under the global context|Axioms:)', out)
    chunks = [c.strip() for c in chunks if c.strip()]
    ok = rc == 0 and len(chunks) == len(theorems)
    for t, c in zip(theorems, chunks):
        res[t] = 'closed' if c.startswith('Closed under') else c
    return ok, res, out


# ---------------------------------------------------------------- OCaml model runner
def extract_units():
    """coq/extract.d/*.ex -> {unit: (requires, names, glue files)}.  Lines: a Require, `NAMES a b c`, optional `UNIT u`
    (own extraction file model_u.ml: keeps unrelated models from clashing on constructor/function names) and
    `GLUE x.ml y.ml` (the OCaml glue files compiled against that unit)."""
    units = {}
    for f in sorted(glob.glob(COQ + '/extract.d/*.ex')):
        reqs, names, glue, unit = [], [], [], 'model'
        for ln in open(f).read().splitlines():
            ln = ln.strip()
            if ln.startswith('NAMES'):
                names += ln.split()[1:]
            elif ln.startswith('UNIT'):
                unit = 'model_' + ln.split()[1]
            elif ln.startswith('GLUE'):
                glue += ln.split()[1:]
            elif ln and not ln.startswith('(*'):
                reqs.append(ln)
        u = units.setdefault(unit, ([], [], []))
        u[0].extend(reqs); u[1].extend(names); u[2].extend(glue)
    return units


def build_ocaml():
    d = BUILD + '/ocaml'
    os.makedirs(d, exist_ok=True)
    with flock('ocaml', os.path.realpath(d)):
        return _build_ocaml(d)


def _build_ocaml(d):
    srcs = sorted(glob.glob(V + '/ocaml/*.ml'))
    vos = glob.glob(COQ + '/theories/**/*.vo', recursive=True)
    newest = max([os.path.getmtime(x) for x in srcs + vos + glob.glob(COQ + '/extract.d/*.ex') + [V + '/py/vlib.py']])
    exe = d + '/modelrun'
    if os.path.exists(exe) and os.path.getmtime(exe) >= newest:
        return True, 'up to date', 0.0
    t0 = time.time()
    units = extract_units()
    out = ''
    for u, (reqs, names, glue) in units.items():
        open(d + '/Extract_%s.v' % u, 'w').write(
            '(* generated from coq/extract.d; directives used: ExtrOcamlBasic (bool, option, unit, prod, list, sumbool, sumor),\n'
            '   ExtrOcamlString (ascii -> char, string -> char list). Z, N, positive, Q stay Coq datatypes. *)\n'
            'Require Extraction.\nRequire Import ExtrOcamlBasic ExtrOcamlString.\n' + '\n'.join(reqs) +
            '\nExtraction Language OCaml.\nExtraction "%s.ml" %s.\n' % (u, ' '.join(names)))
        rc, o, _ = sh('coqc -R %s/theories LV Extract_%s.v' % (COQ, u), cwd=d, timeout=600)
        out += o
        if rc != 0:
            return False, out, time.time() - t0
    base = {os.path.basename(s): open(s).read() for s in srcs}
    owned = {g: u for u, (_, _, glue) in units.items() for g in glue}
    order = ['sexp.ml', 'reg.ml']
    for u in sorted(units, key=lambda x: (x != 'model', x)):
        mod = u.capitalize()                       # Model / Model_ns
        conv = 'conv.ml' if u == 'model' else 'conv_%s.ml' % u[6:]
        cmod = conv[:-3].capitalize()
        def subst(txt):
            if u == 'model':
                return txt
            txt = re.sub(r'\bModel\b', mod, txt)
            return re.sub(r'\bConv\b', cmod, txt)
        open(d + '/' + conv, 'w').write(subst(base['conv.ml']))
        files = [g for g in base if g not in ('sexp.ml', 'reg.ml', 'conv.ml', 'modelrun.ml') and owned.get(g, 'model') == u]
        # within a unit: histrun first (others reuse its printers), then alphabetical
        # plain libraries (e.g. sha256.ml) first, then histrun (others reuse its printers), then the other *run.ml handlers
        files.sort(key=lambda g: (g.endswith('run.ml'), g != 'histrun.ml', g))
        for g in files:
            open(d + '/' + g, 'w').write(subst(base[g]))
        order += [u + '.mli', u + '.ml', conv] + files
    for g in ('sexp.ml', 'reg.ml', 'modelrun.ml'):
        open(d + '/' + g, 'w').write(base[g])
    order.append('modelrun.ml')
    rc, out2, _ = sh('ocamlfind ocamlopt -O2 -package zarith -linkpkg -w -a %s -o modelrun 2>&1 || ocamlfind ocamlopt -package zarith -linkpkg -w -a %s -o modelrun' % (' '.join(order), ' '.join(order)), cwd=d, timeout=900)
    return rc == 0, out + out2, time.time() - t0


def run_model(cmd, cases, outfile, timeout=1800):
    with open(cases, 'rb') as fin:
        p = subprocess.run([BUILD + '/ocaml/modelrun', cmd], stdin=fin, stdout=open(outfile, 'wb'), stderr=subprocess.PIPE, timeout=timeout)
    return p.returncode == 0, p.stderr.decode('utf8', 'replace')


# ---------------------------------------------------------------- Go harness (built from /repo's CURRENT tree)
def build_go():
    with flock('go'):
        sh([V + '/bin/mkoverlay', REPO, BUILD])
        # built under a private name, then moved over the shared binary: a check that is running vh keeps its (old) file
        tmp = '%s/vh.%d.tmp' % (BUILD, os.getpid())
        rc, out, dt = sh('go build -tags verif -overlay %s/overlay.json -o %s ./internal/verifh/vh' % (BUILD, tmp), cwd=REPO, timeout=1500)
        if rc == 0:
            dst = BUILD + '/vh'
            same = os.path.exists(dst) and os.path.getsize(dst) == os.path.getsize(tmp) and open(dst, 'rb').read() == open(tmp, 'rb').read()
            if same:
                os.remove(tmp)
            else:
                os.replace(tmp, dst)
        elif os.path.exists(tmp):
            os.remove(tmp)
        return rc == 0, out, dt


def run_vh(cmd, args, timeout=1800):
    return sh([BUILD + '/vh', cmd] + [str(a) for a in args], timeout=timeout)


def read_lines(p):
    if not os.path.exists(p):
        return []
    return [l for l in open(p, encoding='utf8', errors='replace').read().split('\n') if l.strip()]


def read_stats(d):
    st = {}
    for l in read_lines(d + '/stats.sx'):
        m = re.match(r'\((\S+) (\d+)\)', l)
        if m:
            st[m.group(1)] = int(m.group(2))
    return st


def repo_state():
    rc, head, _ = sh('git rev-parse HEAD', cwd=REPO)
    rc, st, _ = sh('git status --porcelain', cwd=REPO)
    return head.strip(), bool(st.strip())


# ---------------------------------------------------------------- known findings
def known_findings(prop):
    """known_findings.json + known_findings.d/*.json (same format); never written at run time."""
    out = []
    for p in [V + '/known_findings.json'] + sorted(glob.glob(V + '/known_findings.d/*.json')):
        if os.path.exists(p):
            out += [k for k in json.load(open(p)).get('findings', []) if k.get('property') == prop and k.get('status', 'known') == 'known']
    return out


def write_evidence(prop, tier, seed, coverage, wall, violations, assumptions):
    os.makedirs(EVIDENCE_DIR, exist_ok=True)
    ev = dict(property_id=prop, tier=tier, seed=seed, level='proof', coverage=coverage, wall_s=round(wall, 2),
              violations=violations, assumptions=assumptions)
    json.dump(ev, open(EVIDENCE_DIR + '/%s.json' % prop, 'w'), indent=1, sort_keys=True)
