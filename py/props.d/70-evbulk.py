# C31 (events after commit, exactly once) and C32 (bulk semantics): models Ledger/Events.v, Ledger/Bulk.v

EVB_TRUST = ['pgsem (harness/go/pgsem): executable stand-in for PostgreSQL executing the SQL text the real code emits; transaction boundaries, fault switches '
             '(k-th statement fails with a driver error; n-th COMMIT fails) and the commit sequence are observed/injected at the database/sql driver; all SQL-dependent verdicts are relative to it',
             'modelled, not verified: bun (BeginTx on a Tx = SAVEPOINT), database/sql transaction bookkeeping, encoding/json, alitto/pond worker pool (Eager strategy), slices.SortFunc on all-equal keys']

PROPS['C31'] = dict(
    target='Props/C31',
    theorems=['C31_exactly_after_commit', 'C31_exactly_after_commit_from', 'C31_replay_silent', 'C31_after_commit', 'C31_scenarios'],
    ties=[dict(name='TIE-F events', vh='events', model='events', n=dict(quick=120, thorough=6000), kinds=['C31'])],
    rule='grid: write kind (create, revert, set/delete metadata on transaction/account) x context (single on an in-use ledger, first write on an initializing ledger, atomic bulk, '
         'non-atomic bulk, both with and without continueOnFailure, both bulks on an initializing ledger; the write is the middle element of [ok, w, ok]) x outcome (ok, business failure, '
         'dry run, idempotent replay, a driver error injected at EVERY statement index of the operation, COMMIT failure at every COMMIT of the operation, the request context CANCELLED right after '
         'statement k for the statement indices of the operation (every other one in the quick tier; the statement then reports context.Canceled) and right before every top-level COMMIT with '
         'database/sql having already rolled the transaction back (sql.Tx.Commit returns sql.ErrTxDone)) + random histories of 1..6 steps '
         '(single writes / bulks of 1..4 elements, replays under idempotency keys, 10% dry runs, random statement/COMMIT/cancellation faults, initializing or in-use ledger); '
         'n = number of random histories; non-trivial = trace with at least one listener call',
    explanation='FULL. PROVED (C31_exactly_after_commit, no bound on histories or bulk sizes, no side condition): on ANY ledger, initializing or in use, every history of single writes (success, '
                'business failure, failing statement, dry run, idempotent replay, context cancelled at a statement), atomic / non-atomic bulks (incl. the failing or cancelled prelude of an atomic bulk on an '
                'initializing ledger), COMMIT failures and context cancellations before any COMMIT yields a trace in which each listener call follows the successful COMMIT of the top-level transaction '
                'that appended its log (C31_after_commit gives the declarative reading), nothing is published for failed, dry-run, rolled-back, cancelled or commit-failed writes, and every committed write is '
                'published exactly once; an idempotent replay publishes nothing (C31_replay_silent). The model follows the code after the repairs of KF-C31-first-write-event-before-commit (LockLedger '
                'propagates hasTx) and KF-C31-replay-republishes (no event when idempotencyHit); the pre-fix variant of the model survives only as historical Examples (C31_pre_fix_*), not tied to the code. '
                'Tie: the real stack on pgsem with a recording listener; the trace of driver-level BEGIN/COMMIT/ROLLBACK, InsertLog executions and listener calls must equal the trace of the extracted '
                'model on the same abstract operations (outcome of each write: by construction on the grid, observed on random histories and fault runs); the C31 monitor judges the implementation trace alone.',
    trusted=EVB_TRUST,
    technique='Coq proof (trace judgement as a state machine; induction over histories and bulk element lists; vm_compute refutation witnesses) + fault-injection differential run of the extracted model against the real controller stack',
    level_text='Unbounded theorem about Ledger/Events.v, the store-call-level model of ControllerWithEvents (hasTx/parent/atCommit), the state tracker facade, forgeLog and Bulker.Run: '
               'events after the outermost commit, none for failed/dry/rolled-back/cancelled/commit-failed writes and for idempotent replays, exactly one per committed write -- proved for all histories on initializing and in-use ledgers.',
    level_note='The write itself is abstract (fails / appends one log / replay); write kinds are uniform in the model (the seven ControllerWithEvents methods have one shape) and distinguished only in the tie. '
               'Parallel bulks are not part of the events tie. InsertSchema is modelled (same shape) but not exercised by the tie.',
)

# C07 view of the cancellation faults: a request whose context is cancelled (at any statement, or right before COMMIT) and
# that committed no transaction leaves the ledger snapshot (all read paths + raw tables) unchanged
PROPS['C07']['ties'].append(dict(name='TIE-F cancel', vh='events', model='events', n=dict(quick=0, thorough=0),
                                 args=dict(all=['-faults', 'cancel']), kinds=['C07']))

PROPS['C32'] = dict(
    target='Props/C32',
    theorems=['C32_one_result_per_element', 'C32_atomic_all_or_none', 'C32_sequential_continue', 'C32_sequential_stops_at_first_failure', 'C32_all_succeed',
              'C32_success_is_standalone', 'C32_response_attribution_sequential', 'C32_response_attribution_parallel', 'C32_parallel_one_result_per_element', 'C32_parallel_is_a_permutation', 'C32_core_atomic_all_or_none',
              'C32_schema_atomic_all_or_none', 'C32_schema_one_result_per_element', 'C32_schema_sequential_continue', 'C32_schema_sequential_stops_at_first_failure', 'C32_schema_success_is_standalone'],
    ties=[dict(name='TIE-D bulk', vh='bulk', model='bulk', n=dict(quick=400, thorough=8000), kinds=['C32'])],
    rule='random bulks of 1..7 elements (4%: 13..72) on a ledger prepared with 0..4 writes; 45% of the ledgers first insert a schema (v1, sometimes v2: random chart whose patterns give DEFAULT METADATA to '
         'some accounts, e.g. users:$id -> role, bank -> kind) and run under strict or audit enforcement; the bulk request carries ?schemaVersion= present / absent / unknown, which processElement forwards '
         'to every element; every field processElement maps is varied: CREATE_TRANSACTION as postings or as a Numscript (script.plain), timestamp (back-dated), reference (reuse r1/r2), metadata, '
         'accountMetadata, force; REVERT_TRANSACTION id (existing, unknown, already reverted), force, atEffectiveDate; ADD_METADATA / DELETE_METADATA target type, id, metadata / key; idempotency keys '
         'reused inside the bulk; failing elements at random positions; options atomic / continueOnFailure / parallel (all legal combinations); parallel bulks run with every task started before the '
         'first completion and completions in a seeded permutation; the body goes through JsonBulkHandler.GetChannels -> Bulker.Run -> Terminate; the standalone replay hands the element (same input, '
         'idempotency key, schemaVersion) to the controller directly; non-trivial = bulk with at least one failing and one successful element',
    explanation='PROVED for every per-element step function and every element list (Ledger/Bulk.v, model of Bulker.Run/run and writeJSONResponse): exactly one result per element; atomic => any failure '
                'leaves the observable state untouched, no failure => all applied in order; sequential non-atomic => applied in order, nothing processed after the first failure (later results are '
                'context.Canceled) unless continueOnFailure, in which case all are processed; every successful result equals the standalone result of the same request in the state the bulk had reached; '
                'the JSON response attributes to element i the result computed for element i, for sequential bulks and for EVERY parallel schedule (C32_response_attribution_parallel: results carry '
                'ElementID, the response is sorted by it -- the code after the repair of KF-C32-parallel-attribution). Instantiated with Core.step (C32_core_atomic_all_or_none, tables unchanged) and with the schema-aware controller step SchemaCtrl.sstep (C32_schema_*: schema lookup for the bulk\'s schemaVersion in strict / audit mode, chart default metadata, payload validation; state incl. schemas and log versions) -- the executor the tie runs. Tie: per-entry response '
                '(responseType, logID, transaction id, error class) and the full ledger snapshot (incl. account metadata with chart defaults, schemas, logs.schema_version) of the real stack vs the extracted model; the C32 monitor replays the elements one by one on a second '
                'fresh stack for the standalone results and checks all-or-none / order / one result per element / attribution on the implementation alone.',
    trusted=EVB_TRUST + HIST_TRUST,
    technique='Coq proof (induction over element lists, abstract step function, instantiation with the ledger model) + differential run through the real Bulker and JSON handler on pgsem + independent standalone replay',
    level_text='Unbounded theorems about Ledger/Bulk.v for every step function: one result per element, atomic all-or-none, ordered sequential application with stop-at-first-failure / continueOnFailure, '
               'successful results equal standalone results, response entry i describes element i for sequential and parallel bulks. The theorems are generic in the step function and are instantiated with Core.step and with SchemaCtrl.sstep '
               '(the element executor on ledgers with schemas: C32_schema_* over sstep); the tie runs the sstep instance.',
    level_note='Parallel execution is modelled as serialised executions in completion order (schedules with a late/early hasError test per task); the tie exercises the schedules in which all tasks start '
               'before the first completion. Statement-level interleavings of parallel elements are not modelled. Trusted: Coq kernel, extraction, pgsem, Go harness.',
)
