# C30 / C29: chart of accounts and schema enforcement
CHART_TRUST = ['modelled, not verified: encoding/json (JSON text <-> tree: lexing, string escapes, UTF-8 sanitising, duplicate members; the harness feeds '
               'well-formed JSON text with unique, byte-sorted members and converts the emitted text back to a tree, keeping the emission order)',
               'Go regexp: in the theorems regexp.Compile / regexp.Match are universally quantified Section variables (any engine); for the differential runs '
               'generated .pattern values are restricted to {^[0-9]+$, ^[a-z]+$, ^(foo|bar)$, [0-9], ^u, ""} (valid) and {(, [a-, *a} (invalid), whose matcher is '
               'written in Coq (Ledger/Chart.v re_valid_small / re_match_small) and is thereby compared with Go regexp on every generated address segment',
               'Go maps are represented by their canonical (byte-sorted, duplicate-free) association lists; the harness sorts when printing']
CHART_RULE = ('chart JSON generated as trees of depth 0..4: 1-4 root segments, 0-3 fixed children from a 10-name alphabet (incl. names starting with - _ digit), '
              '40% a $variable child with 60% a .pattern from the small set, .self ({} or null) on half of the inner nodes, .metadata (0-2 keys incl. empty and non-ASCII, '
              'default present/absent, null) on half of the accounts, .rules, ignored .note, null leaves; 30% of the cases get one mutation from a 14-kind malformed stream '
              '(pattern on fixed/root, two variables, invalid keys, bad .self/.metadata/.pattern/.rules values, non-object segments, case-variant "default" members, root of '
              'another JSON kind); 30 addresses per chart walked along the chart (variable positions filled from 12 atoms incl. empty) with 12% deviations, 6 postings; '
              'non-trivial = accepted chart with both accepted and rejected addresses')
PROPS['C30'] = dict(
    target='Props/C30',
    theorems=['C30_roundtrip', 'C30_roundtrip_identity', 'C30_postings', 'C30_segment', 'C30_schema'],
    ties=[dict(name='TIE-C chart', vh='chart', model='chart', n=dict(quick=1500, thorough=100000), kinds=['C30'])],
    rule=CHART_RULE,
    explanation='C30_roundtrip (requested form) and the stronger C30_roundtrip_identity are proved for every valid chart (any depth/width, any regexp engine) about '
                'Ledger/Chart.v, the mirror of internal/chart.go (UnmarshalJSON incl. everything it rejects, MarshalJSON incl. key order, FindAccountSchema, ValidatePosting). '
                'The tie feeds the same chart JSON to the real ChartOfAccounts and to the extracted model and compares: accept/reject of UnmarshalJSON, the resulting tree, '
                'the classification (accept + default metadata / reject + patternMismatch) of 30 addresses, 6 ValidatePosting verdicts and the emitted JSON incl. member order. '
                'The C30 monitor runs on the implementation alone: classification and error text before vs after MarshalJSON->UnmarshalJSON, and after InsertSchema->GetSchema '
                'through the real controller/store on pgsem (templates compared as well). Query templates are carried as opaque JSON in the theorem (C30_schema); the monitor stores 0-3 query templates (5 shapes: vars with defaults, params, $match/$in/$and bodies) with every chart and compares them after json.Marshal/Unmarshal of SchemaData and after InsertSchema/GetSchema (canonical JSON, re-validated).',
    trusted=CHART_TRUST + HIST_TRUST[:1],
    technique='Coq proof (structural induction over the chart tree with a nested induction principle; sorted-object algebra for json.Marshal of maps) + differential run of the extracted model against internal/chart.go + round-trip monitor incl. the schemas table on pgsem',
    level_text='Unbounded theorem: for every valid chart (canonical representation of what UnmarshalJSON can return) unmarshal(marshal c) = c, hence every address is classified identically '
               '(accepted/rejected, pattern-mismatch flag, default metadata) and every posting validated identically; holds for any regexp engine. Tied to internal/chart.go by differential runs on valid and malformed chart JSON.',
    level_note='Trusted: Coq kernel, extraction, OCaml glue, Go harness, encoding/json and regexp (exercised, not modelled), pgsem for the InsertSchema/GetSchema monitor. '
               'Templates/query templates are opaque JSON in the theorem; the monitor compares templates and query templates on the real stack.',
)

SCHEMA_RULE = ('histories of 2..11 operations on a fresh ledger (all features on) in strict (55%) or audit (45%) mode: schema inserts (versions v1..v3, re-inserts of an existing '
               'version, charts built around world / bank / users:$id (pattern from the small set, default metadata role/kind/k1/k2, .self, wallet child) / users:main / alice; '
               '35% with 1-2 transaction templates), creates (1-2 postings over 8 addresses inside and outside the chart, account metadata, 6% dry run) with schema version '
               '"" / existing / never inserted (v9) and template "" / pay / p2 / out / nope, reverts, account and transaction metadata saves and deletes; 22% of the writes carry an idempotency key (3 keys) and 14% are replays of an earlier keyed write with the same input or '
               'another schema version / template / metadata; after EVERY operation the '
               'result class and the full ledger snapshot (all read paths + raw moves/history tables + schemas table + logs.schema_version) are compared with the model; '
               'non-trivial = history with >= 3 successful operations')
PROPS['C29'] = dict(
    target='Props/C29',
    theorems=['C29_rejected_no_effect', 'C29_rejection_is_4xx_no_effect', 'C29_strict_version_required', 'C29_unknown_version_rejected', 'C29_strict_chart_enforced', 'C29_strict_template_required',
              'C29_audit_partial_unspecified', 'C29_audit_partial_chart_ignored', 'C29_audit_template_optional', 'C29_audit_template_resolution', 'C29_defaults', 'C29_audit_refuted_unknown_version'],
    ties=[dict(name='TIE-D schemahist', vh='schemahist', model='schemahist', n=dict(quick=220, thorough=5000), kinds=['C29'], case_head='shist'),
          dict(name='TIE-H schemahist http', vh='schemahist', model='schemahisth', n=dict(quick=150, thorough=3000), args=dict(all=['-via', 'http']), kinds=['C29'], case_head='shisth'),
          dict(name='TIE-C chart', vh='chart', model='chart', n=dict(quick=600, thorough=20000), args=dict(all=['-stack', '0']), kinds=['C29'], replayable=False)],
    rule=SCHEMA_RULE + ' || TIE-C: ' + CHART_RULE,
    explanation='Proved for every state/operation (model Ledger/SchemaCtrl.v over Ledger/Core.v and Ledger/Chart.v, any regexp engine): a rejected write changes no table; strict mode rejects '
                'a missing version on a ledger with schemas, an unknown version, a committed-to-be transaction with a posting the chart rejects, and a template-less create under a schema '
                'with templates; audit mode with no version behaves exactly as the ledger without schemas, ignores the chart verdict and (code repaired by fixes/01-audit-no-template.diff) runs a template-less create under a schema with templates; chart defaults are merged under the given metadata '
                'when the account row is first created and play no role afterwards. REFUTED for audit mode (witness theorem, known finding KF-C29-audit-unknown-version): an unknown version is rejected in audit mode too '
                '(KF-C29-audit-no-template is fixed: on a tree without that fix the check reports a violation). Tie: real stack on pgsem vs model after every operation; the C29 '
                'monitor works on the implementation trace only (rejected => snapshot unchanged; strict violations rejected; audit accepted; defaults at first creation only).',
    trusted=CHART_TRUST + HIST_TRUST + ['transaction templates are modelled by the postings their (variable-free) script denotes; the Numscript front end executes them for real'],
    technique='Coq proof (decision rules + frame property of the step function, default-metadata algebra) + refutation witnesses (vm_compute) replayed on the real stack + differential run on pgsem in both modes',
    level_text='Unbounded theorems about the executable model of runLog/createTransaction/UpsertAccounts schema logic: strict-mode rules (a)-(d) with no effect on rejection, audit-mode acceptance for '
               '(a), (c) and (d), default metadata at first creation only. The audit half of the property is refuted for unknown versions (known finding, design choice). Tied to the real '
               'controller + store running on pgsem by per-operation comparison of results and full snapshots.',
    level_note='Trusted: Coq kernel, extraction, OCaml glue, Go harness, pgsem (stand-in for PostgreSQL). Idempotency replays are decided before any schema lookup (modelled, generated); '
               'templates are variable-free scripts; only the default numscript runtime is wired in the harness stack.',
)
PROPS['C29']['explanation'] += (' TIE-H: the same schema histories are also issued through the real v2 HTTP API (POST /schemas/{version}, writes carrying ?schemaVersion= and '
                                '{"script":{"template":..}}; status + errorCode of every rejection: 404 NOT_FOUND, 400 SCHEMA_NOT_SPECIFIED, 400 VALIDATION, 409 SCHEMA_ALREADY_EXISTS) and read back '
                                'through the v2 list endpoints; the trace must equal the model\'s.')
