# C34: async log blocks (Ledger/Blocks.v, BlocksProofs.v; harness/go/vh/blocks.go; ocaml/blocksrun.ml)
PROPS['C34'] = dict(
    target='Props/C34',
    theorems=['C34_seq', 'C34_once', 'C34_refuted_reorder', 'C34_partial', 'C34_skipped_forever'],
    ties=[dict(name='TIE-S blocks', vh='blocks', model='blocks', n=dict(quick=800, thorough=30000), kinds=['C34'])],
    rule='event scripts of 4..17 events from one PRNG (VERIF_SEED) over 2-3 writers: alloc (begin an explicit SQL transaction on the real ledger store and InsertLog a '
         'SET_METADATA/DELETE_METADATA log with adversarial strings; the id is drawn by nextval), commit, abort, run (the real AsyncBlockRunner issues call create_blocks(ledger, size), '
         'size in {1,2,3,10}); 90% of the scripts end at quiescence (pending writers finish in random order, then a run); interleavings are chosen by the script at store-call granularity '
         '(no blocking statements are involved: no advisory lock with ASYNC); non-trivial = script ending with >= 2 blocks',
    explanation='C34_seq (commits in id order => contiguous chain, documented digests, members = committed ids, each once, block = committed logs of its range) and C34_once (all schedules: '
                'no log in two blocks, chain contiguous, digests documented) are proved for every hash function and every event sequence. The full statement ("no log skipped even if it '
                'committed after a higher id") is REFUTED: C34_refuted_reorder (for every H), reproduced on the real store + procedure on pgsem (known finding KF-C34-log-skipped-after-reorder); '
                'C34_partial / C34_skipped_forever characterise exactly which logs a run covers and that a passed log is never covered later. Tie: blocks (id, previous, from_id, to_id, hash) and '
                'uncovered committed ids of the real stack = model on every script; monitor recomputes chain, partition and digests in Go.',
    trusted=['pgsem (harness/go/pgsem): executable stand-in for PostgreSQL executing the procedure text of the current migrations (create_block/create_blocks: PL/pgSQL loop, composite `block`, '
             'string_agg, bytea || text via anynonarray || text, public.digest) and READ COMMITTED visibility of uncommitted inserts; all verdicts are relative to it',
             'the interleavings are those the harness scripts at store-call granularity on separate connections; lock waits do not occur in these scripts, so no scheduler is involved',
             'ocaml/sha256.ml instantiates H in the model runner; the theorems hold for every H'],
    technique='Coq proof (invariants of an event system: id allocation, commit, abort, block builder; induction over event sequences; vm_compute refutation witness valid for every hash function) + '
              'differential run of the extracted model against the real ledger store and AsyncBlockRunner on pgsem with manually interleaved transactions',
    level_text='Unbounded theorems over all event sequences (all interleavings of allocation, commit, abort and builder runs), for every hash function: exactly-once and chain/digest always; full coverage when commits are in id order; '
               'the unrestricted coverage claim is refuted by a 6-event witness reproduced on the real code.',
    level_note='Trusted: Coq kernel; extraction; pgsem; the Go harness; OCaml glue + SHA-256. One log per writer transaction in the model; two concurrent builders (primary-key collision on logs_blocks) are not modelled.')
