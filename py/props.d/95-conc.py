# Concurrent side (TIE-S): C06 (new) and the concurrent parts of C13, C14, C15, C16.
# Model Ledger/Conc.v (interleaving semantics over store calls), proofs Ledger/ConcProofs.v, harness harness/go/vh/sched.go.

CONC_TRUST = ['pgsem (harness/go/pgsem) as the stand-in for PostgreSQL READ COMMITTED: statement snapshots kept across lock waits, row locks (FOR UPDATE / UPDATE / ON CONFLICT DO UPDATE) '
              'with re-read of the newest version after a wait, unique-index waits for in-flight inserters, ON CONFLICT DO NOTHING skipping rows invisible to the snapshot, transaction-scoped '
              'advisory locks, non-transactional sequences, abort of the whole transaction (all locks released) at the first error; every verdict is relative to these transcribed rules (DESIGN.md Appendix C)',
              'the cooperative scheduler (harness/go/vh/sched.go): one worker goroutine per request, parked before every SQL statement that touches shared state and at every lock wait; '
              'statements private to the transaction (BEGIN, savepoints, schema lookup, moves insert, accounts upsert on existing unchanged accounts) are not scheduling points',
              'modelled, not observed: real lock timing and the choice of the deadlock victim (here: the waiter whose wait closes the cycle); the livelock of retrying victims under unfair schedules is cut after 150 steps',
              'modelled, not verified: database/sql connection handling (one goroutine = one worker, identified by goroutine id), bun, the Numscript front end']
CONC_RULE = ('scenarios = a sequential prefix history + 2-3 concurrent requests on one ledger; per scenario and configuration (HASH_LOGS SYNC / DISABLED; for C06 also pre-existing vs NEVER-USED '
             '(account, asset) pair) stateless exploration re-running the real stack from scratch per schedule: exhaustive over all schedules with <= 2 deviations from the default scheduler '
             '(non-preemptive, released locks go to waiters first) up to n schedules per scenario/configuration (breadth-first by number of deviations; stats exhaustive_complete/_truncated), '
             'plus seeded random schedules; a schedule = the list of worker indices chosen at each scheduling point; non-trivial = schedule with a deviation, a lock wait or a resolved deadlock; '
             'the extracted model (Ledger/Conc.v) is run on the same prefix, requests and schedule and must print the same outcome: per-request result, commit order, committed balances, '
             'transactions (id, reverted, reference), logs (id, key) and the full event trace (which store call of which request ran, waited or was the deadlock victim) -- exact match, not acceptance')


def sched_tie(pid, scen, quick, thorough, rand=5):
    return dict(name='TIE-S sched', vh='sched', model='sched', n=dict(quick=quick, thorough=thorough),
                args=dict(quick=['-scenario', scen, '-rand', rand, '-pre', 2], thorough=['-scenario', scen, '-rand', 200, '-pre', 3]),
                kinds=[pid], case_head='sched')


PROPS['C06'] = dict(
    target='Props/C06',
    theorems=['C06_seq', 'C06_seq_revert', 'C06_conc', 'C06_conc_locked', 'C06_conc_always_locked', 'C06_conc_from'],
    ties=[sched_tie('C06', 'c06', 60, 3000)],
    rule=CONC_RULE + '; C06 scenarios: 2 and 3 spenders of one source whose balance covers one (plain postings; allowing overdraft up to 50), unbounded-overdraft and force controls, '
         'non-forced revert racing a spend of the funds it needs, opposite transfers (deadlock + forgeLog retry). Monitor (independent of the model): right after every COMMIT the committed '
         'balance of the committing request\'s bounded non-world source is >= -allowance (0 / X; unbounded and forced requests are not checked).',
    explanation='Proved: C06_seq (any postings request accepted without force never takes a non-world account below min(0, its balance): induction over the postings list on Core.feasible), '
                'C06_seq_revert (a non-forced revert is accepted only if every non-world source of the reversed postings stays >= 0 on the balances read). CONCURRENT, for ALL schedules and any '
                'number of writers (induction over the schedule on Ledger/Conc.v, invariants ConcProofs.invA / invB): C06_conc -- after each COMMIT the committed balance of the committing request\'s '
                'bounded source is >= -allowance, for existing and never-used (account, asset) pairs alike, with no hypothesis (two-phase locking: between GetBalances -- row lock taken, balance read = committed '
                'balance -- and COMMIT no other writer changes the row, so the funds check ran on the balance the COMMIT applies to; C06_conc_always_locked: every bounded request holds that lock); '
                'C06_conc_from -- from any state satisfying the invariants. History: on the code as found the statement was REFUTED for never-used pairs (witness schedule reproduced on the real stack, '
                'known finding KF-C06-fresh-pair-overdraft [c06-overdrawn-fresh-pair]); REPAIRED by fixes/02-getbalances-fresh-pair.diff (second SELECT ... FOR UPDATE for the rows the first statement did not '
                'return); model, theorem and tie follow the repaired code, the monitor stays armed. Tie: exact outcome + event-trace match of model and real stack on every explored schedule.',
    trusted=CONC_TRUST,
    technique='Coq proof (sequential: induction over postings; concurrent: interleaving model with vm_compute refutation witness) + deterministic schedule exploration of the real stack on pgsem with exact comparison against the extracted model',
    level_text='Sequential no-overdraft theorem for every postings request and the revert check (Core.v); concurrent theorem for ALL schedules and any number of writers on the interleaving model Ledger/Conc.v '
               '(2PL invariant), existing and never-used pairs (the latter after the GetBalances repair); model tied to the real stack by exact comparison on '
               'exhaustively explored bounded schedules (<= 2 deviations, 2-3 writers) + random schedules.',
    level_note='Trusted: Coq kernel, extraction, pgsem\'s transcription of PostgreSQL READ COMMITTED locking (Appendix C), the cooperative scheduler. The model covers single-posting requests (create plain / overdraft / unbounded / force, revert); multi-posting requests are covered sequentially (C06_seq) only. '
               'Real lock timing and deadlock-victim choice are modelled, not observed.',
)

_sched_note = (' Concurrent part (TIE-S sched): deterministic schedule exploration of the real stack against the interleaving model Ledger/Conc.v (exact outcome + event-trace match); '
               'see py/props.d/95-conc.py for the rule and the trusted base of that tie.')

PROPS['C13']['ties'].append(sched_tie('C13', 'c13', 60, 3000))
PROPS['C13']['theorems'] += ['C13_conc_at_most_one_log', 'C13_conc_at_most_one_log_from', 'C13_conc_error_goes_to_lookup', 'C13_conc_lookup_returns_original']
PROPS['C13']['explanation'] += (' CONCURRENT: PROVED for ALL schedules and any number of requests (C13_conc_at_most_one_log, induction over the schedule on Ledger/Conc.v, unique-index wait rule): at most one '
                               'committed log per idempotency key. Outcomes: on the code as found the statement was refuted and reproduced on the real stack (known finding KF-C13-loser-business-error, '
                               '[c13-business-error]: the loser of the race answered insufficient funds / already reverted); REPAIRED (fixes/01-ik-race-business-error.diff: forgeLog/forgeLogRetry look the key up once '
                               'more before returning an error of a keyed request). The model follows the repaired code; C13_conc_error_goes_to_lookup (a keyed request never returns a business error straight from its '
                               'rolled-back transaction) and C13_conc_lookup_returns_original (the lookup answers with the committed log of the key as a hit) hold in every state, hence under every schedule; the monitor '
                               '[c13-business-error] stays armed. A log committed after that final lookup can still be missed (inherent to a lookup; the caller then holds a plain error and a retry returns the hit).' + _sched_note)
PROPS['C13']['trusted'] = PROPS['C13']['trusted'] + CONC_TRUST

PROPS['C14']['ties'].append(sched_tie('C14', 'c14', 80, 3000))
PROPS['C14']['theorems'] += ['C14_conc_unique', 'C14_conc_unique_from', 'C14_conc_ids_unique']
PROPS['C14']['explanation'] += (' CONCURRENT: racing creates sharing a reference (2-3 racers, disjoint accounts or contending on world) explored exhaustively for <= 2 deviations: exactly one winner, losers get '
                               'reference-conflict, no duplicate reference stored. PROVED for ALL schedules and any number of racers (C14_conc_unique, induction over the schedule on Ledger/Conc.v): at most one committed '
                               'transaction per non-empty reference.' + _sched_note)
PROPS['C14']['trusted'] = PROPS['C14']['trusted'] + CONC_TRUST

PROPS['C15']['ties'].append(sched_tie('C15', 'c15', 80, 3000))
PROPS['C15']['theorems'] += ['C15_conc_once', 'C15_conc_marked', 'C15_conc_once_from', 'C15_conc_ids_unique']
PROPS['C15']['explanation'] += (' CONCURRENT: 2-3 racing reverts of one transaction (forced and not) explored exhaustively for <= 2 deviations: exactly one winner, losers already-reverted, balances neutral, one revert '
                               'transaction. PROVED for ALL schedules and any number of racers (C15_conc_once, induction over the schedule on Ledger/Conc.v: row lock of the UPDATE + re-evaluation of "reverted_at is null" on '
                               'the newest version): a transaction is reverted at most once, and a reverted target stays marked (C15_conc_marked).' + _sched_note)
PROPS['C15']['trusted'] = PROPS['C15']['trusted'] + CONC_TRUST

PROPS['C16']['ties'].append(sched_tie('C16', 'c16', 100, 3000))
PROPS['C16']['theorems'] += ['C16_conc_ids_unique', 'C16_conc_ids_unique_from', 'C16_conc_log_order_locked', 'C16_conc_log_order_locked_from', 'C16_conc_nonoverlapping_order', 'C16_conc_tx_order_refuted', 'C16_conc_log_order_unlocked_refuted']
PROPS['C16']['explanation'] += (' CONCURRENT: C16_conc_ids_unique -- for ALL schedules of any number of writers (induction over the schedule) transaction ids and log ids of committed and in-flight rows are '
                               'pairwise distinct and below the sequence. "A later COMMIT never receives a smaller id" is REFUTED for transaction ids even with HASH_LOGS=SYNC (C16_conc_tx_order_refuted: '
                               'InsertTransaction draws its id before InsertLog takes the advisory lock) and for log ids without the lock (C16_conc_log_order_unlocked_refuted); both witnesses are reproduced on '
                               'the real stack (known findings [c16-txid-commit-order], [c16-logid-commit-order-nolock]). PROVED for ALL schedules (C16_conc_log_order_locked): with HASH_LOGS=SYNC (advisory lock taken '
                               'before nextval and held until COMMIT) the log ids published by successive COMMITs are strictly increasing; C16_conc_nonoverlapping_order: requests that do not overlap get increasing '
                               'transaction ids (nextval is monotone in call order) -- monitor [c16-nonoverlapping-order] on every schedule incl. scenario c16-nonoverlap (a third request issued after two overlapping '
                               'ones answered, reusing one of their pooled connections); pgsem implements CREATE SEQUENCE ... CACHE n per session, so a cached sequence (seeded N-C16) is caught.' + _sched_note)
PROPS['C16']['trusted'] = PROPS['C16']['trusted'] + CONC_TRUST

# C09, concurrent part: the same schedule exploration with HASH_LOGS=SYNC; the chain monitor (every stored hash chains from the
# log with the next smaller id, by the trigger's rule) runs on the final logs of every explored schedule
_c09_sched = sched_tie('C09', 'c16', 60, 3000)
_c09_sched['args'] = dict(quick=_c09_sched['args']['quick'] + ['-hash', 'sync'], thorough=_c09_sched['args']['thorough'] + ['-hash', 'sync'])   # no chain without HASH_LOGS=SYNC
PROPS['C09']['ties'].append(_c09_sched)
# atomic bulks (one SQL transaction inserting several logs) racing writes / bulks on an in-use ledger: explored at statement
# granularity on the real stack, compared with the lock-protocol model Ledger/ConcChain.v (modelrun schedchain) on the projection of
# the schedule on the chain statements (adv / log / commit / rollback); chain monitors on the raw rows
PROPS['C09']['ties'].append(dict(name='TIE-S sched bulk', vh='sched', model='schedchain', n=dict(quick=120, thorough=3000),
                                 args=dict(quick=['-scenario', 'c09', '-rand', 5, '-pre', 2], thorough=['-scenario', 'c09', '-rand', 300, '-pre', 4]),
                                 kinds=['C09'], case_head='schedchain'))
# self-test of the PostgreSQL stand-in's isolation levels: the schedule ties are only as good as these rules
PROPS['C09']['ties'].append(dict(name='SELF pgsem isolation', vh='pgiso', model=None, n=dict(quick=1, thorough=1), kinds=['C09'], case_head='pgiso', replayable=False))
PROPS['C09']['theorems'] += ['C09_conc_bulk_linear', 'C09_conc_bulk_committed_linear', 'C09_conc_bulk_inflight_is_holder', 'C09_conc_bulk_outcome_linear']
PROPS['C09']['level_text'] = PROPS['C09']['level_text'].replace(
    'Concurrent schedules are reduced to a stated lemma, not explored by this check.',
    'Concurrent schedules: C09_linear_serialized turns "inserts serialized by the advisory lock" into linearity, and the schedule harness explores the lock boundary on the real stack (2-3 writers, <= 2 deviations + random schedules, HASH_LOGS=SYNC) with the chain monitor on the raw logs. Atomic bulks: theorems for ALL schedules on the lock-protocol model Ledger/ConcChain.v under READ COMMITTED (the isolation level is a stated hypothesis, shown necessary by a REPEATABLE READ witness), tied to the real stack by exhaustive bounded schedule exploration of bulk-vs-write / bulk-vs-bulk / failing-bulk scenarios with exact outcome, chain-link and event-trace match on pgsem, which models both isolation levels.')
PROPS['C09']['explanation'] += (' CONCURRENT: the advisory-lock boundary is explored by the schedule harness (2-3 writers, all schedules with <= 2 deviations + random ones, HASH_LOGS=SYNC): '
                               'on every explored schedule the stored chain is linear in id order (monitor [not-linear]/[not-chain-hash] on the raw logs); C09_linear_serialized is the lemma that '
                               'turns "inserts serialized by the lock" into linearity.' + _sched_note +
                               ' ATOMIC BULKS AND ISOLATION LEVELS (Props/C09c.v, model Ledger/ConcChain.v = the lock protocol of InsertLog as an interleaving semantics: first statement, '
                               'pg_advisory_xact_lock before every insert - transaction scoped, held from the request\'s first insert to its COMMIT/ROLLBACK -, the insert whose trigger reads the greatest-id row VISIBLE '
                               'to the INSERT\'s snapshot, COMMIT/ROLLBACK; MVCC visibility per isolation level): PROVED for ALL schedules, any number of requests each inserting any number of logs in one transaction, '
                               'committing, rolling back or failing in the trigger, every hash function: if every transaction runs at READ COMMITTED the stored rows - and the committed rows at any moment - are linear in id order '
                               '(C09_conc_bulk_linear, C09_conc_bulk_committed_linear: each insert of the lock holder IS HashChain.insert because its snapshot postdates the lock grant and nobody else has rows in flight, '
                               'C09_conc_bulk_inflight_is_holder). The isolation level is a needed hypothesis: C09_conc_repeatable_read_forks is the schedule on which a bulk opened at REPEATABLE READ chains its first log from a stale '
                               'predecessor. TIE-S sched bulk: scenarios c09-bulk-vs-write, c09-bulk-vs-bulk, c09-bulk-fails (HASH_LOGS=SYNC, in-use ledger, racers on DISJOINT accounts so that only the chain is shared; '
                               'an atomic bulk is run as Bulker.Run runs it: Controller.BeginTX(ctx, nil), the elements on the returned controller, Commit / Rollback) explored at statement granularity, all schedules with <= 2 deviations '
                               '+ random; the model (instantiated at READ COMMITTED, what the unchanged code asks for) is run on the projection of the schedule on the chain statements and must print the same results, commit order, '
                               '(log id, predecessor id) links recomputed from the stored hashes, and adv/log/commit/rollback event trace; monitors on the raw rows: [not-linear], [not-chain-hash], [c09-shared-predecessor]. pgsem honours '
                               'sql.TxOptions (REPEATABLE READ: snapshot of the first statement, 40001 on concurrent update; SERIALIZABLE refused), self-tested by "vh pgiso" on every run ([pgsem-isolation-selftest]); '
                               'seeded R-C09 (BeginTX defaulting to REPEATABLE READ) is caught by this tie.')
PROPS['C09']['trusted'] = PROPS['C09'].get('trusted', []) + CONC_TRUST + [
    'pgsem isolation levels (harness/go/pgsem, DESIGN.md Appendix C): READ COMMITTED statement snapshots, REPEATABLE READ transaction snapshot fixed at the first statement and not refreshed by lock waits, '
    '40001 on a row updated/deleted by a transaction that committed after the snapshot, advisory locks / sequences / unique-index checks not snapshot-bound; SERIALIZABLE is not modelled (refused)',
    'the projection used by TIE-S sched bulk: the statements of a request on its own accounts / volumes / transactions are not steps of Ledger/ConcChain.v (the scenarios keep the racers on disjoint accounts)']

# ---- C12, concurrent part: import vs first writes / atomic bulks on an initializing ledger (Ledger/ConcImport.v, Props/C12c.v)
PROPS['C12']['ties'].append(dict(name='TIE-S sched', vh='sched', model='schedimp', n=dict(quick=200, thorough=3000),
                                 args=dict(quick=['-scenario', 'c12', '-rand', 5, '-pre', 2], thorough=['-scenario', 'c12', '-rand', 200, '-pre', 4]),
                                 kinds=['C12'], case_head='sched'))
PROPS['C12']['theorems'] += ['C12_conc_mutual_exclusion', 'C12_conc_accepted_is_pristine', 'C12_conc_writes_above_imported', 'C12_conc_write_means_in_use',
                             'C12_conc_import_on_in_use_refused', 'C12_conc_rejected_no_effect', 'C12_conc_cache_coherent', 'C12_conc_from']
PROPS['C12']['explanation'] = PROPS['C12']['explanation'].replace(
    'The concurrent part is reduced to the hook stated in Props/C12.v (lock held by Import for its whole duration); schedules are not explored by this check.',
    'The concurrent part is proved on the lock-protocol model (next paragraph) and explored on the real stack by the schedule tie.')
PROPS['C12']['explanation'] += (' CONCURRENT (Props/C12c.v, model Ledger/ConcImport.v: importer = session lock, row read, one transaction per log, unlock; writer on an initializing cache = BEGIN, '
    'transaction-scoped lock, markInUse, setval x2, write(s), COMMIT/ROLLBACK; writer on an in-use cache = no lock), for ALL schedules, any number of importers and writers (single writes and atomic bulks, '
    'succeeding or failing): (a) C12_conc_mutual_exclusion - at most one request is inside a critical section and it holds the ledger lock; (b) C12_conc_accepted_is_pristine - an accepted import, until it '
    'releases the lock, sees a row that is still initializing, no flip in flight and imported logs only (no write committed before it or while it runs); C12_conc_writes_above_imported - every log of a write has an id '
    'above every imported log; C12_conc_write_means_in_use + C12_conc_import_on_in_use_refused - once a write committed the row says in-use and an importer reading it is refused, with only its unlock left to do; '
    '(c) C12_conc_rejected_no_effect - a rejected import owns no stored log; C12_conc_cache_coherent - a facade cache never runs ahead of the row, which is why the lock-free fast path is safe. Nothing is refuted: writes '
    'are never refused because of the state, by design. TIE-S: scenarios c12-import-vs-write / -vs-bulk / -vs-two / -shifted / -vs-failing (every request through its own facade resolved before the race = possibly stale '
    'initializing cache; HASH_LOGS SYNC and DISABLED), all schedules with <= 2 deviations + random, protocol-level scheduling points (lock, row read, last log, each imported log\'s COMMIT, unlock, xact lock, markInUse, '
    'setval, COMMIT/ROLLBACK; the statements of a write / of one imported log run inside the lock and the monitor [c12-conc-wait-inside-critical-section] checks that none of them ever waits); exact match of results, commit '
    'order, stored logs with their origin, row state and event trace with the extracted model; monitors [c12-conc-write-inside-import], [c12-conc-id-order], [c12-conc-rejected-effect], [c12-conc-accepted-incomplete], '
    '[c12-conc-state]. An atomic bulk is run as Bulker.Run runs it (facade BeginTX, elements on the returned controller, Commit) but in the request\'s goroutine (the Bulker uses a worker pool; the scheduler identifies a request '
    'by its goroutine). Seeded N-C12 is also caught by this tie ([c12-conc-write-inside-import], scenario c12-import-shifted).')
PROPS['C12']['level_text'] += (' Concurrent part: theorems for ALL schedules on the ledger-lock protocol model Ledger/ConcImport.v (mutual exclusion of the critical sections; accepted import => pristine until its unlock; '
    'writes land above imported ids; rejected import => no effect), tied to the real stack by exhaustive bounded schedule exploration (<= 2 deviations) + random schedules with exact outcome and event-trace match.')
PROPS['C12']['trusted'] = PROPS['C12'].get('trusted', []) + CONC_TRUST
