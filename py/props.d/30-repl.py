# C33 — replication: the real Manager/PipelineHandler against the automaton of coq/theories/Repl/Model.v
PROPS['C33'] = dict(
    target='Props/C33',
    theorems=['C33_batches_in_order', 'C33_persisted_not_ahead', 'C33_reset_restarts_from_first',
              'C33_no_late_store', 'C33_reset_reexports', 'C33_reset_not_undone', 'C33_unrepaired_reset_undone',
              'C33_progress', 'C33_all_delivered'],
    ties=[dict(name='TIE-C repl', vh='repl', model='repl', n=dict(quick=250, thorough=6000), kinds=['C33'])],
    rule='scripts of 4..17 events from one PRNG (VERIF_SEED): produce 1-5 logs (real ids with gaps), exporter fails next 1-3 Accepts / down / up, '
         'StopPipeline, StartPipeline, ResetPipeline, manager restart (Stop + new Manager.Run), hold/release of StorePipelineState (slow database), '
         'sleeps of 0-5 ms, settle; page size 1-4 or 100; every 8th script stops or resets while a store is in flight; every script ends with a healthy '
         'exporter and a started pipeline and waits (<=15 s, polling) for quiescence; non-trivial = script with at least one reset or refused batch',
    explanation='Theorems are about Repl/Model.v: an automaton with one atomic step per goroutine action of pipeline.go:Run (fetch, push ok/fail, hand-off), of the '
                'subscription goroutine of manager.go:startPipeline (StorePipelineState, also AFTER its handler was stopped), of the un-awaited Accept goroutine, and of the '
                'manager operations (start/sync, stop request, Run returning (halt), completion of the stop once the persister has drained, reset, crash). '
                'Proved for every event list: per started handler the acknowledged batches are '
                'exactly resume+1, resume+2, ... (C33_batches_in_order); persisted and in-flight ids never exceed the highest acknowledged id (C33_persisted_not_ahead); '
                'ResetPipeline clears the id and restarts from the first log (C33_reset_restarts_from_first); no StorePipelineState outlives the operation that stopped its '
                'handler (C33_no_late_store), hence persisted id / cursor never exceed what was acknowledged SINCE THE LAST RESET and everything at or below them was exported '
                'again since that reset (C33_reset_reexports), and a cleared position stays cleared until the next acknowledgement (C33_reset_not_undone); explicit <=4-step '
                'progress schedule and <=4*(logs-cur) drain schedule (C33_progress, C33_all_delivered). The code before fixes/repl-01 (stopPipeline did not wait for the persister '
                'goroutine; init_unrepaired in the model) violated the reset statement: C33_unrepaired_reset_undone is the witness, reproduced on the real code at the time '
                '(KF-C33-late-store-after-reset, now fixed). Tie: trace inclusion — the observed trace of the real code (inside the case line) must be '
                'accepted by the extracted automaton; the Go monitor checks order/gap-freedom per run, persisted <= acknowledged (ever and since the last reset), no store after '
                'the stop returned, re-export after reset and delivery at quiescence on the real ids.',
    trusted=['in-memory replication.Storage / LogFetcher / drivers.Driver of the harness (harness/go/vh/repl.go) stand in for PostgreSQL and the exporter; the trace is the linearisation '
             'of their effects under one lock',
             'ocaml/replrun.ml maps observed trace events to model events (stop request at call begin, halt at call end; hand-off taken eagerly)',
             'modelled, not verified: Go runtime scheduling, time.After timers (they only decide when an enabled step is taken), context cancellation of Accept'],
    technique='Coq proof (invariants by induction over event lists of a goroutine-level automaton; explicit progress schedule) + trace-inclusion check of the real '
              'replication.Manager/PipelineHandler against the extracted automaton + independent Go monitor',
    level_text='Unbounded safety theorems and a bounded-step progress lemma about the automaton of Manager/PipelineHandler/persister for one pipeline, over all interleavings, '
               'failure patterns and stop/start/reset/restart/crash sequences. Tied to the code by trace inclusion on random scripts run against the real manager with millisecond timers.',
    level_note='Liveness beyond the progress lemma (fairness of the Go scheduler, real timers, an exporter that eventually recovers) is outside the model: the harness only observes '
               'delivery at quiescence with a 15 s bound. One pipeline per manager; StorePipelineState/ListLogs errors and driver start-up (DriverFacade not ready = a refused batch) '
               'are not generated. Crash (process death) is in the model but cannot be produced in-process by the harness. KF-C33-late-store-after-reset is repaired (fixes/repl-01); the model follows the repaired code.',
)

# periodic synchronisation vs ResetPipeline (harness/go/vh/repl_sync.go): dedicated scenario, monitor only
PROPS['C33']['ties'].append(dict(name='TIE-S replsync', vh='replsync', model=None, n=dict(quick=12, thorough=300), kinds=['C33'], case_head='replsync', replayable=False))
PROPS['C33']['explanation'] += (' TIE-S replsync: the real Manager with its periodic synchronisation running (25 ms), a pipeline enabled in the table but not running (after StopPipeline), a '
                                'ListEnabledPipelines that is slow to answer and a ResetPipeline issued meanwhile: after the acknowledged reset every log must reach the exporter again and the '
                                'stored position must not be ahead of it (monitor [reset-lost-to-stale-sync]); this scenario has no model side (Repl/Model.v has no periodic synchronisation).')
