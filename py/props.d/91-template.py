# C37: stored query templates (Ledger/Template.v) — pure substitution/params tie + metamorphic run on the real stack
PROPS['C37'] = dict(
    target='Props/C37',
    theorems=['C37_subst_and', 'C37_subst_or', 'C37_subst_not', 'C37_subst_identity', 'C37_interpolate_exact',
              'C37_overwrite_right_biased', 'C37_overwrite_idempotent', 'C37_overwrite_fieldwise',
              'C37_default_pagesize', 'C37_equiv'],
    ties=[dict(name='TIE-C templates', vh='templates', model='templates', n=dict(quick=20000, thorough=400000),
               args=dict(all=['-mode', 'resolve']), kinds=['C37']),
          dict(name='TIE-D template runs', vh='templates', model='templates', n=dict(quick=450, thorough=8000),
               args=dict(all=['-mode', 'stack']), kinds=['C37'], timeout=dict(quick=600, thorough=6000))],
    rule='TIE-C: random templates over the four resources (filter trees of depth <= 3 over $and/$or/$not, leaves on every schema field incl. map fields with and '
         'without key[idx], all 8 operators, values = literals / whole-value ${var} placeholders / interpolated strings with $x and ${x}, malformed placeholders, '
         'unknown and mis-indexed fields), declarations of the 4 types with and without defaults (ill-typed defaults included), bindings (well-typed, missing, '
         'ill-typed, null, undeclared extra; numbers as json.Number and as float64 incl. 2^53, 2^63, 1e20, fractions; dates on a lattice incl. offsets and invalid '
         'dates), template and request params (absent, null, partial objects: endTime, startTime, expand, sort in snake/camel case with asc/desc in any case and '
         'malformed, pageSize incl. negative, groupBy/insertionDate for volumes), page-size configs; 40% of the templates are ones QueryTemplate.Validate accepts. '
         'non-trivial = resolution succeeded on a body with at least one reference and at least one supplied variable, distinct by answer. '
         'TIE-D: 4 fixed witnesses + histories of 1..12 operations (HIST generator, back-dated, adversarial metadata) on the real stack; 4 valid templates per history '
         '(one per resource) inserted as schema v1 through ctrl.InsertSchema; 3 bindings x request params each, page sizes 1..4 mostly, DefaultPageSize in {15,3,2}, '
         'MaxPageSize in {1000,10,2}; non-trivial = at least one variable substituted and a non-empty result',
    explanation='Theorems are about Ledger/Template.v: tpl_walk/tpl_resolve mirror ResolveFilterTemplate/resolveFilter/resolveValue/ParseTemplate/ReplaceVariables/'
                'jsonToString/validateValueType/GetFieldType, tpl_overwrite mirrors QueryTemplateParams.Overwrite+UnmarshalJSON (strcase.ToSnake included), '
                'tpl_run_plan mirrors RunQuery+templateParamsToQuery, tpl_normalize the defaults of PaginatedResourceRepository.Paginate. TIE-C runs the REAL '
                'queries.ResolveFilterTemplate and ledger.QueryTemplateParams.Overwrite (with the defaults RunQuery sets) and compares the canonical resolved filter / '
                'error class and the resulting params with the extracted model, textually. TIE-D runs the REAL ctrl.RunQuery against the REAL ctrl.ListTransactions/'
                'ListAccounts/ListLogs/GetVolumesWithBalances on the query a user would write by hand (the harness substitutes the variables itself and overrides '
                'template params by request params FIELD BY FIELD): same items (canonical JSON), order, page size, hasMore, and the same concatenation when the cursors '
                'are followed through RunQuery{Cursor}; invalid bindings must be rejected as validation errors. Its model line compares the resolve/overwrite answers '
                'and the page size RunQuery answered with against tpl_run_plan+tpl_normalize. Since the repairs 05-template-params-fieldwise and 06-template-non-ascii the model follows the repaired code: params objects override exactly the '
                'fields they carry (C37_overwrite_fieldwise, C37_default_pagesize are theorems now; their former refutation witnesses are the first regression cases '
                'of TIE-D) and literal bytes are copied unchanged (C37_subst_identity without an ASCII hypothesis). On a tree without those repairs the monitor '
                'reports the old behaviours as untagged violations. Also repaired (fixes/filter-07): an integral float64 variable is interpolated into a string with its exact digits (C37_interpolate_exact; bindings include 2^53+-1, +-2^63+-1, 2^64, 10^20 as json.Number and as the float64 the API decodes). '
                'The monitor tags a mismatch with that finding only when the answer equals the direct query under exactly that deviation; anything else is a new violation.',
    trusted=['pgsem (harness/go/pgsem) executes the SQL of both the template run and the direct query (TIE-D verdicts are relative to it; both sides go through the same store code)',
             'modelled not verified: encoding/json decoding of params (times are handed to the model as parsed instants), time.Parse(RFC3339Nano) (tpl_date_ok is a '
             'hand-written acceptor compared on a lattice of date strings), regexp, query.ParseJSON/Builder JSON round trip, int64(float64) out of range taken as amd64 does (-2^63)',
             'the store-side validation of a resolved filter (operators per type, expand names) is not part of Template.v: runs the store rejects are compared by the monitor only'],
    technique='Coq proof (structural induction over the filter tree with a nested-list induction principle; case analysis of UnmarshalJSON; list induction for the cursor chain) '
              '+ differential run of the extracted model against queries.ResolveFilterTemplate / QueryTemplateParams.Overwrite + metamorphic run RunQuery vs List* on the real stack',
    level_text='Unbounded theorems about the Gallina model (any tree depth, any variables): substitution is a homomorphism over $and/$or/$not with first-error-wins; '
               'variable-free bodies are returned unchanged byte for byte; Overwrite is right-biased field by field and idempotent, request params override exactly the fields they carry, objects without pageSize keep the configured default; a template run is the direct list query with the '
               'resolved filter and the overwritten params (filter, PIT, OOT, expand, options, column, order, page size clamped to the maximum, 0 -> 15) and following its '
               'cursors enumerates exactly that query. The three formerly refuted readings (field-wise override, default page size, non-ASCII identity) hold of the repaired code and are theorems. Tied to the code by TIE-C (model = real functions) and TIE-D (real RunQuery = real List*).',
    level_note='Trusted: Coq kernel, extraction, OCaml glue, Go harness, pgsem. The cursor part of C37_equiv is stated over an abstract store with offset cursors (a cursor '
               'carries the normalised query); the real column cursors are C21\'s subject and are exercised here by following them on both sides (chains cut at 40 pages).',
)
