# C20 — list filters (Ledger/Filter.v, FilterProofs.v, Props/C20.v; harness/go/vh/filters.go; ocaml/filtersrun.ml)
FILTER_TRUST = ['pgsem (harness/go/pgsem): executable stand-in for PostgreSQL executing the SQL text the real code emits (three-valued logic, jsonb @> / ?| / @@ jsonpath / jsonb_array_length, '
                'scalar sub-selects incl. SQLSTATE 21000, lateral joins, DISTINCT ON, window functions); all SQL-dependent verdicts are relative to it',
                'ocaml/filtersrun.ml: parser of the case + PRINTER of the emitted condition AST to SQL text (column names per resource, literal formatting) — trusted glue, cross-checked '
                'against the text the real ResolveFilter/Builder.Build/bun produce on every case',
                'modelled, not verified: bun literal inlining and scanning, go-libs query.ParseJSON, time parsing']
PROPS['C20'] = dict(
    target='Props/C20',
    theorems=['C20_emit_sound', 'C20_emit_sound_partial', 'C20_address_accounts', 'C20_address_transactions', 'C20_list', 'C20_count',
              'C20_pushdown', 'C20_pushdown_covers', 'C20_in_on_metadata_rejected', 'C20_exists_on_balance_rejected', 'C20_log_type_in',
              'C20_bare_balance', 'C20_refuted_not_over_absent', 'C20_refuted_empty_or'],
    ties=[dict(name='TIE-BD filters', vh='filters', model='filters', n=dict(quick=900, thorough=20000),
               args=dict(quick=['-depth', '4', '-perhist', '18'], thorough=['-depth', '6', '-perhist', '40']), kinds=['C20']),
          dict(name='TIE-BD filters-odd', vh='filters', model='filters', n=dict(quick=400, thorough=8000),
               args=dict(quick=['-depth', '4', '-perhist', '18', '-odd', '1'], thorough=['-depth', '6', '-perhist', '40', '-odd', '1']), kinds=['C20'])],
    rule='histories of 1..14 operations generated online on the real stack (accounts with 1-3 segments over a small alphabet, references, metadata on transactions and accounts, reverts, '
         'three assets, back/future-dated timestamps); per history 18 (thorough 40) random filters over the five resources (transactions, accounts, volumes, aggregated balances, logs), '
         'depth <= 4 (thorough <= 6), 35% at a point in time drawn from the history; leaves draw their values from the entities actually present (so partial / prefix addresses, dates, '
         'balances and metadata hit); second tie adds the forms outside the documented surface ($in on metadata, $exists on balance, empty $and/$or, '
         'keys of other resources, wrong operators and value types). non-trivial = filter selecting neither nothing nor everything, distinct by (resource, filter, selected keys); '
         'a quarter of the filters (40% on volumes / aggregated balances) are negation-heavy: nested $not (double / triple), $not over $and / $or mixing an address-carrying subtree '
         '(mostly partial / prefix, also exact and $in) with non-address leaves, incl. NOT(X AND NOT A) templates; '
         'stats carry the distribution of leaf kinds, operators, address forms, depth, the none/some/all split and, per filter, where address leaves sit: number of $not above '
         '(none / odd / even>=2 / >=3) x mixed or plain sibling branches (negs_*), overall and on volumes+aggregated',
    explanation='The case carries the entity table read WITHOUT filter through the real read paths (same point in time) and the filter. Implementation line: (res) sorted keys of the '
                'entities listed by the real ListTransactions/ListAccounts/GetVolumesWithBalances/ListLogs/GetAggregatedBalances through the controller + the real Count* '
                '(volumes and logs: count through the real store), or the error class; (ref) the answer of the Go reference evaluator (monitor); (where) the WHERE fragment of the real '
                'ResolveFilter + Builder.Build (in-package hook, add-only). Model line: (res) flt_list = validation + SQL three-valued evaluation of flt_emit on the rows of the entities, '
                'incl. the lateral push-down and SQLSTATE 21000; (ref) filter flt_sat — the Coq reference meaning; (where) printed flt_emit; (push) the push-down DECISION: safe_lateral, need_segments, collect_addrs vs the real canPushAddressFilterToLateral / collectAddressFilters '
                '(in-package hook) for every generated filter, so a wrong decision is a model/impl difference even when no row is lost. All four must be textually equal. '
                'Monitor (independent Go evaluator): listed = matching, count = len(listed), well-formed filters are accepted, ill-formed rejected, no panic. '
                'The full statement is REFUTED by the faithful model in two unrepaired ways (C20_refuted_not_over_absent, C20_refuted_empty_or), each reproduced on the real '
                'code (known_findings.d/filter.json); five further defects found here were repaired in /repo (fixes/01..04, filter-08: $in on log type, $exists on balance, $in on metadata, push-down '
                'ignoring $in, bare balance on accounts as a scalar sub-select) and are now positive theorems (C20_bare_balance, C20_log_type_in, C20_exists_on_balance_rejected, C20_in_on_metadata_rejected, C20_pushdown: with canPush the pre-filtered '
                'dataset lists exactly the matching entities). C20_emit_sound / C20_emit_sound_partial are the strongest true statements (no depth bound).',
    trusted=FILTER_TRUST,
    technique='Coq proof by induction on the filter (SQL three-valued logic; jsonb containment / jsonpath address forms by induction on segments) + differential run of the extracted '
              'model against the real stack on pgsem + emitted-SQL text equality + independent reference evaluator as monitor',
    level_text='Unbounded theorems about Ledger/Filter.v: for every filter without a nullable leaf (resp. with nullable leaves not below a $not) the emitted condition, evaluated with SQL '
               'three-valued logic on the dataset row of an entity, is TRUE exactly when the entity satisfies the filter under its documented meaning (exact / partial / prefix addresses, '
               '$in, metadata match / exists, balances, dates, reverted, reference, $and/$or/$not); list = filter sat, count = length. The lateral push-down is proved equivalent to the plain dataset (C20_pushdown). The full statement '
               'is refuted in two unrepaired ways (witnesses reproduced on the real code). Tie: model = real stack on result sets, counts, error classes and WHERE text.',
    level_note='Trusted: Coq kernel; extraction; pgsem as stand-in for PostgreSQL; the OCaml printer of the condition AST; the Go harness. Point-in-time datasets themselves (which '
               'entities exist at t, metadata/volumes as of t) are taken from the unfiltered real read at the same t (they are the subject of C05/C17), not modelled here.',
)
