# Numscript machine properties: model = coq/theories/Machine/{Syntax,Lex,Sem}.v, proofs in Machine/SemProofs.v
NS_RULE = ('grammar-based generator of Numscript ASTs (harness/go/vh/ns.go, all choices from VERIF_SEED): 1-3 statements (send / send [A *] / set_tx_meta / set_account_meta / save / fail), '
           'sources nested to depth 3 (accounts incl. @world and variables, `allowing overdraft up to M`, `allowing unbounded overdraft`, `max M from`, in-order blocks, allotment sources), '
           'destinations nested to depth 3 (accounts, `max M to`/`remaining`, allotments, `kept`), monetary arithmetic, variables of all six types incl. meta() and balance() origins, '
           'deliberate faults (undeclared / missing / extraneous / invalid variables, allotments not summing to 100%, emptied accounts reused, unbounded source not last, asset mismatches, '
           'literal assets at the edge of the lexer rule); store with random balances (12% negative, zero, >2^64) and metadata; the printed script text goes through the REAL compiler.Compile '
           'and vm.Machine (SetVarsFromJSON, ResolveResources, ResolveBalances, Execute) under recover() with a 5 s timeout; compared with the extracted Sem.run: error class, ordered postings '
           '(zero amounts included), transaction and account metadata, tracked balances before/after; non-trivial = distinct successful program with at least one posting')
NS_TRUST = ['AST -> script text printer and s-expression reader/writer of the harness (harness/go/vh/ns.go), OCaml glue ocaml/nsrun.ml (rendering of metadata values as machine.NewStringFromValue does, sorting of maps)',
            'modelled, not verified: ANTLR-generated lexer/parser (exercised: every case is parsed from text; separately explored by `nsfront` with mutants and byte strings), math/big, Go regexp (tied by `nslex`)',
            'variables and metadata are typed values rendered to the strings the JSON API carries; malformed strings (NewValueFromString parse errors) are only explored, not modelled',
            'resource limits of the compiler (65536 resources, 32768 variables) are not modelled']
NS_NOTE = ('Trusted: Coq kernel, extraction, OCaml glue, Go harness (generator + AST printer). The theorems are about Machine/Sem.v, an AST-level big-step semantics written to mirror '
           'compiler.Compile + vm.Machine, AND about the bytecode layer: Machine/Compile.v (compiler: instructions, concrete resource table, needed balances), Machine/Vm.v + VmRun.v (the VM and the '
           'ParseVariablesJSON / ResolveResources / ResolveBalances / Execute sequence) with the theorem vm_run = Sem.run for every program, variables and store (Machine/RunCorrect.v). '
           'That Compile.v/Vm.v are the real compiler/VM rests on the tie nsbc (bytes, resources, needed balances equal on every generated program; model VM on the real bytecode = real result).')


def ns_tie(kinds, quick=4000, thorough=200000, extra=None, name='TIE-C ns'):
    return dict(name=name, vh='ns', model='ns', n=dict(quick=quick, thorough=thorough), args=dict(all=['-c26', '0'] + (extra or [])), kinds=kinds)


PROPS['C22'] = dict(
    target='Props/C22', theorems=['C22_send', 'C22_balances', 'C22_send_statement', 'C22_send_all_statement', 'C22_machine_refines_sem_code', 'C22_statement_code',
              'C22_machine_refines_sem', 'C22_machine_send', 'C22_machine_balances'],
    ties=[ns_tie(['C22']), ns_tie(['C22'], quick=2500, thorough=100000, extra=['-profile', 'single'], name='TIE-C ns single-send')],
    rule=NS_RULE, trusted=NS_TRUST, level_note=NS_NOTE,
    explanation='C22_send (all programs, variables, stores; structural induction over sources and destinations, no depth bound): per send statement the postings are non-negative, all in the asset the '
                'statement\'s monetary evaluates to, sum to at most the amount and exactly to it when the destination has no `kept` (allotments: via C24 allocate_sum); send [A *]: sum = total of the funding the '
                'sources provided, in asset A. C22_balances: every tracked (account, asset) pair except world ends at initial (= the store balance) + effect of all postings - what `save` set aside. '
                'The model follows the repaired code (fixes/03: send [A *] with an overdraft clause in another asset is an invalid-script error; former known finding KF-C22-sendall-foreign-overdraft-asset, now "fixed").',
    technique='Coq proof by mutual structural induction over the Numscript AST (sources, destinations) about an executable big-step semantics + differential run against compiler.Compile + vm.Machine + independent monitors',
    level_text='Unbounded theorems about Machine/Sem.v: for every program/variables/store, each send statement yields non-negative postings in the statement\'s asset summing exactly to the sent amount when nothing is `kept` '
               '(≤ otherwise; send-all: to the funds the sources provided), and the tracked balances equal initial + postings − save. Tie: thousands of generated programs through the real compiler and VM equal the '
               'extracted model; monitors recompute sums/balances from the implementation output only.')

PROPS['C28'] = dict(
    target='Props/C28', theorems=['C28_wellformed', 'C28_environment_valid', 'C28_machine_wellformed'],
    ties=[ns_tie(['C28'], quick=3000, extra=['-profile', 'edge'], name='TIE-C ns lexer-edge'),
          dict(name='TIE-C nslex', vh='nslex', model='nslex', n=dict(quick=20000, thorough=1000000), kinds=['C28'])],
    rule=NS_RULE + '; profile edge: half of the statements use literal assets at the edge of the lexer rule (USD//2, 12A, A/1234567, /, 19-letter names, 9, U/); nslex: random strings over [AZaz09_-:/ .U1] + fixed edge cases through '
         'accounts.ValidateAddress, assets.IsValid and compiler.Compile("send [S 1] ...") vs Lex.valid_address / valid_asset / (lexer_asset && valid_asset)',
    trusted=NS_TRUST, level_note=NS_NOTE,
    explanation='Machine-script path only (postings path / import / interpreter are not covered here). C28_wellformed: every posting of every successful run has source and destination matching the address pattern '
                '(literals by the lexer recogniser, variables and meta() values by validation), an asset matching the asset pattern and a non-negative amount; C28_environment_valid is the invariant behind it '
                '(declared variables hold validated values of their type). The model follows the repaired code (fixes/02: literal assets are validated at compile time; former known finding KF-C28-literal-asset / suspect S-28, now "fixed"). '
                'The monitor re-validates every posting of every successful run with the real Postings.Validate.',
    technique='Coq proof (invariant of variable resolution + the C22 induction generalised over an account predicate) + recognisers tied to the real regexps and the real compiler',
    level_text='Unbounded theorem about Machine/Sem.v: all postings a script produces are well formed (addresses, asset, amount). Recognisers for the address/asset patterns and the ASSET lexer rule are Coq functions '
               'compared with Go regexp / the real compiler on 20 000 strings per run.')

PROPS['C26'] = dict(
    target='Props/C26', theorems=['C26_zero_postings_irrelevant', 'C26_machine_deterministic'],
    ties=[dict(name='TIE-C ns machine-vs-interpreter', vh='ns', model='ns', n=dict(quick=3000, thorough=100000), args=dict(all=['-c26', '1', '-profile', 'shared']), kinds=['C26'])],
    rule=NS_RULE + '; profile shared: no deliberate faults, no subtraction, no edge literals; BOTH runtime adapters of internal/controller/ledger (MachineNumscriptRuntimeAdapter via DefaultNumscriptParser, '
         'DefaultInterpreterMachineAdapter via InterpreterNumscriptParser) are executed on the same text/variables/store stub; scripts one front end rejects are counted as outside the shared subset; '
         'compared: both fail / same non-zero postings in order / same metadata / same account metadata',
    trusted=NS_TRUST + ['the interpreter github.com/formancehq/numscript v0.0.24 is third-party code: exercised, not modelled'], level_note=NS_NOTE,
    explanation='The interpreter side is validated by CORRESPONDENCE ONLY (head-to-head run of the two real adapters, zero-amount postings ignored); the machine side by proof + tie (Sem.run = compiler+VM on every case of this run; '
                'C22/C28 theorems about Sem). Proved here: ignoring zero postings changes no sum and no balance effect. The unchanged tree VIOLATES the property beyond zero postings; six classes are registered as known findings with replays '
                '(KF-C26-kept-order, KF-C26-machine-insufficient, KF-C26-asset-mismatch, KF-C26-portion-overflow, KF-C26-world-balance-var: balance(@world, A) of a negative @world is 0 for the interpreter and an error for the machine; KF-C26-save-arith-left-only: the machine saves only the left operand of save m1 + m2, mirrored by Sem.v (leaf_value)); any other disagreement is reported as a violation.',
    technique='translation validation of the interpreter adapter against the machine adapter on generated programs; Coq lemma that the zero-posting projection is sound; machine side = Sem by differential run',
    level_text='Machine runtime: executable Coq semantics proved (C22, C28) and tied to the real compiler/VM. Interpreter runtime: compared with the machine runtime on thousands of generated scripts of the shared subset per run '
               '(no model of the third-party interpreter). Known disagreements on `kept` are reported as known findings.')

PROPS['C27'] = dict(
    target='Props/C27', theorems=['C27_no_panic', 'C27_statements_no_panic', 'C27_no_partial', 'C27_vm_no_panic_code', 'C27_vm_fuel',
              'C27_vm_no_panic', 'C27_vm_no_panic_run', 'C27_vm_stack_empty'],
    ties=[ns_tie(['C27'], quick=3000, name='TIE-C ns'),
          ns_tie(['C27'], quick=1500, thorough=50000, extra=['-profile', 'nilbal'], name='TIE-C ns several balance() variables'),
          dict(name='TIE-C ns adapters (no partial result)', vh='ns', model='ns', n=dict(quick=1500, thorough=50000), args=dict(all=['-c26', '1']), kinds=['C27']),
          dict(name='TIE-C nslex (portion texts)', vh='nslex', model='nslex', n=dict(quick=8000, thorough=1000000), kinds=['C27']),
          dict(name='EXPLORE nsfront (unmodelled ANTLR front end)', vh='nsfront', model=None, n=dict(quick=6000, thorough=600000), kinds=['C27'])],
    rule=NS_RULE + '; profile nilbal: every program with a balance() variable gets a second one, mostly on the same account; nsfront (exploration of the unmodelled front end, labelled as such): per run 1/3 byte/token-level mutants of generated programs, '
         '1/3 random token sequences, 1/3 arbitrary byte strings into compiler.Compile and, when they compile, into the machine; only panics and >5 s hangs are reported; '
         'portions: script literals, `portion` variable values and metadata-sourced portions include degenerate texts (1/0, 0/0, 7 / 00, 0/5, 05/010, 1 /2, 3/2, 150%, 0%, 100.0%, .5%, 30-digit terms), read on the model side by Lex.parse_portion; '
         'nslex also runs machine.ParsePortionSpecific under recover() on portion-like strings over [0-9/ %.] against Lex.parse_portion (a panic is a violation); the adapters tie also checks that an error never comes with a non-nil result',
    trusted=NS_TRUST, level_note=NS_NOTE,
    explanation='Sem.run is a total function with an explicit Panic outcome where Go would dereference a nil *MonetaryInt. C27_no_panic: NO program, variable assignment or store makes it panic (invariant: after ResolveResources/ResolveBalances '
                'no variable holds a nil amount; then no-Panic by mutual structural induction); C27_no_partial: an error outcome carries no postings (on the Go side the monitor checks result == nil on error for both adapters). '
                'The model follows the repaired code (fixes/01: every balance() variable is assigned; former known finding KF-C27-nil-balance-panic, now "fixed"). '
                'Panics of the bytecode VM that an AST-level semantics cannot express (pop[T] type assertion, stack underflow, BUMP index, default branches, type assertions in ResolveResources/ResolveBalances, "stack not empty") '
                'are explicit Panic outcomes of Vm.v/VmRun.v and C27_vm_no_panic proves that NO compiled program reaches one, for any variables and store (C27_vm_stack_empty: the stack is empty at the end; C27_vm_fuel: one tick per instruction suffices). '
                'Portion texts (script literals, variable values, metadata) are read by Lex.parse_portion, tied to machine.ParsePortionSpecific incl. zero denominators (error, never a panic); the octal reading of leading-zero terms (KF-C27-portion-octal) was repaired by a fix: commit; the model reads both terms in base 10. '
                'Gap: the byte-string front end (ANTLR) is exploration only.',
    technique='Coq proof (environment invariant + no-Panic by mutual structural induction over the AST) + differential run under recover()/timeout + front-end exploration',
    level_text='Full at AST level and at bytecode level: for every program and every input neither the semantics nor the compiled program on the bytecode VM (typed pops, BUMP, stack-empty check, resource resolution) ever panics, '
               'and an error carries no result. The correspondence Compile.v/Vm.v = real compiler/VM is a tie (byte-for-byte on thousands of programs per run); the ANTLR front end is explored with mutants/byte strings.')

PROPS['C23'] = dict(
    target='Props/C23', theorems=['C23_bound', 'C23_no_overdraft', 'C23_withdraw_all', 'C23_untracked_is_error', 'C23_machine_bound', 'C23_machine_no_overdraft'],
    ties=[ns_tie(['C23'], quick=5000, name='TIE-C ns')],
    rule=NS_RULE + '; monitor: for every bounded source occurrence (account value, asset) that is not world and not declared unbounded anywhere in the program: initial + net postings >= min(initial, -max declared bound)',
    trusted=NS_TRUST, level_note=NS_NOTE,
    explanation='C23_bound (all programs, variables, stores): for every tracked (account, asset) pair whose account is not world, if every `overdraft up to` clause on that account evaluates to at most B and no source declared unbounded '
                'evaluates to that account, then initial + effect of ALL postings of the run >= min(initial, -B) (initial = store balance, C22_balances); proof: a lower-bound invariant through withdrawAll / TAKE_ALWAYS on other accounts / repay / credit, '
                'with `save` accounted for via C22_balances. Tracked pairs are the bounded sources x statement asset (NeededBalances) and balance() pairs; an untracked bounded source cannot be withdrawn (C23_untracked_is_error). '
                'C23_no_overdraft: the syntactic instance without any overdraft clause.',
    technique='Coq proof (lower-bound invariant by mutual structural induction + the C22 balance equation) + differential run + independent balance-bound monitor',
    level_text='Unbounded theorem about Machine/Sem.v: no bounded non-world source ends below min(initial, −bound), the balance being initial + postings of the run. Tied to the real compiler/VM by the differential run; '
               'the monitor recomputes the bound from the implementation output only.')

# C25 (claimed in 10-ledger.py): machine side added here -- theorem + tie through the real TxToScriptData, compiler and VM
if 'C25' in PROPS:
    PROPS['C25']['theorems'] = PROPS['C25']['theorems'] + ['C25_machine_script']
    PROPS['C25']['ties'] = PROPS['C25']['ties'] + [dict(name='TIE-C nstx (TxToScriptData -> compiler -> VM)', vh='nstx', model='nstx', n=dict(quick=4000, thorough=200000), kinds=['C25'])]
    PROPS['C25']['explanation'] = PROPS['C25']['explanation'] + (' Machine side (C25_machine_script, Machine/TxScript.v): Sem.run on the script TxToScriptData generates yields exactly the submitted postings iff '
        'Core.feasible succeeds and insufficient funds otherwise, for any injective variable naming; tie nstx: 1-8 postings over 5 accounts incl. world x 4 assets (USD_X is not lexable as a literal: variables only), zero and >2^64 amounts, '
        'negative balances, 20% force, through the REAL TxToScriptData + compiler + VM vs the extracted model; monitor: independent in-order walk.')


# ---- the bytecode layer: model compiler = real compiler byte for byte; model VM on the real bytecode = real machine
NSBC_TIE = dict(name='TIE-C nsbc (bytecode: compiler bytes/resources/needed balances, VM on real bytecode)', vh='nsbc', model='nsbc',
                n=dict(quick=3000, thorough=150000), kinds=['C27'])
NSBC_TEXT = (' Bytecode layer: Machine/Vm.v (the instruction set of vm/program with Panic where Go panics), Machine/Compile.v (gen + assign). Tie nsbc: for every generated program the REAL compiler.Compile output '
             '(instruction bytes, resource table, needed balances) equals the model compiler\'s, and the model VM run on the REAL bytecode equals the real machine\'s result. '
             'Theorems, for EVERY program / variables / store (no fragment restriction): RunCorrect.vm_run_correct = C22_machine_refines_sem: compile (check, gen, address assignment) followed by ParseVariablesJSON, ResolveResources, '
             'ResolveBalances and Execute on the bytecode VM yields exactly the outcome of Sem.run (error class, postings in order, metadata, tracked balances before/after); C27_vm_no_panic: no compiled program reaches a Panic of the VM '
             '(typed pop, underflow, BUMP range, nil amount, default branch, resolution type assertions, stack not empty); C22_machine_send/_balances, C23_machine_bound/_no_overdraft, C28_machine_wellformed: the C22/C23/C28 theorems '
             'stated of the compiled program on the VM. Proof structure: stack-effect equations per compile function (CompileCorrect.v), address assignment (AssignCorrect.v), resource well-typedness (GenWf.v), '
             'resolution of the table incl. the vars block and balance() assignment (ResolveCorrect.v, RunCorrect.v).')
for _p in ('C22', 'C27'):
    PROPS[_p]['ties'] = PROPS[_p]['ties'] + [NSBC_TIE]
    PROPS[_p]['explanation'] = PROPS[_p]['explanation'] + NSBC_TEXT
PROPS['C23']['explanation'] += (' C23_machine_bound / C23_machine_no_overdraft: the same of the compiled program on the bytecode VM (Compile.v + Vm.v + VmRun.v), via RunCorrect.vm_run_correct (vm_run = Sem.run for every program).')
PROPS['C28']['explanation'] += (' C28_machine_wellformed: the same of the compiled program on the bytecode VM (Compile.v + Vm.v + VmRun.v), via RunCorrect.vm_run_correct (vm_run = Sem.run for every program).')
