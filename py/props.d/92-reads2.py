# Grouped volumes (GetVolumesWithBalances groupBy) and metadata filters at a point in time: theorems added to C05 / C21 / C01
# (Ledger/GroupProofs.v) and to C17 / C20 (Ledger/MetaFilterProofs.v); probes volq / aggq / accsq of the `reads` tie
# (harness/go/vh/readsq.go, ocaml/readsrun.ml) with their monitors; grouped-content monitor of the `pages` tie.
READS2_PROBES = (' In addition 11 probes per history (harness/go/vh/readsq.go): 4 GROUPED volume listings (groupBy 1..3 rotating, no window / PIT / PIT+OOT / OOT only, '
                 'both date modes, a quarter with a metadata filter), 3 volume listings filtered by account metadata (metadata[k] match, $exists, $and/$or/$not up to depth 2) '
                 'at a point in time, 2 aggregated balances and 2 account listings with such a filter at a point in time; three quarters of the filtered probes are DIRECTED: the '
                 'point in time is the instant of a committed account-metadata write (set by a transaction, saved, deleted) or the microsecond before it, the filter mentions what '
                 'that write wrote, so the metadata as of t differs from the current one. In the C05 / C20 runs the account alphabet is extended with addresses sharing their '
                 'first one / two / three segments (users:1, users:2:main, users:2:sav, users:2:main:sub, bank, bank:eu) so that groupBy 1..3 really merges rows.')
PROPS['C05']['theorems'] += ['C05_grouped_volumes_sum', 'C05_grouped_volumes_keys', 'C05_grouped_volumes_history', 'C05_grouped_totals_preserved', 'C05_truncate_addr']
PROPS['C05']['rule'] += READS2_PROBES
PROPS['C05']['explanation'] += (' GROUPED volumes (groupBy = g > 0; Reads.group_volumes / truncate_addr mirror Project of resource_volumes.go: the account is cut to its first g '
                                '\':\'-separated segments, input/output summed per (prefix, asset)): proved for every duplicate-free listing, hence (C05_grouped_volumes_history) after every '
                                'history, window and date mode: the grouped row of (prefix, asset) is the componentwise sum of the rows of the accounts whose truncated address is that prefix; '
                                'the grouped listing has exactly the truncated keys, each once; totals per asset are kept; truncation is the identity on addresses of at most g segments and '
                                'idempotent. Tie: the model answers the grouped probes with group_volumes; monitor [grouped-volumes] (independent of the model): a grouped listing equals the '
                                'ungrouped listing of the same query, read through the real code, summed per truncated address (Go strings.Split), and conserves every asset when unfiltered.')
PROPS['C05']['level_text'] += (' Grouped volume listings (groupBy 1..3, any window) equal the ungrouped listing summed per truncated address (theorems + tie + independent monitor).')

PROPS['C01']['theorems'] += ['C01_grouped_conservation']
PROPS['C01']['explanation'] += (' C01_grouped_conservation: the grouped listing (groupBy) of the current volumes conserves every asset after any history (grouping keeps per-asset totals, '
                                'Ledger/GroupProofs.v); on the real code this is checked by the [grouped-volumes-conservation] monitor of the reads tie (C05).')

PROPS['C21']['theorems'] += ['C21_grouped_volumes_unique_key']
PROPS['C21']['explanation'] += (' C21_grouped_volumes_unique_key: after any history, for any window and group level, the rows of a (grouped) volumes listing carry pairwise distinct '
                                '(account, asset) pairs (Reads.read_volumes_grouped), i.e. the NoDup hypothesis of the pagination theorems holds for "account/asset for volumes, including grouped '
                                'volumes". TIE-D additionally checks WHAT the grouped variants list (monitor [grouped-listing], independent of the model): the groupBy=g listing equals the '
                                'groupBy=0 listing of the same filter / point in time summed per first g address segments.')
PROPS['C21']['rule'] += (' For every volumes variant with groupBy >= 1 the content of the full listing is compared with the ungrouped listing of the same query aggregated by truncated address '
                         '(grouped_content_checked in the distribution).')

PROPS['C17']['theorems'] += ['C17_account_metadata_as_of_total', 'C17_filter_metadata_as_of', 'C17_filter_history_off', 'C17_volumes_filter_history_off']
PROPS['C17']['explanation'] += (' Metadata FILTERS at a point in time (volumes, aggregated balances, accounts): the metadata column the WHERE runs on (Reads.vol_meta / agg_meta / ar_meta) is '
                                'proved, with ACCOUNT_METADATA_HISTORY = SYNC and for every address, to be the metadata the account had in the state reached at t (C17_account_metadata_as_of_total, '
                                'C17_filter_metadata_as_of). With the feature DISABLED the full statement ("returns the current metadata") is a theorem for all three handlers, any window (C17_filter_history_off, '
                                'C17_volumes_filter_history_off); for volumes with a PIT or OOT it was false of the code (the handler read the empty history table: every account carried \'{}\'), '
                                'found by this tie and repaired in /repo by f445e43 (known_findings.d/reads.json, fixed); the monitor has no exemption for it. '
                                'The reads tie compares the filtered reads with the model (volq / aggq / accsq probes) and runs the monitor [metadata-filter-as-of] (replays the accepted '
                                'metadata writes up to t, filters the UNFILTERED listing read through the real code).' + READS2_PROBES)

PROPS['C20']['theorems'] += ['C20_metadata_filter_sql', 'C20_metadata_filter_list', 'C20_pit_volumes_metadata_filter', 'C20_pit_accounts_metadata_filter',
                             'C20_pit_aggregated_metadata_filter', 'C20_filter_then_group']
PROPS['C20']['ties'].append(dict(name='TIE-D reads (metadata filters at a point in time)', vh='reads', model='reads', n=dict(quick=150, thorough=3000),
                                 args=dict(all=['-monitors', 'C20']), kinds=['C20'], case_head='reads'))
PROPS['C20']['rule'] += (' Third tie (reads): histories of 1..12 operations under 7 feature sets with a third of the operations writing or deleting ACCOUNT metadata; per history the probes of '
                         'the reads tie (C05) plus:' + READS2_PROBES)
PROPS['C20']['explanation'] += (' "With or without a point in time" for metadata filters is no longer taken from the unfiltered real read only: Ledger/Reads.v models the metadata column of the '
                                'volumes / aggregated balances / accounts datasets at a point in time (history table as of t), MetaFilterProofs.v embeds metadata filters into Filter.v '
                                '(C20_metadata_filter_sql: valid, emitted condition two-valued and equal to msat of the column; C20_metadata_filter_list) and proves over all histories split at t that '
                                'the filtered listing at t selects exactly the rows whose account satisfied the filter AT t (C20_pit_*_metadata_filter; C20_filter_then_group: grouping happens after '
                                'the WHERE). Third tie: model = real stack on volumes / aggregated balances / accounts filtered by metadata at instants around every account-metadata write; monitor '
                                '[metadata-filter-as-of] independent of the model. A defect found by this tie (volumes + PIT/OOT + metadata filter with ACCOUNT_METADATA_HISTORY DISABLED saw no '
                                'metadata) was repaired in /repo by f445e43 (KF-C20-volumes-metadata-filter-history-off, fixed).')
PROPS['C20']['level_text'] += (' Metadata filters at a point in time (volumes, aggregated balances, accounts) select on the metadata as of t: theorems over all histories + tie on the real stack.')

# TIE-H for the read-side probes (harness/go/vh/readshttp.go): the probes as v2 GET requests
READS_HTTP_NOTE = (' TIE-H reads: the same probes are also issued as v2 GET requests against the real router (pit / oot, endTime / startTime on /volumes, insertionDate, use_insertion_date / '
                   'useInsertionDate, groupBy, expand, sort, query=<filter JSON>), decoded page by page from the JSON answers and compared with the read-side model; a monitor without model '
                   'requires each HTTP answer to equal the controller-level answer, and balance = input - output on every volumes row.')
for _pid in ['C05', 'C17', 'C20', 'C21']:
    PROPS[_pid]['ties'].append(dict(name='TIE-H reads http', vh='reads', model='reads', n=dict(quick=60, thorough=1500), args=dict(all=['-via', 'http', '-monitors', _pid]),
                                    kinds=[_pid], case_head='reads', replayable=False))
    PROPS[_pid]['explanation'] += READS_HTTP_NOTE

# v1 query parameters -> filter (harness/go/vh/v1reads.go): metamorphic tie, both sides through the real router
PROPS['C20']['ties'].append(dict(name='TIE-H v1 parameters', vh='v1reads', model=None, n=dict(quick=120, thorough=3000), args=dict(all=['-monitors', 'C20']), kinds=['C20'], case_head='v1reads'))
PROPS['C20']['explanation'] += (' TIE-H v1 parameters: the v1 list endpoints build their filter from query parameters (after, startTime/start_time, endTime/end_time, reference, source, '
                                'destination, account, metadata[k], address, balance + balanceOperator); on random histories 14 parameter sets per case are listed through v1 (all pages) and '
                                'compared with the v2 listing of the filter they stand for (transactions, accounts, balances, logs, aggregated balances); no model is involved on this tie, the v2 '
                                'filters are the ones tied to Ledger/Filter.v. Found and repaired: the v1 `after` parameter was always rejected (29b7753).')
