# C11 / C12: export -> import round trip, state tracker (Ledger/Import.v, ImportProofs.v; harness/go/vh/importx.go; ocaml/importrun.ml)
IMP_RULE = ('each case: a source history of 1..10 operations generated online on ledger l1 (create incl. back/future-dated timestamps, references, account metadata, adversarial '
            'metadata values, forced reverts, set/delete metadata on transactions and accounts, idempotency keys incl. a quoted one, dry runs; 4 feature sets), the real Export '
            'encoded as v2.exportLogs does, then a script on a fresh ledger l2 of the same bucket/features through the controller of the real system controller: full import + 1..3 '
            'writes through single / non-atomic bulk / ATOMIC bulk (real Bulker) paths (55%), writes first then import (17%), import in two parts / overlapping / repeated (10%), '
            'import-write-import (8%), a suffix only (3%), atomic bulk on the pristine ledger then the tail of the stream (7%). Compared with the model: outcome of every action, '
            '12 equal/different flags (source vs copy) after every accepted import, complete final state of the copy. non-trivial = source with >= 2 logs. '
            'Reverts are forced in this tie (Core.v models the nil-map panic of a non-forced revert more strictly than the real GetBalances behaves on some multi-asset inputs).')
IMP_TRUST = HIST_TRUST + ['hash column in the extracted model: H = identity over a length-prefixed rendering of the fields of the real pre-image (collision-free stand-in for SHA-256; the theorems hold for every H)']
IMP_NOTE = ('Trusted: Coq kernel; extraction; pgsem; the Go harness. Model Ledger/Import.v layered on Ledger/Core.v. ')

PROPS['C11'] = dict(
    target='Props/C11',
    theorems=['C11_roundtrip', 'C11_roundtrip_schemas', 'C11_tx_core_fields', 'C11_av_fields', 'C11_roundtrip_moves', 'C11_roundtrip_accounts_partial', 'C11_roundtrip_tables_partial', 'C11_hashes_roundtrip', 'C11_hash_check_sound', 'C11_writable_single', 'C11_resync_above', 'C11_first_usage_example', 'C11_refuted_updated_at',
              'C11_writable_atomic', 'C11_atomic_after_import_next_ids', 'C11_atomic_after_import_log_order', 'C11_unrepaired_atomic_writable', 'C11_unrepaired_atomic_log_id'],
    ties=[dict(name='TIE-D importx', vh='importx', model='importx', n=dict(quick=300, thorough=10000), kinds=['C11'], case_head='importx', timeout=dict(quick=600, thorough=6000))],
    rule=IMP_RULE,
    explanation='PROVED for every feature set, history, hash function and import time (C11_roundtrip, per-log simulation of importLog against Core.step + induction over the history + C09 chain invariant): '
                'the import of the export into the pristine ledger is accepted, leaves it initializing and reproduces volumes, every column of the transactions table except effective volumes (ids, postings, current metadata, '
                'timestamps, references, inserted_at, updated_at, reverted_at, post-commit volumes), the transaction metadata history, the logs, the hash column and, of every account row, address, current metadata and insertion date. Under hypotheses: moves table + effective volumes when the history has no dry run or MOVES_HISTORY is off '
                '(C11_roundtrip_moves; otherwise only moves.seq is renumbered, compared modulo seq by the tie); first usage / updated_at of accounts (the whole accounts table) + account metadata history when the history has no DELETE_METADATA on accounts (SET_METADATA on accounts is covered since a33853d: importLog replays the upsert of the write path dated at the log) '
                '(C11_roundtrip_accounts_partial); all tables identical under both (C11_roundtrip_tables_partial). FULL statement REFUTED without the accounts hypothesis, confirmed on the real stack (known_findings.d/import.json): '
                'SET_METADATA on an account: since the repairs 2a129a1/a33853d the import IS the write dated at the log (ImportSim.imp_acc_set_is_write, C11_first_usage_example); DELETE_METADATA on an account is dated at the import in updated_at and in the metadata history (C11_refuted_updated_at). '
                'Writability: first committed facade write flips the state and draws log id = max+1 and transaction id = max+1 (C11_writable_single; bulk elements are such writes); the ATOMIC bulk follows the same protocol since the repair fixes/01-facade-begintx (C11_writable_atomic: a one-element atomic bulk IS the facade write). '
                'Before the repair (S-11, confirmed on the real stack, finding fixed): never-resynchronised sequences, primary-key collision -> nil dereference in InsertTransaction / runLog, or a log id below the imported ones (C11_unrepaired_atomic_writable, C11_unrepaired_atomic_log_id).',
    trusted=IMP_TRUST,
    technique='Coq proofs (per-log simulation relation between the write path and importLog, induction over histories, hash-chain induction, case analysis of the state tracker, vm_compute witnesses) about an executable model of Export/Import/importLog/handleState/Bulker + differential run against the real stack + source-vs-copy monitor',
    level_text='Unbounded theorems: the round trip for every history, feature set and hash function on volumes, transactions (all columns but effective volumes), transaction metadata history, logs and hashes; moves/effective volumes and accounts under stated hypotheses; writability through the facade with ids = max+1; refutations of the remaining parts reproduced on the real code.',
    level_note=IMP_NOTE)

PROPS['C12'] = dict(
    target='Props/C12',
    theorems=['C12_row_decides', 'C12_coherent', 'C12_only_pristine', 'C12_after_write_rejected', 'C12_after_bulk_write_rejected', 'C12_monotone', 'C12_import_keeps_state', 'C12_atomic_flips_or_no_effect', 'C12_after_atomic_write_rejected', 'C12_unrepaired_atomic_never_flips', 'C12_unrepaired_atomic_bypass'],
    ties=[dict(name='TIE-D importx', vh='importx', model='importx', n=dict(quick=400, thorough=10000), kinds=['C12'], case_head='importx', timeout=dict(quick=600, thorough=6000))],
    rule=IMP_RULE,
    explanation='Sequential part proved for every hash function: accepted => initializing and every stored log id below every imported id (C12_only_pristine); after a committed facade write every import is refused with no effect '
                '(C12_after_write_rejected; C12_after_bulk_write_rejected for a non-atomic bulk with an accepted element); in-use is absorbing for all three write paths and imports (C12_monotone). Atomic bulk: since the repair fixes/01-facade-begintx it commits and leaves the ledger in-use, or has no effect (C12_atomic_flips_or_no_effect, C12_after_atomic_write_rejected). Before the repair (S-11, confirmed on the real stack, finding fixed; C12_unrepaired_atomic_bypass): '
                'the facade inherited BeginTX, the bulk committed without flipping the state, a later import was accepted and changed the ledger. The concurrent part is reduced to the hook stated in Props/C12.v (lock held by Import for its whole duration); schedules are not explored by this check.',
    trusted=IMP_TRUST,
    technique='Coq proofs (case analysis of the state tracker, fold invariants on the id checks, vm_compute witness) + differential run of import/write scripts against the real stack + rejected-without-effect monitor',
    level_text='Unbounded theorems about the sequential model of the state tracker and Import; the atomic-bulk bypass found by the check was repaired (fixes/01-facade-begintx). Interleavings are not covered here.',
    level_note=IMP_NOTE)

# C14 on the import path: streams that reuse a non-empty reference (the export followed by its copy with ids shifted above it in ONE stream; the shifted copy on top of
# the imported export; on top of an atomic bulk holding the reference). Monitor: the import stops at that log with the reference-conflict error (errors.Is against
# ledgerstore / ledgercontroller ErrTransactionReferenceConflict), the transaction is not stored, no two stored transactions share a reference.
PROPS['C14']['ties'].append(dict(name='TIE-D importx refs', vh='importx', model='importx', n=dict(quick=150, thorough=4000), args=dict(all=['-profile', 'refs']),
                                 kinds=['C14'], case_head='importx', timeout=dict(quick=600, thorough=6000)))
PROPS['C14']['explanation'] += (' Import path (the quantifier includes imports): the importx tie presents Import with NEW_TRANSACTION logs reusing a stored reference; model Ledger/Import.v:imp_commit '
                                '(IEReference, no effect) = real stack, and the monitor requires the reference-conflict error kind.')

# C11 on ledgers WITH schemas (Ledger/ImportSchema.v): per-log schema resolution of importLog
PROPS['C11']['ties'].append(dict(name='TIE-D importx schemas', vh='importx', model='importx_schema', n=dict(quick=100, thorough=4000), args=dict(all=['-profile', 'schemas']),
                                 kinds=['C11'], case_head='importx_schema', timeout=dict(quick=600, thorough=6000)))
PROPS['C11']['rule'] = IMP_RULE + (' Schemas tie: source histories of the schemahist generator (schema inserts with chart default metadata and templates, writes with a known / unknown / no schema version, '
                                   'strict 25% / audit 75%) followed in 65% of the cases by a directed tail (a schema giving users:$id a default, a versioned write, then un-versioned and versioned creates / '
                                   'metadata-only writes on accounts that do not exist yet); export, import into a fresh ledger, 12 flags + schemas / log versions + complete copy compared with Ledger/ImportSchema.v.')

PROPS['C11']['explanation'] += (' LEDGERS WITH SCHEMAS (C11_roundtrip_schemas, Ledger/ImportSchema.v + ImportSchemaProofs.v over the histories of Ledger/SchemaCtrl.v): for every enforcement mode, history of schema inserts '
                                'and writes under a known / no schema version, and import time, the import of the export is accepted and reproduces the schemas table, the INSERTED_SCHEMA logs, the version stored with every log and the base '
                                'tables as in C11_roundtrip (accounts with exactly the chart defaults the source gave them); importLog resolves the schema PER LOG (the seeded change N-C11, a stream-wide cached schema, is reported as [c11-schema-account-metadata]).')
PROPS['C12']['explanation'] += (' The model separates the ledger ROW state from the state CACHED by the facade a request goes through (Import.v: i_l / i_c): handleState and BeginTX branch on the cache, Import on the row re-read under the '
                                'lock; C12_row_decides / C12_after_write_rejected quantify over the cached value, C12_coherent keeps the cache from running ahead of the row. The tie drives a second, stale facade (resolved before another '
                                'request\'s first write) through Import with log ids above the stored ones (the seeded change N-C12, which tests the stale snapshot, is reported as [c12-import-after-single-write] / [c12-import-after-bulk-write]).')

HTTP_RT_NOTE = (' HTTP round trip: on every case whose full export is imported into the pristine copy, the export is also fetched through POST /v2/l1/logs/export (must equal the '
                'controller\'s stream byte for byte) and sent to POST /v2/l3/logs/import of a third pristine ledger, whose complete snapshot must equal the copy imported through the controller '
                '(monitors [c11-http-export], [c11-http-import], [c11-http-import-differs]; internal/api/v2/controllers_logs_export.go / controllers_logs_import.go).')
PROPS['C11']['explanation'] += HTTP_RT_NOTE
