# C11 / C12: export -> import round trip, state tracker (Ledger/Import.v, ImportProofs.v; harness/go/vh/importx.go; ocaml/importrun.ml)
IMP_RULE = ('each case: a source history of 1..10 operations generated online on ledger l1 (create incl. back/future-dated timestamps, references, account metadata, adversarial '
            'metadata values, forced reverts, set/delete metadata on transactions and accounts, idempotency keys incl. a quoted one, dry runs; 4 feature sets), the real Export '
            'encoded as v2.exportLogs does, then a script on a fresh ledger l2 of the same bucket/features through the controller of the real system controller: full import + 1..3 '
            'writes through single / non-atomic bulk / ATOMIC bulk (real Bulker) paths (55%), writes first then import (17%), import in two parts / overlapping / repeated (10%), '
            'import-write-import (8%), a suffix only (3%), atomic bulk on the pristine ledger then the tail of the stream (7%). Compared with the model: outcome of every action, '
            '12 equal/different flags (source vs copy) after every accepted import, complete final state of the copy. non-trivial = source with >= 2 logs. '
            'Reverts are forced in this tie (Core.v models the nil-map panic of a non-forced revert more strictly than the real GetBalances behaves on some multi-asset inputs).')
IMP_TRUST = HIST_TRUST + ['hash column in the extracted model: H = identity over a length-prefixed rendering of the fields of the real pre-image (collision-free stand-in for SHA-256; the theorems hold for every H)']
IMP_NOTE = ('Trusted: Coq kernel; extraction; pgsem; the Go harness. Model Ledger/Import.v layered on Ledger/Core.v. NOT proved: the table-level round trip over all histories '
            '(only the hash column, the facade/sequence lemmas, witnesses and a concrete example are theorems); the tie compares the COMPLETE copy with the model on every run.')

PROPS['C11'] = dict(
    target='Props/C11',
    theorems=['C11_hashes_roundtrip', 'C11_hash_check_sound', 'C11_writable_single', 'C11_resync_above', 'C11_refuted_first_usage', 'C11_refuted_updated_at',
              'C11_refuted_atomic_writable', 'C11_refuted_atomic_log_id'],
    ties=[dict(name='TIE-D importx', vh='importx', model='importx', n=dict(quick=400, thorough=10000), kinds=['C11'], case_head='importx', timeout=dict(quick=600, thorough=6000))],
    rule=IMP_RULE,
    explanation='FULL statement refuted in three places by the faithful model, each confirmed on the real stack (known_findings.d/import.json): SET_METADATA on an account lowers first_usage to the log date '
                '(C11_refuted_first_usage), DELETE_METADATA on an account is dated at the import in updated_at and in the metadata history (C11_refuted_updated_at), an ATOMIC bulk on the still-initializing copy '
                'uses never-resynchronised sequences: primary-key collision -> nil dereference in InsertTransaction / runLog, or a log id below the imported ones (C11_refuted_atomic_writable, C11_refuted_atomic_log_id; S-11). '
                'Proved: the exported hash chain passes importLog\'s comparison and rebuilds the hash column for EVERY hash function (C11_hashes_roundtrip via C09\'s chain invariant), the comparison is sound, '
                'the first committed facade write flips the state and gets ids above every stored id (C11_writable_single, C11_resync_above). NOT proved: table-level round trip over all histories (tie only: model = real stack on the complete copy).',
    trusted=IMP_TRUST,
    technique='Coq proofs (hash-chain induction, case analysis of the state tracker, vm_compute witnesses) about an executable model of Export/Import/importLog/handleState/Bulker + differential run against the real stack + source-vs-copy monitor',
    level_text='Theorems: hash part of the round trip for every hash function and history; writability through the facade; three refutations of the full statement reproduced on the real code. '
               'The table-level round trip is checked by the tie on every generated case (all tables of the copy = model), not proved.',
    level_note=IMP_NOTE)

PROPS['C12'] = dict(
    target='Props/C12',
    theorems=['C12_only_pristine', 'C12_after_write_rejected', 'C12_monotone', 'C12_import_keeps_state', 'C12_partial_atomic_never_flips', 'C12_refuted_atomic_bypass'],
    ties=[dict(name='TIE-D importx', vh='importx', model='importx', n=dict(quick=400, thorough=10000), kinds=['C12'], case_head='importx', timeout=dict(quick=600, thorough=6000))],
    rule=IMP_RULE,
    explanation='Sequential part proved for every hash function: accepted => initializing and every stored log id below every imported id (C12_only_pristine); after a committed facade write every import is refused with no effect '
                '(C12_after_write_rejected); in-use is absorbing for all three write paths and imports (C12_monotone). REFUTED for the atomic-bulk path (C12_refuted_atomic_bypass, confirmed on the real stack, known finding): '
                'the facade inherits BeginTX, the bulk commits without flipping the state, a later import is accepted and changes the ledger. The concurrent part is reduced to the hook stated in Props/C12.v (lock held by Import for its whole duration); schedules are not explored by this check.',
    trusted=IMP_TRUST,
    technique='Coq proofs (case analysis of the state tracker, fold invariants on the id checks, vm_compute witness) + differential run of import/write scripts against the real stack + rejected-without-effect monitor',
    level_text='Unbounded theorems about the sequential model of the state tracker and Import; one refutation (atomic bulk bypass) reproduced on the real code. Interleavings are not covered here.',
    level_note=IMP_NOTE)
