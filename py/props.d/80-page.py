# C21 cursor pagination (Ledger/Page.v)
PROPS['C21'] = dict(
    target='Props/C21',
    theorems=['C21_listing_is_sorted_permutation', 'C21_next_enumerates', 'C21_previous_is_page_before', 'C21_previous_walks_back', 'C21_has_more_iff',
              'C21_offset_next_enumerates_partial', 'C21_offset_next_enumerates_refuted', 'C21_offset_previous_is_page_before', 'C21_offset_has_more_iff'],
    ties=[dict(name='TIE-C paginators', vh='pagesyn', model='pages', n=dict(quick=3000, thorough=100000), kinds=['C21']),
          dict(name='TIE-D listings', vh='pages', model='pages', n=dict(quick=50, thorough=2500),
               args=dict(quick=['-maxops', '32'], thorough=['-maxops', '40']), kinds=['C21'], timeout=dict(quick=600, thorough=6000))],
    rule='TIE-C: random duplicate-free key sets of 0..12 keys (small, negative, above 2^63, microsecond timestamps) in a pgsem table; arbitrary column queries '
         '(page size 0..5, both orders, pagination id / Bottom on, next to or off a key or unset, Reverse) and offset queries (offsets 0..15 and around MaxInt32/2^32): the SQL the real '
         'columnPaginator/OffsetPaginator.Paginate emits is run on pgsem and compared with Page.fetch, the real BuildCursor (cursors encoded, then decoded with UnmarshalCursor) with '
         'Page.build_cursor / opage_of, the nil-Bottom panic included; non-trivial = non-empty result with a pagination id. '
         'TIE-D: histories of 1..32 operations (quick; 1..40 thorough) generated online on the real stack over pgsem (create/revert/metadata, back-dated timestamps, 3 feature sets); for each history 37 '
         'listings x 2 orders: transactions by id and by timestamp (no filter, account=world, metadata[k1]=v1, PIT, PIT+destination=bob), logs by id (none, type, id>=3), accounts by address '
         '(none, address=users:, metadata, PIT), volumes by account with groupBy 0..3 (none, account=users:, balance[USD]>0, PIT, PIT+account filter); reference = the listing fetched with '
         'page size 10000; then every page size 1..rows+1: next cursors from the first page to the end, the previous cursor of every page, previous cursors from the last page back to '
         'the first (all cursors decoded by the real UnmarshalCursor). case = (listing, keys in requested order, sizes, order, history); non-trivial = walk with >= 2 rows and page '
         'size < rows. Listings by timestamp whose timestamps repeat are outside the hypothesis (unique key) and only counted (nonunique_key_*).',
    explanation='Theorems are about Ledger/Page.v (fetch = WHERE/ORDER BY/LIMIT of Paginate, build_cursor = BuildCursor, same for the offset paginator). Column paginator: full statements proved '
                '(next enumerates the sorted listing, each row once; previous of page k+1 = page k, none on page 1; previous followed repeatedly visits pages k..1; HasMore iff rows after). Offset paginator: the unbounded statement is '
                'REFUTED by the MaxInt32 guard of OffsetPaginator.Paginate (C21_offset_next_enumerates_refuted: any listing with more than MaxInt32+pageSize rows cannot be walked to the end; '
                'the guard is replayed on the real code by TIE-C offsets 2^31, 2^32+5) and proved for listings of at most 2^31 rows (_partial). Monitor (independent of the model): concatenation of '
                'next pages = full listing, no row twice, page length <= size, HasMore <=> next cursor <=> not last page, previous of page k+1 = page k, previous walk from the last page visits all '
                'pages in reverse. Gap: order among rows that tie on the ORDER BY key but differ on the DISTINCT ON key (volumes: same account, different asset) depends on the PostgreSQL sort/unique '
                'strategy; pgsem uses sort-unique (DISTINCT ON columns appended to the sort key, stable re-sort).',
    trusted=HIST_TRUST + ['modelled, not verified: cursor JSON/base64 encoding (exercised through UnmarshalCursor in both ties), uint64 overflow of pageSize+1'],
    technique='Coq proof (strictly sorted lists: WHERE >= x keeps the suffix at x, WHERE < x the prefix; induction on the fuel of the cursor walk generalised over the split of the sorted listing) '
              '+ differential run of the extracted model against the real paginators (in-package overlay) and against every paginated listing of the real stack on pgsem',
    level_text='Unbounded theorems about the Gallina model of the column paginator (any duplicate-free key set, any page size >= 1, both orders): next cursors enumerate the sorted listing exactly once, '
               'the previous cursor of page k+1 returns page k, HasMore iff rows remain. Offset paginator: same theorems for listings up to 2^31 rows; beyond that the code refuses the offset (proved). '
               'Tied to the code by running model and real paginators on the same queries (TIE-C) and by walking all cursors of every listing on the real stack (TIE-D).',
    level_note='Trusted: Coq kernel, extraction, OCaml glue, Go harness, pgsem as stand-in for PostgreSQL (ORDER BY / DISTINCT ON / LIMIT / OFFSET semantics). Listings ordered by a non-unique column '
               '(timestamps) are outside the property: there the next cursor can point to its own page (Example C21_duplicate_keys_loop; observed on the real stack, counted in the evidence).',
)
