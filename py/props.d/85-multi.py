# C19 ledger isolation (Ledger/Multi.v): several ledgers / buckets / processes on one database
PROPS['C19'] = dict(
    target='Props/C19',
    theorems=['C19_write_frame', 'C19_run_frame', 'C19_own_step', 'C19_ids_independent', 'C19_references_independent', 'C19_idempotency_keys_independent',
              'C19_read_scope', 'C19_names_unique', 'C19_flag_maintained_partial', 'C19_flag_step', 'C19_fresh_open_scoped',
              'C19_flag_maintained_refuted', 'C19_read_scope_refuted'],
    ties=[dict(name='TIE-D multi', vh='multi', model='multi', n=dict(quick=70, thorough=4000), kinds=['C19'], case_head='multi',
               timeout=dict(quick=600, thorough=12000))],
    rule='one pgsem database, buckets _default (ledger la from the start, lb and in 60% of the cases lc created MID-HISTORY after 1..12 operations) and b2 (lz alone, created at the start or '
         'mid-history); every ledger draws its own feature set (triggers WHEN new.ledger = ...) and runs its own genHistory stream (6..11 operations: create/revert/metadata/IK replays/dry runs, same '
         'account, reference and idempotency-key alphabets on every ledger, per-ledger clocks so timestamps collide) interleaved by one PRNG; schema rows v1,v2,.. are inserted on random ledgers (50% at creation, 6% per step); creates and account-metadata writes carry the marker '
         'metadata lg=<ledger>. Two acting processes (each its own driver.Driver + ledgerstore.Factory + system controller = its own aloneInBucket flags) create ledgers and run the operations, '
         'through a fresh GetLedgerController (as the API does per request) or through a controller obtained earlier and KEPT (85% of the cases keep one on la from the time it was alone); a third '
         'process only observes: after EVERY event it snapshots EVERY ledger (all read paths of Snapshot, all 9 bucket tables filtered by ledger, the ledger\'s two id sequences) and reads through every '
         'kept controller; at the end each ledger\'s operations are re-run alone on a fresh database (real code) and 3 x 13 point-in-time reads are compared. case = global event list; impl = per-ledger '
         'traces (result + latest snapshot before the ledger\'s next operation) + transaction ids listed by every kept controller after every operation; model = Multi.mstep / Multi.held_tx_ids. '
         'non-trivial = at least two ledgers of the shared bucket committed a write.',
    explanation='Theorems are about Ledger/Multi.v: a database of buckets holding rows tagged with their ledger, one alone-in-bucket flag per (process, bucket) written only by driver.CreateLedger / '
                'OpenLedger of that process, writes = Core.step on the addressed ledger\'s rows, reads = newScopedSelect (whole bucket table when the flag is set, WHERE ledger = L otherwise). PROVED: every '
                'event addressed to L (operation through any store, creation, opening) leaves every table and sequence of every other ledger unchanged (C19_write_frame / C19_run_frame); answers, ids, '
                'reference conflicts and idempotency hits of an operation on L do not depend on what happened on other ledgers (C19_ids_independent); the unique indexes keyed (ledger, reference) / '
                '(ledger, idempotency_key) on the shared tables equal the one-ledger checks (C19_references_independent, C19_idempotency_keys_independent); with a truthful flag a read on L returns exactly '
                'L\'s rows for every table (C19_read_scope); a process\'s flag is truthful as long as every ledger creation goes through that process (C19_flag_maintained_partial, C19_flag_step) and a read '
                'right after OpenLedger in the same process (every API request) is scoped from ANY state (C19_fresh_open_scoped). REFUTED for the code as written: "the flag is maintained when ledgers are '
                'added over time" (C19_flag_maintained_refuted) and hence "no read on L returns another ledger\'s rows" (C19_read_scope_refuted): a store opened by process 1 while la was alone keeps '
                'aloneInBucket = true after process 0 adds lb to the bucket (nothing tells process 1), so its reads omit WHERE ledger = la. Confirmed on the real stack (known finding '
                'KF-C19-stale-alone-flag-other-process; model and implementation agree on what the kept controller lists). Monitors (independent of the model): [frame] every other ledger bit-identical '
                'after every event, [listing-vs-table] listings = raw rows of that ledger, [foreign-row] no row carrying another ledger\'s marker / kept controllers list their own ledger only '
                '([stale-alone-flag] when the holder\'s process last counted one ledger and another process added one), [differs-from-solo-run] each ledger = the same operations alone on a fresh database, '
                'PIT reads included. Schema (chart) rows are written straight through Store.InsertSchema (same version names on every ledger, chart marked with the ledger) and observed through ListSchemas by the same monitors; they are outside the Coq model. Not covered: concurrent races between OpenLedger\'s count and CreateLedger\'s '
                'flag update inside one process; numscript meta() reads through a stale store.',
    trusted=HIST_TRUST + ['pgsem was extended for several schemas: schema-qualified sequences, functions/triggers/column defaults run with the schema of their table as search_path, index DDL per schema',
                          'the (process) abstraction: one driver.Driver + ledgerstore.Factory per process on a shared database; sequential interleaving only'],
    technique='Coq proof (frame of the bucket-level step by induction over the ledger list; reads: WHERE ledger = L on the flat-mapped tagged rows selects exactly L\'s rows, and a bucket counting one ledger '
              'holds only its rows; flag invariant by cases on the event; refutation witnesses by vm_compute) + differential run of the extracted model against the real multi-ledger, multi-process stack on pgsem',
    level_text='Unbounded theorems about the Gallina model of several ledgers sharing buckets (any number of ledgers, buckets, processes, any event list): writes on one ledger never change another ledger; '
               'reads are scoped whenever the alone-in-bucket flag is truthful, which the code guarantees for ledger creations made by the same process and for reads that follow OpenLedger; the full read statement is '
               'refuted for stores kept across a creation made by another process (witness replayed on the real code). Tied to the code by running model and real stack on the same interleaved event lists.',
    level_note='Trusted: Coq kernel, extraction, OCaml glue, Go harness, pgsem as stand-in for PostgreSQL (now with several schemas). Sequential interleavings only; the per-ledger step is Ledger/Core.v (postings '
               'requests, reverts, metadata), so numscript account-metadata reads and schema writes are outside the event alphabet.',
)
