# C36 / C38 — request decoders and amount exactness (coq/theories/Base/JsonTree.v, Ledger/Api.v, ApiProofs.v, ApiEffect.v)
_API_TRUST = ['modelled, not verified: encoding/json (struct/map/Unmarshaler dispatch, lexing, json.Number), math/big text I/O (big.Rat.SetString for integers spelled with exponent/fraction), fmt %v %s, regexp',
              'time.Parse(RFC3339Nano) is an abstract parameter of the decoder model (the theorems hold for every parser); its OCaml instance is compared with go-libs ParseTime on the timestamp corpus of the tie',
              'not modelled, exercised by the HTTP sweep only: chi routing, middlewares (auth, recover, ledger resolution/auto-create), go-libs api helpers, query-string parsing, cursors, filters; '
              'JSON lexing, duplicate and case-variant object keys are outside the generated corpus',
              'pgsem (harness/go/pgsem): executable stand-in for PostgreSQL under the HTTP sweep; SQL-dependent verdicts are relative to it']
_APIDEC_RULE = ('grammar-aware mutation of valid request bodies from one PRNG (VERIF_SEED): v2 transaction bodies (postings or script+vars, timestamp, reference, metadata, accountMetadata, runtime, force), '
                'ScriptV1 and v1 Script objects, bulk arrays (4 actions), metadata objects; 0-2 mutations per body out of: type confusion of any node (string/number/object/array/null/bool), boundary strings '
                '(addresses, assets at the regexp edges, timestamps), huge/fractional/negative numbers (1e400, max float64 +- 1ulp, 10^400, 5e-324 ...), amounts from the lattice {0,1,2^53+-1,2^63+-1,2^64+-1,10^30,random <=256 bit} '
                'as JSON numbers and as strings, dropped/unknown fields, null anywhere, wrong root type; non-trivial = accepted body, distinct by input; counters per mutation class and per outcome are in the distribution')
_SWEEP_RULE = ('HTTP sweep through the real api.NewRouter over the real system controller on pgsem: a ledger with history, then for every v1/v2 route mutated bodies, query strings (cursor, pageSize, pit/startTime/endTime, '
               'filters in the body and $match forms), path parameters, content types; amounts from the lattice posted through v1/v2 postings, script vars (string, monetary-number, bare number) and read back through '
               'transactions, accounts, volumes, aggregated balances with and without Formance-Bigint-As-String, plus balance filters with huge bounds; evaluations = HTTP requests; counters per mutation class in the distribution')

PROPS['C38'] = dict(
    target='Props/C38',
    theorems=['C38_total', 'C38_no_effect', 'C38_rejected_before_store', 'C38_write_answer_is_2xx_or_4xx', 'C38_error_status_no_effect', 'C38_named_rejections'],
    ties=[dict(name='TIE-C apidec', vh='apidec', model='apidec', case_head='apidec', n=dict(quick=12000, thorough=400000), kinds=['C38']),
          dict(name='TIE-D httpsweep', vh='httpsweep', model=None, n=dict(quick=1500, thorough=40000), kinds=['C38'], case_head='http', replayable=False)],
    rule=_APIDEC_RULE + ' || ' + _SWEEP_RULE,
    explanation='Proved for every JSON tree: the v2 decoders (TransactionRequest + ToCore + Postings.Validate, ScriptV1.ToCore, bulk elements, metadata) AND the v1 Script decoder never panic (C38_total); a body rejected by '
                'the decoder performs no store call and any non-success answer leaves all tables unchanged (C38_no_effect, C38_rejected_before_store, on top of the C07 frame theorem). The model follows the REPAIRED code: '
                'before fixes/01 v1 Script.ToCore panicked on a variable that is a JSON number/boolean/array (refuted then; a tree without the repair breaks the apidec correspondence and is reported). The theorems cover '
                'the decoding layer only; chi routing, middlewares, go-libs helpers, query-string/cursor/filter parsing are exercised by the sweep (status class, error envelope, ledger snapshot before/after), not modelled. '
                'The sweep found eight classes of client input answered 5xx on the original tree; each has a one-commit repair under fixes/ (known_findings.d/api.json, status fixed) and is reported again if it comes back.',
    trusted=_API_TRUST,
    technique='Coq proof (structural totality of the decoder models, composition with the controller step and the C07 frame theorem) + differential run of the extracted decoder model against the real '
              'decoders under recover() + HTTP sweep through the real router on pgsem with status-class / envelope / snapshot monitors',
    level_text='Unbounded theorems about the Gallina model of the request decoders (Ledger/Api.v): for every JSON tree the v1, v2, bulk and metadata decoders return a request or a client error, never a panic; a rejected body makes no store call '
               'and every non-success answer leaves the tables unchanged. Tied to the code by running model and real decoders on mutated bodies, and by an HTTP sweep of every v1/v2 route (4xx never 5xx/panic, JSON error envelope, snapshot unchanged).',
    level_note='Trusted: Coq kernel, extraction, OCaml glue (incl. the RFC 3339 instance of the abstract timestamp parser), Go harness, pgsem. The theorem covers the decoding layer; routing, middlewares, go-libs helpers, cursor/filter/query-string '
               'parsing are exercised by the sweep, not modelled.')

PROPS['C36'] = dict(
    target='Props/C36',
    theorems=['C36_decimal_roundtrip', 'C36_volumes_roundtrip', 'C36_posting_amount_exact', 'C36_v1_monetary_exact', 'C36_scriptv1_string_exact', 'C36_scriptv1_number_exact',
              'C36_scriptv1_bare_number_exact', 'C36_number_text_integer'],
    ties=[dict(name='TIE-C apidec', vh='apidec', model='apidec', case_head='apidec', n=dict(quick=12000, thorough=400000), kinds=['C36']),
          dict(name='TIE-D httpsweep', vh='httpsweep', model=None, n=dict(quick=600, thorough=20000), args=dict(all=['-focus', 'amounts']), kinds=['C36'], case_head='amount', replayable=False)],
    rule=_APIDEC_RULE + ' || ' + _SWEEP_RULE,
    explanation='Proved for ALL n : Z: decimal text round trip (big.Int String/SetString: JSON integers, SQL numeric text, bigint-as-string), Volumes.Value -> PostgreSQL composite I/O -> Volumes.Scan, postings amounts, v1 monetary '
                'variables, and the string AND JSON-number forms of script variables of the v2 / bulk API, bare numeric variables included (C36_scriptv1_number_exact, C36_scriptv1_bare_number_exact); integers spelled 1e3 / 100.0 are '
                'rendered as the integer, non-integers pass verbatim (the machine rejects them). The model follows the REPAIRED code (fixes/09: json.Number instead of float64); before the repair the number form was exact only below '
                '2^53 (refuted then). The ledger core is over Z (C01..C18 hold at any magnitude); storage/aggregation/filter exactness on the real stack is checked by the sweep (digit-exact read-back through every read API with and '
                'without Formance-Bigint-As-String, balance filters with huge bounds).',
    trusted=_API_TRUST,
    technique='Coq proof (decimal round trip via the standard library\'s DecimalString/DecimalZ lemmas, string lemmas for the composite codec, exactness of the decoders for every integer) '
              '+ differential run of the extracted model against the real decoders + HTTP amount sweep on pgsem',
    level_text='Unbounded theorems (all n : Z) about the Gallina models of the amount codecs and request decoders: every path from a request body (postings, v1 and v2 script variables as strings, JSON numbers or bare numbers) is exact. '
               'Tied to the code by model-vs-Go runs on the amount lattice and by posting lattice amounts through v1/v2 and reading them back digit-exact through every read API.',
    level_note='Trusted: Coq kernel, extraction, OCaml glue (incl. the spelling of non-integer literals, an abstract parameter of the model), Go harness, pgsem (numeric is modelled as unbounded integers). bun scanning/formatting and '
               'encoding/json are exercised for real, not modelled.')
