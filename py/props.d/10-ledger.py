# further ledger-level properties on the history harness (Ledger/Core.v)
ledger_prop('C04', ['C04_effective_volumes', 'C04_insert_anywhere', 'C04_moves_are_postings'],
            'Coq proof (invariant of the moves table preserved by an insert anywhere in effective order: BEFORE trigger = fold below the new row, AFTER trigger repairs the later rows; induction over histories) + differential run incl. raw moves rows',
            'Unbounded theorem: after any history with arbitrary past/equal/future effective timestamps (ties included), every stored move carries as post-commit effective volumes the fold of all moves of its account/asset at or before it in (effective date, seq) order; the moves of a transaction are its postings. Tie: model = real stack on the raw moves table and on the effectiveVolumes expand of transaction reads after every operation; monitor recomputes the fold in effective order from the rows the implementation stored.',
            'The two PL/pgSQL triggers are executed by pgsem from the text of the current migrations (multi-row insert: BEFORE sees earlier rows of the statement, AFTER fires at statement end); Core.set_effective/bump_later mirror them. The per-transaction read (last move per account/asset) is compared by the tie.',
            quick=200, thorough=4000, extra=['-features', 'pcev'])
ledger_prop('C25', ['C25_recorded_exactly', 'C25_insufficient_iff', 'C25_walk_balance', 'C25_force_never_insufficient'],
            'Coq proof (case analysis of the create step + characterisation of the feasibility walk by induction over the postings list) + differential run through the real TxToScriptData, compiler and machine',
            'Unbounded theorems: a successful postings request appends exactly one transaction whose postings are the submitted list verbatim (order, accounts, assets, amounts, zero amounts included); it fails with insufficient funds iff some posting is not forced, not from world, of positive amount and larger than its source balance after the earlier postings (= stored balance + net of earlier postings); never with force. Tie: model = real stack (TxToScriptData -> compiler -> machine -> store) on lists of up to 20 postings over few accounts; monitor re-walks the postings against the implementation\'s own balances.',
            'In Ledger/Core.v the machine on a TxToScriptData script is the walk [feasible]; that identification is validated by the differential run on the real compiler+machine (the Numscript machine itself is modelled under C22/C23).',
            quick=200, thorough=4000, extra=['-profile', 'postings'])
PROPS['C35'] = dict(
    target='Props/C35', theorems=['C35_simulates_featureless', 'C35_core_invariant', 'C35_same_answers', 'C35_no_moves_without_feature'],
    ties=[dict(name='TIE-D features', vh='feat', model='hist', n=dict(quick=20, thorough=150), args=dict(quick=['-combos', '6'], thorough=['-combos', '48']),
               kinds=['C35'], timeout=dict(quick=600, thorough=6000))],
    rule='each case: one history generated online under all features (create/revert/metadata/idempotent replays/dry runs, back-dated timestamps), then replayed on fresh real stacks under the MINIMAL feature set and under 6 (quick) / all 48 (thorough) combinations of MOVES_HISTORY x PCEV x HASH_LOGS{SYNC,ASYNC,DISABLED} x ACCOUNT_METADATA_HISTORY x TRANSACTION_METADATA_HISTORY; after every operation the core (result, transactions with postCommitVolumes, logs with payloads minus effective volumes, volumes, aggregated balances, accounts with metadata) is compared with the all-features run; 23 point-in-time / expand reads per combination must equal the all-features answer or be rejected; hash present iff SYNC. non-trivial = history with >=2 committed writes. The model line is Core.step under f0 against the real stack under the minimal feature set.',
    explanation='Theorem: erase(run f h) = run f0 h for every feature set and history (simulation of the featureless ledger), hence identical core and identical answers for any two combinations. The read side (missing-feature rejections) is checked by the monitor only; the call sites that answered instead of rejecting (balance filter at a PIT on accounts, effective reads without MOVES_HISTORY, transactions expand=effectiveVolumes) were repaired in /repo (b53b399 and the two commits after it) and the monitor has no exemption left.',
    trusted=HIST_TRUST, technique='Coq proof (simulation: erasing feature-added data commutes with every step; induction over histories) + differential run of the same history under sampled/all 48 feature combinations on the real stack',
    level_text='Unbounded theorem: for every feature set and history, erasing moves, metadata histories and effective volumes from the reached state gives exactly the state of the featureless ledger on the same history, and every operation returns the same answer; no move is recorded without MOVES_HISTORY. Tie: model under f0 = real stack under the minimal feature set; monitor compares the core across feature combinations on the real stack, hash presence, and that feature-dependent reads are rejected or equal to the all-features answer.',
    level_note=HIST_NOTE + ' HASH_LOGS is not part of Core.v (hashes are covered under C09/C10); its three values are exercised by the tie.')
ledger_prop('C13', ['C13_at_most_once', 'C13_replay_returns_original', 'C13_different_input_rejected', 'C13_failed_write_keeps_key_free',
                    'C13_script_replay_returns_original', 'C13_script_merged_request_rejected'],
            'Coq proof (invariant: at most one log per key; logs only grow, so the stored log is found after any continuation; case analysis of the step) + differential run with key-heavy histories + idempotency monitor',
            'Unbounded theorems (sequential executions): after any history at most one log carries a given key; once a write committed under a key, repeating it with the same input after ANY further history returns the original log and transaction id flagged as a hit and changes nothing, even if re-executing it would fail; a different input under the key fails with the idempotency-input error and no effect; failed and dry-run writes do not consume the key. Tie: model = real stack on histories where half of the operations carry keys and a quarter are replays with same or altered input (all write kinds, reverts with metadata included); monitor checks hit / error class / unchanged snapshot / one log per key on the implementation.',
            'Concurrent racers sharing a key are examined by the schedule harness (suspect S-13 in DESIGN.md), not by these theorems. The idempotency fingerprint is modelled as equality of the submitted input (the real code hashes the input after the operation ran; an operation that mutates its own input breaks the correspondence).',
            quick=200, thorough=4000, extra=['-profile', 'ik', '-scripts', '30'])

READS_RULE = ('each case: one history generated online on the real stack (as for the history tie, 7 feature sets, back/future-dated timestamps), then 24 probes at the final state: '
              'volumes with PIT and/or OOT in effective or insertion mode, aggregated balances at a PIT (both modes, optionally restricted to one account), accounts at a PIT '
              '(membership, metadata as of t), accounts with expand=volumes / effectiveVolumes at a PIT, transactions at a PIT (membership, reverted flag, metadata as of t); '
              'instants are drawn from the recorded dates and their +-1 microsecond neighbours, before all and after all; non-trivial = history with >=2 committed writes')
PROPS['C05'] = dict(
    target='Props/C05', theorems=['C05_window_volumes', 'C05_window_needs_moves', 'C05_effective_point_in_time', 'C05_insertion_point_in_time', 'C05_accounts_listed_iff', 'C05_transactions_listed_iff'],
    ties=[dict(name='TIE-D reads', vh='reads', model='reads', n=dict(quick=120, thorough=3000), args=dict(all=['-monitors', 'C05']), kinds=['C05'], case_head='reads')],
    rule=READS_RULE,
    explanation='Proved: window volumes (both date modes, bounds included) = fold of the postings in the window, via the invariant that the moves table lists the postings of the stored transactions dated like them; effective point-in-time volumes (first_value of post_commit_effective_volumes) = fold of the postings effective at or before t, via C04; listing membership and the reverted mask. Insertion-date point-in-time volumes (post_commit_volumes of the latest move by seq) = fold of the postings inserted at or before t, for histories whose clock never goes backwards, via the running-volume invariant of the moves table (C03). The aggregation per asset / restriction to one account on top of these volumes is compared by the tie, not restated as a theorem. The moves-off/PCEV-on configuration is excluded here (known finding under C35).',
    trusted=HIST_TRUST, technique='Coq proof (moves = postings invariant by induction over histories; window sum = fold; effective PIT via the C04 invariant and a per-key maximum lemma) + differential run of the read-side model against the real read paths at boundary instants',
    level_text='Unbounded theorems about Ledger/Reads.v (mirror of the resource handlers) over Ledger/Core.v: volumes read with a point in time and/or start time in either date mode equal the fold of the postings whose date falls in [oot, pit]; effective point-in-time volumes equal the fold of the postings effective at or before t; accounts/transactions are listed iff first usage / timestamp <= t, reverted iff reverted_at <= t. Tie: model = real stack on 24 PIT/OOT probes per history incl. instants exactly on recorded dates; monitor folds the postings the implementation returned.',
    level_note=HIST_NOTE)
PROPS['C17']['ties'].append(dict(name='TIE-D reads', vh='reads', model='reads', n=dict(quick=100, thorough=2500), args=dict(all=['-monitors', 'C17']), kinds=['C17'], case_head='reads'))
PROPS['C17']['explanation'] += ' Point-in-time metadata reads (accounts and transactions, all four feature combinations) are compared with the read-side model (Ledger/Reads.v: ahist_at / thist_at) and with a monitor replaying the metadata writes accepted up to t. Two defects found this way were repaired by fix: commits (known_findings.json: KF-C17-*).'

# TIE-F: fault injection at statement positions (driver error, transient deadlock, transient idempotency-key race) incl. dry runs
def fault_tie(pid, quick=120, thorough=3000, extra=None):
    return dict(name='TIE-F faults', vh='faultops', model=None, n=dict(quick=quick, thorough=thorough), args=dict(all=['-monitors', pid] + (extra or [])), kinds=[pid], case_head='faultops')
FAULT_NOTE = (' TIE-F: for every write kind (30% dry runs) after a random prefix history, the operation is re-run on a fresh real stack with a fault at a random statement position: '
              'a driver error, a transient deadlock (SQLSTATE 40P01 once: forgeLog rolls back and retries through forgeLogRetry/runTx) or a transient idempotency-key unique violation on '
              'the log insert (same retry path); the monitor requires an unchanged complete snapshot after every failed or dry-run operation (retried or not), the fault-free outcome after a '
              'transient fault, and exactly one new log iff the operation really succeeded. This tie has no model side (the model runs each operation in one atomic step); it is what ties '
              'the structural rollback of Ledger/Core.v to the code\'s use of transaction handles.')
PROPS['C07']['ties'].append(fault_tie('C07', extra=['-scripts', '30']))   # script creates under transient faults: the retry re-runs createTransaction on the same Parameters value
PROPS['C07']['explanation'] += FAULT_NOTE
PROPS['C08']['ties'].append(fault_tie('C08'))
PROPS['C08']['explanation'] += FAULT_NOTE

# TIE-H: the history tie through the real HTTP API (harness/go/vh/httpop.go): v2 requests in, v2 read endpoints out
def http_tie(pid, quick=150, thorough=3000, extra=None):
    args = ['-via', 'http', '-monitors', pid, '-features', 'mixed'] + (extra or [])
    return dict(name='TIE-H http', vh='hist', model='histh', n=dict(quick=quick, thorough=thorough), args=dict(all=args), kinds=[pid], case_head='histh')
HTTP_NOTE = (' TIE-H: the same generated histories are also issued as v2 HTTP requests against the real api.NewRouter (chi routing, body/query/header decoding incl. Idempotency-Key, '
             'dryRun, force in body or query, atEffectiveDate, error mapping to status + errorCode, views.go rendering with and without Formance-Bigint-As-String) and the ledger is read '
             'back through the v2 list endpoints followed cursor by cursor (volumes, transactions with expand, accounts with expand, logs, aggregated balances); the printed trace must '
             'equal the model\'s (results projected on what an HTTP answer shows: transaction id, hit flag, status:errorCode). Monitors without model: the API reads equal the controller '
             'reads after every operation; every page honours the requested page size; the transaction a write answers with equals the one listed right after, and its '
             'preCommitVolumes are post-commit minus own postings.')
for _pid, _extra in [('C02', None), ('C03', None), ('C13', ['-profile', 'ik', '-scripts', '30']), ('C15', None), ('C17', ['-scripts', '30', '-oddkeys', '1']), ('C25', ['-profile', 'postings'])]:
    PROPS[_pid]['ties'].append(http_tie(_pid, extra=_extra))
    PROPS[_pid]['explanation'] += HTTP_NOTE

def http1_tie(pid, quick=120, thorough=2500, extra=None):
    args = ['-via', 'http1', '-monitors', pid, '-features', 'mixed'] + (extra or [])
    return dict(name='TIE-H http v1', vh='hist', model='histh1', n=dict(quick=quick, thorough=thorough), args=dict(all=args), kinds=[pid], case_head='histh1')
HTTP1_NOTE = (' TIE-H v1: the same histories restricted to what the v1 API can express (no force/accountMetadata on create, no atEffectiveDate/metadata on revert; preview= spellings for dry runs, '
              'disableChecks for forced reverts) are issued as v1 requests (internal/api/v1), their one-element-array answers decoded (txid, postings digit for digit), the state read back through v2.')
for _pid, _extra in [('C02', None), ('C13', ['-profile', 'ik', '-scripts', '30']), ('C15', None), ('C25', ['-profile', 'postings'])]:
    PROPS[_pid]['ties'].append(http1_tie(_pid, extra=_extra))
    PROPS[_pid]['explanation'] += HTTP1_NOTE

# script creates (metadata set by the script AND at creation): on for the hist ties of C07, C13, C17 only (-scripts 30)
for _pid in ('C07', 'C13', 'C17'):
    PROPS[_pid]['explanation'] += SCRIPTS_NOTE
