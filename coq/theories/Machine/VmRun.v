(* Running a compiled program the way MachineNumscriptRuntimeAdapter.Execute does:
   SetVarsFromJSON, ResolveResources, ResolveBalances, Execute (vm/machine.go), on the concrete program of Compile.v. *)
From Coq Require Import List ZArith QArith String Bool Lia.
From LV Require Import Machine.Syntax Machine.Allot Machine.Lex Machine.Sem Machine.Vm Machine.Compile.
Import ListNotations.
Open Scope Z_scope.

Definition cval_value (c : cval) : vval :=
  match c with
  | CAccount s => XV (VAccount s) | CAsset s => XV (VAsset s) | CNumber n => XV (VNumber n)
  | CString s => XV (VString s) | CPortion q => XV (VPortion q) | CRemaining => XRemaining
  end.

(* Program.ParseVariablesJSON: every Variable resource present, well-typed and valid; nothing extraneous *)
Fixpoint vm_set_vars (rs : list cres) (given : list (string * value)) : bool :=
  match rs with
  | [] => true
  | KVar t x :: tl =>
      match lookup given x with
      | Some v => ty_eqb (ty_of v) t && validate_value v && vm_set_vars tl given
      | None => false
      end
  | _ :: tl => vm_set_vars tl given
  end.
Definition vm_plain_names (rs : list cres) : list string :=
  flat_map (fun r => match r with KVar _ x => [x] | _ => [] end) rs.
Definition vm_no_extraneous (rs : list cres) (given : list (string * value)) : bool :=
  forallb (fun nv => existsb (String.eqb (fst nv)) (vm_plain_names rs)) given.

(* ResolveResources: in table order; [bvs] = (resource index, (account, asset)) of the balance() variables *)
Fixpoint vm_resolve (rs : list cres) (given : list (string * value)) (s : store) (vals : list vval) (bvs : list (nat * key))
  : outcome (list vval * list (nat * key)) :=
  match rs with
  | [] => Ok (vals, bvs)
  | r :: tl =>
      match r with
      | KConst c => vm_resolve tl given s (vals ++ [cval_value c]) bvs
      | KVar t x =>
          match lookup given x with
          | Some v => vm_resolve tl given s (vals ++ [XV v]) bvs
          | None => Err EOther
          end
      | KVarMeta t x acc k =>
          match nth_error vals acc with
          | Some (XV (VAccount a)) =>
              match bget (st_meta s) (a, k) with
              | None => Err EMissingMeta
              | Some v => if ty_eqb (ty_of v) t && validate_value v then vm_resolve tl given s (vals ++ [XV v]) bvs else Err EOther
              end
          | _ => Panic
          end
      | KVarBal x acc asset =>
          match nth_error vals acc with
          | Some (XV (VAccount a)) =>
              match nth_error vals asset with
              | Some (XV (VAsset sa)) =>
                  vm_resolve tl given s (vals ++ [XV (VMonetary sa None)]) (bvs ++ [(List.length vals, (a, sa))])
              | Some _ => Err EOther
              | None => Err EOther
              end
          | _ => Panic
          end
      | KMon asset n =>
          match nth_error vals asset with
          | Some (XV (VAsset sa)) => vm_resolve tl given s (vals ++ [XV (VMonetary sa (Some n))]) bvs
          | _ => Panic
          end
      end
  end.

Fixpoint set_nth {A} (l : list A) (i : nat) (v : A) : list A :=
  match l, i with
  | [], _ => []
  | _ :: tl, O => v :: tl
  | x :: tl, S j => x :: set_nth tl j v
  end.

(* the (account, asset) pair a NeededBalances entry denotes *)
Definition needed_key (vals : list vval) (an : nat * nat) : option key :=
  match nth_error vals (fst an), nth_error vals (snd an) with
  | Some (XV (VAccount a)), Some (XV (VAsset s)) => Some (a, s)
  | Some (XV (VAccount a)), Some (XV (VMonetary s _)) => Some (a, s)
  | _, _ => None
  end.
Fixpoint needed_keys (vals : list vval) (l : list (nat * nat)) : option (list key) :=
  match l with
  | [] => Some []
  | an :: tl => match needed_key vals an, needed_keys vals tl with Some k, Some ks => Some (k :: ks) | _, _ => None end
  end.

(* ResolveBalances *)
Definition vm_resolve_balances (needed : list (nat * nat)) (s : store) (vals : list vval) (bvs : list (nat * key))
  : outcome (list vval * bals) :=
  match needed_keys vals needed with
  | None => Panic                      (* type assertions on the account / monetary resource *)
  | Some nd =>
      if existsb (fun k => String.eqb (fst k) "world"%string) nd then Err EInvalidVars
      else if existsb (fun ik => store_balance s (snd ik) <? 0) bvs then Err ENegativeAmount
      else
        let vals1 := fold_left (fun vs ik => set_nth vs (fst ik) (XV (VMonetary (snd (snd ik)) (Some (store_balance s (snd ik)))))) bvs vals in
        let tracked := dedup_keys (nd ++ map snd bvs) [] in
        Ok (vals1, map (fun k => (k, store_balance s k)) tracked)
  end.

Record vresult := { vr_posts : list npost; vr_tx : list (string * value); vr_acc : list (key * value); vr_bal : bals; vr_init : bals }.

Definition run_program (cp : cprogram) (given : list (string * value)) (s : store) : outcome vresult :=
  if negb (vm_set_vars (cp_res cp) given && vm_no_extraneous (cp_res cp) given) then Err EInvalidVars
  else
    do (vals0, bvs) <- vm_resolve (cp_res cp) given s [] [];
    do (vals, b0) <- vm_resolve_balances (cp_needed cp) s vals0 bvs;
    do st <- exec (nth_error vals) (cp_instrs cp) {| vstk := []; vbal := b0; vposts := []; vtx := []; vacc := [] |};
    do st1 <- finish st;
    Ok {| vr_posts := vposts st1; vr_tx := vtx st1; vr_acc := vacc st1; vr_bal := vbal st1; vr_init := b0 |}.

(* compiler.Compile followed by the machine *)
Definition vm_run (p : program) (given : list (string * value)) (s : store) : outcome vresult :=
  match compile p with
  | None => Err ECompile
  | Some cp => run_program cp given s
  end.

(* the observable part of a Sem result *)
Definition flat_result (r : result) : vresult :=
  {| vr_posts := all_postings r; vr_tx := rtx r; vr_acc := racc r; vr_bal := rbal r; vr_init := rinit r |}.
Definition flat_outcome (o : outcome result) : outcome vresult :=
  match o with Ok r => Ok (flat_result r) | Err e => Err e | Panic => Panic end.
