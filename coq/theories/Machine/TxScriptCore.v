(* Bridge between the machine-side theorem about TxToScriptData scripts (Machine/TxScript.v) and the ledger model's
   feasibility walk (Ledger/Core.v feasible), which the controller model uses for postings requests. *)
From Coq Require Import List ZArith String Bool Lia.
From LV Require Import Base.Util Ledger.Types Ledger.Core Ledger.VolProofs.
From LV Require Machine.Sem Machine.SemProofs Machine.TxScript.
Import ListNotations.
Open Scope Z_scope.

Definition conv (p : posting) : Sem.npost :=
  {| Sem.psrc := p_src p; Sem.pdst := p_dst p; Sem.passet := p_asset p; Sem.pamt := p_amt p |}.

Lemma walk_ext force ps : forall bal bal', (forall k, bal k = bal' k) -> TxScript.walk force bal ps = TxScript.walk force bal' ps.
Proof.
  induction ps as [|p r IH]; intros bal bal' H; simpl; [reflexivity|]. rewrite (H (Sem.psrc p, Sem.passet p)).
  f_equal. apply IH. intros k. unfold TxScript.apply_post. rewrite H. reflexivity.
Qed.

Lemma balance_apply_posting cur p k :
  balance (apply_posting cur p) k = balance cur k + SemProofs.effect (fst k) (snd k) [conv p].
Proof.
  unfold balance, apply_posting. rewrite !vget_vadd. unfold skey, dkey, key_eqb, pair_eqb, SemProofs.effect, conv. simpl.
  destruct k as [acc asset]. simpl.
  destruct (String.eqb (p_dst p) acc) eqn:Ed, (String.eqb (p_src p) acc) eqn:Es, (String.eqb (p_asset p) asset) eqn:Ea; simpl;
    unfold vplus; simpl; try rewrite !vget_vadd; unfold key_eqb, pair_eqb; simpl; rewrite ?Ed, ?Es, ?Ea; simpl; unfold vplus; simpl; lia.
Qed.

Lemma feasible_walk force ps : forall cur, feasible force cur ps = TxScript.walk force (balance cur) (map conv ps).
Proof.
  induction ps as [|p r IH]; intros cur; simpl; [reflexivity|]. f_equal. rewrite IH. apply walk_ext.
  intros k. apply balance_apply_posting.
Qed.

Section Naming.
Variable nacc : string -> string.
Variable nmon : string -> Z -> string.
Hypothesis nacc_inj : forall a b, nacc a = nacc b -> a = b.
Hypothesis nmon_inj : forall a x b y, nmon a x = nmon b y -> a = b /\ x = y.
Hypothesis n_disj : forall a b x, nacc a <> nmon b x.

(* Sem.run on the script TxToScriptData generates: exactly the submitted postings iff the in-order walk of
   Ledger/Core.v succeeds on the balances the store reports, insufficient funds otherwise *)
Theorem tx_script_feasible force ps vols s :
  Forall (fun p => TxScript.valid_post (conv p)) ps -> ps <> [] ->
  (forall k, Sem.store_balance s k = balance vols k) ->
  (feasible force vols ps = true ->
     exists r, Sem.run (TxScript.script_of nacc nmon force (map conv ps)) (TxScript.given_of nacc nmon (map conv ps)) s = Sem.Ok r /\
               Sem.all_postings r = map conv ps /\ Sem.rtx r = [] /\ Sem.racc r = []) /\
  (feasible force vols ps = false ->
     Sem.run (TxScript.script_of nacc nmon force (map conv ps)) (TxScript.given_of nacc nmon (map conv ps)) s = Sem.Err Sem.EInsufficient).
Proof.
  intros Hv Hne Hb. rewrite feasible_walk.
  assert (Forall TxScript.valid_post (map conv ps)) as Hv' by (apply Forall_map; assumption).
  assert (map conv ps <> []) as Hne' by (destruct ps; [contradiction|discriminate]).
  destruct (TxScript.tx_script_run nacc nmon nacc_inj nmon_inj n_disj force (map conv ps) Hv' Hne' s) as [H1 H2].
  rewrite (walk_ext force (map conv ps) (balance vols) (Sem.store_balance s)) by (intros k; symmetry; apply Hb).
  split.
  - intros Hw. destruct (H1 Hw) as [r [R1 [R2 [R3 [R4 [R5 R6]]]]]]. exists r. auto.
  - assumption.
Qed.
End Naming.

(* a concrete naming, used by the extracted model in the tie `nstx` (the result of a run does not depend on the names) *)
Definition cnacc (a : string) : string := ("a" ++ a)%string.
Definition cnmon (A : string) (x : Z) : string := ("m" ++ A ++ " " ++ string_of_Z x)%string.
Definition tx_run (force : bool) (ps : list Sem.npost) (s : Sem.store) : Sem.outcome Sem.result :=
  Sem.run (TxScript.script_of cnacc cnmon force ps) (TxScript.given_of cnacc cnmon ps) s.
