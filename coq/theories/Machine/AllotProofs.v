From Coq Require Import List ZArith QArith Qround Lia Lqa.
From LV Require Import Machine.Allot.
Import ListNotations.
Open Scope Z_scope.

Lemma floor_part_Qfloor amt p : floor_part amt p = Qfloor (inject_Z amt * p).
Proof. destruct p as [n d]; unfold floor_part, Qfloor, Qmult, inject_Z; simpl. reflexivity. Qed.

(* ---------- bump ---------- *)
Lemma bump_length d l : length (bump d l) = length l.
Proof. revert d; induction l as [|x xs IH]; intros d; simpl; [reflexivity|].
  destruct (0 <? d); simpl; rewrite IH; reflexivity. Qed.

Lemma bump_sum d l : 0 <= d <= Z.of_nat (length l) -> zsum (bump d l) = zsum l + d.
Proof. revert d; induction l as [|x xs IH]; intros d Hd; simpl in *; [lia|].
  destruct (0 <? d) eqn:E; simpl.
  - apply Z.ltb_lt in E. rewrite IH by lia. lia.
  - apply Z.ltb_ge in E. rewrite IH by lia. lia. Qed.

Lemma bump_nth d l i : (i < length l)%nat ->
  nth i (bump d l) 0 = nth i l 0 + (if Z.of_nat i <? d then 1 else 0).
Proof. revert d i; induction l as [|x xs IH]; intros d i Hi; simpl in *; [lia|].
  destruct (0 <? d) eqn:E; destruct i as [|i]; simpl.
  - rewrite E. reflexivity.
  - rewrite IH by lia. destruct (Z.of_nat i <? d - 1) eqn:E1; destruct (Z.pos (Pos.of_succ_nat i) <? d) eqn:E2;
      try reflexivity; exfalso;
      repeat match goal with H : (_ <? _) = true |- _ => apply Z.ltb_lt in H
                           | H : (_ <? _) = false |- _ => apply Z.ltb_ge in H end; lia.
  - rewrite E. lia.
  - rewrite IH by lia. destruct (Z.of_nat i <? d) eqn:E1; destruct (Z.pos (Pos.of_succ_nat i) <? d) eqn:E2;
      try reflexivity; exfalso;
      repeat match goal with H : (_ <? _) = true |- _ => apply Z.ltb_lt in H
                           | H : (_ <? _) = false |- _ => apply Z.ltb_ge in H end; lia. Qed.

(* ---------- the floor sandwich ---------- *)
Lemma qsum_scale (c : Q) l : (qsum (map (Qmult c) l) == c * qsum l)%Q.
Proof. induction l as [|x xs IH]; simpl; [ring|]. rewrite IH. ring. Qed.

Lemma inject_zsum l : (inject_Z (zsum l) == qsum (map inject_Z l))%Q.
Proof. induction l as [|x xs IH]; simpl; [reflexivity|]. rewrite inject_Z_plus, IH. reflexivity. Qed.

Lemma floors_sandwich amt a :
  let fl := map (floor_part amt) a in
  (inject_Z (zsum fl) <= inject_Z amt * qsum a)%Q /\
  (inject_Z amt * qsum a <= inject_Z (zsum fl + Z.of_nat (length a)))%Q.
Proof.
  induction a as [|p ps IH]; cbn [map zsum qsum length].
  - split; simpl; rewrite Qmult_0_r; apply Qle_refl.
  - destruct IH as [IH1 IH2].
    assert (Hlo := Qfloor_le (inject_Z amt * p)).
    assert (Hhi := Qlt_floor (inject_Z amt * p)).
    rewrite <- floor_part_Qfloor in Hlo, Hhi.
    rewrite Nat2Z.inj_succ.
    replace (floor_part amt p + zsum (map (floor_part amt) ps) + Z.succ (Z.of_nat (length ps)))
      with ((floor_part amt p + 1) + (zsum (map (floor_part amt) ps) + Z.of_nat (length ps))) by lia.
    rewrite !inject_Z_plus in *. rewrite Qmult_plus_distr_r.
    split.
    + apply Qplus_le_compat; assumption.
    + apply Qplus_le_compat; [apply Qlt_le_weak; assumption | assumption].
Qed.

Lemma deficit_range amt a : (qsum a == 1)%Q ->
  0 <= amt - zsum (map (floor_part amt) a) <= Z.of_nat (length a).
Proof.
  intros H1. destruct (floors_sandwich amt a) as [Hlo Hhi]. cbv zeta in *.
  rewrite H1, Qmult_1_r in Hlo, Hhi.
  rewrite <- Zle_Qle in Hlo, Hhi. lia.
Qed.

(* ---------- Allocate ---------- *)
Lemma allocate_length amt a : length (allocate amt a) = length a.
Proof. unfold allocate. rewrite bump_length, map_length. reflexivity. Qed.

Lemma allocate_sum amt a : (qsum a == 1)%Q -> zsum (allocate amt a) = amt.
Proof. intros H. unfold allocate. rewrite bump_sum.
  - lia.
  - rewrite map_length. apply deficit_range; assumption. Qed.

Lemma allocate_nth amt a i : (i < length a)%nat ->
  nth i (allocate amt a) 0 =
  floor_part amt (nth i a 0%Q) +
  (if Z.of_nat i <? amt - zsum (map (floor_part amt) a) then 1 else 0).
Proof. intros Hi. unfold allocate. rewrite bump_nth by (rewrite map_length; exact Hi).
  f_equal. assert (Z0 : floor_part amt 0%Q = 0) by (unfold floor_part; simpl; rewrite Z.mul_0_r; reflexivity).
  rewrite <- Z0 at 1. apply map_nth. Qed.

Lemma allocate_bounds amt a i : (i < length a)%nat ->
  floor_part amt (nth i a 0%Q) <= nth i (allocate amt a) 0 <= floor_part amt (nth i a 0%Q) + 1.
Proof. intros Hi. rewrite allocate_nth by exact Hi. destruct (_ <? _); lia. Qed.

Lemma allocate_nonneg amt a : 0 <= amt -> Forall (fun q => (0 <= q)%Q) a ->
  Forall (fun z => 0 <= z) (allocate amt a).
Proof.
  intros Ha Hq. unfold allocate. generalize (amt - zsum (map (floor_part amt) a)) as d.
  induction Hq as [|q qs Hq0 _ IH]; intros d; simpl; [constructor|].
  assert (0 <= floor_part amt q).
  { unfold floor_part. apply Z.div_pos; [|lia]. unfold Qle in Hq0; simpl in Hq0. nia. }
  destruct (0 <? d); constructor; try lia; apply IH. Qed.

(* ---------- NewAllotment ---------- *)
Lemma qsum_app l1 l2 : (qsum (l1 ++ l2) == qsum l1 + qsum l2)%Q.
Proof. induction l1 as [|x xs IH]; simpl; [ring|]. rewrite IH; ring. Qed.

Lemma qsum_fill ps r :
  (qsum (map (fun p => match p with Specific q => q | Remaining => r end) ps)
   == qsum (specifics ps) + inject_Z (Z.of_nat (count_remaining ps)) * r)%Q.
Proof.
  unfold count_remaining. induction ps as [|p ps IH]; simpl.
  - ring.
  - destruct p as [q|]; simpl.
    + rewrite IH. ring.
    + rewrite IH. rewrite Zpos_P_of_succ_nat. unfold Z.succ. rewrite inject_Z_plus. ring.
Qed.

Lemma new_allotment_total ps a : new_allotment ps = inr a ->
  (count_remaining ps = 1%nat -> (qsum a == 1)%Q) /\
  (count_remaining ps = 0%nat -> (qsum a == qsum (specifics ps))%Q /\ (qsum a <= 1)%Q).
Proof.
  unfold new_allotment. destruct (Nat.ltb 1 (count_remaining ps)) eqn:E; [discriminate|].
  destruct (Qlt_le_dec 1 (qsum (specifics ps))) as [|Hle]; [discriminate|].
  intros H; injection H as <-.
  split; intros Hc; rewrite qsum_fill, Hc; simpl.
  - ring.
  - split; [ring|]. ring_simplify. exact Hle.
Qed.
