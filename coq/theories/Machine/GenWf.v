(* Well-formedness of what the compiler refers to: every resource description pushed or allocated by [gen] for a
   checked program is well-typed in the environment of the run (a monetary's asset resource holds an asset, a
   metadata/balance variable's account resource holds an account, ...).  This is what ResolveResources needs in order
   not to hit a type assertion. *)
From Coq Require Import List ZArith QArith String Bool Lia.
From LV Require Import Machine.Syntax Machine.Allot Machine.Lex Machine.Sem Machine.SemProofs Machine.EnvProofs
  Machine.Vm Machine.Compile Machine.VmRun Machine.CompileCorrect.
Import ListNotations.
Open Scope Z_scope.

Definition is_asset_v (v : vval) : Prop := exists s, v = XV (VAsset s).
Definition is_account_v (v : vval) : Prop := exists a, v = XV (VAccount a).

Fixpoint rok (e : env) (r : rdesc) : Prop :=
  match r with
  | RMon ra _ => rok e ra /\ is_asset_v (denote e ra)
  | RVarMeta _ _ acc _ => rok e acc /\ is_account_v (denote e acc)
  | RVarBal _ acc asset => rok e acc /\ is_account_v (denote e acc) /\ rok e asset /\ is_asset_v (denote e asset)
  | _ => True
  end.

Definition ev_ok (Pr : rdesc -> Prop) (v : event) : Prop :=
  match v with EAlloc r => Pr r | EIns (IApush r) => Pr r | _ => True end.
Definition evs_ok (Pr : rdesc -> Prop) (evs : list event) : Prop := Forall (ev_ok Pr) evs.

Ltac eok := unfold evs_ok, gbump, push_int, ins, ev in *;
  repeat first [assumption | apply Forall_app; split | apply Forall_cons | apply Forall_nil]; simpl; auto.

Section Wf.
Variable te : tenv.
Variable e : env.
Variable ve : venv.
Hypothesis Hcons : cons_env te e.
Hypothesis Hve : venv_ok te ve.
(* the property established of every resource referred to: it holds of constants, of the variables' resources, and
   of a monetary whose asset resource has it and holds an asset *)
Variable Pr : rdesc -> Prop.
Hypothesis Pc : forall c, Pr (RConst c).
Hypothesis Pm : forall ra n, Pr ra -> is_asset_v (denote e ra) -> Pr (RMon ra n).
Hypothesis Hrok : forall x r, lookup ve x = Some r -> Pr r.

Ltac eok ::= unfold evs_ok, gbump, push_int, ins, ev in *;
  repeat first [assumption | apply Forall_app; split | apply Forall_cons | apply Forall_nil]; simpl; auto;
  try (apply Pm; assumption); try apply Pc.

Lemma rok_rvar x t : lookup te x = Some t -> Pr (rvar ve x).
Proof. intros H. destruct (Hve _ _ H) as [r [H1 _]]. unfold rvar. rewrite H1. apply (Hrok _ _ H1). Qed.

Lemma rok_acc a : chk_acc te a = true -> Pr (res_acc ve a) /\ is_account_v (denote e (res_acc ve a)).
Proof.
  intros H. split.
  - destruct a as [s|x]; simpl; [apply Pc|]. apply (rok_rvar x _ (has_ty_lookup te _ _ H)).
  - rewrite (denote_acc te e ve Hcons Hve a H). eexists. reflexivity.
Qed.

Lemma rok_asset a : chk_asset te a = true -> Pr (res_asset ve a) /\ is_asset_v (denote e (res_asset ve a)).
Proof.
  intros H. split.
  - destruct a as [s|x]; simpl; [apply Pc|]. apply (rok_rvar x _ (has_ty_lookup te _ _ H)).
  - rewrite (denote_asset te e ve Hcons Hve a H). eexists. reflexivity.
Qed.

Lemma ok_mon b m : chk_mon te m = true -> evs_ok Pr (gen_mon ve b m).
Proof.
  induction m as [a n|x|l IHl r IHr|l IHl r IHr]; simpl; intros H.
  - apply andb_prop in H. destruct H as [Ha _]. destruct (rok_asset a Ha) as [R1 R2]. destruct b; eok.
  - pose proof (rok_rvar x _ (has_ty_lookup te _ _ H)). destruct b; eok.
  - apply andb_prop in H. destruct H as [H _]. apply andb_prop in H. destruct H as [H1 H2]. destruct b; eok.
  - apply andb_prop in H. destruct H as [H _]. apply andb_prop in H. destruct H as [H1 H2]. destruct b; eok.
Qed.

Lemma rok_mon_res m : chk_mon te m = true -> Pr (mon_res ve m).
Proof.
  intros H. pose proof (chk_mon_leftmost te m H) as Hl. unfold mon_res. destruct (leftmost m) as [a n|x| |]; simpl in Hl |- *; try apply Pc.
  - apply andb_prop in Hl. destruct Hl as [Ha _]. destruct (rok_asset a Ha) as [R1 R2]. apply Pm; assumption.
  - apply (rok_rvar x _ (has_ty_lookup te _ _ Hl)).
Qed.

Lemma ok_val v : chk_val te v = true -> evs_ok Pr (gen_val ve v).
Proof.
  destruct v; simpl; intros H; try (eok; fail).
  - apply (ok_mon true m H).
  - unfold declared in H. destruct (lookup te x) as [t|] eqn:E; [|discriminate]. pose proof (rok_rvar x t E). eok.
Qed.

Lemma ok_after_take_max fb d : (forall fa, fb = Some fa -> chk_acc te fa = true) -> evs_ok Pr (gen_after_take_max ve fb d).
Proof.
  intros H. unfold gen_after_take_max. destruct fb as [fa|]; [destruct (rok_acc fa (H fa eq_refl)) as [R _]; eok|destruct d; eok].
Qed.

Lemma ok_take_from_source fb : (forall fa, fb = Some fa -> chk_acc te fa = true) -> evs_ok Pr (gen_take_from_source ve fb).
Proof.
  intros H. unfold gen_take_from_source. destruct fb as [fa|]; [|eok]. apply Forall_app. split; [eok|apply ok_after_take_max; assumption].
Qed.

Lemma ok_source pa : evs_ok Pr pa ->
  (forall s isAll r, chk_source te isAll s = Some r -> evs_ok Pr (gen_source ve pa s)) /\
  (forall l isAll em r, chk_sources te isAll l em = Some r -> evs_ok Pr (gen_sources ve pa l)).
Proof.
  intros Hpa. apply source_mutind.
  - intros a o isAll r H. simpl in H. destruct (chk_acc te a) eqn:Ea; [|discriminate]. simpl in H. destruct (rok_acc a Ea) as [R _].
    simpl gen_source. destruct o as [|m|].
    + destruct (is_world a); eok.
    + destruct (is_world a); [discriminate|]. destruct (chk_mon te m) eqn:Em; [|discriminate]. pose proof (ok_mon true m Em). eok.
    + eok.
  - intros m s IH isAll r H. simpl in H. destruct (chk_source te false s) as [r0|] eqn:Es; [|discriminate].
    destruct (chk_mon te m) eqn:Em; [|discriminate]. simpl gen_source.
    pose proof (IH _ _ Es). pose proof (ok_mon true m Em). pose proof (ok_after_take_max (fallback_of s) true (proj1 (chk_fallback te) _ _ _ Es)). eok.
  - intros l IH isAll r H. simpl in H. destruct l as [|s0 l0] eqn:El; [discriminate|]. rewrite <- El in *. simpl gen_source.
    pose proof (IH _ _ _ H). eok.
  - intros. simpl. constructor.
  - intros s IHs l IHl isAll em r H. simpl in H. destruct (chk_source te isAll s) as [[em1 fb]|] eqn:E; [|discriminate].
    destruct (overlap em1 em); [discriminate|]. simpl gen_sources. apply Forall_app. split; [apply (IHs _ _ E)|].
    destruct l as [|s2 l2]; [constructor|]. destruct (is_some fb); [discriminate|]. apply (IHl _ _ _ H).
Qed.

Lemma ok_portions ps : forallb (chk_portion te) ps = true -> evs_ok Pr (map (gen_portion ve) ps).
Proof.
  induction ps as [|p tl IH]; simpl; intros H; [constructor|]. apply andb_prop in H. destruct H as [Hp H]. constructor; [|apply IH; assumption].
  destruct p as [q|x|]; simpl; try apply Pc. apply (rok_rvar x _ (has_ty_lookup te _ _ Hp)).
Qed.

Lemma ok_allotment ps : chk_portions te ps = true -> evs_ok Pr (gen_allotment ve ps).
Proof.
  intros H. unfold gen_allotment. apply Forall_app. split; [|eok]. apply ok_portions. apply forallb_forall. intros p Hp.
  apply in_rev in Hp. pose proof (chk_portions_each te _ H) as Ha. rewrite forallb_forall in Ha. auto.
Qed.

Lemma ok_alloc_sources pa : evs_ok Pr pa -> forall l i,
  forallb (fun ps => is_some (chk_source te false (snd ps))) l = true -> evs_ok Pr (gen_alloc_sources ve pa i l).
Proof.
  intros Hpa. induction l as [|[p s] tl IH]; intros i H; simpl; [constructor|]. simpl in H. apply andb_prop in H. destruct H as [Hs H].
  destruct (chk_source te false s) as [r0|] eqn:Es; [|discriminate].
  pose proof (proj1 (ok_source pa Hpa) _ _ _ Es). pose proof (ok_take_from_source (fallback_of s) (proj1 (chk_fallback te) _ _ _ Es)).
  pose proof (IH (i + 1) H). eok.
Qed.

Lemma ok_dest :
  (forall d, chk_dest te d = true -> evs_ok Pr (gen_dest ve d)) /\
  (forall k, chk_kod te k = true -> evs_ok Pr (gen_kod ve k)) /\
  (forall l, chk_dmaxes te l = true -> evs_ok Pr (gen_dmaxes ve l)) /\
  (forall l, chk_dallots te l = true -> evs_ok Pr (gen_dallots ve l)).
Proof.
  apply dest_mutind.
  - intros a H. simpl in H. destruct (rok_acc a H) as [R _]. simpl. eok.
  - intros l IHl r IHr H. simpl in H. destruct l as [|m0 k0 l0] eqn:El; [discriminate|]. rewrite <- El in *.
    apply andb_prop in H. destruct H as [H1 H2]. pose proof (IHl H1). pose proof (IHr H2). simpl gen_dest. eok.
  - intros l IH H. simpl in H. apply andb_prop in H. destruct H as [Hp H]. pose proof (IH H). pose proof (ok_allotment _ Hp). simpl gen_dest. eok.
  - intros _. constructor.
  - intros d IH H. apply (IH H).
  - intros _. constructor.
  - intros m k IHk l IHl H. simpl in H. apply andb_prop in H. destruct H as [H H3]. apply andb_prop in H. destruct H as [H1 H2].
    pose proof (IHk H2). pose proof (IHl H3). pose proof (ok_mon true m H1). simpl gen_dmaxes. eok.
  - intros _. constructor.
  - intros p k IHk l IHl H. simpl in H. apply andb_prop in H. destruct H as [H1 H2]. pose proof (IHk H1). pose proof (IHl H2). simpl gen_dallots. eok.
Qed.

Lemma ok_stmt s : chk_stmt te s = true -> evs_ok Pr (gen_stmt ve s).
Proof.
  destruct s as [m vs d|a src d|key v|a key v|m a|a acc|]; simpl; intros H.
  - apply andb_prop in H. destruct H as [H Hd]. apply andb_prop in H. destruct H as [Hm Hvs].
    pose proof (ok_mon false m Hm). pose proof (ok_mon true m Hm). pose proof (proj1 ok_dest d Hd). pose proof (rok_mon_res m Hm) as Hr.
    assert (evs_ok Pr [ev true (mon_res ve m); ins IAsset]) as Hpa by eok.
    destruct vs as [src|l]; simpl in Hvs.
    + destruct (chk_source te false src) as [r0|] eqn:Es; [|discriminate].
      pose proof (proj1 (ok_source _ Hpa) _ _ _ Es). pose proof (ok_take_from_source (fallback_of src) (proj1 (chk_fallback te) _ _ _ Es)). eok.
    + apply andb_prop in Hvs. destruct Hvs as [Hp Hss]. pose proof (ok_allotment _ Hp). pose proof (ok_alloc_sources _ Hpa l 0 Hss). eok.
  - apply andb_prop in H. destruct H as [H Hd]. apply andb_prop in H. destruct H as [Ha Hs].
    destruct (chk_source te true src) as [r0|] eqn:Es; [|discriminate]. destruct (rok_asset a Ha) as [R _].
    assert (evs_ok Pr [ev true (res_asset ve a)]) as Hpa by eok.
    pose proof (proj1 (ok_source _ Hpa) _ _ _ Es). pose proof (proj1 ok_dest d Hd). destruct (src_plain src); eok.
  - pose proof (ok_val v H). eok.
  - apply andb_prop in H. destruct H as [Hv Ha]. pose proof (ok_val v Hv). destruct (rok_acc a Ha) as [R _]. eok.
  - apply andb_prop in H. destruct H as [Hm Ha]. pose proof (ok_mon false m Hm). pose proof (rok_mon_res m Hm). destruct (rok_acc a Ha) as [R _]. eok.
  - apply andb_prop in H. destruct H as [Ha Hacc]. destruct (rok_asset a Ha) as [R _]. destruct (rok_acc acc Hacc) as [R2 _]. eok.
  - eok.
Qed.

(* ---------- NeededBalances: the (account, monetary/asset) resource pairs denote the keys Sem tracks ---------- *)
Lemma needed_source :
  (forall s isAll r, chk_source te isAll s = Some r ->
     Forall Pr (gsrc_needed ve s) /\ map (denote e) (gsrc_needed ve s) = map (fun a => XV (VAccount a)) (src_needed e s)) /\
  (forall l isAll em r, chk_sources te isAll l em = Some r ->
     Forall Pr (gsrcs_needed ve l) /\ map (denote e) (gsrcs_needed ve l) = map (fun a => XV (VAccount a)) (srcs_needed e l)).
Proof.
  apply source_mutind.
  - intros a o isAll r H. simpl in H. destruct (chk_acc te a) eqn:Ea; [|discriminate]. destruct (rok_acc a Ea) as [R _].
    pose proof (denote_acc te e ve Hcons Hve a Ea) as Hd. simpl.
    destruct o as [|m|]; try (split; [constructor|reflexivity]);
      (destruct (is_world a); [split; [constructor|reflexivity]|]); simpl; rewrite Hd; (split; [repeat constructor; assumption|reflexivity]).
  - intros m s IH isAll r H. simpl in H. destruct (chk_source te false s) as [r0|] eqn:Es; [|discriminate]. simpl. apply (IH _ _ Es).
  - intros l IH isAll r H. simpl in H. destruct l as [|s0 l0] eqn:El; [discriminate|]. rewrite <- El in *. simpl. apply (IH _ _ _ H).
  - intros. simpl. split; [constructor|reflexivity].
  - intros s IHs l IHl isAll em r H. simpl in H. destruct (chk_source te isAll s) as [[em1 fb]|] eqn:E; [|discriminate].
    destruct (overlap em1 em); [discriminate|]. simpl. destruct (IHs _ _ E) as [A1 A2].
    assert (Forall Pr (gsrcs_needed ve l) /\ map (denote e) (gsrcs_needed ve l) = map (fun a => XV (VAccount a)) (srcs_needed e l)) as [B1 B2].
    { destruct l as [|s2 l2]; [split; [constructor|reflexivity]|]. destruct (is_some fb); [discriminate|]. apply (IHl _ _ _ H). }
    split; [apply Forall_app; split; assumption|]. rewrite !map_app, A2, B2. reflexivity.
Qed.

Definition pair_den (an : rdesc * rdesc) : vval * vval := (denote e (fst an), denote e (snd an)).

Lemma needed_stmt s : chk_stmt te s = true ->
  Forall (fun an => Pr (fst an) /\ Pr (snd an)) (gstmt_needed ve s) /\
  map pair_den (gstmt_needed ve s) =
  map (fun k => (XV (VAccount (fst k)), match s with
                                        | Send m _ _ => XV (VMonetary (fst (leaf_value e m)) (snd (leaf_value e m)))
                                        | _ => XV (VAsset (snd k)) end)) (stmt_needed e s).
Proof.
  assert (Hmap : forall (l : list rdesc) (la : list string) (rm : rdesc) (vm : vval) (sa : string), Forall Pr l -> Pr rm -> denote e rm = vm ->
            map (denote e) l = map (fun a => XV (VAccount a)) la ->
            Forall (fun an => Pr (fst an) /\ Pr (snd an)) (map (fun a => (a, rm)) l) /\
            map pair_den (map (fun a => (a, rm)) l) = map (fun k : key => (XV (VAccount (fst k)), vm)) (map (fun a => (a, sa)) la)).
  { induction l as [|r tl IH]; intros la rm vm sa Hf Hrm Hd Hm; destruct la as [|a la']; simpl in Hm; try discriminate; simpl; [split; [constructor|reflexivity]|].
    injection Hm as Ha Hm'. destruct (IH la' rm vm sa (Forall_inv_tail Hf) Hrm Hd Hm') as [I1 I2]. split.
    - constructor; [split; [apply (Forall_inv Hf)|assumption]|assumption].
    - unfold pair_den at 1. simpl. rewrite Ha, Hd, I2. reflexivity. }
  destruct s as [m vs d|a src d|key v|a key v|m a|a acc|]; simpl; intros H; try (split; [constructor|reflexivity]).
  - apply andb_prop in H. destruct H as [H Hd]. apply andb_prop in H. destruct H as [Hm Hvs].
    pose proof (rok_mon_res m Hm) as Hr. pose proof (denote_mon_res te e ve Hcons Hve m Hm) as Hdm.
    destruct vs as [src|l]; simpl in Hvs.
    + destruct (chk_source te false src) as [r0|] eqn:Es; [|discriminate]. destruct (proj1 needed_source _ _ _ Es) as [A1 A2].
      simpl. apply (Hmap _ _ _ _ (mon_asset e m) A1 Hr Hdm A2).
    + apply andb_prop in Hvs. destruct Hvs as [_ Hss]. simpl.
      assert (Forall Pr (flat_map (fun ps => gsrc_needed ve (snd ps)) l) /\
              map (denote e) (flat_map (fun ps => gsrc_needed ve (snd ps)) l) = map (fun a => XV (VAccount a)) (flat_map (fun ps => src_needed e (snd ps)) l)) as [A1 A2].
      { induction l as [|ps tl IH]; [split; [constructor|reflexivity]|]. simpl in Hss. apply andb_prop in Hss. destruct Hss as [H1 H2].
        destruct (chk_source te false (snd ps)) as [r0|] eqn:Es; [|discriminate]. destruct (proj1 needed_source _ _ _ Es) as [B1 B2].
        destruct (IH H2) as [C1 C2]. simpl. split; [apply Forall_app; split; assumption|]. rewrite !map_app, B2, C2. reflexivity. }
      apply (Hmap _ _ _ _ (mon_asset e m) A1 Hr Hdm A2).
  - apply andb_prop in H. destruct H as [H Hd]. apply andb_prop in H. destruct H as [Ha Hs].
    destruct (chk_source te true src) as [r0|] eqn:Es; [|discriminate]. destruct (rok_asset a Ha) as [R _].
    destruct (proj1 needed_source _ _ _ Es) as [A1 A2].
    destruct (Hmap _ _ _ _ (eval_asset e a) A1 R (denote_asset te e ve Hcons Hve a Ha) A2) as [I1 I2]. split; [assumption|].
    rewrite I2, !map_map. reflexivity.
Qed.
End Wf.
