(* Compiler correctness, symbolic level: executing the instructions [gen] emits (APUSH operands = resource
   descriptions, looked up by their denotation in the resolved environment) computes exactly what the big-step
   semantics Sem.v computes.  One stack-effect equation per compile function:
       exec (code (gen_X x) ++ k) st  =  do r <- Sem_X x ...; exec k (st with r pushed)
   so Panic / Err / Ok outcomes agree by construction. *)
From Coq Require Import List ZArith QArith String Bool Lia.
From LV Require Import Machine.Syntax Machine.Allot Machine.Lex Machine.Sem Machine.SemProofs Machine.EnvProofs
  Machine.Vm Machine.Compile Machine.VmRun.
Import ListNotations.
Open Scope Z_scope.

Fixpoint code (evs : list event) : list (instr rdesc) :=
  match evs with
  | [] => []
  | EIns i :: r => i :: code r
  | EAlloc _ :: r => code r
  end.
Lemma code_app a b : code (a ++ b) = code a ++ code b.
Proof. induction a as [|[r|i] a IH]; simpl; [reflexivity|assumption|rewrite IH; reflexivity]. Qed.

Definition asset_of (v : vval) : string :=
  match v with XV (VAsset s) => s | XV (VMonetary s _) => s | _ => ""%string end.

(* what a resource holds once resolved, in terms of the environment of Sem *)
Fixpoint denote (e : env) (r : rdesc) : vval :=
  match r with
  | RConst c => cval_value c
  | RVar _ x | RVarMeta _ x _ _ | RVarBal x _ _ => XV (match lookup e x with Some v => v | None => VString ""%string end)
  | RMon ra n => XV (VMonetary (asset_of (denote e ra)) (Some n))
  end.

Ltac norm := rewrite ?code_app, <- ?app_assoc.
Ltac bnd := cbv beta iota delta [bind with_stk with_stk_bal vstk vbal vposts vtx vacc].

(* ---------- BUMP ---------- *)
Lemma bump_app l x r : bump (List.length l) (l ++ x :: r) = Some (x :: l ++ r).
Proof. induction l as [|v l IH]; simpl; [reflexivity|]. rewrite IH. reflexivity. Qed.

(* ---------- FUNDING_ASSEMBLE against Sem.assemble ---------- *)
Lemma pop_fundings_all fs : forall asset acc stk,
  pop_fundings (List.length fs) asset acc (map XFunding fs ++ stk) =
  if forallb (fun f => String.eqb (fasset f) asset) fs then Ok (rev fs ++ acc, stk) else Err EInvalidScript.
Proof.
  induction fs as [|f fs IH]; intros asset acc stk; simpl; [reflexivity|].
  destruct (String.eqb (fasset f) asset); simpl; [|reflexivity]. rewrite IH.
  destruct (forallb _ fs); [|reflexivity]. rewrite <- app_assoc. reflexivity.
Qed.

(* fs: first pushed first; the stack holds them last pushed on top *)
Lemma assemble_stack {A} (g : list vval -> A) fs stk :
  match fs with
  | [] => Err EInvalidScript
  | _ => match map XFunding (rev fs) ++ stk with
         | XFunding first :: r1 =>
             do (gs, r2) <- pop_fundings (Nat.pred (List.length fs)) (fasset first) [first] r1;
             Ok (g (XFunding {| fasset := fasset first; fparts := fold_left (fun acc f => concat_parts acc (fparts f)) gs [] |} :: r2))
         | _ => Panic
         end
  end = do f <- assemble fs; Ok (g (XFunding f :: stk)).
Proof.
  destruct fs as [|f0 fs0]; [reflexivity|]. set (fs := f0 :: fs0). unfold assemble.
  destruct (rev fs) as [|lastf tl] eqn:Er.
  { exfalso. apply (f_equal (@List.length _)) in Er. rewrite rev_length in Er. discriminate. }
  simpl map. simpl app.
  assert (List.length fs = S (List.length tl)) as Hlen by (rewrite <- (rev_length fs), Er; reflexivity).
  rewrite Hlen. simpl Nat.pred. rewrite pop_fundings_all.
  assert (forallb (fun f => String.eqb (fasset f) (fasset lastf)) fs = forallb (fun f => String.eqb (fasset f) (fasset lastf)) tl) as Hf.
  { rewrite <- (rev_involutive fs), Er. simpl. rewrite forallb_app. simpl. rewrite String.eqb_refl, andb_true_r.
    clear. induction tl as [|x tl IH]; [reflexivity|]. simpl. rewrite forallb_app. simpl. rewrite IH, andb_true_r, andb_comm. reflexivity. }
  rewrite Hf. destruct (forallb _ tl); [|reflexivity]. simpl.
  assert (rev tl ++ [lastf] = fs) as Hr by (rewrite <- (rev_involutive fs), Er; reflexivity).
  rewrite Hr. reflexivity.
Qed.

Lemma vm_assemble_spec fs stk :
  vm_assemble (Z.of_nat (List.length fs)) (map XFunding (rev fs) ++ stk) = do f <- assemble fs; Ok (XFunding f :: stk).
Proof.
  unfold vm_assemble. destruct fs as [|f0 fs0]; [reflexivity|].
  set (fs := f0 :: fs0) in *. replace (Z.of_nat (List.length fs) =? 0) with false by (symmetry; apply Z.eqb_neq; simpl; lia).
  replace (Z.of_nat (List.length fs) <? 0) with false by (symmetry; apply Z.ltb_ge; lia). rewrite Nat2Z.id.
  apply (assemble_stack (fun s => s) fs stk).
Qed.
Lemma vm_assemble2 a b stk : vm_assemble 2 (XFunding b :: XFunding a :: stk) = do f <- assemble [a; b]; Ok (XFunding f :: stk).
Proof. apply (vm_assemble_spec [a; b] stk). Qed.
Arguments vm_assemble : simpl never.

Section Correct.
Variable te : tenv.
Variable e : env.
Variable ve : venv.
Hypothesis Hcons : cons_env te e.
(* every declared variable's resource description denotes the variable *)
Hypothesis Hve : forall x t, lookup te x = Some t -> exists r, lookup ve x = Some r /\ var_name r = Some x.

Notation L := (fun r : rdesc => Some (denote e r)).

Lemma denote_var x t : lookup te x = Some t -> exists v, lookup e x = Some v /\ ty_of v = t /\ denote e (rvar ve x) = XV v.
Proof.
  intros H. destruct (Hve _ _ H) as [r [H1 H2]]. destruct (proj1 Hcons _ _ H) as [v [H3 H4]].
  exists v. repeat split; try assumption. unfold rvar. rewrite H1.
  destruct r; simpl in H2; try discriminate; inv H2; simpl; rewrite H3; reflexivity.
Qed.

Lemma has_ty_lookup x t : has_ty te x t = true -> lookup te x = Some t.
Proof. unfold has_ty. destruct (lookup te x) as [t'|]; [|discriminate]. intros H. apply ty_eqb_eq in H. congruence. Qed.

Lemma denote_acc a : chk_acc te a = true -> denote e (res_acc ve a) = XV (VAccount (eval_acc e a)).
Proof.
  destruct a as [s|x]; simpl; [reflexivity|]. intros H. destruct (denote_var _ _ (has_ty_lookup _ _ H)) as [v [H1 [H2 H3]]].
  rewrite H3, H1. destruct v; try discriminate. reflexivity.
Qed.

Lemma denote_asset a : chk_asset te a = true -> denote e (res_asset ve a) = XV (VAsset (eval_asset e a)).
Proof.
  destruct a as [s|x]; simpl; [reflexivity|]. intros H. destruct (denote_var _ _ (has_ty_lookup _ _ H)) as [v [H1 [H2 H3]]].
  rewrite H3, H1. destruct v; try discriminate. reflexivity.
Qed.

(* ---------- monetary expressions ---------- *)
Lemma exec_mon m : chk_mon te m = true -> forall k st,
  exec L (code (gen_mon ve true m) ++ k) st =
  do (a, o) <- eval_mon e m; exec L k (with_stk st (XV (VMonetary a o) :: vstk st)).
Proof.
  induction m as [a n|x|l IHl r IHr|l IHl r IHr]; intros Hc k st; simpl in Hc.
  - apply andb_prop in Hc. destruct Hc as [Ha _]. simpl. rewrite (denote_asset _ Ha). reflexivity.
  - destruct (denote_var _ _ (has_ty_lookup _ _ Hc)) as [v [H1 [H2 H3]]]. simpl. rewrite H3, H1.
    destruct v; try discriminate. reflexivity.
  - apply andb_prop in Hc. destruct Hc as [Hc _]. apply andb_prop in Hc. destruct Hc as [H1 H2].
    simpl gen_mon. norm. rewrite (IHl H1). simpl eval_mon. destruct (eval_mon e l) as [[la lo]| |]; simpl; try reflexivity.
    rewrite (IHr H2). destruct (eval_mon e r) as [[ra ro]| |]; simpl; try reflexivity.
    destruct (String.eqb la ra); reflexivity.
  - apply andb_prop in Hc. destruct Hc as [Hc _]. apply andb_prop in Hc. destruct Hc as [H1 H2].
    simpl gen_mon. norm. rewrite (IHl H1). simpl eval_mon. destruct (eval_mon e l) as [[la lo]| |]; simpl; try reflexivity.
    rewrite (IHr H2). destruct (eval_mon e r) as [[ra ro]| |]; simpl; try reflexivity.
    destruct (String.eqb la ra); reflexivity.
Qed.

(* allocation-only code is empty *)
Lemma code_mon_alloc m : code (gen_mon ve false m) = [].
Proof. induction m; simpl; try reflexivity; rewrite !code_app, IHm1, IHm2; reflexivity. Qed.

(* the statement's asset: APUSH <left-most operand>; OP_ASSET *)
Lemma exec_push_mon_asset m : chk_mon te m = true -> forall k st,
  exec L (code [ev true (mon_res ve m); ins IAsset] ++ k) st = exec L k (with_stk st (XV (VAsset (mon_asset e m)) :: vstk st)).
Proof.
  intros Hc k st. unfold mon_res, mon_asset, leaf_value.
  assert (chk_mon te (leftmost m) = true) as Hl.
  { clear k st. induction m; simpl in *; try assumption; apply andb_prop in Hc; destruct Hc as [Hc _]; apply andb_prop in Hc; destruct Hc as [H1 _]; auto. }
  destruct (leftmost m) as [a n|x| |] eqn:El; simpl in Hl.
  - apply andb_prop in Hl. destruct Hl as [Ha _]. simpl. rewrite (denote_asset _ Ha). reflexivity.
  - destruct (denote_var _ _ (has_ty_lookup _ _ Hl)) as [v [H1 [H2 H3]]]. simpl. rewrite H3, H1. destruct v; try discriminate. reflexivity.
  - exfalso. clear - El. induction m; simpl in El; try discriminate; auto.
  - exfalso. clear - El. induction m; simpl in El; try discriminate; auto.
Qed.

(* ---------- the tail after TAKE_MAX: Bump 1; REPAY; then fallback or DELETE ---------- *)
Lemma exec_after_take_max fb taken rem ma missing stk k b ps tx ac :
  (forall fa, fb = Some fa -> chk_acc te fa = true) ->
  exec L (code (gen_after_take_max ve fb true) ++ k)
       {| vstk := XFunding taken :: XFunding rem :: XV (VMonetary ma (Some missing)) :: stk; vbal := b; vposts := ps; vtx := tx; vacc := ac |} =
  match fb with
  | None => exec L k {| vstk := XFunding taken :: stk; vbal := repay b rem; vposts := ps; vtx := tx; vacc := ac |}
  | Some fa =>
      let (f2, b2) := withdraw_always (repay b rem) (eval_acc e fa) ma missing in
      do r <- assemble [taken; f2]; exec L k {| vstk := XFunding r :: stk; vbal := b2; vposts := ps; vtx := tx; vacc := ac |}
  end.
Proof.
  intros Hfb. unfold gen_after_take_max. destruct fb as [fa|].
  - simpl. rewrite (denote_acc _ (Hfb fa eq_refl)). simpl. unfold withdraw_always. rewrite vm_assemble2.
    destruct (assemble _); reflexivity.
  - simpl. reflexivity.
Qed.

Notation St stk b ps tx ac := {| vstk := stk; vbal := b; vposts := ps; vtx := tx; vacc := ac |}.

(* the fallback account of a checked source is a checked account expression *)
Lemma chk_fallback :
  (forall s isAll r, chk_source te isAll s = Some r -> forall fa, fallback_of s = Some fa -> chk_acc te fa = true) /\
  (forall l isAll em r, chk_sources te isAll l em = Some r -> forall fa, fallbacks_of l = Some fa -> chk_acc te fa = true).
Proof.
  apply source_mutind.
  - intros a o isAll r H fa Hf. simpl in H, Hf. destruct (chk_acc te a) eqn:Ea; [|discriminate]. simpl in H.
    destruct o; [destruct (is_world a)| |]; inv Hf; assumption.
  - intros m s _ isAll r _ fa Hf. discriminate.
  - intros l IH isAll r H fa Hf. simpl in H, Hf. destruct l; [discriminate|]. apply (IH _ _ _ H _ Hf).
  - intros isAll em r _ fa Hf. discriminate.
  - intros s IHs l IHl isAll em r H fa Hf. simpl in H, Hf.
    destruct (chk_source te isAll s) as [[em1 fb]|] eqn:E; [|discriminate]. destruct (overlap em1 em); [discriminate|].
    destruct l as [|s2 l2]; [apply (IHs _ _ E _ Hf)|]. destruct (is_some fb); [discriminate|]. apply (IHl _ _ _ H _ Hf).
Qed.

(* TAKE_MAX and its tail = Sem.take_max_fb *)
Lemma exec_take_max_fb fb f ma mo stk k b ps tx ac :
  (forall fa, fb = Some fa -> chk_acc te fa = true) ->
  exec L (code (ins ITakeMax :: gen_after_take_max ve fb true) ++ k) (St (XV (VMonetary ma mo) :: XFunding f :: stk) b ps tx ac) =
  do (r, b1) <- take_max_fb e fb f ma mo b; exec L k (St (XFunding r :: stk) b1 ps tx ac).
Proof.
  intros Hfb. unfold take_max_fb, gen_after_take_max. destruct fb as [fa|].
  - simpl. destruct mo as [x|]; [|reflexivity]. destruct (x <? 0); [reflexivity|].
    destruct (negb (String.eqb (fasset f) ma)); [reflexivity|]. destruct (take_max x f) as [taken rem]. simpl.
    rewrite (denote_acc _ (Hfb fa eq_refl)). simpl. unfold withdraw_always. rewrite vm_assemble2.
    destruct (assemble _); reflexivity.
  - simpl. destruct mo as [x|]; [|reflexivity]. destruct (x <? 0); [reflexivity|].
    destruct (negb (String.eqb (fasset f) ma)); [reflexivity|]. destruct (take_max x f) as [taken rem]. reflexivity.
Qed.

Section Source.
Variable A : string.
Variable pa : list event.
Hypothesis Hpa : forall k stk b ps tx ac, exec L (code pa ++ k) (St stk b ps tx ac) = exec L k (St (XV (VAsset A) :: stk) b ps tx ac).

Lemma exec_source :
  (forall s isAll r, chk_source te isAll s = Some r -> forall k stk b ps tx ac,
     exec L (code (gen_source ve pa s) ++ k) (St stk b ps tx ac) =
     do (f, b1) <- eval_source e A s b; exec L k (St (XFunding f :: stk) b1 ps tx ac)) /\
  (forall l isAll em r, chk_sources te isAll l em = Some r -> forall k stk b ps tx ac,
     exec L (code (gen_sources ve pa l) ++ k) (St stk b ps tx ac) =
     do (fs, b1) <- eval_sources e A l b; exec L k (St (map XFunding (rev fs) ++ stk) b1 ps tx ac)).
Proof.
  apply source_mutind.
  - (* account *) intros a o isAll r H k stk b ps tx ac. simpl in H. destruct (chk_acc te a) eqn:Ea; [|discriminate]. simpl in H.
    simpl gen_source. destruct o as [|m|].
    + norm. simpl. rewrite (denote_acc _ Ea). unfold with_stk. simpl. norm. rewrite Hpa. simpl.
      destruct (is_world a); simpl.
      * unfold withdraw_always. reflexivity.
      * destruct (withdraw_all b (eval_acc e a) A (Some 0)) as [[f b1]| |]; reflexivity.
    + destruct (is_world a); [discriminate|]. destruct (chk_mon te m) eqn:Em; [|discriminate].
      norm. simpl. rewrite (denote_acc _ Ea). unfold with_stk. simpl. norm. rewrite (exec_mon m Em).
      destruct (eval_mon e m) as [[ma mo]| |]; simpl; try reflexivity.
      destruct (withdraw_all b (eval_acc e a) ma mo) as [[f b1]| |]; reflexivity.
    + norm. simpl. rewrite (denote_acc _ Ea). unfold with_stk. simpl. norm. rewrite Hpa. simpl. unfold withdraw_always. reflexivity.
  - (* max *) intros m s IH isAll r H k stk b ps tx ac. simpl in H.
    destruct (chk_source te false s) as [r0|] eqn:Es; [|discriminate]. destruct (chk_mon te m) eqn:Em; [|discriminate].
    simpl gen_source. norm. rewrite (IH _ _ Es). simpl eval_source.
    destruct (eval_source e A s b) as [[f b1]| |]; bnd; try reflexivity.
    rewrite (exec_mon m Em). destruct (eval_mon e m) as [[ma mo]| |]; bnd; try reflexivity.
    rewrite (exec_take_max_fb (fallback_of s) f ma mo stk k b1 ps tx ac (proj1 chk_fallback _ _ _ Es)).
    destruct (fallback_of s); reflexivity.
  - (* in order *) intros l IH isAll r H k stk b ps tx ac. simpl in H. destruct l as [|s0 l0] eqn:El; [discriminate|]. rewrite <- El in *.
    simpl gen_source. norm. rewrite (IH _ _ _ H). simpl eval_source.
    destruct (eval_sources e A l b) as [[fs b1]| |] eqn:Ee; simpl; try reflexivity.
    assert (sources_len l = List.length fs) as Hlen.
    { clear - Ee. revert b fs b1 Ee. induction l as [|s tl IHl]; intros b fs b1 Ee; simpl in Ee.
      - inv Ee. reflexivity.
      - destruct (eval_source e A s b) as [[f b2]| |]; simpl in Ee; try discriminate.
        destruct (eval_sources e A tl b2) as [[gs b3]| |] eqn:E2; simpl in Ee; try discriminate. inv Ee. simpl. f_equal. apply (IHl _ _ _ E2). }
    rewrite Hlen, vm_assemble_spec. destruct (assemble fs); reflexivity.
  - intros isAll em r _ k stk b ps tx ac. simpl. reflexivity.
  - intros s IHs l IHl isAll em r H k stk b ps tx ac. simpl in H.
    destruct (chk_source te isAll s) as [[em1 fb]|] eqn:E; [|discriminate]. destruct (overlap em1 em); [discriminate|].
    assert (exists em' r', chk_sources te isAll l em' = Some r') as [em' [r' Hl]].
    { destruct l as [|s2 l2]; [exists [], ([], None); reflexivity|]. destruct (is_some fb); [discriminate|]. eauto. }
    simpl gen_sources. norm. rewrite (IHs _ _ E). simpl eval_sources.
    destruct (eval_source e A s b) as [[f b1]| |]; simpl; try reflexivity.
    rewrite (IHl _ _ _ Hl). destruct (eval_sources e A l b1) as [[fs b2]| |]; simpl; try reflexivity.
    rewrite map_app, <- app_assoc. reflexivity.
Qed.
End Source.
End Correct.
