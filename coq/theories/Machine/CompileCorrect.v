(* Compiler correctness, symbolic level: executing the instructions [gen] emits (APUSH operands = resource
   descriptions, looked up by their denotation in the resolved environment) computes exactly what the big-step
   semantics Sem.v computes.  One stack-effect equation per compile function:
       exec (code (gen_X x) ++ k) st  =  do r <- Sem_X x ...; exec k (st with r pushed)
   so Panic / Err / Ok outcomes agree by construction. *)
From Coq Require Import List ZArith QArith String Bool Lia.
From LV Require Import Machine.Syntax Machine.Allot Machine.Lex Machine.Sem Machine.SemProofs Machine.EnvProofs
  Machine.Vm Machine.Compile Machine.VmRun.
Import ListNotations.
Open Scope Z_scope.

Fixpoint code (evs : list event) : list (instr rdesc) :=
  match evs with
  | [] => []
  | EIns i :: r => i :: code r
  | EAlloc _ :: r => code r
  end.
Lemma code_app a b : code (a ++ b) = code a ++ code b.
Proof. induction a as [|[r|i] a IH]; simpl; [reflexivity|assumption|rewrite IH; reflexivity]. Qed.

Definition asset_of (v : vval) : string :=
  match v with XV (VAsset s) => s | XV (VMonetary s _) => s | _ => ""%string end.

(* what a resource holds once resolved, in terms of the environment of Sem *)
Fixpoint denote (e : env) (r : rdesc) : vval :=
  match r with
  | RConst c => cval_value c
  | RVar _ x | RVarMeta _ x _ _ | RVarBal x _ _ => XV (match lookup e x with Some v => v | None => VString ""%string end)
  | RMon ra n => XV (VMonetary (asset_of (denote e ra)) (Some n))
  end.

Ltac norm := rewrite ?code_app, <- ?app_assoc.
Ltac bnd := cbv beta iota delta [bind with_stk with_stk_bal vstk vbal vposts vtx vacc].
Ltac run := simpl; bnd; norm.

(* ---------- BUMP ---------- *)
Lemma bump_app l x r : bump (List.length l) (l ++ x :: r) = Some (x :: l ++ r).
Proof. induction l as [|v l IH]; simpl; [reflexivity|]. rewrite IH. reflexivity. Qed.

(* ---------- FUNDING_ASSEMBLE against Sem.assemble ---------- *)
Lemma pop_fundings_all fs : forall asset acc stk,
  pop_fundings (List.length fs) asset acc (map XFunding fs ++ stk) =
  if forallb (fun f => String.eqb (fasset f) asset) fs then Ok (rev fs ++ acc, stk) else Err EInvalidScript.
Proof.
  induction fs as [|f fs IH]; intros asset acc stk; simpl; [reflexivity|].
  destruct (String.eqb (fasset f) asset); simpl; [|reflexivity]. rewrite IH.
  destruct (forallb _ fs); [|reflexivity]. rewrite <- app_assoc. reflexivity.
Qed.

(* fs: first pushed first; the stack holds them last pushed on top *)
Lemma assemble_stack {A} (g : list vval -> A) fs stk :
  match fs with
  | [] => Err EInvalidScript
  | _ => match map XFunding (rev fs) ++ stk with
         | XFunding first :: r1 =>
             do (gs, r2) <- pop_fundings (Nat.pred (List.length fs)) (fasset first) [first] r1;
             Ok (g (XFunding {| fasset := fasset first; fparts := fold_left (fun acc f => concat_parts acc (fparts f)) gs [] |} :: r2))
         | _ => Panic
         end
  end = do f <- assemble fs; Ok (g (XFunding f :: stk)).
Proof.
  destruct fs as [|f0 fs0]; [reflexivity|]. set (fs := f0 :: fs0). unfold assemble.
  destruct (rev fs) as [|lastf tl] eqn:Er.
  { exfalso. apply (f_equal (@List.length _)) in Er. rewrite rev_length in Er. discriminate. }
  simpl map. simpl app.
  assert (List.length fs = S (List.length tl)) as Hlen by (rewrite <- (rev_length fs), Er; reflexivity).
  rewrite Hlen. simpl Nat.pred. rewrite pop_fundings_all.
  assert (forallb (fun f => String.eqb (fasset f) (fasset lastf)) fs = forallb (fun f => String.eqb (fasset f) (fasset lastf)) tl) as Hf.
  { rewrite <- (rev_involutive fs), Er. simpl. rewrite forallb_app. simpl. rewrite String.eqb_refl, andb_true_r.
    clear. induction tl as [|x tl IH]; [reflexivity|]. simpl. rewrite forallb_app. simpl. rewrite IH, andb_true_r, andb_comm. reflexivity. }
  rewrite Hf. destruct (forallb _ tl); [|reflexivity]. simpl.
  assert (rev tl ++ [lastf] = fs) as Hr by (rewrite <- (rev_involutive fs), Er; reflexivity).
  rewrite Hr. reflexivity.
Qed.

Lemma vm_assemble_spec fs stk :
  vm_assemble (Z.of_nat (List.length fs)) (map XFunding (rev fs) ++ stk) = do f <- assemble fs; Ok (XFunding f :: stk).
Proof.
  unfold vm_assemble. destruct fs as [|f0 fs0]; [reflexivity|].
  set (fs := f0 :: fs0) in *. replace (Z.of_nat (List.length fs) =? 0) with false by (symmetry; apply Z.eqb_neq; simpl; lia).
  replace (Z.of_nat (List.length fs) <? 0) with false by (symmetry; apply Z.ltb_ge; lia). rewrite Nat2Z.id.
  apply (assemble_stack (fun s => s) fs stk).
Qed.
Lemma vm_assemble2 a b stk : vm_assemble 2 (XFunding b :: XFunding a :: stk) = do f <- assemble [a; b]; Ok (XFunding f :: stk).
Proof. apply (vm_assemble_spec [a; b] stk). Qed.
Arguments vm_assemble : simpl never.

Section Correct.
Variable te : tenv.
Variable e : env.
Variable ve : venv.
Hypothesis Hcons : cons_env te e.
(* every declared variable's resource description denotes the variable *)
Hypothesis Hve : forall x t, lookup te x = Some t -> exists r, lookup ve x = Some r /\ var_name r = Some x.

Notation L := (fun r : rdesc => Some (denote e r)).

Lemma denote_var x t : lookup te x = Some t -> exists v, lookup e x = Some v /\ ty_of v = t /\ denote e (rvar ve x) = XV v.
Proof.
  intros H. destruct (Hve _ _ H) as [r [H1 H2]]. destruct (proj1 Hcons _ _ H) as [v [H3 H4]].
  exists v. repeat split; try assumption. unfold rvar. rewrite H1.
  destruct r; simpl in H2; try discriminate; inv H2; simpl; rewrite H3; reflexivity.
Qed.

Lemma has_ty_lookup x t : has_ty te x t = true -> lookup te x = Some t.
Proof. unfold has_ty. destruct (lookup te x) as [t'|]; [|discriminate]. intros H. apply ty_eqb_eq in H. congruence. Qed.

Lemma denote_acc a : chk_acc te a = true -> denote e (res_acc ve a) = XV (VAccount (eval_acc e a)).
Proof.
  destruct a as [s|x]; simpl; [reflexivity|]. intros H. destruct (denote_var _ _ (has_ty_lookup _ _ H)) as [v [H1 [H2 H3]]].
  rewrite H3, H1. destruct v; try discriminate. reflexivity.
Qed.

Lemma denote_asset a : chk_asset te a = true -> denote e (res_asset ve a) = XV (VAsset (eval_asset e a)).
Proof.
  destruct a as [s|x]; simpl; [reflexivity|]. intros H. destruct (denote_var _ _ (has_ty_lookup _ _ H)) as [v [H1 [H2 H3]]].
  rewrite H3, H1. destruct v; try discriminate. reflexivity.
Qed.

(* ---------- monetary expressions ---------- *)
Lemma exec_mon m : chk_mon te m = true -> forall k st,
  exec L (code (gen_mon ve true m) ++ k) st =
  do (a, o) <- eval_mon e m; exec L k (with_stk st (XV (VMonetary a o) :: vstk st)).
Proof.
  induction m as [a n|x|l IHl r IHr|l IHl r IHr]; intros Hc k st; simpl in Hc.
  - apply andb_prop in Hc. destruct Hc as [Ha _]. simpl. rewrite (denote_asset _ Ha). reflexivity.
  - destruct (denote_var _ _ (has_ty_lookup _ _ Hc)) as [v [H1 [H2 H3]]]. simpl. rewrite H3, H1.
    destruct v; try discriminate. reflexivity.
  - apply andb_prop in Hc. destruct Hc as [Hc _]. apply andb_prop in Hc. destruct Hc as [H1 H2].
    simpl gen_mon. norm. rewrite (IHl H1). simpl eval_mon. destruct (eval_mon e l) as [[la lo]| |]; simpl; try reflexivity.
    rewrite (IHr H2). destruct (eval_mon e r) as [[ra ro]| |]; simpl; try reflexivity.
    destruct (String.eqb la ra); reflexivity.
  - apply andb_prop in Hc. destruct Hc as [Hc _]. apply andb_prop in Hc. destruct Hc as [H1 H2].
    simpl gen_mon. norm. rewrite (IHl H1). simpl eval_mon. destruct (eval_mon e l) as [[la lo]| |]; simpl; try reflexivity.
    rewrite (IHr H2). destruct (eval_mon e r) as [[ra ro]| |]; simpl; try reflexivity.
    destruct (String.eqb la ra); reflexivity.
Qed.

(* allocation-only code is empty *)
Lemma code_mon_alloc m : code (gen_mon ve false m) = [].
Proof. induction m; simpl; try reflexivity; rewrite !code_app, IHm1, IHm2; reflexivity. Qed.

(* the statement's asset: APUSH <left-most operand>; OP_ASSET *)
Lemma exec_push_mon_asset m : chk_mon te m = true -> forall k st,
  exec L (code [ev true (mon_res ve m); ins IAsset] ++ k) st = exec L k (with_stk st (XV (VAsset (mon_asset e m)) :: vstk st)).
Proof.
  intros Hc k st. unfold mon_res, mon_asset, leaf_value.
  assert (chk_mon te (leftmost m) = true) as Hl.
  { clear k st. induction m; simpl in *; try assumption; apply andb_prop in Hc; destruct Hc as [Hc _]; apply andb_prop in Hc; destruct Hc as [H1 _]; auto. }
  destruct (leftmost m) as [a n|x| |] eqn:El; simpl in Hl.
  - apply andb_prop in Hl. destruct Hl as [Ha _]. simpl. rewrite (denote_asset _ Ha). reflexivity.
  - destruct (denote_var _ _ (has_ty_lookup _ _ Hl)) as [v [H1 [H2 H3]]]. simpl. rewrite H3, H1. destruct v; try discriminate. reflexivity.
  - exfalso. clear - El. induction m; simpl in El; try discriminate; auto.
  - exfalso. clear - El. induction m; simpl in El; try discriminate; auto.
Qed.

(* ---------- the tail after TAKE_MAX: Bump 1; REPAY; then fallback or DELETE ---------- *)
Lemma exec_after_take_max fb taken rem ma missing stk k b ps tx ac :
  (forall fa, fb = Some fa -> chk_acc te fa = true) ->
  exec L (code (gen_after_take_max ve fb true) ++ k)
       {| vstk := XFunding taken :: XFunding rem :: XV (VMonetary ma (Some missing)) :: stk; vbal := b; vposts := ps; vtx := tx; vacc := ac |} =
  match fb with
  | None => exec L k {| vstk := XFunding taken :: stk; vbal := repay b rem; vposts := ps; vtx := tx; vacc := ac |}
  | Some fa =>
      let (f2, b2) := withdraw_always (repay b rem) (eval_acc e fa) ma missing in
      do r <- assemble [taken; f2]; exec L k {| vstk := XFunding r :: stk; vbal := b2; vposts := ps; vtx := tx; vacc := ac |}
  end.
Proof.
  intros Hfb. unfold gen_after_take_max. destruct fb as [fa|].
  - simpl. rewrite (denote_acc _ (Hfb fa eq_refl)). simpl. unfold withdraw_always. rewrite vm_assemble2.
    destruct (assemble _); reflexivity.
  - simpl. reflexivity.
Qed.

Notation St stk b ps tx ac := {| vstk := stk; vbal := b; vposts := ps; vtx := tx; vacc := ac |}.

(* the fallback account of a checked source is a checked account expression *)
Lemma chk_fallback :
  (forall s isAll r, chk_source te isAll s = Some r -> forall fa, fallback_of s = Some fa -> chk_acc te fa = true) /\
  (forall l isAll em r, chk_sources te isAll l em = Some r -> forall fa, fallbacks_of l = Some fa -> chk_acc te fa = true).
Proof.
  apply source_mutind.
  - intros a o isAll r H fa Hf. simpl in H, Hf. destruct (chk_acc te a) eqn:Ea; [|discriminate]. simpl in H.
    destruct o; [destruct (is_world a)| |]; inv Hf; assumption.
  - intros m s _ isAll r _ fa Hf. discriminate.
  - intros l IH isAll r H fa Hf. simpl in H, Hf. destruct l; [discriminate|]. apply (IH _ _ _ H _ Hf).
  - intros isAll em r _ fa Hf. discriminate.
  - intros s IHs l IHl isAll em r H fa Hf. simpl in H, Hf.
    destruct (chk_source te isAll s) as [[em1 fb]|] eqn:E; [|discriminate]. destruct (overlap em1 em); [discriminate|].
    destruct l as [|s2 l2]; [apply (IHs _ _ E _ Hf)|]. destruct (is_some fb); [discriminate|]. apply (IHl _ _ _ H _ Hf).
Qed.

(* TAKE_MAX and its tail = Sem.take_max_fb *)
Lemma exec_take_max_fb fb f ma mo stk k b ps tx ac :
  (forall fa, fb = Some fa -> chk_acc te fa = true) ->
  exec L (code (ins ITakeMax :: gen_after_take_max ve fb true) ++ k) (St (XV (VMonetary ma mo) :: XFunding f :: stk) b ps tx ac) =
  do (r, b1) <- take_max_fb e fb f ma mo b; exec L k (St (XFunding r :: stk) b1 ps tx ac).
Proof.
  intros Hfb. unfold take_max_fb, gen_after_take_max. destruct fb as [fa|].
  - simpl. destruct mo as [x|]; [|reflexivity]. destruct (x <? 0); [reflexivity|].
    destruct (negb (String.eqb (fasset f) ma)); [reflexivity|]. destruct (take_max x f) as [taken rem]. simpl.
    rewrite (denote_acc _ (Hfb fa eq_refl)). simpl. unfold withdraw_always. rewrite vm_assemble2.
    destruct (assemble _); reflexivity.
  - simpl. destruct mo as [x|]; [|reflexivity]. destruct (x <? 0); [reflexivity|].
    destruct (negb (String.eqb (fasset f) ma)); [reflexivity|]. destruct (take_max x f) as [taken rem]. reflexivity.
Qed.

Section Source.
Variable A : string.
Variable pa : list event.
Hypothesis Hpa : forall k stk b ps tx ac, exec L (code pa ++ k) (St stk b ps tx ac) = exec L k (St (XV (VAsset A) :: stk) b ps tx ac).

Lemma exec_source :
  (forall s isAll r, chk_source te isAll s = Some r -> forall k stk b ps tx ac,
     exec L (code (gen_source ve pa s) ++ k) (St stk b ps tx ac) =
     do (f, b1) <- eval_source e A s b; exec L k (St (XFunding f :: stk) b1 ps tx ac)) /\
  (forall l isAll em r, chk_sources te isAll l em = Some r -> forall k stk b ps tx ac,
     exec L (code (gen_sources ve pa l) ++ k) (St stk b ps tx ac) =
     do (fs, b1) <- eval_sources e A l b; exec L k (St (map XFunding (rev fs) ++ stk) b1 ps tx ac)).
Proof.
  apply source_mutind.
  - (* account *) intros a o isAll r H k stk b ps tx ac. simpl in H. destruct (chk_acc te a) eqn:Ea; [|discriminate]. simpl in H.
    simpl gen_source. destruct o as [|m|].
    + norm. simpl. rewrite (denote_acc _ Ea). unfold with_stk. simpl. norm. rewrite Hpa. simpl.
      destruct (is_world a); simpl.
      * unfold withdraw_always. reflexivity.
      * destruct (withdraw_all b (eval_acc e a) A (Some 0)) as [[f b1]| |]; reflexivity.
    + destruct (is_world a); [discriminate|]. destruct (chk_mon te m) eqn:Em; [|discriminate].
      norm. simpl. rewrite (denote_acc _ Ea). unfold with_stk. simpl. norm. rewrite (exec_mon m Em).
      destruct (eval_mon e m) as [[ma mo]| |]; simpl; try reflexivity.
      destruct (withdraw_all b (eval_acc e a) ma mo) as [[f b1]| |]; reflexivity.
    + norm. simpl. rewrite (denote_acc _ Ea). unfold with_stk. simpl. norm. rewrite Hpa. simpl. unfold withdraw_always. reflexivity.
  - (* max *) intros m s IH isAll r H k stk b ps tx ac. simpl in H.
    destruct (chk_source te false s) as [r0|] eqn:Es; [|discriminate]. destruct (chk_mon te m) eqn:Em; [|discriminate].
    simpl gen_source. norm. rewrite (IH _ _ Es). simpl eval_source.
    destruct (eval_source e A s b) as [[f b1]| |]; bnd; try reflexivity.
    rewrite (exec_mon m Em). destruct (eval_mon e m) as [[ma mo]| |]; bnd; try reflexivity.
    rewrite (exec_take_max_fb (fallback_of s) f ma mo stk k b1 ps tx ac (proj1 chk_fallback _ _ _ Es)).
    destruct (fallback_of s); reflexivity.
  - (* in order *) intros l IH isAll r H k stk b ps tx ac. simpl in H. destruct l as [|s0 l0] eqn:El; [discriminate|]. rewrite <- El in *.
    simpl gen_source. norm. rewrite (IH _ _ _ H). simpl eval_source.
    destruct (eval_sources e A l b) as [[fs b1]| |] eqn:Ee; simpl; try reflexivity.
    assert (sources_len l = List.length fs) as Hlen.
    { clear - Ee. revert b fs b1 Ee. induction l as [|s tl IHl]; intros b fs b1 Ee; simpl in Ee.
      - inv Ee. reflexivity.
      - destruct (eval_source e A s b) as [[f b2]| |]; simpl in Ee; try discriminate.
        destruct (eval_sources e A tl b2) as [[gs b3]| |] eqn:E2; simpl in Ee; try discriminate. inv Ee. simpl. f_equal. apply (IHl _ _ _ E2). }
    rewrite Hlen, vm_assemble_spec. destruct (assemble fs); reflexivity.
  - intros isAll em r _ k stk b ps tx ac. simpl. reflexivity.
  - intros s IHs l IHl isAll em r H k stk b ps tx ac. simpl in H.
    destruct (chk_source te isAll s) as [[em1 fb]|] eqn:E; [|discriminate]. destruct (overlap em1 em); [discriminate|].
    assert (exists em' r', chk_sources te isAll l em' = Some r') as [em' [r' Hl]].
    { destruct l as [|s2 l2]; [exists [], ([], None); reflexivity|]. destruct (is_some fb); [discriminate|]. eauto. }
    simpl gen_sources. norm. rewrite (IHs _ _ E). simpl eval_sources.
    destruct (eval_source e A s b) as [[f b1]| |]; simpl; try reflexivity.
    rewrite (IHl _ _ _ Hl). destruct (eval_sources e A l b1) as [[fs b2]| |]; simpl; try reflexivity.
    rewrite map_app, <- app_assoc. reflexivity.
Qed.
End Source.

(* ---------- TakeFromSource ---------- *)
Lemma exec_take_from_source fb f ma mo stk k b ps tx ac :
  (forall fa, fb = Some fa -> chk_acc te fa = true) ->
  exec L (code (gen_take_from_source ve fb) ++ k) (St (XV (VMonetary ma mo) :: XFunding f :: stk) b ps tx ac) =
  do (r, b1) <- take_from_source e fb f ma mo b; exec L k (St (XFunding r :: stk) b1 ps tx ac).
Proof.
  intros Hfb. unfold take_from_source, gen_take_from_source. destruct fb as [fa|].
  - change (gen_after_take_max ve (Some fa) false) with (gen_after_take_max ve (Some fa) true).
    apply (exec_take_max_fb (Some fa) f ma mo stk k b ps tx ac Hfb).
  - simpl. destruct (negb (String.eqb (fasset f) ma)); [reflexivity|]. destruct mo as [x|]; [|reflexivity].
    destruct (take x f) as [[res rem]| |]; reflexivity.
Qed.

(* ---------- allotments ---------- *)
Definition pden (p : portionexpr) : vval :=
  match eval_portion e p with Specific q => XV (VPortion q) | Remaining => XRemaining end.

Definition chk_portion (p : portionexpr) : bool :=
  match p with PConst q => q_in_unit q && q_reduced q | PVar x => has_ty te x TPortion | PRemaining => true end.

Lemma denote_portion p : chk_portion p = true -> denote e (match gen_portion ve p with EIns (IApush r) => r | _ => RConst CRemaining end) = pden p.
Proof.
  destruct p as [q|x|]; simpl; intros H; try reflexivity.
  destruct (denote_var _ _ (has_ty_lookup _ _ H)) as [v [H1 [H2 H3]]]. rewrite H3. unfold pden. simpl. rewrite H1.
  destruct v; try discriminate. reflexivity.
Qed.

Lemma exec_push_portions l : forallb chk_portion l = true -> forall k stk b ps tx ac,
  exec L (code (map (gen_portion ve) l) ++ k) (St stk b ps tx ac) = exec L k (St (rev (map pden l) ++ stk) b ps tx ac).
Proof.
  induction l as [|p tl IH]; intros Hc k stk b ps tx ac; [reflexivity|]. simpl in Hc. apply andb_prop in Hc. destruct Hc as [Hp Hc].
  pose proof (denote_portion p Hp) as Hd. simpl map. destruct p as [q|x|]; simpl in Hd |- *; rewrite ?Hd; unfold with_stk; simpl;
    rewrite (IH Hc); rewrite <- app_assoc; reflexivity.
Qed.

Lemma pop_portions_all l : forall stk, pop_portions (List.length l) (map pden l ++ stk) = Some (map (eval_portion e) l, stk).
Proof.
  induction l as [|p tl IH]; intros stk; [reflexivity|]. simpl. unfold pden at 1.
  destruct (eval_portion e p) eqn:Ep; rewrite IH; reflexivity.
Qed.

Lemma chk_portions_each ps : chk_portions te ps = true -> forallb chk_portion ps = true.
Proof.
  unfold chk_portions. destruct ps as [|p0 r]; [discriminate|]. intros H. apply andb_prop in H. destruct H as [H _].
  apply andb_prop in H. destruct H as [H _]. exact H.
Qed.

Lemma exec_allotment ps : chk_portions te ps = true -> forall k stk b pp tx ac,
  exec L (code (gen_allotment ve ps) ++ k) (St stk b pp tx ac) =
  do al <- make_allotment e ps; exec L k (St (XAllot al :: stk) b pp tx ac).
Proof.
  intros Hc k stk b pp tx ac. unfold gen_allotment. norm.
  assert (forallb chk_portion (rev ps) = true) as Hr.
  { apply forallb_forall. intros p Hp. apply in_rev in Hp. pose proof (chk_portions_each _ Hc) as Ha. rewrite forallb_forall in Ha. auto. }
  rewrite (exec_push_portions (rev ps) Hr). rewrite map_rev, rev_involutive. simpl.
  replace (Z.of_nat (List.length ps) <? 0) with false by (symmetry; apply Z.ltb_ge; lia).
  rewrite Nat2Z.id. rewrite <- (map_length pden ps) at 1. rewrite map_length, pop_portions_all.
  unfold make_allotment. destruct (new_allotment (map (eval_portion e) ps)); reflexivity.
Qed.

Definition mparts (a : string) (l : list Z) : list vval := map (fun y => XV (VMonetary a (Some y))) l.

(* allotment source: per source i: VisitSource; Bump (i+1); TakeFromSource *)
Lemma exec_alloc_sources A pa ma :
  (forall k stk b ps tx ac, exec L (code pa ++ k) (St stk b ps tx ac) = exec L k (St (XV (VAsset A) :: stk) b ps tx ac)) ->
  forall l ress parts, List.length parts = List.length l ->
  forallb (fun ps => is_some (chk_source te false (snd ps))) l = true ->
  forall k stk b pp tx ac,
  exec L (code (gen_alloc_sources ve pa (Z.of_nat (List.length ress)) l) ++ k)
       (St (map XFunding (rev ress) ++ mparts ma parts ++ stk) b pp tx ac) =
  do (fs, b1) <- eval_alloc_sources e A ma l parts b;
  exec L k (St (map XFunding (rev (ress ++ fs)) ++ stk) b1 pp tx ac).
Proof.
  intros Hpa. induction l as [|[p s] tl IH]; intros ress parts Hlen Hc k stk b pp tx ac.
  - destruct parts; [|discriminate]. simpl. rewrite app_nil_r. reflexivity.
  - destruct parts as [|x ptl]; [discriminate|]. simpl in Hlen, Hc. apply andb_prop in Hc. destruct Hc as [Hs Hc].
    destruct (chk_source te false s) as [r0|] eqn:Es; [|discriminate].
    simpl gen_alloc_sources. norm. rewrite (proj1 (exec_source A pa Hpa) _ _ _ Es). simpl eval_alloc_sources.
    destruct (eval_source e A s b) as [[f b1]| |]; bnd; try reflexivity.
    simpl. replace (Z.of_nat (List.length ress) + 1 <? 0) with false by (symmetry; apply Z.ltb_ge; lia).
    replace (Z.to_nat (Z.of_nat (List.length ress) + 1)) with (List.length (XFunding f :: map XFunding (rev ress))) by (simpl; rewrite map_length, rev_length; lia).
    change (XFunding f :: map XFunding (rev ress) ++ XV (VMonetary ma (Some x)) :: mparts ma ptl ++ stk)
      with ((XFunding f :: map XFunding (rev ress)) ++ XV (VMonetary ma (Some x)) :: mparts ma ptl ++ stk).
    rewrite bump_app. unfold with_stk. simpl. norm.
    rewrite (exec_take_from_source (fallback_of s) f ma (Some x) _ _ b1 pp tx ac (proj1 chk_fallback _ _ _ Es)).
    destruct (take_from_source e (fallback_of s) f ma (Some x) b1) as [[res b2]| |]; bnd; try reflexivity.
    replace (Z.of_nat (List.length ress) + 1) with (Z.of_nat (List.length (ress ++ [res]))) by (rewrite app_length; simpl; lia).
    change (XFunding res :: map XFunding (rev ress) ++ mparts ma ptl ++ stk) with ((XFunding res :: map XFunding (rev ress)) ++ mparts ma ptl ++ stk).
    replace (XFunding res :: map XFunding (rev ress)) with (map XFunding (rev (ress ++ [res]))) by (rewrite rev_app_distr; reflexivity).
    rewrite (IH (ress ++ [res]) ptl ltac:(lia) Hc). destruct (eval_alloc_sources e A ma tl ptl b2) as [[fs b3]| |]; bnd; try reflexivity.
    rewrite <- app_assoc. reflexivity.
Qed.

(* ---------- destinations ---------- *)
Lemma eval_dest_asset :
  (forall d f b lf b1 ps, eval_dest e d f b = Ok (lf, b1, ps) -> fasset lf = fasset f) /\
  (forall kd f b lf b1 ps, eval_kod e kd f b = Ok (lf, b1, ps) -> fasset lf = fasset f) /\
  (forall l f kk b lf k1 b1 ps, eval_dmaxes e l f kk b = Ok (lf, k1, b1, ps) -> fasset lf = fasset f) /\
  (forall l parts f b lf b1 ps, eval_dallots e l parts f b = Ok (lf, b1, ps) -> fasset lf = fasset f).
Proof.
  apply dest_mutind.
  - intros a f b lf b1 ps H. simpl in H. dobind H rr Et. destruct rr as [res rem]. inv H. apply (take_spec _ _ _ _ Et).
  - intros l IHl r IHr f b lf b1 ps H. simpl in H.
    dobind H x1 E1. destruct x1 as [[[f1 kk] b2] ps1]. dobind H x2 E2. destruct x2 as [res rem].
    dobind H x3 E3. destruct x3 as [[lf3 b3] ps3]. dobind H out E4. inv H.
    destruct (assemble2 anyacc _ _ _ E4) as [_ [A2 _]]. destruct (take_spec _ _ _ _ E2) as [_ [_ [T3 _]]].
    rewrite A2. simpl. rewrite T3. simpl. apply (IHl _ _ _ _ _ _ _ E1).
  - intros l IHl f b lf b1 ps H. simpl in H. dobind H al Ea. apply (IHl _ _ _ _ _ _ H).
  - intros f b lf b1 ps H. simpl in H. inv H. reflexivity.
  - intros d IH f b lf b1 ps H. apply (IH _ _ _ _ _ H).
  - intros f kk b lf k1 b1 ps H. simpl in H. inv H. reflexivity.
  - intros m kd IHk tl IHt f kk b lf k1 b1 ps H. simpl in H.
    dobind H mm Em. destruct mm as [ma mo]. destruct mo as [x|]; [|discriminate].
    destruct (x <? 0); [discriminate|]. destruct (negb _); [discriminate|].
    destruct (take_max x f) as [taken rem] eqn:Et. destruct (take_max_spec anyacc _ _ _ _ Et) as [_ [_ [T3 _]]].
    dobind H x1 E1. destruct x1 as [[lf1 b2] ps1]. dobind H f1 E2. dobind H x2 E3. destruct x2 as [[[f2 k2] b3] ps2]. inv H.
    destruct (assemble2 anyacc _ _ _ E2) as [_ [A2 _]]. rewrite (IHt _ _ _ _ _ _ _ E3). congruence.
  - intros parts f b lf b1 ps H. simpl in H. inv H. reflexivity.
  - intros p kd IHk tl IHt parts f b lf b1 ps H. simpl in H. destruct parts as [|x ptl]; [inv H; reflexivity|].
    dobind H x0 E0. destruct x0 as [res rem]. destruct (take_spec _ _ _ _ E0) as [_ [_ [_ T4]]].
    dobind H x1 E1. destruct x1 as [[lf1 b2] ps1]. dobind H f1 E2. dobind H x2 E3. destruct x2 as [[f2 b3] ps2]. inv H.
    destruct (assemble2 anyacc _ _ _ E2) as [_ [A2 _]]. rewrite (IHt _ _ _ _ _ _ E3). congruence.
Qed.

Lemma exec_dest :
  (forall d, chk_dest te d = true -> forall f k stk b pp tx ac,
     exec L (code (gen_dest ve d) ++ k) (St (XFunding f :: stk) b pp tx ac) =
     do (lf, b1, ps1) <- eval_dest e d f b; exec L k (St (XFunding lf :: stk) b1 (pp ++ ps1) tx ac)) /\
  (forall kd, chk_kod te kd = true -> forall f k stk b pp tx ac,
     exec L (code (gen_kod ve kd) ++ k) (St (XFunding f :: stk) b pp tx ac) =
     do (lf, b1, ps1) <- eval_kod e kd f b; exec L k (St (XFunding lf :: stk) b1 (pp ++ ps1) tx ac)) /\
  (forall l, chk_dmaxes te l = true -> forall f kk k stk b pp tx ac,
     exec L (code (gen_dmaxes ve l) ++ k) (St (XFunding f :: XV (VMonetary (fasset f) (Some kk)) :: stk) b pp tx ac) =
     do (f1, k1, b1, ps1) <- eval_dmaxes e l f kk b;
     exec L k (St (XFunding f1 :: XV (VMonetary (fasset f) (Some k1)) :: stk) b1 (pp ++ ps1) tx ac)) /\
  (forall l, chk_dallots te l = true -> forall parts f k stk b pp tx ac, List.length parts = dallots_len l ->
     exec L (code (gen_dallots ve l) ++ k) (St (XFunding f :: mparts (fasset f) parts ++ stk) b pp tx ac) =
     do (f2, b1, ps1) <- eval_dallots e l parts f b; exec L k (St (XFunding f2 :: stk) b1 (pp ++ ps1) tx ac)).
Proof.
  apply dest_mutind.
  - (* account *) intros a Hc f k stk b pp tx ac. simpl in Hc. simpl. rewrite String.eqb_refl. simpl.
    destruct (take (total f) f) as [[res rem]| |]; simpl; try reflexivity. rewrite (denote_acc _ Hc). simpl. reflexivity.
  - (* in order *) intros l IHl r IHr Hc f k stk b pp tx ac. simpl in Hc. destruct l as [|m0 k0 l0] eqn:El; [discriminate|]. rewrite <- El in *.
    apply andb_prop in Hc. destruct Hc as [Hc1 Hc2].
    simpl gen_dest. norm. run. rewrite (IHl Hc1). simpl eval_dest.
    destruct (eval_dmaxes e l f 0 b) as [[[[f1 k1] b1] ps1]| |] eqn:E1; bnd; try reflexivity.
    pose proof (proj1 (proj2 (proj2 eval_dest_asset)) _ _ _ _ _ _ _ _ E1) as Ha.
    run. rewrite Ha, String.eqb_refl. run.
    destruct (take k1 (freverse f1)) as [[res rem]| |]; run; try reflexivity.
    rewrite (IHr Hc2). destruct (eval_kod e r (freverse rem) b1) as [[[lf b2] ps2]| |]; bnd; try reflexivity.
    run. rewrite vm_assemble2. destruct (assemble [lf; freverse res]); run; [|reflexivity|reflexivity].
    rewrite app_assoc. reflexivity.
  - (* allotment *) intros l IHl Hc f k stk b pp tx ac. simpl in Hc. apply andb_prop in Hc. destruct Hc as [Hp Hc].
    simpl gen_dest. norm. run. rewrite (exec_allotment _ Hp). simpl eval_dest.
    destruct (make_allotment e (dallots_portions l)) as [al| |] eqn:Ea; bnd; try reflexivity.
    assert (List.length (allocate (total f) al) = dallots_len l) as Hlen.
    { rewrite AllotProofs.allocate_length. unfold make_allotment in Ea.
      destruct (new_allotment (map (eval_portion e) (dallots_portions l))) as [|a0] eqn:En; [discriminate|]. inv Ea.
      unfold new_allotment in En. destruct (Nat.ltb 1 _); [discriminate|]. destruct (Qlt_le_dec _ _); [discriminate|].
      inv En. rewrite !map_length. apply dallots_portions_len. }
    run. replace (Z.of_nat (dallots_kods_len l) <? 0) with false by (symmetry; apply Z.ltb_ge; lia). rewrite Nat2Z.id.
    assert (dallots_kods_len l = List.length (mparts (fasset f) (allocate (total f) al))) as Hk.
    { unfold mparts. rewrite map_length, Hlen. clear. induction l; simpl; congruence. }
    rewrite Hk. fold (mparts (fasset f) (allocate (total f) al)). rewrite bump_app. run.
    apply (IHl Hc). assumption.
  - intros _ f k stk b pp tx ac. simpl. rewrite app_nil_r. reflexivity.
  - intros d IH Hc f k stk b pp tx ac. apply (IH Hc).
  - intros _ f kk k stk b pp tx ac. simpl. rewrite app_nil_r. reflexivity.
  - (* max *) intros m kd IHk tl IHt Hc f kk k stk b pp tx ac. simpl in Hc.
    apply andb_prop in Hc. destruct Hc as [Hc Hc3]. apply andb_prop in Hc. destruct Hc as [Hc1 Hc2].
    simpl gen_dmaxes. norm. rewrite (exec_mon m Hc1). simpl eval_dmaxes.
    destruct (eval_mon e m) as [[ma mo]| |]; bnd; try reflexivity. run.
    destruct mo as [x|]; [|reflexivity]. destruct (x <? 0); [reflexivity|].
    destruct (negb (String.eqb (fasset f) ma)) eqn:Ena; [reflexivity|]. apply negb_false_iff, String.eqb_eq in Ena.
    destruct (take_max x f) as [taken rem] eqn:Et. destruct (take_max_spec anyacc _ _ _ _ Et) as [_ [T2 [T3 _]]].
    run. rewrite (IHk Hc2).
    destruct (eval_kod e kd taken b) as [[[lf b1] ps1]| |] eqn:E1; bnd; try reflexivity.
    pose proof (proj1 (proj2 eval_dest_asset) _ _ _ _ _ _ E1) as Ha.
    run. rewrite Ha, T2, String.eqb_refl. run. rewrite vm_assemble2.
    destruct (assemble [lf; rem]) as [f1| |] eqn:E2; run; try reflexivity.
    destruct (assemble2 anyacc _ _ _ E2) as [_ [A2 _]].
    replace (fasset f) with (fasset f1) by congruence. norm. rewrite (IHt Hc3).
    destruct (eval_dmaxes e tl f1 (total lf + kk) b1) as [[[[f2 k2] b2] ps2]| |]; bnd; try reflexivity.
    rewrite app_assoc. reflexivity.
  - intros _ parts f k stk b pp tx ac Hl. simpl in Hl. destruct parts; [|discriminate]. simpl. rewrite app_nil_r. reflexivity.
  - (* allotment part *) intros p kd IHk tl IHt Hc parts f k stk b pp tx ac Hl. simpl in Hc, Hl.
    apply andb_prop in Hc. destruct Hc as [Hc1 Hc2]. destruct parts as [|x ptl]; [discriminate|].
    simpl gen_dallots. norm. run. rewrite String.eqb_refl. run.
    destruct (take x f) as [[res rem]| |] eqn:E0; run; try reflexivity.
    destruct (take_spec _ _ _ _ E0) as [_ [_ [T3 T4]]]. norm. rewrite (IHk Hc1).
    destruct (eval_kod e kd res b) as [[[lf b1] ps1]| |] eqn:E1; bnd; try reflexivity.
    run. rewrite vm_assemble2. destruct (assemble [lf; rem]) as [f1| |] eqn:E2; run; try reflexivity.
    destruct (assemble2 anyacc _ _ _ E2) as [_ [A2 _]].
    replace (fasset f) with (fasset f1) by congruence. norm. rewrite (IHt Hc2) by (simpl in Hl; lia).
    destruct (eval_dallots e tl ptl f1 b1) as [[[f2 b2] ps2]| |]; bnd; try reflexivity.
    rewrite app_assoc. reflexivity.
Qed.

(* ---------- statements ---------- *)
Definition vm_of (ms : mstate) (stk : list vval) : vmstate :=
  St stk (mbal ms) (List.concat (mposts ms)) (mtx ms) (macc ms).

Lemma concat_snoc {A} (l : list (list A)) x : List.concat (l ++ [x]) = List.concat l ++ x.
Proof. rewrite concat_app. simpl. rewrite app_nil_r. reflexivity. Qed.

Lemma exec_val v : chk_val te v = true -> forall k stk b pp tx ac,
  exec L (code (gen_val ve v) ++ k) (St stk b pp tx ac) = do x <- eval_val e v; exec L k (St (XV x :: stk) b pp tx ac).
Proof.
  intros Hc k stk b pp tx ac. destruct v; simpl in Hc; try (simpl; reflexivity).
  - simpl gen_val. rewrite (exec_mon m Hc). simpl eval_val. destruct (eval_mon e m) as [[a o]| |]; reflexivity.
  - unfold declared in Hc. destruct (lookup te x) as [t|] eqn:Et; [|discriminate].
    destruct (denote_var _ _ Et) as [v [H1 [H2 H3]]]. simpl. rewrite H3, H1. reflexivity.
Qed.

Lemma chk_mon_leftmost m : chk_mon te m = true -> chk_mon te (leftmost m) = true.
Proof. induction m; simpl; intros Hc; try assumption; apply andb_prop in Hc; destruct Hc as [Hc _]; apply andb_prop in Hc; destruct Hc as [H1 _]; auto. Qed.

Lemma denote_mon_res m : chk_mon te m = true ->
  denote e (mon_res ve m) = XV (VMonetary (fst (leaf_value e m)) (snd (leaf_value e m))).
Proof.
  intros Hc. pose proof (chk_mon_leftmost m Hc) as Hl. unfold mon_res, leaf_value.
  destruct (leftmost m) as [a n|x| |] eqn:El; simpl in Hl.
  - apply andb_prop in Hl. destruct Hl as [Ha _]. simpl. rewrite (denote_asset _ Ha). reflexivity.
  - destruct (denote_var _ _ (has_ty_lookup _ _ Hl)) as [v [H1 [H2 H3]]]. rewrite H3, H1. destruct v; try discriminate. reflexivity.
  - exfalso. clear - El. induction m; simpl in El; try discriminate; auto.
  - exfalso. clear - El. induction m; simpl in El; try discriminate; auto.
Qed.

Lemma eval_alloc_sources_len A ma : forall l parts b fs b1, List.length parts = List.length l ->
  eval_alloc_sources e A ma l parts b = Ok (fs, b1) -> List.length fs = List.length l.
Proof.
  induction l as [|[p s] tl IH]; intros parts b fs b1 Hl H; simpl in H.
  - destruct parts; inv H; reflexivity.
  - destruct parts as [|x ptl]; [discriminate|]. assert (List.length ptl = List.length tl) as Hl' by (simpl in Hl; lia).
    dobind H fb Es. destruct fb as [f0 b0]. dobind H rb Et. destruct rb as [res b2].
    dobind H gb El. destruct gb as [gs b3]. inv H. simpl. f_equal. apply (IH _ _ _ _ Hl' El).
Qed.

Lemma exec_stmt_correct s : chk_stmt te s = true -> forall k stk ms,
  exec L (code (gen_stmt ve s) ++ k) (vm_of ms stk) = do ms1 <- exec_stmt e s ms; exec L k (vm_of ms1 stk).
Proof.
  intros Hc k stk ms. unfold vm_of. destruct s as [m vs d|a src d|key v|a key v|m a|a acc|]; simpl in Hc.
  - (* send *) apply andb_prop in Hc. destruct Hc as [Hc Hd]. apply andb_prop in Hc. destruct Hc as [Hm Hvs].
    simpl gen_stmt. norm. rewrite code_mon_alloc. simpl app. simpl exec_stmt. unfold exec_send, eval_vsource.
    pose proof (fun k0 stk0 b0 ps0 tx0 ac0 => exec_push_mon_asset m Hm k0 (St stk0 b0 ps0 tx0 ac0)) as Hpa. bnd. cbv beta in Hpa.
    destruct vs as [src|l]; simpl in Hvs.
    + destruct (chk_source te false src) as [r0|] eqn:Es; [|discriminate]. norm.
      rewrite (proj1 (exec_source (mon_asset e m) _ Hpa) _ _ _ Es).
      destruct (eval_source e (mon_asset e m) src (mbal ms)) as [[f b1]| |]; bnd; try reflexivity.
      rewrite (exec_mon m Hm). destruct (eval_mon e m) as [[ma mo]| |]; bnd; try reflexivity.
      rewrite (exec_take_from_source (fallback_of src) f ma mo _ _ b1 _ _ _ (proj1 chk_fallback _ _ _ Es)).
      destruct (take_from_source e (fallback_of src) f ma mo b1) as [[res b2]| |]; bnd; try reflexivity.
      rewrite (proj1 exec_dest d Hd). destruct (eval_dest e d res b2) as [[[lf b3] ps1]| |]; bnd; try reflexivity.
      simpl. bnd. rewrite concat_snoc. reflexivity.
    + apply andb_prop in Hvs. destruct Hvs as [Hp Hss]. norm.
      rewrite (exec_mon m Hm). destruct (eval_mon e m) as [[ma mo]| |]; bnd; try reflexivity.
      rewrite (exec_allotment _ Hp). destruct (make_allotment e (map fst l)) as [al| |] eqn:Ea; bnd; try reflexivity.
      simpl. bnd. destruct mo as [x|]; [|reflexivity]. norm.
      assert (List.length (allocate x al) = List.length l) as Hlen.
      { rewrite AllotProofs.allocate_length. unfold make_allotment in Ea.
        destruct (new_allotment (map (eval_portion e) (map fst l))) as [|a0] eqn:En; [discriminate|]. inv Ea.
        unfold new_allotment in En. destruct (Nat.ltb 1 _); [discriminate|]. destruct (Qlt_le_dec _ _); [discriminate|].
        inv En. rewrite !map_length. reflexivity. }
      pose proof (exec_alloc_sources (mon_asset e m) _ ma Hpa l [] (allocate x al) Hlen Hss) as Hal. simpl in Hal.
      fold (mparts ma (allocate x al)). rewrite Hal.
      destruct (eval_alloc_sources e (mon_asset e m) ma l (allocate x al) (mbal ms)) as [[fs b1]| |] eqn:Ef; bnd; try reflexivity.
      simpl. bnd. rewrite <- (eval_alloc_sources_len _ _ _ _ _ _ _ Hlen Ef), vm_assemble_spec.
      destruct (assemble fs) as [f| |]; bnd; try reflexivity. norm.
      rewrite (proj1 exec_dest d Hd). destruct (eval_dest e d f b1) as [[[lf b3] ps1]| |]; bnd; try reflexivity.
      simpl. bnd. rewrite concat_snoc. reflexivity.
  - (* send all *) apply andb_prop in Hc. destruct Hc as [Hc Hd]. apply andb_prop in Hc. destruct Hc as [Ha Hs].
    destruct (chk_source te true src) as [r0|] eqn:Es; [|discriminate].
    simpl gen_stmt. simpl code. norm. simpl exec_stmt. unfold exec_send_all.
    assert (forall k0 stk0 b0 ps0 tx0 ac0, exec L (code [ev true (res_asset ve a)] ++ k0) (St stk0 b0 ps0 tx0 ac0)
                                           = exec L k0 (St (XV (VAsset (eval_asset e a)) :: stk0) b0 ps0 tx0 ac0)) as Hpa.
    { intros. simpl. rewrite (denote_asset _ Ha). reflexivity. }
    rewrite (proj1 (exec_source (eval_asset e a) _ Hpa) _ _ _ Es).
    destruct (eval_source e (eval_asset e a) src (mbal ms)) as [[f b1]| |]; bnd; try reflexivity.
    destruct (src_plain src); simpl negb; simpl andb.
    + simpl app. rewrite (proj1 exec_dest d Hd). destruct (eval_dest e d f b1) as [[[lf b3] ps1]| |]; bnd; try reflexivity.
      simpl. bnd. rewrite concat_snoc. reflexivity.
    + simpl. bnd. rewrite (denote_asset _ Ha). simpl. bnd. destruct (String.eqb (fasset f) (eval_asset e a)); simpl; [|reflexivity].
      bnd. rewrite (proj1 exec_dest d Hd). destruct (eval_dest e d f b1) as [[[lf b3] ps1]| |]; bnd; try reflexivity.
      simpl. bnd. rewrite concat_snoc. reflexivity.
  - (* set_tx_meta *) simpl gen_stmt. norm. rewrite (exec_val v Hc). simpl exec_stmt.
    destruct (eval_val e v) as [x| |]; bnd; try reflexivity. simpl. bnd. rewrite concat_snoc, app_nil_r. reflexivity.
  - (* set_account_meta *) apply andb_prop in Hc. destruct Hc as [Hv Ha]. simpl gen_stmt. norm. rewrite (exec_val v Hv). simpl exec_stmt.
    destruct (eval_val e v) as [x| |]; bnd; try reflexivity. simpl. bnd. rewrite (denote_acc _ Ha). simpl. bnd.
    rewrite concat_snoc, app_nil_r. reflexivity.
  - (* save monetary *) apply andb_prop in Hc. destruct Hc as [Hm Ha]. simpl gen_stmt. norm. rewrite code_mon_alloc. simpl.
    rewrite (denote_mon_res m Hm), (denote_acc _ Ha). simpl exec_stmt. destruct (leaf_value e m) as [asset o]. simpl. bnd.
    rewrite concat_snoc, app_nil_r. reflexivity.
  - (* save all *) apply andb_prop in Hc. destruct Hc as [Ha Hacc]. simpl. rewrite (denote_asset _ Ha), (denote_acc _ Hacc). simpl. bnd.
    rewrite concat_snoc, app_nil_r. reflexivity.
  - reflexivity.
Qed.

Lemma exec_stmts_correct l : Forall (fun s => chk_stmt te s = true) l -> forall k stk ms,
  exec L (code (flat_map (gen_stmt ve) l) ++ k) (vm_of ms stk) = do ms1 <- exec_stmts e l ms; exec L k (vm_of ms1 stk).
Proof.
  induction 1 as [|s l Hs _ IH]; intros k stk ms; simpl; [reflexivity|]. norm. rewrite (exec_stmt_correct s Hs).
  destruct (exec_stmt e s ms) as [ms1| |]; bnd; try reflexivity. apply IH.
Qed.
End Correct.

(* ====================================================================== whole programs, symbolic operands *)
Definition venv_ok (te : tenv) (ve : venv) : Prop :=
  forall x t, lookup te x = Some t -> exists r, lookup ve x = Some r /\ var_name r = Some x.

Lemma gen_vars_spec ds : forall te te' ve evs ve', chk_vars te ds = Some te' -> gen_vars ve ds = (evs, ve') ->
  venv_ok te ve -> (forall x r, lookup ve x = Some r -> declared te x = true) ->
  venv_ok te' ve' /\ code evs = [].
Proof.
  induction ds as [|d tl IH]; intros te te' ve evs ve' Hk Hg Hv Hdom; simpl in Hk, Hg.
  - inv Hk. inv Hg. split; [assumption|reflexivity].
  - destruct (declared te (vname d)) eqn:Ed; [discriminate|].
    set (r := match vorigin d with
              | ONone => RVar (vty d) (vname d)
              | OMeta a k => RVarMeta (vty d) (vname d) (res_acc ve a) k
              | OBalance a s => RVarBal (vname d) (res_acc ve a) (res_asset ve s)
              end).
    assert (var_name r = Some (vname d)) as Hr by (unfold r; destruct (vorigin d); reflexivity).
    destruct (match vorigin d with ONone => true | OMeta a _ => chk_acc te a | OBalance a s0 => ty_eqb (vty d) TMonetary && chk_acc te a && chk_asset te s0 end); [|discriminate].
    assert (exists evs0 rest, gen_vars (ve ++ [(vname d, r)]) tl = (rest, ve') /\ evs = evs0 ++ [EAlloc r] ++ rest /\ code evs0 = []) as [evs0 [rest [Hg' [He Hc0]]]].
    { unfold r. destruct (vorigin d) as [|a k|a s0]; destruct (gen_vars _ tl) as [rest ve''] eqn:Eg; inv Hg.
      - exists [], rest. repeat split; reflexivity.
      - exists [EAlloc (res_acc ve a)], rest. repeat split; reflexivity.
      - exists [EAlloc (res_acc ve a); EAlloc (res_asset ve s0)], rest. repeat split; reflexivity. }
    destruct (IH _ _ _ _ _ Hk Hg') as [H1 H2].
    + intros x t Hl. rewrite lookup_app in Hl. rewrite lookup_app. destruct (lookup te x) as [t0|] eqn:E.
      * inv Hl. destruct (Hv _ _ E) as [r0 [Hr0 Hn0]]. rewrite Hr0. exists r0. auto.
      * simpl in Hl. destruct (String.eqb (vname d) x) eqn:Ex; [|discriminate]. apply String.eqb_eq in Ex. subst x.
        destruct (lookup ve (vname d)) as [r0|] eqn:E0.
        -- specialize (Hdom _ _ E0). congruence.
        -- simpl. rewrite String.eqb_refl. exists r. auto.
    + intros x r0 Hl. rewrite declared_app. rewrite lookup_app in Hl. destruct (lookup ve x) as [r1|] eqn:E0.
      * rewrite (Hdom _ _ E0). reflexivity.
      * simpl in Hl. destruct (String.eqb (vname d) x); [apply orb_true_r|discriminate].
    + split; [assumption|]. rewrite He, !code_app, Hc0, H2. reflexivity.
Qed.

(* executing the code emitted for a checked program, APUSH operands resolved by denotation in the environment of the
   run, from the initial tracked balances: exactly Sem.exec_stmts; in particular the stack is empty at the end *)
Theorem exec_gen_correct p te e b0 : chk_vars [] (pvars p) = Some te -> Forall (fun s => chk_stmt te s = true) (pstmts p) ->
  cons_env te e ->
  exec (fun r => Some (denote e r)) (code (sp_events (gen p))) {| vstk := []; vbal := b0; vposts := []; vtx := []; vacc := [] |} =
  do ms <- exec_stmts e (pstmts p) (init_state b0);
  Ok {| vstk := []; vbal := mbal ms; vposts := List.concat (mposts ms); vtx := mtx ms; vacc := macc ms |}.
Proof.
  intros Hk Hs Hc. unfold gen. destruct (gen_vars [] (pvars p)) as [evs ve] eqn:Eg. simpl sp_events.
  destruct (gen_vars_spec _ _ _ _ _ _ Hk Eg) as [Hve Hcode].
  { intros x t Hl. discriminate. } { intros x r Hl. discriminate. }
  assert (forall nd : list (rdesc * rdesc), code (flat_map (fun an => [EAlloc (fst an); EAlloc (snd an)]) nd) = []) as Hnd
    by (induction nd; simpl; auto).
  rewrite !code_app, Hcode, Hnd. simpl app.
  pose proof (exec_stmts_correct te e ve Hc Hve (pstmts p) Hs [] [] (init_state b0)) as H.
  unfold vm_of in H. simpl in H. rewrite H. destruct (exec_stmts e (pstmts p) (init_state b0)); reflexivity.
Qed.

(* ---------- consequences for the emitted instruction stream ---------- *)
From LV Require Import Machine.SemSafe Machine.RunProofs.

Definition sym_look (e : env) : rdesc -> option vval := fun r => Some (denote e r).
Definition vm_init (b0 : bals) : vmstate := {| vstk := []; vbal := b0; vposts := []; vtx := []; vacc := [] |}.

(* every typed pop finds its type, every BUMP index is in range, no nil amount is dereferenced, and the stack is
   empty when the last instruction has run *)
Theorem code_no_panic p te e b0 : chk_vars [] (pvars p) = Some te -> Forall (fun s => chk_stmt te s = true) (pstmts p) ->
  cons_env te e -> env_valid e ->
  exec (sym_look e) (code (sp_events (gen p))) (vm_init b0) <> Panic /\
  forall st, exec (sym_look e) (code (sp_events (gen p))) (vm_init b0) = Ok st -> vstk st = [] /\ finish st = Ok st.
Proof.
  intros Hk Hs Hc Hv. unfold sym_look, vm_init. rewrite (exec_gen_correct p te e b0 Hk Hs Hc).
  assert (env_ok e) as Hok by (intros x a Hl; apply (proj2 (Hv _ _ Hl) a); reflexivity).
  pose proof (exec_stmts_np e Hok (pstmts p) (init_state b0)) as Hnp.
  destruct (exec_stmts e (pstmts p) (init_state b0)) as [ms| |]; simpl.
  - split; [discriminate|]. intros st H. inv H. split; reflexivity.
  - split; [discriminate|]. intros st H. discriminate.
  - contradiction.
Qed.

(* a successful run of Sem is reproduced instruction by instruction by the emitted code: same postings in the same
   order, same metadata, same tracked balances; an execution error of Sem is the same error of the code *)
Theorem code_refines_sem p given s r : run p given s = Ok r ->
  exists te e, chk_vars [] (pvars p) = Some te /\ cons_env te e /\ env_valid e /\
    exec (sym_look e) (code (sp_events (gen p))) (vm_init (rinit r)) =
    Ok {| vstk := []; vbal := rbal r; vposts := all_postings r; vtx := rtx r; vacc := racc r |}.
Proof.
  intros H. destruct (run_inv_full _ _ _ _ H) as [te [e [ms [Hk [Hchk [Hc [Hv [He [Hp [Hb [Hsv [Ht Ha]]]]]]]]]]]].
  exists te, e. split; [exact Hk|]. split; [exact Hc|]. split; [exact Hv|].
  unfold sym_look, vm_init. rewrite (exec_gen_correct p te e (rinit r) Hk Hchk Hc), He. simpl.
  unfold all_postings. rewrite Hp, Hb, Ht, Ha. reflexivity.
Qed.
