(* C27: where can Sem.run yield Panic?  Only through a monetary whose amount is nil (None), which only a
   balance() variable overwritten in m.UnresolvedResourceBalances has. *)
From Coq Require Import List ZArith QArith String Bool Lia.
From LV Require Import Machine.Syntax Machine.Allot Machine.Lex Machine.Sem.
Import ListNotations.
Open Scope Z_scope.

Definition env_ok (e : env) : Prop := forall x a, lookup e x <> Some (VMonetary a None).

Lemma bind_panic {A B} (o : outcome A) (f : A -> outcome B) :
  bind o f = Panic -> o = Panic \/ exists a, o = Ok a /\ f a = Panic.
Proof. destruct o; simpl; intros H; [right; eauto|discriminate|left; reflexivity]. Qed.

Ltac dm H := match type of H with context[match ?x with _ => _ end] => destruct x eqn:? end.
Ltac bp H := let a := fresh "a" in let E := fresh "E" in
  apply bind_panic in H; destruct H as [H|[a [E H]]].

Lemma eval_mon_np e m : eval_mon e m <> Panic.
Proof.
  induction m as [a n|x|l IHl r IHr|l IHl r IHr]; simpl; try discriminate.
  - destruct (lookup e x) as [[]|]; discriminate.
  - intros H. bp H; [contradiction|]. destruct a as [la lo]. bp H; [contradiction|]. destruct a as [ra ro].
    destruct (String.eqb la ra); discriminate.
  - intros H. bp H; [contradiction|]. destruct a as [la lo]. bp H; [contradiction|]. destruct a as [ra ro].
    destruct (String.eqb la ra); discriminate.
Qed.

Lemma eval_mon_some e m : env_ok e -> forall a o, eval_mon e m = Ok (a, o) -> o <> None.
Proof.
  intros He. induction m as [a n|x|l IHl r IHr|l IHl r IHr]; simpl; intros A o H.
  - inversion H. discriminate.
  - destruct (lookup e x) as [v|] eqn:E; [|inversion H; discriminate].
    destruct v; try (inversion H; discriminate). inversion H. subst. intros ->. apply (He _ _ E).
  - destruct (eval_mon e l) as [[la lo]| |]; simpl in H; try discriminate.
    destruct (eval_mon e r) as [[ra ro]| |]; simpl in H; try discriminate.
    destruct (String.eqb la ra); inversion H. discriminate.
  - destruct (eval_mon e l) as [[la lo]| |]; simpl in H; try discriminate.
    destruct (eval_mon e r) as [[ra ro]| |]; simpl in H; try discriminate.
    destruct (String.eqb la ra); inversion H. discriminate.
Qed.

Lemma take_np amt f : take amt f <> Panic.
Proof. unfold take. destruct (take_loop amt (fparts f)) as [[r m] l]. destruct (l =? 0); discriminate. Qed.
Lemma assemble_np fs : assemble fs <> Panic.
Proof. unfold assemble. destruct (rev fs); [discriminate|]. destruct (forallb _ fs); discriminate. Qed.
Lemma withdraw_all_np b acc asset o : withdraw_all b acc asset (Some o) <> Panic.
Proof. unfold withdraw_all. destruct (bget b (acc, asset)); [|discriminate]. destruct (0 <? _); discriminate. Qed.
Lemma make_allotment_np e ps : make_allotment e ps <> Panic.
Proof. unfold make_allotment. destruct (new_allotment _); discriminate. Qed.

Lemma take_max_fb_np e fb f ma x b : take_max_fb e fb f ma (Some x) b <> Panic.
Proof.
  unfold take_max_fb. destruct (x <? 0); [discriminate|]. destruct (negb _); [discriminate|].
  destruct (take_max x f) as [taken rem]. destruct fb; [|discriminate].
  destruct (withdraw_always _ _ _ _) as [f2 b2]. intros H. bp H; [apply (assemble_np _ H)|discriminate].
Qed.
Lemma take_from_source_np e fb f ma x b : take_from_source e fb f ma (Some x) b <> Panic.
Proof.
  unfold take_from_source. destruct fb; [apply take_max_fb_np|]. destruct (negb _); [discriminate|].
  intros H. bp H; [apply (take_np _ _ H)|]. destruct a; discriminate.
Qed.

Section Safe.
Variable e : env.
Hypothesis He : env_ok e.

Lemma eval_source_np :
  (forall s A b, eval_source e A s b <> Panic) /\ (forall l A b, eval_sources e A l b <> Panic).
Proof.
  apply source_mutind.
  - intros a o A b. simpl. destruct o as [|m|].
    + destruct (is_world a); [discriminate|apply withdraw_all_np].
    + intros H. bp H; [apply (eval_mon_np _ _ H)|]. destruct a0 as [ma mo]. destruct mo as [x|]; [apply (withdraw_all_np _ _ _ _ H)|].
      apply (eval_mon_some _ _ He _ _ E). reflexivity.
    + discriminate.
  - intros m s IH A b. simpl. intros H. bp H; [apply (IH _ _ H)|]. destruct a as [f b1].
    bp H; [apply (eval_mon_np _ _ H)|]. destruct a as [ma mo].
    destruct mo as [x|]; [|apply (eval_mon_some _ _ He _ _ E0); reflexivity].
    destruct (fallback_of s); apply (take_max_fb_np _ _ _ _ _ _ H).
  - intros l IH A b. simpl. intros H. bp H; [apply (IH _ _ H)|]. destruct a as [fs b1].
    bp H; [apply (assemble_np _ H)|discriminate].
  - intros A b. simpl. discriminate.
  - intros s IHs l IHl A b. simpl. intros H. bp H; [apply (IHs _ _ H)|]. destruct a as [f b1].
    bp H; [apply (IHl _ _ H)|]. destruct a as [fs b2]. discriminate.
Qed.

Lemma eval_alloc_sources_np A ma : forall l parts b, eval_alloc_sources e A ma l parts b <> Panic.
Proof.
  induction l as [|[p s] tl IH]; intros parts b; simpl; [discriminate|]. destruct parts as [|x ptl]; [discriminate|].
  intros H. bp H; [apply (proj1 eval_source_np _ _ _ H)|]. destruct a as [f b1].
  bp H; [apply (take_from_source_np _ _ _ _ _ _ H)|]. destruct a as [res b2].
  bp H; [apply (IH _ _ H)|]. destruct a. discriminate.
Qed.

Lemma eval_vsource_np m vs b : eval_vsource e m vs b <> Panic.
Proof.
  unfold eval_vsource. destruct vs as [s|l]; intros H.
  - bp H; [apply (proj1 eval_source_np _ _ _ H)|]. destruct a as [f b1].
    bp H; [apply (eval_mon_np _ _ H)|]. destruct a as [ma mo].
    destruct mo as [x|]; [apply (take_from_source_np _ _ _ _ _ _ H)|apply (eval_mon_some _ _ He _ _ E0); reflexivity].
  - bp H; [apply (eval_mon_np _ _ H)|]. destruct a as [ma mo].
    bp H; [apply (make_allotment_np _ _ H)|].
    destruct mo as [x|]; [|apply (eval_mon_some _ _ He _ _ E); reflexivity].
    bp H; [apply (eval_alloc_sources_np _ _ _ _ _ H)|]. destruct a0 as [fs b1].
    bp H; [apply (assemble_np _ H)|discriminate].
Qed.

Lemma eval_dest_np :
  (forall d f b, eval_dest e d f b <> Panic) /\ (forall k f b, eval_kod e k f b <> Panic) /\
  (forall l f k b, eval_dmaxes e l f k b <> Panic) /\ (forall l parts f b, eval_dallots e l parts f b <> Panic).
Proof.
  apply dest_mutind.
  - intros a f b. simpl. intros H. bp H; [apply (take_np _ _ H)|]. destruct a0 as [res rem]. discriminate.
  - intros l IHl r IHr f b. simpl. intros H. bp H; [apply (IHl _ _ _ H)|]. destruct a as [[[f1 k] b1] ps1].
    bp H; [apply (take_np _ _ H)|]. destruct a as [res rem].
    bp H; [apply (IHr _ _ H)|]. destruct a as [[lf b2] ps2].
    bp H; [apply (assemble_np _ H)|discriminate].
  - intros l IH f b. simpl. intros H. bp H; [apply (make_allotment_np _ _ H)|]. apply (IH _ _ _ H).
  - intros f b. simpl. discriminate.
  - intros d IH f b. simpl. apply IH.
  - intros f k b. simpl. discriminate.
  - intros m kd IHk tl IHt f k b. simpl. intros H. bp H; [apply (eval_mon_np _ _ H)|]. destruct a as [ma mo].
    destruct mo as [x|]; [|apply (eval_mon_some _ _ He _ _ E); reflexivity].
    destruct (x <? 0); [discriminate|]. destruct (negb _); [discriminate|]. destruct (take_max x f) as [taken rem].
    bp H; [apply (IHk _ _ H)|]. destruct a as [[lf b1] ps1].
    bp H; [apply (assemble_np _ H)|].
    bp H; [apply (IHt _ _ _ H)|]. destruct a0 as [[[f2 k2] b2] ps2]. discriminate.
  - intros parts f b. simpl. discriminate.
  - intros p kd IHk tl IHt parts f b. simpl. destruct parts as [|x ptl]; [discriminate|].
    intros H. bp H; [apply (take_np _ _ H)|]. destruct a as [res rem].
    bp H; [apply (IHk _ _ H)|]. destruct a as [[lf b1] ps1].
    bp H; [apply (assemble_np _ H)|].
    bp H; [apply (IHt _ _ _ H)|]. destruct a0 as [[f2 b2] ps2]. discriminate.
Qed.

Lemma exec_stmt_np s ms : exec_stmt e s ms <> Panic.
Proof.
  destruct s; simpl; intros H.
  - bp H; [|destruct a as [b ps]; discriminate]. unfold exec_send in H.
    bp H; [apply (eval_vsource_np _ _ _ H)|]. destruct a as [f b1].
    bp H; [apply (proj1 eval_dest_np _ _ _ H)|]. destruct a as [[lf b2] ps]. discriminate.
  - bp H; [|destruct a0 as [b ps]; discriminate]. unfold exec_send_all in H.
    bp H; [apply (proj1 eval_source_np _ _ _ H)|]. destruct a0 as [f b1].
    destruct (negb (src_plain s) && negb (String.eqb (fasset f) (eval_asset e a))); [discriminate|].
    bp H; [apply (proj1 eval_dest_np _ _ _ H)|]. destruct a0 as [[lf b2] ps]. discriminate.
  - bp H; [|discriminate]. destruct v; simpl in H; try discriminate.
    bp H; [apply (eval_mon_np _ _ H)|]. destruct a as [x y]. discriminate.
  - bp H; [|discriminate]. destruct v; simpl in H; try discriminate.
    bp H; [apply (eval_mon_np _ _ H)|]. destruct a0 as [x y]. discriminate.
  - destruct (leaf_value e m). discriminate.
  - discriminate.
  - discriminate.
Qed.

Lemma exec_stmts_np l : forall ms, exec_stmts e l ms <> Panic.
Proof.
  induction l as [|s tl IH]; intros ms; simpl; [discriminate|]. intros H. bp H; [apply (exec_stmt_np _ _ H)|apply (IH _ H)].
Qed.
End Safe.

(* ---------- C23: the primitive every bounded source goes through ---------- *)
Lemma key_eqb_refl k : key_eqb k k = true.
Proof. unfold key_eqb. rewrite !String.eqb_refl. reflexivity. Qed.

Lemma bget_bupd_same b k f : bget (bupd b k f) k = option_map f (bget b k).
Proof.
  induction b as [|[k' v] r IH]; simpl; [reflexivity|]. destruct (key_eqb k' k) eqn:E; simpl; rewrite E; [reflexivity|apply IH].
Qed.

Lemma withdraw_all_bound b acc asset o f b1 x :
  withdraw_all b acc asset (Some o) = Ok (f, b1) -> bget b (acc, asset) = Some x ->
  exists y, bget b1 (acc, asset) = Some y /\ Z.min x (- o) <= y /\ total f = Z.max 0 (x + o) /\ y + total f = x /\
            fparts f = [(acc, total f)].
Proof.
  unfold withdraw_all. intros H Hx. rewrite Hx in H. simpl in H. destruct (0 <? x + o) eqn:E; inversion H; subst; clear H.
  - apply Z.ltb_lt in E. exists (- o). rewrite bget_bupd_same, Hx. unfold total; simpl. repeat split; try lia.
    rewrite Z.add_0_r. reflexivity.
  - apply Z.ltb_ge in E. exists x. unfold total; simpl. repeat split; try lia. assumption.
Qed.
