(* Executable big-step semantics of Numscript programs, mirroring what compiler.Compile followed by
   vm.Machine.{SetVarsFromJSON, ResolveResources, ResolveBalances, Execute} jointly do
   (internal/machine/script/compiler/*.go, internal/machine/vm/machine.go, internal/machine/funding.go).
   Each function names the Go code it transcribes. Amounts are Z. Where Go would panic the outcome is [Panic]. *)
From Coq Require Import List ZArith QArith String Bool.
From LV Require Import Machine.Syntax Machine.Allot Machine.Lex.
Import ListNotations.
Open Scope Z_scope.

(* ------------------------------------------------------------------ outcomes *)
Inductive err :=
| ECompile          (* compiler.Compile returned an error *)
| EInvalidVars      (* machine.ErrInvalidVars *)
| EMissingMeta      (* machine.ErrMissingMetadata *)
| ENegativeAmount   (* machine.ErrNegativeAmount (balance() of a negative balance) *)
| EInsufficient     (* machine.ErrInsufficientFund *)
| EInvalidScript    (* machine.ErrInvalidScript *)
| EScriptFailed     (* machine.ErrScriptFailed (`fail`) *)
| EOther.           (* any other error value (plain fmt.Errorf) *)

Inductive outcome (A : Type) := Ok (a : A) | Err (e : err) | Panic.
Arguments Ok {A} a. Arguments Err {A} e. Arguments Panic {A}.

Definition bind {A B} (o : outcome A) (f : A -> outcome B) : outcome B :=
  match o with Ok a => f a | Err e => Err e | Panic => Panic end.
Notation "'do' x <- o ; k" := (bind o (fun x => k)) (at level 200, x pattern, o at level 100, k at level 200, right associativity).

(* ------------------------------------------------------------------ environments *)
Definition env := list (string * value).
Fixpoint lookup {V} (e : list (string * V)) (x : string) : option V :=
  match e with [] => None | (y, v) :: r => if String.eqb y x then Some v else lookup r x end.

Definition key := (string * string)%type.       (* (account, asset) or (account, metadata key) *)
Definition key_eqb (a b : key) : bool := String.eqb (fst a) (fst b) && String.eqb (snd a) (snd b).
Definition bals := list (key * Z).
Fixpoint bget {V} (b : list (key * V)) (k : key) : option V :=
  match b with [] => None | (k', v) :: r => if key_eqb k' k then Some v else bget r k end.
(* apply f to the tracked balance of k; untracked pairs are not tracked: no-op *)
Fixpoint bupd (b : bals) (k : key) (f : Z -> Z) : bals :=
  match b with
  | [] => []
  | (k', v) :: r => if key_eqb k' k then (k', f v) :: r else (k', v) :: bupd r k f
  end.
Fixpoint kset {V} (m : list (key * V)) (k : key) (v : V) : list (key * V) :=
  match m with
  | [] => [(k, v)]
  | (k', v') :: r => if key_eqb k' k then (k', v) :: r else (k', v') :: kset r k v
  end.
Fixpoint sset {V} (m : list (string * V)) (k : string) (v : V) : list (string * V) :=
  match m with
  | [] => [(k, v)]
  | (k', v') :: r => if String.eqb k' k then (k', v) :: r else (k', v') :: sset r k v
  end.

(* ------------------------------------------------------------------ expressions *)
Definition eval_acc (e : env) (a : accexpr) : string :=
  match a with
  | AccLit s => s
  | AccVar x => match lookup e x with Some (VAccount s) => s | _ => ""%string end
  end.
Definition eval_asset (e : env) (a : assetexpr) : string :=
  match a with
  | AssetLit s => s
  | AssetVar x => match lookup e x with Some (VAsset s) => s | _ => ""%string end
  end.
Definition oz (o : option Z) : Z := match o with Some z => z | None => 0 end.   (* MonetaryInt.Add/Sub treat nil as 0 *)

(* VisitExpr(push=true) + OP_MONETARY_ADD / OP_MONETARY_SUB *)
Fixpoint eval_mon (e : env) (m : monexpr) : outcome (string * option Z) :=
  match m with
  | MonLit a n => Ok (eval_asset e a, Some n)
  | MonVar x => match lookup e x with Some (VMonetary a o) => Ok (a, o) | _ => Ok (""%string, Some 0) end
  | MonAdd l r =>
      do (la, lo) <- eval_mon e l; do (ra, ro) <- eval_mon e r;
      if String.eqb la ra then Ok (la, Some (oz lo + oz ro)) else Err EInvalidScript
  | MonSub l r =>
      do (la, lo) <- eval_mon e l; do (ra, ro) <- eval_mon e r;
      if String.eqb la ra then Ok (la, Some (oz lo - oz ro)) else Err EOther
  end.

(* VisitExpr returns the address of the LEFT-MOST operand for e1 + e2 (`return machine.TypeMonetary, lhsAddr`):
   that resource gives the statement's asset (PushAddress(monAddr); OP_ASSET), the needed balances, and is what
   `save M from` pushes. *)
Fixpoint leftmost (m : monexpr) : monexpr :=
  match m with MonAdd l _ | MonSub l _ => leftmost l | _ => m end.
Definition leaf_value (e : env) (m : monexpr) : string * option Z :=
  match leftmost m with
  | MonLit a n => (eval_asset e a, Some n)
  | MonVar x => match lookup e x with Some (VMonetary a o) => (a, o) | _ => (""%string, Some 0) end
  | _ => (""%string, Some 0)
  end.
Definition mon_asset (e : env) (m : monexpr) : string := fst (leaf_value e m).

Definition eval_val (e : env) (v : valexpr) : outcome value :=
  match v with
  | VEAcc s => Ok (VAccount s) | VEAsset s => Ok (VAsset s) | VENum n => Ok (VNumber n)
  | VEStr s => Ok (VString s) | VEPortion q => Ok (VPortion q)
  | VEMon m => do (a, o) <- eval_mon e m; Ok (VMonetary a o)
  | VEVar x => Ok (match lookup e x with Some v => v | None => VString ""%string end)
  end.

(* ------------------------------------------------------------------ fundings (internal/machine/funding.go) *)
Definition part := (string * Z)%type.
Record funding := { fasset : string; fparts : list part }.

Fixpoint total_parts (l : list part) : Z := match l with [] => 0 | (_, x) :: r => x + total_parts r end.
Definition total (f : funding) : Z := total_parts (fparts f).

(* the shared loop of Funding.Take / Funding.TakeMax: (result, remainder, remainingToWithdraw) *)
Fixpoint take_loop (rem : Z) (ps : list part) : list part * list part * Z :=
  match ps with
  | [] => ([], [], rem)
  | (a, x) :: tl =>
      if 0 <? rem then
        if rem <? x then ([(a, rem)], (a, x - rem) :: tl, 0)
        else let '(r, m, lft) := take_loop (rem - x) tl in ((a, x) :: r, m, lft)
      else ([], ps, rem)
  end.

Definition take_max (amt : Z) (f : funding) : funding * funding :=
  let '(r, m, _) := take_loop amt (fparts f) in
  ({| fasset := fasset f; fparts := r |}, {| fasset := fasset f; fparts := m |}).

(* Funding.Take: a zero amount on a non-empty funding yields one zero part on the first account *)
Definition take (amt : Z) (f : funding) : outcome (funding * funding) :=
  let zero := match fparts f with (a, _) :: _ => if amt =? 0 then [(a, amt)] else [] | [] => [] end in
  let '(r, m, lft) := take_loop amt (fparts f) in
  if lft =? 0 then Ok ({| fasset := fasset f; fparts := zero ++ r |}, {| fasset := fasset f; fparts := m |})
  else Err EInsufficient.

(* Funding.Concat: merges the last part of the left with the first of the right when the accounts are equal *)
Fixpoint concat_parts (l r : list part) : list part :=
  match l with
  | [] => r
  | (a, x) :: l' =>
      match l' with
      | [] => match r with
              | (b, y) :: r' => if String.eqb a b then (a, x + y) :: r' else (a, x) :: r
              | [] => [(a, x)]
              end
      | _ => (a, x) :: concat_parts l' r
      end
  end.

(* OP_FUNDING_ASSEMBLE on fundings listed first-pushed first: the asset is that of the LAST one (popped first),
   every other one must have the same asset, parts are concatenated first-pushed first *)
Definition assemble (fs : list funding) : outcome funding :=
  match rev fs with
  | [] => Err EInvalidScript
  | lastf :: _ =>
      if forallb (fun f => String.eqb (fasset f) (fasset lastf)) fs
      then Ok {| fasset := fasset lastf; fparts := fold_left (fun acc f => concat_parts acc (fparts f)) fs [] |}
      else Err EInvalidScript
  end.

Definition freverse (f : funding) : funding := {| fasset := fasset f; fparts := rev (fparts f) |}.

(* ------------------------------------------------------------------ balances (vm/machine.go) *)
(* withdrawAll; overdraft amount None = nil *MonetaryInt (balance.Add(nil) = balance, overdraft.Neg() panics) *)
Definition withdraw_all (b : bals) (acc asset : string) (od : option Z) : outcome (funding * bals) :=
  match bget b (acc, asset) with
  | None => Err EInvalidScript
  | Some x =>
      if 0 <? x + oz od then
        match od with
        | None => Panic
        | Some o => Ok ({| fasset := asset; fparts := [(acc, x + o)] |}, bupd b (acc, asset) (fun _ => - o))
        end
      else Ok ({| fasset := asset; fparts := [(acc, 0)] |}, b)
  end.

(* withdrawAlways *)
Definition withdraw_always (b : bals) (acc asset : string) (amt : Z) : funding * bals :=
  ({| fasset := asset; fparts := [(acc, amt)] |}, bupd b (acc, asset) (fun x => x - amt)).

(* repay: world is skipped; untracked pairs are not tracked *)
Fixpoint repay_parts (b : bals) (asset : string) (ps : list part) : bals :=
  match ps with
  | [] => b
  | (a, x) :: r => repay_parts (if String.eqb a "world"%string then b else bupd b (a, asset) (fun v => v + x)) asset r
  end.
Definition repay (b : bals) (f : funding) : bals := repay_parts b (fasset f) (fparts f).

(* credit *)
Definition credit (b : bals) (dst : string) (f : funding) : bals :=
  if String.eqb dst "world"%string then b
  else fold_left (fun b p => bupd b (dst, fasset f) (fun v => v + snd p)) (fparts f) b.

Record npost := { psrc : string; pdst : string; passet : string; pamt : Z }.

(* OP_SEND *)
Definition send_to (dst : string) (f : funding) (b : bals) : bals * list npost :=
  (credit b dst f, map (fun p => {| psrc := fst p; pdst := dst; passet := fasset f; pamt := snd p |}) (fparts f)).

(* ------------------------------------------------------------------ sources (compiler/source.go + opcodes) *)
Definition is_world (a : accexpr) : bool := match a with AccLit s => String.eqb s "world"%string | _ => false end.

(* the fallback account VisitSource returns *)
Fixpoint last_source (l : sources) : option source :=
  match l with SNil => None | SCons s SNil => Some s | SCons _ tl => last_source tl end.
Fixpoint fallback_of (s : source) : option accexpr :=
  match s with
  | SAccount a OdNone => if is_world a then Some a else None
  | SAccount a OdUnbounded => Some a
  | SAccount _ (OdUpTo _) => None
  | SMaxed _ _ => None
  | SInOrder l => fallbacks_of l
  end
with fallbacks_of (l : sources) : option accexpr :=
  match l with
  | SNil => None
  | SCons s tl => match tl with SNil => fallback_of s | _ => fallbacks_of tl end
  end.

(* TAKE_MAX; Bump 1; REPAY; then either (fallback) APUSH fb; Bump 2; TAKE_ALWAYS; 2; FUNDING_ASSEMBLE or nothing.
   [mo] is the monetary on top of the stack, [f] the funding below it. Used by `max M from S` and, with a fallback,
   by TakeFromSource. *)
Definition take_max_fb (e : env) (fb : option accexpr) (f : funding) (ma : string) (mo : option Z) (b : bals)
  : outcome (funding * bals) :=
  match mo with
  | None => Panic                                   (* mon.Amount.Ltz() on nil *)
  | Some x =>
      if x <? 0 then Err EOther
      else if negb (String.eqb (fasset f) ma) then Err EInvalidScript
      else
        let missing := if total f <? x then x - total f else 0 in
        let '(taken, rem) := take_max x f in
        let b1 := repay b rem in
        match fb with
        | None => Ok (taken, b1)
        | Some fa =>
            let '(f2, b2) := withdraw_always b1 (eval_acc e fa) ma missing in
            do r <- assemble [taken; f2]; Ok (r, b2)
        end
  end.

(* TakeFromSource *)
Definition take_from_source (e : env) (fb : option accexpr) (f : funding) (ma : string) (mo : option Z) (b : bals)
  : outcome (funding * bals) :=
  match fb with
  | Some _ => take_max_fb e fb f ma mo b
  | None =>
      if negb (String.eqb (fasset f) ma) then Err EInvalidScript
      else match mo with
           | None => Panic                          (* Funding.Take: amount.Eq(Zero) on nil *)
           | Some x => do (res, rem) <- take x f; Ok (res, repay b rem)
           end
  end.

(* VisitSource: [A] is the asset pushAsset() pushes *)
Fixpoint eval_source (e : env) (A : string) (s : source) (b : bals) {struct s} : outcome (funding * bals) :=
  match s with
  | SAccount a od =>
      let acc := eval_acc e a in
      match od with
      | OdNone => if is_world a then Ok (withdraw_always b acc A 0) else withdraw_all b acc A (Some 0)
      | OdUpTo m => do (ma, mo) <- eval_mon e m; withdraw_all b acc ma mo
      | OdUnbounded => Ok (withdraw_always b acc A 0)
      end
  | SMaxed m s' =>
      do (f, b1) <- eval_source e A s' b;
      do (ma, mo) <- eval_mon e m;
      match fallback_of s' with
      | Some fa => take_max_fb e (Some fa) f ma mo b1
      | None => take_max_fb e None f ma mo b1     (* Bump 1; DELETE drops `missing` *)
      end
  | SInOrder l =>
      do (fs, b1) <- eval_sources e A l b;
      do f <- assemble fs; Ok (f, b1)
  end
with eval_sources (e : env) (A : string) (l : sources) (b : bals) {struct l} : outcome (list funding * bals) :=
  match l with
  | SNil => Ok ([], b)
  | SCons s tl =>
      do (f, b1) <- eval_source e A s b;
      do (fs, b2) <- eval_sources e A tl b1;
      Ok (f :: fs, b2)
  end.

(* OP_MAKE_ALLOTMENT over the evaluated portions *)
Definition eval_portion (e : env) (p : portionexpr) : portion :=
  match p with
  | PConst q => Specific q
  | PVar x => match lookup e x with Some (VPortion q) => Specific q | _ => Specific 0%Q end
  | PRemaining => Remaining
  end.
Definition make_allotment (e : env) (ps : list portionexpr) : outcome (list Q) :=
  match new_allotment (map (eval_portion e) ps) with
  | inl _ => Err EInvalidScript
  | inr a => Ok a
  end.

(* allotment source: per source i: VisitSource; Bump (i+1); TakeFromSource with the i-th allocated part *)
Fixpoint eval_alloc_sources (e : env) (A ma : string) (l : list (portionexpr * source)) (parts : list Z) (b : bals)
  : outcome (list funding * bals) :=
  match l, parts with
  | (_, s) :: tl, x :: ptl =>
      do (f, b1) <- eval_source e A s b;
      do (res, b2) <- take_from_source e (fallback_of s) f ma (Some x) b1;
      do (fs, b3) <- eval_alloc_sources e A ma tl ptl b2;
      Ok (res :: fs, b3)
  | _, _ => Ok ([], b)
  end.

(* VisitMonetary: the funding a `send M (source = ...)` hands to the destination *)
Definition eval_vsource (e : env) (m : monexpr) (vs : vsource) (b : bals) : outcome (funding * bals) :=
  let A := mon_asset e m in
  match vs with
  | VSrc s =>
      do (f, b1) <- eval_source e A s b;
      do (ma, mo) <- eval_mon e m;
      take_from_source e (fallback_of s) f ma mo b1
  | VSrcAllot l =>
      do (ma, mo) <- eval_mon e m;
      do al <- make_allotment e (map fst l);
      match mo with
      | None => Panic                               (* Allotment.Allocate dereferences the nil amount *)
      | Some x =>
          do (fs, b1) <- eval_alloc_sources e A ma l (allocate x al) b;
          do f <- assemble fs; Ok (f, b1)
      end
  end.

(* ------------------------------------------------------------------ destinations (compiler/destination.go + opcodes) *)
Fixpoint dallots_portions (l : dallots) : list portionexpr :=
  match l with DANil => [] | DACons p _ tl => p :: dallots_portions tl end.

(* every function returns the funding left on the stack (what was not sent), the balances, the postings emitted *)
Fixpoint eval_dest (e : env) (d : dest) (f : funding) (b : bals) {struct d} : outcome (funding * bals * list npost) :=
  match d with
  | DAccount a =>
      (* FUNDING_SUM; TAKE; <account>; SEND *)
      do (res, rem) <- take (total f) f;
      let '(b1, ps) := send_to (eval_acc e a) res b in
      Ok (rem, b1, ps)
  | DInOrder l r =>
      (* kept accumulator [A 0] under the funding *)
      do (f1, k, b1, ps1) <- eval_dmaxes e l f 0 b;
      (* FUNDING_REVERSE; Bump 1; TAKE; FUNDING_REVERSE; Bump 1; FUNDING_REVERSE *)
      do (res, rem) <- take k (freverse f1);
      let keptf := freverse res in
      let remf := freverse rem in
      do (lf, b2, ps2) <- eval_kod e r remf b1;
      do out <- assemble [lf; keptf];
      Ok (out, b2, ps1 ++ ps2)
  | DAllot l =>
      (* FUNDING_SUM; <portions>; MAKE_ALLOTMENT; ALLOC; Bump n *)
      do al <- make_allotment e (dallots_portions l);
      eval_dallots e l (allocate (total f) al) f b
  end
with eval_kod (e : env) (k : kod) (f : funding) (b : bals) {struct k} : outcome (funding * bals * list npost) :=
  match k with
  | Kept => Ok (f, b, [])
  | To d => eval_dest e d f b
  end
with eval_dmaxes (e : env) (l : dmaxes) (f : funding) (k : Z) (b : bals) {struct l}
  : outcome (funding * Z * bals * list npost) :=
  match l with
  | DMNil => Ok (f, k, b, [])
  | DMCons m kd tl =>
      do (ma, mo) <- eval_mon e m;
      match mo with
      | None => Panic
      | Some x =>
          if x <? 0 then Err EOther
          else if negb (String.eqb (fasset f) ma) then Err EInvalidScript
          else
            let '(taken, rem) := take_max x f in
            do (lf, b1, ps1) <- eval_kod e kd taken b;
            (* FUNDING_SUM; Bump 3; MONETARY_ADD; Bump 1; Bump 2; 2; FUNDING_ASSEMBLE *)
            do f1 <- assemble [lf; rem];
            do (f2, k2, b2, ps2) <- eval_dmaxes e tl f1 (total lf + k) b1;
            Ok (f2, k2, b2, ps1 ++ ps2)
      end
  end
with eval_dallots (e : env) (l : dallots) (parts : list Z) (f : funding) (b : bals) {struct l}
  : outcome (funding * bals * list npost) :=
  match l with
  | DANil => Ok (f, b, [])
  | DACons _ kd tl =>
      match parts with
      | [] => Ok (f, b, [])
      | x :: ptl =>
          (* Bump 1; TAKE; <kept or destination>; Bump 1; 2; FUNDING_ASSEMBLE *)
          do (res, rem) <- take x f;
          do (lf, b1, ps1) <- eval_kod e kd res b;
          do f1 <- assemble [lf; rem];
          do (f2, b2, ps2) <- eval_dallots e tl ptl f1 b1;
          Ok (f2, b2, ps1 ++ ps2)
      end
  end.

(* ------------------------------------------------------------------ statements *)
Record mstate := {
  mbal : bals;
  mposts : list (list npost);             (* one list per executed statement, in order *)
  mtx : list (string * value);              (* TxMeta *)
  macc : list (key * value);                (* AccountsMeta: (account, key) -> value *)
  msaved : list (key * Z)                   (* ghost: amounts `save` removed from the tracked balances *)
}.

Definition add_posts (ms : mstate) (b : bals) (ps : list npost) : mstate :=
  {| mbal := b; mposts := mposts ms ++ [ps]; mtx := mtx ms; macc := macc ms; msaved := msaved ms |}.

(* VisitSend + VisitDestination (final OP_REPAY) *)
Definition exec_send (e : env) (m : monexpr) (vs : vsource) (d : dest) (b : bals) : outcome (bals * list npost) :=
  do (f, b1) <- eval_vsource e m vs b;
  do (lf, b2, ps) <- eval_dest e d f b1;
  Ok (repay b2 lf, ps).

(* no `allowing overdraft up to M` clause anywhere in the source (compiler: hasSpecificOverdraft) *)
Fixpoint src_plain (s : source) : bool :=
  match s with
  | SAccount _ (OdUpTo _) => false
  | SAccount _ _ => true
  | SMaxed _ s' => src_plain s'
  | SInOrder l => srcs_plain l
  end
with srcs_plain (l : sources) : bool := match l with SNil => true | SCons s tl => src_plain s && srcs_plain tl end.

(* VisitMonetaryAll; with an overdraft clause in the source: FUNDING_SUM; [A 0]; MONETARY_ADD; DELETE *)
Definition exec_send_all (e : env) (a : assetexpr) (s : source) (d : dest) (b : bals) : outcome (bals * list npost) :=
  do (f, b1) <- eval_source e (eval_asset e a) s b;
  if negb (src_plain s) && negb (String.eqb (fasset f) (eval_asset e a)) then Err EInvalidScript
  else
    do (lf, b2, ps) <- eval_dest e d f b1;
    Ok (repay b2 lf, ps).

(* OP_SAVE *)
Definition save_amount (b : bals) (k : key) (all : bool) (amt : Z) : Z :=
  match bget b k with
  | None => 0
  | Some x => if all then (if 0 <? x then x else 0) else amt
  end.

Definition exec_stmt (e : env) (s : stmt) (ms : mstate) : outcome mstate :=
  match s with
  | Send m vs d => do (b, ps) <- exec_send e m vs d (mbal ms); Ok (add_posts ms b ps)
  | SendAll a src d => do (b, ps) <- exec_send_all e a src d (mbal ms); Ok (add_posts ms b ps)
  | SetTxMeta k v =>
      do x <- eval_val e v;
      Ok {| mbal := mbal ms; mposts := mposts ms ++ [[]]; mtx := sset (mtx ms) k x; macc := macc ms; msaved := msaved ms |}
  | SetAccMeta a k v =>
      do x <- eval_val e v;
      Ok {| mbal := mbal ms; mposts := mposts ms ++ [[]]; mtx := mtx ms;
            macc := kset (macc ms) (eval_acc e a, k) x; msaved := msaved ms |}
  | SaveMon m a =>
      let '(asset, o) := leaf_value e m in
      let k := (eval_acc e a, asset) in
      let amt := save_amount (mbal ms) k false (oz o) in
      Ok {| mbal := bupd (mbal ms) k (fun x => x - amt); mposts := mposts ms ++ [[]]; mtx := mtx ms; macc := macc ms;
            msaved := msaved ms ++ [(k, amt)] |}
  | SaveAll a acc =>
      let k := (eval_acc e acc, eval_asset e a) in
      let amt := save_amount (mbal ms) k true 0 in
      Ok {| mbal := bupd (mbal ms) k (fun x => x - amt); mposts := mposts ms ++ [[]]; mtx := mtx ms; macc := macc ms;
            msaved := msaved ms ++ [(k, amt)] |}
  | Fail => Err EScriptFailed
  end.

Fixpoint exec_stmts (e : env) (l : list stmt) (ms : mstate) : outcome mstate :=
  match l with
  | [] => Ok ms
  | s :: tl => do ms1 <- exec_stmt e s ms; exec_stmts e tl ms1
  end.

(* ------------------------------------------------------------------ static checks = compile errors *)
Definition tenv := list (string * ty).
Definition has_ty (te : tenv) (x : string) (t : ty) : bool :=
  match lookup te x with Some t' => ty_eqb t t' | None => false end.
Definition declared (te : tenv) (x : string) : bool := match lookup te x with Some _ => true | None => false end.

Definition chk_acc (te : tenv) (a : accexpr) : bool :=
  match a with AccLit s => valid_address s | AccVar x => has_ty te x TAccount end.
Definition chk_asset (te : tenv) (a : assetexpr) : bool :=
  match a with
  | AssetLit s => lexer_asset s && valid_asset s   (* VisitLit: the ASSET token, then machine.ValidateAsset *)
  | AssetVar x => has_ty te x TAsset
  end.
Fixpoint chk_mon (te : tenv) (m : monexpr) : bool :=
  match m with
  | MonLit a n => chk_asset te a && (0 <=? n)
  | MonVar x => has_ty te x TMonetary
  | MonAdd l r | MonSub l r =>
      (* the grammar has no parentheses: `e1 + e2 - e3` is left-nested and the right operand is a literal or variable *)
      chk_mon te l && chk_mon te r && match r with MonLit _ _ | MonVar _ => true | _ => false end
  end.
Definition q_in_unit (q : Q) : bool := Qle_bool 0 q && Qle_bool q 1.
(* a literal portion reaches the compiler as a normalised big.Rat (ParsePortionSpecific): the AST carries the
   reduced fraction (the text printer may print any equal fraction) *)
Definition q_reduced (q : Q) : bool := Z.gcd (Qnum q) (Zpos (Qden q)) =? 1.
Definition chk_val (te : tenv) (v : valexpr) : bool :=
  match v with
  | VEAcc s => valid_address s | VEAsset s => lexer_asset s && valid_asset s | VENum n => 0 <=? n | VEStr _ => true
  | VEPortion q => q_in_unit q && q_reduced q | VEMon m => chk_mon te m | VEVar x => declared te x
  end.

Definition accexpr_eqb (a b : accexpr) : bool :=
  match a, b with
  | AccLit s, AccLit t => String.eqb s t
  | AccVar x, AccVar y => String.eqb x y
  | _, _ => false
  end.
Definition overlap (l1 l2 : list accexpr) : bool := existsb (fun a => existsb (accexpr_eqb a) l2) l1.
Definition is_some {A} (o : option A) : bool := match o with Some _ => true | None => false end.

(* VisitSource's compile-time part: Some (emptied accounts, fallback) or None = compile error *)
Fixpoint chk_source (te : tenv) (isAll : bool) (s : source) {struct s} : option (list accexpr * option accexpr) :=
  match s with
  | SAccount a o =>
      if negb (chk_acc te a) then None else
      match o with
      | OdNone => if is_world a then (if isAll then None else Some ([a], Some a)) else Some ([a], None)
      | OdUpTo m => if is_world a then None else if chk_mon te m then Some ([a], None) else None
      | OdUnbounded => if is_world a then None else if isAll then None else Some ([a], Some a)
      end
  | SMaxed m s' =>
      match chk_source te false s' with
      | None => None
      | Some _ => if chk_mon te m then Some ([], None) else None
      end
  | SInOrder l => match l with SNil => None | _ => chk_sources te isAll l [] end
  end
with chk_sources (te : tenv) (isAll : bool) (l : sources) (emptied : list accexpr) {struct l}
  : option (list accexpr * option accexpr) :=
  match l with
  | SNil => Some (emptied, None)
  | SCons s tl =>
      match chk_source te isAll s with
      | None => None
      | Some (em, fb) =>
          if overlap em emptied then None
          else match tl with
               | SNil => Some (emptied ++ em, fb)
               | _ => if is_some fb then None else chk_sources te isAll tl (emptied ++ em)
               end
      end
  end.

(* VisitAllotment *)
Definition const_total (ps : list portionexpr) : Q :=
  qsum (flat_map (fun p => match p with PConst q => [q] | _ => [] end) ps).
Definition has_pvar (ps : list portionexpr) : bool := existsb (fun p => match p with PVar _ => true | _ => false end) ps.
Definition n_remaining (ps : list portionexpr) : nat :=
  List.length (filter (fun p => match p with PRemaining => true | _ => false end) ps).
Definition chk_portions (te : tenv) (ps : list portionexpr) : bool :=
  match ps with [] => false | _ =>
    forallb (fun p => match p with PConst q => q_in_unit q && q_reduced q | PVar x => has_ty te x TPortion | PRemaining => true end) ps
    && Nat.leb (n_remaining ps) 1
    && (let t := const_total ps in
        let hasrem := Nat.eqb (n_remaining ps) 1 in
        Qle_bool t 1
        && (if Qle_bool 1 t then negb (has_pvar ps) && negb hasrem else hasrem))
  end.

Fixpoint chk_dest (te : tenv) (d : dest) {struct d} : bool :=
  match d with
  | DAccount a => chk_acc te a
  | DInOrder l r => match l with DMNil => false | _ => chk_dmaxes te l && chk_kod te r end
  | DAllot l => chk_portions te (dallots_portions l) && chk_dallots te l
  end
with chk_kod (te : tenv) (k : kod) {struct k} : bool :=
  match k with Kept => true | To d => chk_dest te d end
with chk_dmaxes (te : tenv) (l : dmaxes) {struct l} : bool :=
  match l with DMNil => true | DMCons m k tl => chk_mon te m && chk_kod te k && chk_dmaxes te tl end
with chk_dallots (te : tenv) (l : dallots) {struct l} : bool :=
  match l with DANil => true | DACons _ k tl => chk_kod te k && chk_dallots te tl end.

Definition chk_vsource (te : tenv) (vs : vsource) : bool :=
  match vs with
  | VSrc s => is_some (chk_source te false s)
  | VSrcAllot l => chk_portions te (map fst l) && forallb (fun ps => is_some (chk_source te false (snd ps))) l
  end.

Definition chk_stmt (te : tenv) (s : stmt) : bool :=
  match s with
  | Send m vs d => chk_mon te m && chk_vsource te vs && chk_dest te d
  | SendAll a src d => chk_asset te a && is_some (chk_source te true src) && chk_dest te d
  | SetTxMeta _ v => chk_val te v
  | SetAccMeta a _ v => chk_val te v && chk_acc te a
  | SaveMon m a => chk_mon te m && chk_acc te a
  | SaveAll a acc => chk_asset te a && chk_acc te acc
  | Fail => true
  end.

(* VisitVars *)
Fixpoint chk_vars (te : tenv) (vs : list vardecl) : option tenv :=
  match vs with
  | [] => Some te
  | v :: tl =>
      if declared te (vname v) then None
      else if match vorigin v with
              | ONone => true
              | OMeta a _ => chk_acc te a
              | OBalance a s => ty_eqb (vty v) TMonetary && chk_acc te a && chk_asset te s
              end
           then chk_vars (te ++ [(vname v, vty v)]) tl
           else None
  end.

Definition check (p : program) : bool :=
  match pstmts p with [] => false | _ =>
    match chk_vars [] (pvars p) with
    | None => false
    | Some te => forallb (chk_stmt te) (pstmts p)
    end
  end.

(* ------------------------------------------------------------------ variables, resources, balances *)
Record store := { st_bal : list (key * Z); st_meta : list (key * value) }.
Definition store_balance (s : store) (k : key) : Z := match bget (st_bal s) k with Some z => z | None => 0 end.

(* ParseVariablesJSON's validations, on typed values *)
Definition validate_value (v : value) : bool :=
  match v with
  | VAccount s => valid_address s
  | VAsset s => valid_asset s
  | VMonetary a (Some n) => valid_asset a && (0 <=? n)
  | VMonetary _ None => false
  | VPortion q => q_in_unit q
  | _ => true
  end.

(* SetVarsFromJSON: every plain variable present, well-typed and valid; nothing extraneous *)
Fixpoint set_vars (decls : list vardecl) (given : list (string * value)) : bool :=
  match decls with
  | [] => true
  | d :: tl =>
      match vorigin d with
      | ONone => match lookup given (vname d) with
                 | Some v => ty_eqb (ty_of v) (vty d) && validate_value v && set_vars tl given
                 | None => false
                 end
      | _ => set_vars tl given
      end
  end.
Definition plain_names (decls : list vardecl) : list string :=
  flat_map (fun d => match vorigin d with ONone => [vname d] | _ => [] end) decls.
Definition no_extraneous (decls : list vardecl) (given : list (string * value)) : bool :=
  forallb (fun nv => existsb (String.eqb (fst nv)) (plain_names decls)) given.

(* ResolveResources over the declarations in order. balance() variables get their asset now and their amount in
   resolve_balances; [bv] collects (variable, account, asset) of the balance() variables in declaration order *)
Fixpoint resolve_vars (decls : list vardecl) (given : list (string * value)) (s : store) (e : env)
  (bv : list (string * key)) : outcome (env * list (string * key)) :=
  match decls with
  | [] => Ok (e, bv)
  | d :: tl =>
      match vorigin d with
      | ONone =>
          match lookup given (vname d) with
          | Some v => resolve_vars tl given s (e ++ [(vname d, v)]) bv
          | None => Err EOther
          end
      | OMeta a k =>
          match bget (st_meta s) (eval_acc e a, k) with
          | None => Err EMissingMeta
          | Some v => if ty_eqb (ty_of v) (vty d) && validate_value v
                      then resolve_vars tl given s (e ++ [(vname d, v)]) bv
                      else Err EOther
          end
      | OBalance a asset =>
          let k := (eval_acc e a, eval_asset e asset) in
          resolve_vars tl given s (e ++ [(vname d, VMonetary (snd k) None)]) (bv ++ [(vname d, k)])
      end
  end.

(* NeededBalances: bounded source accounts of every send, with the send's asset *)
Fixpoint src_needed (e : env) (s : source) : list string :=
  match s with
  | SAccount a OdUnbounded => []
  | SAccount a _ => if is_world a then [] else [eval_acc e a]
  | SMaxed _ s' => src_needed e s'
  | SInOrder l => srcs_needed e l
  end
with srcs_needed (e : env) (l : sources) : list string :=
  match l with SNil => [] | SCons s tl => src_needed e s ++ srcs_needed e tl end.
Definition vsrc_needed (e : env) (vs : vsource) : list string :=
  match vs with VSrc s => src_needed e s | VSrcAllot l => flat_map (fun ps => src_needed e (snd ps)) l end.
Definition stmt_needed (e : env) (s : stmt) : list key :=
  match s with
  | Send m vs _ => map (fun a => (a, mon_asset e m)) (vsrc_needed e vs)
  | SendAll a src _ => map (fun acc => (acc, eval_asset e a)) (src_needed e src)
  | _ => []
  end.
Definition needed (e : env) (p : program) : list key := flat_map (stmt_needed e) (pstmts p).

Fixpoint dedup_keys (l : list key) (seen : list key) : list key :=
  match l with
  | [] => []
  | k :: tl => if existsb (key_eqb k) seen then dedup_keys tl seen else k :: dedup_keys tl (k :: seen)
  end.

Fixpoint set_env (e : env) (x : string) (v : value) : env :=
  match e with
  | [] => []
  | (y, w) :: r => if String.eqb y x then (y, v) :: r else (y, w) :: set_env r x v
  end.

(* ResolveBalances *)
Definition resolve_balances (p : program) (s : store) (e : env) (bv : list (string * key)) : outcome (env * bals) :=
  let nd := needed e p in
  if existsb (fun k => String.eqb (fst k) "world"%string) nd then Err EInvalidVars
  else
    (* every balance() variable is queried, checked for a negative balance and assigned *)
    if existsb (fun xk => store_balance s (snd xk) <? 0) bv then Err ENegativeAmount
    else
      let e1 := fold_left (fun e xk => set_env e (fst xk) (VMonetary (snd (snd xk)) (Some (store_balance s (snd xk))))) bv e in
      let tracked := dedup_keys (nd ++ map snd bv) [] in
      Ok (e1, map (fun k => (k, store_balance s k)) tracked).

(* ------------------------------------------------------------------ the whole run *)
Record result := {
  rposts : list (list npost);
  rtx : list (string * value);
  racc : list (key * value);
  rbal : bals;                 (* tracked balances at the end, in tracking order *)
  rinit : bals;                (* tracked balances at the start *)
  rsaved : list (key * Z)
}.

Definition run (p : program) (given : list (string * value)) (s : store) : outcome result :=
  if negb (check p) then Err ECompile
  else if negb (set_vars (pvars p) given && no_extraneous (pvars p) given) then Err EInvalidVars
  else
    do (e0, bv) <- resolve_vars (pvars p) given s [] [];
    do (e, b0) <- resolve_balances p s e0 bv;
    do ms <- exec_stmts e (pstmts p) {| mbal := b0; mposts := []; mtx := []; macc := []; msaved := [] |};
    Ok {| rposts := mposts ms; rtx := mtx ms; racc := macc ms; rbal := mbal ms; rinit := b0; rsaved := msaved ms |}.

Definition all_postings (r : result) : list npost := List.concat (rposts r).
