(* The compiler of internal/machine/script/compiler (compiler.go, source.go, destination.go, allotment.go,
   program.go) as a function from the Syntax.v AST to a program: instructions, resource table, needed balances.
   Two phases, jointly equal to what the Go visitor does in one pass:
     gen     AST -> list of events: `EIns i` = an instruction whose APUSH operand is a resource DESCRIPTION,
             `EAlloc r` = an AllocateResource that emits no code (VisitExpr with push = false);
     assign  events -> concrete instructions + resource table: every description is looked up in the table built so
             far (findConstant / the Monetary scan / varIdx) and appended when absent; addresses are positions.
   Type checks and the other compile errors are Sem.check (the compiler accepts exactly the programs check accepts;
   on those, the emitted program is the one below: that equality is what the tie `nsbc` compares byte for byte). *)
From Coq Require Import List ZArith QArith String Bool Lia.
From LV Require Import Machine.Syntax Machine.Allot Machine.Lex Machine.Sem Machine.Vm.
Import ListNotations.
Open Scope Z_scope.

(* constants of the resource table (program.Constant) *)
Inductive cval := CAccount (s : string) | CAsset (s : string) | CNumber (n : Z) | CString (s : string)
                | CPortion (q : Q) | CRemaining.

(* resource descriptions *)
Inductive rdesc :=
| RConst (c : cval)
| RVar (t : ty) (x : string)                              (* program.Variable *)
| RVarMeta (t : ty) (x : string) (acc : rdesc) (k : string)  (* program.VariableAccountMetadata *)
| RVarBal (x : string) (acc : rdesc) (asset : rdesc)      (* program.VariableAccountBalance *)
| RMon (asset : rdesc) (n : Z).                            (* program.Monetary *)

Inductive event := EAlloc (r : rdesc) | EIns (i : instr rdesc).

(* machine.ValueEquals on constants *)
Definition cval_eqb (a b : cval) : bool :=
  match a, b with
  | CAccount s, CAccount t | CAsset s, CAsset t | CString s, CString t => String.eqb s t
  | CNumber n, CNumber m => n =? m
  | CPortion p, CPortion q => (Qnum p =? Qnum q) && Pos.eqb (Qden p) (Qden q)   (* both normalised (Sem.check): Rat.Cmp = 0 iff identical *)
  | CRemaining, CRemaining => true
  | _, _ => false
  end.

Definition var_name (r : rdesc) : option string :=
  match r with RVar _ x | RVarMeta _ x _ _ | RVarBal x _ _ => Some x | _ => None end.

(* "is this the resource already in the table": constants by value, monetaries by (asset resource, amount),
   variables by name (varIdx) *)
Fixpoint rdesc_eqb (a b : rdesc) : bool :=
  match a, b with
  | RConst c, RConst d => cval_eqb c d
  | RMon ra n, RMon rb m => rdesc_eqb ra rb && (n =? m)
  | RConst _, _ | _, RConst _ | RMon _ _, _ | _, RMon _ _ => false
  | _, _ => match var_name a, var_name b with Some x, Some y => String.eqb x y | _, _ => false end
  end.

(* ------------------------------------------------------------------ phase 1: gen *)
Definition venv := list (string * rdesc).
Definition rvar (ve : venv) (x : string) : rdesc :=
  match lookup ve x with Some r => r | None => RConst (CString ""%string) end.
Definition res_acc (ve : venv) (a : accexpr) : rdesc :=
  match a with AccLit s => RConst (CAccount s) | AccVar x => rvar ve x end.
Definition res_asset (ve : venv) (a : assetexpr) : rdesc :=
  match a with AssetLit s => RConst (CAsset s) | AssetVar x => rvar ve x end.

Definition ev (push : bool) (r : rdesc) : event := if push then EIns (IApush r) else EAlloc r.
Definition ins (i : instr rdesc) : event := EIns i.
Definition push_int (n : Z) : list event := [EIns (IApush (RConst (CNumber n)))].   (* PushInteger *)
Definition gbump (n : Z) : list event := push_int n ++ [ins IBump].                  (* Bump *)

(* VisitExpr on a monetary expression; the address it returns is that of the left-most operand *)
Fixpoint gen_mon (ve : venv) (push : bool) (m : monexpr) : list event :=
  match m with
  | MonLit a n => [EAlloc (res_asset ve a); ev push (RMon (res_asset ve a) n)]
  | MonVar x => [ev push (rvar ve x)]
  | MonAdd l r => gen_mon ve push l ++ gen_mon ve push r ++ (if push then [ins IMonetaryAdd] else [])
  | MonSub l r => gen_mon ve push l ++ gen_mon ve push r ++ (if push then [ins IMonetarySub] else [])
  end.
Definition mon_res (ve : venv) (m : monexpr) : rdesc :=
  match leftmost m with
  | MonLit a n => RMon (res_asset ve a) n
  | MonVar x => rvar ve x
  | _ => RConst (CString ""%string)
  end.

Definition gen_val (ve : venv) (v : valexpr) : list event :=
  match v with
  | VEAcc s => [ev true (RConst (CAccount s))]
  | VEAsset s => [ev true (RConst (CAsset s))]
  | VENum n => [ev true (RConst (CNumber n))]
  | VEStr s => [ev true (RConst (CString s))]
  | VEPortion q => [ev true (RConst (CPortion q))]
  | VEMon m => gen_mon ve true m
  | VEVar x => [ev true (rvar ve x)]
  end.

(* the tail shared by `max M from S` and TakeFromSource with a fallback:
   Bump 1; REPAY; then (fallback) APUSH fb; Bump 2; TAKE_ALWAYS; 2; FUNDING_ASSEMBLE  or  Bump 1; DELETE *)
Definition gen_after_take_max (ve : venv) (fb : option accexpr) (drop_missing : bool) : list event :=
  gbump 1 ++ [ins IRepay] ++
  match fb with
  | Some fa => [ev true (res_acc ve fa)] ++ gbump 2 ++ [ins ITakeAlways] ++ push_int 2 ++ [ins IFundingAssemble]
  | None => if drop_missing then gbump 1 ++ [ins IDelete] else []
  end.

(* TakeFromSource *)
Definition gen_take_from_source (ve : venv) (fb : option accexpr) : list event :=
  match fb with
  | None => [ins ITake] ++ gbump 1 ++ [ins IRepay]
  | Some _ => [ins ITakeMax] ++ gen_after_take_max ve fb false
  end.

(* VisitSource; [pa] = the code pushAsset() emits *)
Fixpoint gen_source (ve : venv) (pa : list event) (s : source) {struct s} : list event :=
  match s with
  | SAccount a od =>
      [ev true (res_acc ve a)] ++
      match od with
      | OdNone => pa ++ push_int 0 ++ [ins IMonetaryNew] ++ [ins (if is_world a then ITakeAlways else ITakeAll)]
      | OdUpTo m => gen_mon ve true m ++ [ins ITakeAll]
      | OdUnbounded => pa ++ push_int 0 ++ [ins IMonetaryNew; ins ITakeAlways]
      end
  | SMaxed m s' =>
      gen_source ve pa s' ++ gen_mon ve true m ++ [ins ITakeMax] ++ gen_after_take_max ve (fallback_of s') true
  | SInOrder l => gen_sources ve pa l ++ push_int (Z.of_nat (sources_len l)) ++ [ins IFundingAssemble]
  end
with gen_sources (ve : venv) (pa : list event) (l : sources) {struct l} : list event :=
  match l with SNil => [] | SCons s tl => gen_source ve pa s ++ gen_sources ve pa tl end
with sources_len (l : sources) : nat := match l with SNil => O | SCons _ tl => S (sources_len tl) end.

(* VisitAllotment: portions pushed last to first, then the count, then MAKE_ALLOTMENT *)
Definition gen_portion (ve : venv) (p : portionexpr) : event :=
  match p with
  | PConst q => ev true (RConst (CPortion q))
  | PVar x => ev true (rvar ve x)
  | PRemaining => ev true (RConst CRemaining)
  end.
Definition gen_allotment (ve : venv) (ps : list portionexpr) : list event :=
  map (gen_portion ve) (rev ps) ++ push_int (Z.of_nat (List.length ps)) ++ [ins IMakeAllotment].

(* allotment source: per source i: VisitSource; Bump (i+1); TakeFromSource *)
Fixpoint gen_alloc_sources (ve : venv) (pa : list event) (i : Z) (l : list (portionexpr * source)) : list event :=
  match l with
  | [] => []
  | (_, s) :: tl => gen_source ve pa s ++ gbump (i + 1) ++ gen_take_from_source ve (fallback_of s) ++ gen_alloc_sources ve pa (i + 1) tl
  end.

Fixpoint dallots_kods_len (l : dallots) : nat := match l with DANil => O | DACons _ _ tl => S (dallots_kods_len tl) end.

(* VisitDestinationRecursive *)
Fixpoint gen_dest (ve : venv) (d : dest) {struct d} : list event :=
  match d with
  | DAccount a => [ins IFundingSum; ins ITake; ev true (res_acc ve a); ins ISend]
  | DInOrder l r =>
      [ins IFundingSum; ins IAsset] ++ push_int 0 ++ [ins IMonetaryNew] ++ gbump 1 ++
      gen_dmaxes ve l ++
      [ins IFundingReverse] ++ gbump 1 ++ [ins ITake; ins IFundingReverse] ++ gbump 1 ++ [ins IFundingReverse] ++
      gen_kod ve r ++ gbump 1 ++ push_int 2 ++ [ins IFundingAssemble]
  | DAllot l =>
      [ins IFundingSum] ++ gen_allotment ve (dallots_portions l) ++ [ins IAlloc] ++
      gbump (Z.of_nat (dallots_kods_len l)) ++ gen_dallots ve l
  end
with gen_kod (ve : venv) (k : kod) {struct k} : list event :=
  match k with Kept => [] | To d => gen_dest ve d end
with gen_dmaxes (ve : venv) (l : dmaxes) {struct l} : list event :=
  match l with
  | DMNil => []
  | DMCons m k tl =>
      gen_mon ve true m ++ [ins ITakeMax] ++ gbump 2 ++ [ins IDelete] ++ gen_kod ve k ++
      [ins IFundingSum] ++ gbump 3 ++ [ins IMonetaryAdd] ++ gbump 1 ++ gbump 2 ++ push_int 2 ++ [ins IFundingAssemble] ++
      gen_dmaxes ve tl
  end
with gen_dallots (ve : venv) (l : dallots) {struct l} : list event :=
  match l with
  | DANil => []
  | DACons _ k tl => gbump 1 ++ [ins ITake] ++ gen_kod ve k ++ gbump 1 ++ push_int 2 ++ [ins IFundingAssemble] ++ gen_dallots ve tl
  end.

(* VisitSend / VisitSetTxMeta / VisitSetAccountMeta / VisitSaveFromAccount / fail *)
Definition gen_stmt (ve : venv) (s : stmt) : list event :=
  match s with
  | Send m vs d =>
      let pa := [ev true (mon_res ve m); ins IAsset] in
      gen_mon ve false m ++
      match vs with
      | VSrc src => gen_source ve pa src ++ gen_mon ve true m ++ gen_take_from_source ve (fallback_of src)
      | VSrcAllot l =>
          gen_mon ve true m ++ gen_allotment ve (map fst l) ++ [ins IAlloc] ++ gen_alloc_sources ve pa 0 l ++
          push_int (Z.of_nat (List.length l)) ++ [ins IFundingAssemble]
      end ++ gen_dest ve d ++ [ins IRepay]
  | SendAll a src d =>
      [EAlloc (res_asset ve a)] ++ gen_source ve [ev true (res_asset ve a)] src ++
      (if src_plain src then []
       else [ins IFundingSum; ev true (res_asset ve a)] ++ push_int 0 ++ [ins IMonetaryNew; ins IMonetaryAdd; ins IDelete]) ++
      gen_dest ve d ++ [ins IRepay]
  | SetTxMeta k v => gen_val ve v ++ [ev true (RConst (CString k)); ins ITxMeta]
  | SetAccMeta a k v => gen_val ve v ++ [ev true (RConst (CString k)); ev true (res_acc ve a); ins IAccountMeta]
  | SaveMon m a => gen_mon ve false m ++ [ev true (mon_res ve m); ev true (res_acc ve a); ins ISave]
  | SaveAll a acc => [ev true (res_asset ve a); ev true (res_acc ve acc); ins ISave]
  | Fail => [ins IFail]
  end.

(* VisitVars: allocations only; builds the variable environment *)
Fixpoint gen_vars (ve : venv) (ds : list vardecl) : list event * venv :=
  match ds with
  | [] => ([], ve)
  | d :: tl =>
      let '(evs, r) :=
        match vorigin d with
        | ONone => ([], RVar (vty d) (vname d))
        | OMeta a k => ([EAlloc (res_acc ve a)], RVarMeta (vty d) (vname d) (res_acc ve a) k)
        | OBalance a s => ([EAlloc (res_acc ve a); EAlloc (res_asset ve s)], RVarBal (vname d) (res_acc ve a) (res_asset ve s))
        end in
      let '(rest, ve') := gen_vars (ve ++ [(vname d, r)]) tl in
      (evs ++ [EAlloc r] ++ rest, ve')
  end.

(* needed balances: (bounded source account resource, monetary/asset resource of the send), in source order *)
Fixpoint gsrc_needed (ve : venv) (s : source) : list rdesc :=
  match s with
  | SAccount a OdUnbounded => []
  | SAccount a _ => if is_world a then [] else [res_acc ve a]
  | SMaxed _ s' => gsrc_needed ve s'
  | SInOrder l => gsrcs_needed ve l
  end
with gsrcs_needed (ve : venv) (l : sources) : list rdesc :=
  match l with SNil => [] | SCons s tl => gsrc_needed ve s ++ gsrcs_needed ve tl end.
Definition gstmt_needed (ve : venv) (s : stmt) : list (rdesc * rdesc) :=
  match s with
  | Send m (VSrc src) _ => map (fun a => (a, mon_res ve m)) (gsrc_needed ve src)
  | Send m (VSrcAllot l) _ => map (fun a => (a, mon_res ve m)) (flat_map (fun ps => gsrc_needed ve (snd ps)) l)
  | SendAll a src _ => map (fun acc => (acc, res_asset ve a)) (gsrc_needed ve src)
  | _ => []
  end.

Record sprogram := { sp_events : list event; sp_needed : list (rdesc * rdesc); sp_venv : venv }.
Definition gen (p : program) : sprogram :=
  let '(evs, ve) := gen_vars [] (pvars p) in
  let nd := flat_map (gstmt_needed ve) (pstmts p) in
  (* the needed-balance resources were all allocated by the statements: re-allocating them changes nothing *)
  {| sp_events := evs ++ flat_map (gen_stmt ve) (pstmts p) ++ flat_map (fun an => [EAlloc (fst an); EAlloc (snd an)]) nd;
     sp_needed := nd;
     sp_venv := ve |}.

(* ------------------------------------------------------------------ phase 2: assign *)
Fixpoint find_res (t : list rdesc) (r : rdesc) (i : nat) : option nat :=
  match t with
  | [] => None
  | x :: tl => if rdesc_eqb x r then Some i else find_res tl r (S i)
  end.
(* address of r; the table grows by one when r is new *)
Definition intern1 (t : list rdesc) (r : rdesc) : list rdesc * nat :=
  match find_res t r O with Some i => (t, i) | None => (t ++ [r], List.length t) end.
(* the resources a resource refers to are allocated first (VisitExpr on the asset / account before the
   AllocateResource of the monetary / variable) *)
Fixpoint intern (t : list rdesc) (r : rdesc) : list rdesc * nat :=
  match r with
  | RMon ra _ => intern1 (fst (intern t ra)) r
  | _ => intern1 t r      (* variables: their account / asset resources are allocated by VisitVars just before *)
  end.

Definition map_instr {A B} (f : A -> B) (i : instr A) : instr B :=
  match i with
  | IApush o => IApush (f o)
  | IBump => IBump | IDelete => IDelete | IIadd => IIadd | IIsub => IIsub | IPrint => IPrint | IFail => IFail
  | IAsset => IAsset | IMonetaryNew => IMonetaryNew | IMonetaryAdd => IMonetaryAdd | IMonetarySub => IMonetarySub
  | IMakeAllotment => IMakeAllotment | ITakeAll => ITakeAll | ITakeAlways => ITakeAlways | ITake => ITake
  | ITakeMax => ITakeMax | IFundingAssemble => IFundingAssemble | IFundingSum => IFundingSum
  | IFundingReverse => IFundingReverse | IRepay => IRepay | IAlloc => IAlloc | ISend => ISend | ITxMeta => ITxMeta
  | IAccountMeta => IAccountMeta | ISave => ISave
  end.

Fixpoint assign (evs : list event) (t : list rdesc) : list (instr nat) * list rdesc :=
  match evs with
  | [] => ([], t)
  | EAlloc r :: tl => assign tl (fst (intern t r))
  | EIns (IApush r) :: tl =>
      let (t1, a) := intern t r in let (is, t2) := assign tl t1 in (IApush a :: is, t2)
  | EIns i :: tl => let (is, t2) := assign tl t in (map_instr (fun _ => O) i :: is, t2)
  end.

(* concrete resources: nested resources are addresses (program.Resource) *)
Inductive cres :=
| KConst (c : cval)
| KVar (t : ty) (x : string)
| KVarMeta (t : ty) (x : string) (acc : nat) (k : string)
| KVarBal (x : string) (acc asset : nat)
| KMon (asset : nat) (n : Z).

Definition addr_of (t : list rdesc) (r : rdesc) : nat := match find_res t r O with Some i => i | None => O end.
Definition concretize (t : list rdesc) (r : rdesc) : cres :=
  match r with
  | RConst c => KConst c
  | RVar ty x => KVar ty x
  | RVarMeta ty x acc k => KVarMeta ty x (addr_of t acc) k
  | RVarBal x acc asset => KVarBal x (addr_of t acc) (addr_of t asset)
  | RMon asset n => KMon (addr_of t asset) n
  end.

Record cprogram := { cp_instrs : list (instr nat); cp_res : list cres; cp_needed : list (nat * nat) }.

Definition compile (p : program) : option cprogram :=
  if check p then
    let sp := gen p in
    let (is, t) := assign (sp_events sp) [] in
    Some {| cp_instrs := is; cp_res := map (concretize t) t;
            cp_needed := map (fun an => (addr_of t (fst an), addr_of t (snd an))) (sp_needed sp) |}
  else None.
