(* Numscript abstract syntax (the language accepted by internal/machine/script/NumScript.g4), positionally
   typed: an account position holds an account literal or a variable, a monetary position a monetary
   expression, ...  Ill-typed texts that this AST cannot represent (a number where an account is expected,
   etc.) are rejected by compiler.Compile with a compile error and belong to the front-end exploration
   stream of the harness, not to the model. A variable of the wrong declared type IS representable and is
   rejected by Sem.check (compile error). Lists inside sources/destinations are explicit mutual
   inductives so that structural recursion and induction go through without nested-induction tricks. *)
From Coq Require Import List ZArith QArith String.
Import ListNotations.

Inductive ty := TAccount | TAsset | TNumber | TString | TMonetary | TPortion.

Inductive accexpr := AccLit (s : string) | AccVar (x : string).
Inductive assetexpr := AssetLit (s : string) | AssetVar (x : string).

(* monetary expressions: [ASSET n], $var, e + e, e - e *)
Inductive monexpr :=
| MonLit (a : assetexpr) (n : Z)
| MonVar (x : string)
| MonAdd (l r : monexpr)
| MonSub (l r : monexpr).

(* portions inside allotments: constant (a rational; the text is "n/d"), $var, `remaining` *)
Inductive portionexpr := PConst (q : Q) | PVar (x : string) | PRemaining.

(* values of set_tx_meta / set_account_meta: any literal, a variable, or a monetary expression *)
Inductive valexpr :=
| VEAcc (s : string) | VEAsset (s : string) | VENum (n : Z) | VEStr (s : string) | VEPortion (q : Q)
| VEMon (m : monexpr)      (* monetary literal / arithmetic (not a bare variable) *)
| VEVar (x : string).      (* bare variable of any declared type *)

Inductive overdraft := OdNone | OdUpTo (m : monexpr) | OdUnbounded.

Inductive source :=
| SAccount (a : accexpr) (o : overdraft)      (* @acc [allowing overdraft up to M | allowing unbounded overdraft] *)
| SMaxed (m : monexpr) (s : source)           (* max M from S *)
| SInOrder (l : sources)                      (* { S1 ... Sn } *)
with sources := SNil | SCons (s : source) (l : sources).

(* value-aware source: a source, or an allotment { P1 from S1 ... Pn from Sn } *)
Inductive vsource := VSrc (s : source) | VSrcAllot (l : list (portionexpr * source)).

Inductive dest :=
| DAccount (a : accexpr)
| DInOrder (l : dmaxes) (r : kod)             (* { max M1 K1 ... max Mn Kn  remaining K } *)
| DAllot (l : dallots)                        (* { P1 K1 ... Pn Kn } *)
with kod := Kept | To (d : dest)              (* `kept` or `to D` *)
with dmaxes := DMNil | DMCons (m : monexpr) (k : kod) (l : dmaxes)
with dallots := DANil | DACons (p : portionexpr) (k : kod) (l : dallots).

Inductive stmt :=
| Send (m : monexpr) (s : vsource) (d : dest)         (* send M ( source = S destination = D ) *)
| SendAll (a : assetexpr) (s : source) (d : dest)     (* send [A *] ( ... ) *)
| SetTxMeta (k : string) (v : valexpr)
| SetAccMeta (a : accexpr) (k : string) (v : valexpr)
| SaveMon (m : monexpr) (a : accexpr)                 (* save M from @a *)
| SaveAll (a : assetexpr) (acc : accexpr)             (* save [A *] from @a *)
| Fail.

Inductive origin := ONone | OMeta (a : accexpr) (k : string) | OBalance (a : accexpr) (s : assetexpr).

Record vardecl := { vty : ty; vname : string; vorigin : origin }.

Record program := { pvars : list vardecl; pstmts : list stmt }.

(* run-time values *)
Inductive value :=
| VAccount (s : string)
| VAsset (s : string)
| VNumber (n : Z)
| VString (s : string)
| VMonetary (asset : string) (amt : option Z)   (* None: the Go *MonetaryInt is nil (see Sem.resolve, balance()) *)
| VPortion (q : Q).

Definition ty_of (v : value) : ty :=
  match v with
  | VAccount _ => TAccount | VAsset _ => TAsset | VNumber _ => TNumber
  | VString _ => TString | VMonetary _ _ => TMonetary | VPortion _ => TPortion
  end.

Definition ty_eqb (a b : ty) : bool :=
  match a, b with
  | TAccount, TAccount | TAsset, TAsset | TNumber, TNumber
  | TString, TString | TMonetary, TMonetary | TPortion, TPortion => true
  | _, _ => false
  end.

Scheme source_ind2 := Induction for source Sort Prop
  with sources_ind2 := Induction for sources Sort Prop.
Combined Scheme source_mutind from source_ind2, sources_ind2.

Scheme dest_ind4 := Induction for dest Sort Prop
  with kod_ind4 := Induction for kod Sort Prop
  with dmaxes_ind4 := Induction for dmaxes Sort Prop
  with dallots_ind4 := Induction for dallots Sort Prop.
Combined Scheme dest_mutind from dest_ind4, kod_ind4, dmaxes_ind4, dallots_ind4.
