(* The machine side of C25: internal/controller/ledger/numscript.go:TxToScriptData turns a postings request into a
   script (one `send $vmJ ( source = $vaI [allowing unbounded overdraft] | @world   destination = $vaK | @world )`
   per posting, account and monetary values passed as variables, equal values sharing one variable).
   Theorem: Sem.run on that script records exactly the submitted postings iff the in-order feasibility walk succeeds,
   and fails with insufficient funds otherwise.  The variable names (va%d / vm%d in Go) are abstract here: any naming
   that maps distinct accounts / distinct monetaries to distinct names works (Section hypotheses, no axiom). *)
From Coq Require Import List ZArith QArith String Bool Lia.
From LV Require Import Machine.Syntax Machine.Allot Machine.Lex Machine.Sem Machine.SemProofs Machine.EnvProofs Machine.BalProofs.
Import ListNotations.
Open Scope Z_scope.

Definition wld : string := "world"%string.

(* the in-order walk over a balance function *)
Definition bal_fun := key -> Z.
Definition apply_post (bal : bal_fun) (p : npost) : bal_fun :=
  fun k => bal k + effect (fst k) (snd k) [p].
Fixpoint walk (force : bool) (bal : bal_fun) (ps : list npost) : bool :=
  match ps with
  | [] => true
  | p :: r =>
      (force || String.eqb (psrc p) wld || (pamt p <=? 0) || (pamt p <=? bal (psrc p, passet p)))
      && walk force (apply_post bal p) r
  end.

Definition valid_post (p : npost) : Prop :=
  valid_address (psrc p) = true /\ valid_address (pdst p) = true /\ valid_asset (passet p) = true /\ 0 <= pamt p.

Lemma NoDup_app_intro {A} (a b : list A) : NoDup a -> NoDup b -> (forall x, In x a -> In x b -> False) -> NoDup (a ++ b).
Proof.
  induction a as [|x a IH]; intros Ha Hb Hd; simpl; [assumption|]. inv Ha. constructor.
  - intros Hin. apply in_app_or in Hin. destruct Hin as [Hin|Hin]; [contradiction|]. apply (Hd x); [left; reflexivity|assumption].
  - apply IH; [assumption|assumption|]. intros y Hy. apply Hd. right. assumption.
Qed.

Lemma NoDup_map_inj {A B} (f : A -> B) l : (forall a b, f a = f b -> a = b) -> NoDup l -> NoDup (map f l).
Proof.
  intros Hf. induction 1 as [|x l Hx _ IH]; simpl; constructor; [|assumption].
  intros Hin. apply in_map_iff in Hin. destruct Hin as [y [Hy Hin]]. apply Hf in Hy. subst. contradiction.
Qed.

Definition mon_eq_dec : forall a b : string * Z, {a = b} + {a <> b}.
Proof. decide equality; [apply Z.eq_dec|apply string_dec]. Defined.

Section Naming.
Variable nacc : string -> string.
Variable nmon : string -> Z -> string.
Hypothesis nacc_inj : forall a b, nacc a = nacc b -> a = b.
Hypothesis nmon_inj : forall a x b y, nmon a x = nmon b y -> a = b /\ x = y.
Hypothesis n_disj : forall a b x, nacc a <> nmon b x.

(* ---------- the generated script ---------- *)
Definition accs_of (ps : list npost) : list string :=
  nodup string_dec (filter (fun a => negb (String.eqb a wld)) (flat_map (fun p => [psrc p; pdst p]) ps)).
Definition mons_of (ps : list npost) : list (string * Z) := nodup mon_eq_dec (map (fun p => (passet p, pamt p)) ps).

Definition adecl (a : string) : vardecl := {| vty := TAccount; vname := nacc a; vorigin := ONone |}.
Definition mdecl (m : string * Z) : vardecl := {| vty := TMonetary; vname := nmon (fst m) (snd m); vorigin := ONone |}.
Definition decls_of (ps : list npost) : list vardecl := map adecl (accs_of ps) ++ map mdecl (mons_of ps).

Definition aval (a : string) : string * value := (nacc a, VAccount a).
Definition mval (m : string * Z) : string * value := (nmon (fst m) (snd m), VMonetary (fst m) (Some (snd m))).
Definition given_of (ps : list npost) : list (string * value) := map aval (accs_of ps) ++ map mval (mons_of ps).

Definition acc_expr (a : string) : accexpr := if String.eqb a wld then AccLit wld else AccVar (nacc a).
Definition src_od (force : bool) (a : string) : overdraft :=
  if String.eqb a wld then OdNone else if force then OdUnbounded else OdNone.
Definition stmt_of (force : bool) (p : npost) : stmt :=
  Send (MonVar (nmon (passet p) (pamt p))) (VSrc (SAccount (acc_expr (psrc p)) (src_od force (psrc p)))) (DAccount (acc_expr (pdst p))).
Definition script_of (force : bool) (ps : list npost) : program :=
  {| pvars := decls_of ps; pstmts := map (stmt_of force) ps |}.

(* ---------- names ---------- *)
Definition names (ps : list npost) : list string := map vname (decls_of ps).

Lemma in_accs ps a : In a (accs_of ps) <-> a <> wld /\ exists p, In p ps /\ (psrc p = a \/ pdst p = a).
Proof.
  unfold accs_of. rewrite nodup_In, filter_In, in_flat_map. split.
  - intros [[p [Hp Ha]] Hw]. split.
    + intros ->. rewrite String.eqb_refl in Hw. discriminate.
    + exists p. split; [assumption|]. simpl in Ha. destruct Ha as [Ha|[Ha|[]]]; auto.
  - intros [Hw [p [Hp Ha]]]. split.
    + exists p. split; [assumption|]. simpl. destruct Ha; auto.
    + destruct (String.eqb a wld) eqn:E; [apply String.eqb_eq in E; contradiction|reflexivity].
Qed.

Lemma in_mons ps m : In m (mons_of ps) <-> exists p, In p ps /\ m = (passet p, pamt p).
Proof.
  unfold mons_of. rewrite nodup_In, in_map_iff. split; intros [p [H1 H2]]; exists p; auto.
Qed.

Lemma names_nodup ps : NoDup (names ps).
Proof.
  unfold names, decls_of. rewrite map_app, !map_map. simpl. apply NoDup_app_intro.
  - apply NoDup_map_inj; [intros a b; apply nacc_inj|apply NoDup_nodup].
  - apply NoDup_map_inj; [|apply NoDup_nodup].
    intros [a x] [b y] H. simpl in H. destruct (nmon_inj _ _ _ _ H). subst. reflexivity.
  - intros n H1 H2. apply in_map_iff in H1. apply in_map_iff in H2. destruct H1 as [a [<- _]]. destruct H2 as [[b x] [H2 _]].
    simpl in H2. apply (n_disj a b x). symmetry. assumption.
Qed.

(* lookup in a list built by mapping, with distinct names *)
Lemma lookup_map_in {A V} (nm : A -> string) (f : A -> V) l a :
  NoDup (map nm l) -> In a l -> lookup (map (fun x => (nm x, f x)) l) (nm a) = Some (f a).
Proof.
  induction l as [|x tl IH]; intros Hn Hin; [inv Hin|]. simpl in *. inv Hn. destruct Hin as [->|Hin].
  - rewrite String.eqb_refl. reflexivity.
  - destruct (String.eqb (nm x) (nm a)) eqn:E; [|apply IH; assumption].
    apply String.eqb_eq in E. exfalso. apply H1. rewrite E. apply in_map. assumption.
Qed.

Lemma lookup_map_notin {A V} (nm : A -> string) (f : A -> V) l n :
  ~ In n (map nm l) -> lookup (map (fun x => (nm x, f x)) l) n = None.
Proof.
  induction l as [|x tl IH]; intros Hn; [reflexivity|]. simpl in *.
  destruct (String.eqb (nm x) n) eqn:E; [apply String.eqb_eq in E; exfalso; apply Hn; left; assumption|].
  apply IH. intros H. apply Hn. right. assumption.
Qed.

(* one generic table: declarations with a value function *)
Definition vof (ps : list npost) : list (vardecl * value) :=
  map (fun a => (adecl a, VAccount a)) (accs_of ps) ++ map (fun m => (mdecl m, VMonetary (fst m) (Some (snd m)))) (mons_of ps).

Lemma vof_decls ps : map fst (vof ps) = decls_of ps.
Proof. unfold vof, decls_of. rewrite map_app, !map_map. reflexivity. Qed.
Lemma vof_given ps : map (fun dv => (vname (fst dv), snd dv)) (vof ps) = given_of ps.
Proof. unfold vof, given_of. rewrite map_app, !map_map. reflexivity. Qed.

Lemma vof_nodup ps : NoDup (map (fun dv => vname (fst dv)) (vof ps)).
Proof. pose proof (names_nodup ps) as H. unfold names in H. rewrite <- vof_decls, map_map in H. exact H. Qed.

Lemma given_lookup ps dv : In dv (vof ps) -> lookup (given_of ps) (vname (fst dv)) = Some (snd dv).
Proof. intros H. rewrite <- vof_given. apply (lookup_map_in (fun dv => vname (fst dv)) snd); [apply vof_nodup|assumption]. Qed.

Lemma vof_props ps dv : Forall valid_post ps -> In dv (vof ps) ->
  vorigin (fst dv) = ONone /\ ty_of (snd dv) = vty (fst dv) /\ validate_value (snd dv) = true.
Proof.
  intros Hv H. unfold vof in H. apply in_app_or in H. destruct H as [H|H]; apply in_map_iff in H.
  - destruct H as [a [<- Ha]]. simpl. repeat split. apply in_accs in Ha. destruct Ha as [_ [p [Hp Hq]]].
    rewrite Forall_forall in Hv. destruct (Hv _ Hp) as [V1 [V2 _]]. destruct Hq; subst; assumption.
  - destruct H as [[A x] [<- Ha]]. simpl. repeat split. apply in_mons in Ha. destruct Ha as [p [Hp Hq]]. inv Hq.
    rewrite Forall_forall in Hv. destruct (Hv _ Hp) as [_ [_ [V3 V4]]]. rewrite V3. simpl. apply Z.leb_le. assumption.
Qed.

(* ---------- compile checks and variable resolution of the generated script ---------- *)
Lemma chk_vars_plain (l : list (vardecl * value)) : forall te,
  (forall dv, In dv l -> vorigin (fst dv) = ONone) -> NoDup (map (fun dv => vname (fst dv)) l) ->
  (forall dv, In dv l -> declared te (vname (fst dv)) = false) ->
  chk_vars te (map fst l) = Some (te ++ map (fun dv => (vname (fst dv), vty (fst dv))) l).
Proof.
  induction l as [|dv tl IH]; intros te Ho Hn Hd; simpl; [rewrite app_nil_r; reflexivity|].
  rewrite (Hd dv (or_introl eq_refl)), (Ho dv (or_introl eq_refl)). inv Hn.
  rewrite IH.
  - rewrite <- app_assoc. reflexivity.
  - intros; apply Ho; right; assumption.
  - assumption.
  - intros dv' Hin. rewrite declared_app. rewrite (Hd dv' (or_intror Hin)). simpl.
    destruct (String.eqb (vname (fst dv)) (vname (fst dv'))) eqn:E; [|reflexivity].
    apply String.eqb_eq in E. exfalso. apply H1. rewrite E. apply (in_map (fun dv => vname (fst dv))). assumption.
Qed.

Lemma set_vars_plain given (l : list (vardecl * value)) :
  (forall dv, In dv l -> vorigin (fst dv) = ONone /\ lookup given (vname (fst dv)) = Some (snd dv) /\
                         ty_of (snd dv) = vty (fst dv) /\ validate_value (snd dv) = true) ->
  set_vars (map fst l) given = true.
Proof.
  induction l as [|dv tl IH]; intros H; simpl; [reflexivity|].
  destruct (H dv (or_introl eq_refl)) as [H1 [H2 [H3 H4]]]. rewrite H1, H2, H3, H4.
  rewrite IH; [|intros; apply H; right; assumption]. destruct (vty (fst dv)); reflexivity.
Qed.

Lemma resolve_vars_plain given s (l : list (vardecl * value)) : forall e bv,
  (forall dv, In dv l -> vorigin (fst dv) = ONone /\ lookup given (vname (fst dv)) = Some (snd dv)) ->
  resolve_vars (map fst l) given s e bv = Ok (e ++ map (fun dv => (vname (fst dv), snd dv)) l, bv).
Proof.
  induction l as [|dv tl IH]; intros e bv H; simpl; [rewrite app_nil_r; reflexivity|].
  destruct (H dv (or_introl eq_refl)) as [H1 H2]. rewrite H1, H2. rewrite IH; [|intros; apply H; right; assumption].
  rewrite <- app_assoc. reflexivity.
Qed.

(* ---------- fundings with one part ---------- *)
Definition f1 (A s : string) (x : Z) : funding := {| fasset := A; fparts := [(s, x)] |}.

Lemma take_single_zero A s x : exists rem, take 0 (f1 A s x) = Ok (f1 A s 0, rem).
Proof. unfold take, f1. simpl. eexists. reflexivity. Qed.

Lemma take_single_le A s x n : 0 < n -> n <= x -> exists rem, take n (f1 A s x) = Ok (f1 A s n, rem).
Proof.
  intros H0 Hx. unfold take, f1. simpl. destruct (n =? 0) eqn:E0; [apply Z.eqb_eq in E0; lia|].
  destruct (0 <? n) eqn:E1; [|apply Z.ltb_ge in E1; lia]. destruct (n <? x) eqn:E2.
  - simpl. eexists. reflexivity.
  - apply Z.ltb_ge in E2. assert (n = x) by lia. subst n. rewrite Z.sub_diag. simpl. eexists. reflexivity.
Qed.

Lemma take_single_gt A s x n : 0 < n -> x < n -> 0 <= x -> take n (f1 A s x) = Err EInsufficient.
Proof.
  intros H0 Hx Hx0. unfold take, f1. simpl. destruct (n =? 0) eqn:E0; [apply Z.eqb_eq in E0; lia|].
  destruct (0 <? n) eqn:E1; [|apply Z.ltb_ge in E1; lia]. destruct (n <? x) eqn:E2; [apply Z.ltb_lt in E2; lia|].
  simpl. destruct (n - x =? 0) eqn:E3; [apply Z.eqb_eq in E3; lia|reflexivity].
Qed.

Lemma f1_eq A s x y : x = y -> f1 A s x = f1 A s y.
Proof. intros ->. reflexivity. Qed.

Definition mkpost (src dst A : string) (x : Z) : npost := {| psrc := src; pdst := dst; passet := A; pamt := x |}.

Section Env.
Variable e : env.

(* destination @dst / $var *)
Lemma dest_single da dst A src x b : eval_acc e da = dst -> 0 <= x ->
  exists lf b', eval_dest e (DAccount da) (f1 A src x) b = Ok (lf, b', [mkpost src dst A x]).
Proof.
  intros Hd Hx. simpl. replace (total (f1 A src x)) with x by (unfold total, f1; simpl; lia).
  destruct (Z.eq_dec x 0) as [->|Hn].
  - destruct (take_single_zero A src 0) as [rem ->]. simpl. unfold send_to. rewrite Hd. simpl. eexists. eexists. reflexivity.
  - destruct (take_single_le A src x x ltac:(lia) ltac:(lia)) as [rem ->]. simpl. unfold send_to. rewrite Hd. simpl.
    eexists. eexists. reflexivity.
Qed.

(* a source that cannot run dry: @world, or $var allowing unbounded overdraft *)
Lemma source_unbounded sa od m src A x b :
  (is_world sa = true /\ od = OdNone) \/ (is_world sa = false /\ od = OdUnbounded) ->
  eval_acc e sa = src -> eval_mon e m = Ok (A, Some x) -> mon_asset e m = A -> 0 <= x ->
  exists b', eval_vsource e m (VSrc (SAccount sa od)) b = Ok (f1 A src x, b').
Proof.
  intros Hc Hs Hm Ha Hx. unfold eval_vsource. rewrite Ha.
  assert (eval_source e A (SAccount sa od) b = Ok (withdraw_always b src A 0)) as Es.
  { simpl. rewrite Hs. destruct Hc as [[Hw ->]|[Hw ->]]; [rewrite Hw|]; reflexivity. }
  assert (fallback_of (SAccount sa od) = Some sa) as Ef by (simpl; destruct Hc as [[Hw ->]|[Hw ->]]; [rewrite Hw|]; reflexivity).
  rewrite Es, Ef, Hm. unfold withdraw_always. simpl.
  unfold take_from_source, take_max_fb.
  destruct (x <? 0) eqn:E0; [apply Z.ltb_lt in E0; lia|]. simpl. rewrite String.eqb_refl. simpl.
  unfold take_max, total. simpl. rewrite Hs.
  destruct (Z.eq_dec x 0) as [->|Hn].
  - simpl. unfold withdraw_always, assemble. simpl. rewrite String.eqb_refl. simpl. eexists. reflexivity.
  - assert (0 <? x = true) as E1 by (apply Z.ltb_lt; lia). rewrite E1. rewrite E0. simpl.
    replace (0 + 0 <? x) with true by (symmetry; apply Z.ltb_lt; lia).
    unfold withdraw_always, assemble. simpl. rewrite !String.eqb_refl. simpl. rewrite ?String.eqb_refl.
    eexists. f_equal. f_equal. unfold f1. f_equal. f_equal. f_equal. lia.
Qed.

(* a bounded source: $var without overdraft *)
Lemma source_bounded sa m src A x b v :
  is_world sa = false -> eval_acc e sa = src -> eval_mon e m = Ok (A, Some x) -> mon_asset e m = A -> 0 <= x ->
  bget b (src, A) = Some v ->
  (((x <=? 0) || (x <=? v) = true) -> exists b', eval_vsource e m (VSrc (SAccount sa OdNone)) b = Ok (f1 A src x, b')) /\
  (((x <=? 0) || (x <=? v) = false) -> eval_vsource e m (VSrc (SAccount sa OdNone)) b = Err EInsufficient).
Proof.
  intros Hw Hs Hm Ha Hx Hb. unfold eval_vsource. rewrite Ha. simpl eval_source. rewrite Hw, Hs.
  unfold withdraw_all. rewrite Hb. simpl oz. simpl fallback_of. rewrite Hw.
  assert (forall f b1, fasset f = A -> take_from_source e None f A (Some x) b1 = (do (res, rem) <- take x f; Ok (res, repay b1 rem))) as Et.
  { intros f b1 Hf. unfold take_from_source. rewrite Hf, String.eqb_refl. reflexivity. }
  destruct (0 <? v + 0) eqn:Ev.
  - apply Z.ltb_lt in Ev. simpl bind. rewrite Hm. simpl bind. rewrite Et by reflexivity. change {| fasset := A; fparts := [(src, v + 0)] |} with (f1 A src (v + 0)).
    split; intros Hc.
    + destruct (Z.eq_dec x 0) as [->|Hn].
      * destruct (take_single_zero A src (v + 0)) as [rem ->]. simpl. eexists. reflexivity.
      * apply orb_true_iff in Hc. destruct Hc as [Hc|Hc]; apply Z.leb_le in Hc; [lia|].
        destruct (take_single_le A src (v + 0) x ltac:(lia) ltac:(lia)) as [rem ->]. simpl. eexists. reflexivity.
    + apply orb_false_iff in Hc. destruct Hc as [H1 H2]. apply Z.leb_gt in H1, H2.
      rewrite (take_single_gt A src (v + 0) x) by lia. reflexivity.
  - apply Z.ltb_ge in Ev. simpl bind. rewrite Hm. simpl bind. rewrite Et by reflexivity. change {| fasset := A; fparts := [(src, 0)] |} with (f1 A src 0).
    split; intros Hc.
    + apply orb_true_iff in Hc. destruct Hc as [Hc|Hc]; apply Z.leb_le in Hc; assert (x = 0) by lia; subst x;
        destruct (take_single_zero A src 0) as [rem ->]; simpl; eexists; reflexivity.
    + apply orb_false_iff in Hc. destruct Hc as [H1 H2]. apply Z.leb_gt in H1, H2.
      rewrite (take_single_gt A src 0 x) by lia. reflexivity.
Qed.

Lemma exec_send_after_source m vs da dst A src x b b1 :
  eval_vsource e m vs b = Ok (f1 A src x, b1) -> eval_acc e da = dst -> 0 <= x ->
  exists b', exec_send e m vs (DAccount da) b = Ok (b', [mkpost src dst A x]).
Proof.
  intros Hs Hd Hx. unfold exec_send. rewrite Hs. unfold bind at 1.
  destruct (dest_single da dst A src x b1 Hd Hx) as [lf [b2 Hq]]. rewrite Hq. simpl. eexists. reflexivity.
Qed.
End Env.

(* ---------- the script of a whole request ---------- *)
Section Script.
Variable force : bool.
Variable ps0 : list npost.
Hypothesis Hvalid : Forall valid_post ps0.

Definition env0 : env := given_of ps0.

Lemma mkpost_eta p : mkpost (psrc p) (pdst p) (passet p) (pamt p) = p.
Proof. destruct p; reflexivity. Qed.

Lemma is_world_acc_expr a : is_world (acc_expr a) = String.eqb a wld.
Proof. unfold acc_expr. destruct (String.eqb a wld) eqn:E; simpl; [reflexivity|reflexivity]. Qed.

Lemma env_acc a : (exists p, In p ps0 /\ (psrc p = a \/ pdst p = a)) -> eval_acc env0 (acc_expr a) = a.
Proof.
  intros Hex. unfold acc_expr. destruct (String.eqb a wld) eqn:E; simpl.
  - apply String.eqb_eq in E. congruence.
  - assert (In (adecl a, VAccount a) (vof ps0)) as Hin.
    { unfold vof. apply in_or_app. left. apply (in_map (fun a => (adecl a, VAccount a))). apply in_accs. split; [|assumption].
      intros ->. rewrite String.eqb_refl in E. discriminate. }
    pose proof (given_lookup _ _ Hin) as Hl. simpl in Hl. unfold env0. rewrite Hl. reflexivity.
Qed.

Lemma env_mon p : In p ps0 -> lookup env0 (nmon (passet p) (pamt p)) = Some (VMonetary (passet p) (Some (pamt p))).
Proof.
  intros Hp. assert (In (mdecl (passet p, pamt p), VMonetary (passet p) (Some (pamt p))) (vof ps0)) as Hin.
  { unfold vof. apply in_or_app. right. apply (in_map (fun m => (mdecl m, VMonetary (fst m) (Some (snd m)))) _ (passet p, pamt p)).
    apply in_mons. exists p. auto. }
  apply (given_lookup _ _ Hin).
Qed.

Definition bounded (p : npost) : bool := negb force && negb (String.eqb (psrc p) wld).

Variable T : list key.
Hypothesis HT : forall k, In k T -> fst k <> wld.

Definition tinv (b : bals) (bal : bal_fun) : Prop := forall k, In k T -> bget b k = Some (bal k).

Lemma exec_stmt_of p b bal : In p ps0 -> tinv b bal -> (bounded p = true -> In (psrc p, passet p) T) ->
  let ok := force || String.eqb (psrc p) wld || (pamt p <=? 0) || (pamt p <=? bal (psrc p, passet p)) in
  (ok = true -> exists b', exec_send env0 (MonVar (nmon (passet p) (pamt p)))
                             (VSrc (SAccount (acc_expr (psrc p)) (src_od force (psrc p)))) (DAccount (acc_expr (pdst p))) b = Ok (b', [p])
                           /\ tinv b' (apply_post bal p)) /\
  (ok = false -> exec_send env0 (MonVar (nmon (passet p) (pamt p)))
                   (VSrc (SAccount (acc_expr (psrc p)) (src_od force (psrc p)))) (DAccount (acc_expr (pdst p))) b = Err EInsufficient).
Proof.
  intros Hp Hinv Htr ok.
  assert (eval_acc env0 (acc_expr (psrc p)) = psrc p) as Es by (apply env_acc; exists p; auto).
  assert (eval_acc env0 (acc_expr (pdst p)) = pdst p) as Ed by (apply env_acc; exists p; auto).
  assert (eval_mon env0 (MonVar (nmon (passet p) (pamt p))) = Ok (passet p, Some (pamt p))) as Em by (simpl; rewrite (env_mon _ Hp); reflexivity).
  assert (mon_asset env0 (MonVar (nmon (passet p) (pamt p))) = passet p) as Ea by (unfold mon_asset, leaf_value; simpl; rewrite (env_mon _ Hp); reflexivity).
  rewrite Forall_forall in Hvalid. destruct (Hvalid _ Hp) as [_ [_ [_ Hx]]].
  assert (forall b', exec_send env0 (MonVar (nmon (passet p) (pamt p))) (VSrc (SAccount (acc_expr (psrc p)) (src_od force (psrc p))))
                       (DAccount (acc_expr (pdst p))) b = Ok (b', [p]) -> tinv b' (apply_post bal p)) as Hshift.
  { intros b' He k Hk. pose proof (exec_send_shift k (HT k Hk) env0 _ _ _ _ _ _ He) as Hs. unfold shifted in Hs.
    rewrite (Hinv k Hk) in Hs. destruct Hs as [w [Hw ->]]. rewrite Hw. reflexivity. }
  assert (forall b1, eval_vsource env0 (MonVar (nmon (passet p) (pamt p))) (VSrc (SAccount (acc_expr (psrc p)) (src_od force (psrc p)))) b
                     = Ok (f1 (passet p) (psrc p) (pamt p), b1) ->
          exists b', exec_send env0 (MonVar (nmon (passet p) (pamt p))) (VSrc (SAccount (acc_expr (psrc p)) (src_od force (psrc p))))
                       (DAccount (acc_expr (pdst p))) b = Ok (b', [p]) /\ tinv b' (apply_post bal p)) as Hfin.
  { intros b1 Hs. destruct (exec_send_after_source env0 _ _ _ _ _ _ _ _ _ Hs Ed Hx) as [b' Hb']. rewrite mkpost_eta in Hb'.
    exists b'. split; [assumption|apply Hshift; assumption]. }
  unfold src_od in *. destruct (String.eqb (psrc p) wld) eqn:Ew.
  - (* world *) subst ok. rewrite orb_true_r. simpl. split; [|discriminate]. intros _.
    destruct (source_unbounded env0 (acc_expr (psrc p)) OdNone _ _ _ _ b
                (or_introl (conj (eq_trans (is_world_acc_expr _) Ew) eq_refl)) Es Em Ea Hx) as [b1 Hs].
    apply (Hfin _ Hs).
  - destruct force eqn:Ef.
    + subst ok. simpl. split; [|discriminate]. intros _.
      destruct (source_unbounded env0 (acc_expr (psrc p)) OdUnbounded _ _ _ _ b
                  (or_intror (conj (eq_trans (is_world_acc_expr _) Ew) eq_refl)) Es Em Ea Hx) as [b1 Hs].
      apply (Hfin _ Hs).
    + assert (In (psrc p, passet p) T) as Hk by (apply Htr; unfold bounded; rewrite Ew; try rewrite Ef; reflexivity).
      destruct (source_bounded env0 (acc_expr (psrc p)) _ _ _ _ b (bal (psrc p, passet p))
                  (eq_trans (is_world_acc_expr _) Ew) Es Em Ea Hx (Hinv _ Hk)) as [S1 S2].
      subst ok. simpl. split; intros Hc.
      * destruct (S1 Hc) as [b1 Hs]. apply (Hfin _ Hs).
      * unfold exec_send. rewrite (S2 Hc). reflexivity.
Qed.

Lemma exec_script ps : forall bal ms, (forall p, In p ps -> In p ps0) -> tinv (mbal ms) bal ->
  (forall p, In p ps -> bounded p = true -> In (psrc p, passet p) T) ->
  if walk force bal ps
  then exists ms', exec_stmts env0 (map (stmt_of force) ps) ms = Ok ms' /\
                   mposts ms' = mposts ms ++ map (fun p => [p]) ps /\ mtx ms' = mtx ms /\ macc ms' = macc ms /\ msaved ms' = msaved ms
  else exec_stmts env0 (map (stmt_of force) ps) ms = Err EInsufficient.
Proof.
  induction ps as [|p r IH]; intros bal ms Hsub Hinv Htr; simpl.
  - exists ms. rewrite app_nil_r. auto.
  - destruct (exec_stmt_of p (mbal ms) bal (Hsub p (or_introl eq_refl)) Hinv (Htr p (or_introl eq_refl))) as [H1 H2].
    destruct (force || String.eqb (psrc p) wld || (pamt p <=? 0) || (pamt p <=? bal (psrc p, passet p))) eqn:Eok; simpl.
    + destruct (H1 eq_refl) as [b' [He Hi]]. rewrite He. simpl.
      specialize (IH (apply_post bal p) (add_posts ms b' [p]) (fun q Hq => Hsub q (or_intror Hq)) Hi (fun q Hq => Htr q (or_intror Hq))).
      destruct (walk force (apply_post bal p) r).
      * destruct IH as [ms' [E1 [E2 [E3 [E4 E5]]]]]. exists ms'. simpl in *. rewrite E1, E2, <- app_assoc. auto.
      * assumption.
    + rewrite (H2 eq_refl). reflexivity.
Qed.
End Script.

(* ---------- the whole run ---------- *)
Lemma dedup_keys_in l : forall seen k, In k (dedup_keys l seen) -> In k l.
Proof.
  induction l as [|k0 tl IH]; intros seen k H; simpl in H; [contradiction|].
  destruct (existsb (key_eqb k0) seen); [right; apply (IH _ _ H)|]. destruct H as [->|H]; [left; reflexivity|right; apply (IH _ _ H)].
Qed.

Lemma dedup_keys_complete l : forall seen k, In k l -> existsb (key_eqb k) seen = true \/ In k (dedup_keys l seen).
Proof.
  induction l as [|k0 tl IH]; intros seen k H; [contradiction|]. simpl. destruct H as [->|H].
  - destruct (existsb (key_eqb k) seen) eqn:E; [left; reflexivity|right; left; reflexivity].
  - destruct (existsb (key_eqb k0) seen) eqn:E0.
    + apply IH. assumption.
    + destruct (IH (k0 :: seen) k H) as [Hs|Hs]; [|right; right; assumption].
      simpl in Hs. apply orb_true_iff in Hs. destruct Hs as [Hs|Hs]; [|left; assumption].
      apply key_eqb_eq in Hs. subst k0. right. left. reflexivity.
Qed.

Lemma bget_map_in (f : key -> Z) l k : In k l -> bget (map (fun k => (k, f k)) l) k = Some (f k).
Proof.
  induction l as [|k0 tl IH]; intros H; [contradiction|]. simpl. destruct (key_eqb k0 k) eqn:E.
  - apply key_eqb_eq in E. subst. reflexivity.
  - destruct H as [->|H]; [rewrite key_eqb_refl in E; discriminate|apply IH; assumption].
Qed.

Lemma concat_singletons {A} (l : list A) : List.concat (map (fun x => [x]) l) = l.
Proof. induction l; simpl; congruence. Qed.

Lemma plain_names_vof (l : list (vardecl * value)) : (forall dv, In dv l -> vorigin (fst dv) = ONone) ->
  plain_names (map fst l) = map (fun dv => vname (fst dv)) l.
Proof.
  induction l as [|dv tl IH]; intros H; [reflexivity|]. unfold plain_names in *. simpl.
  rewrite (H dv (or_introl eq_refl)). simpl. f_equal. apply IH. intros; apply H; right; assumption.
Qed.

Section Run.
Variable force : bool.
Variable ps : list npost.
Hypothesis Hvalid : Forall valid_post ps.
Hypothesis Hne : ps <> [].

Definition te_of : tenv := map (fun dv => (vname (fst dv), vty (fst dv))) (vof ps).

Lemma te_acc a : a <> wld -> (exists p, In p ps /\ (psrc p = a \/ pdst p = a)) -> has_ty te_of (nacc a) TAccount = true.
Proof.
  intros Hw Hex. assert (In (adecl a, VAccount a) (vof ps)) as Hin.
  { unfold vof. apply in_or_app. left. apply (in_map (fun a => (adecl a, VAccount a))). apply in_accs. auto. }
  pose proof (lookup_map_in (fun dv : vardecl * value => vname (fst dv)) (fun dv => vty (fst dv)) _ _ (vof_nodup ps) Hin) as Hl.
  simpl in Hl. unfold has_ty, te_of. rewrite Hl. reflexivity.
Qed.

Lemma te_mon p : In p ps -> has_ty te_of (nmon (passet p) (pamt p)) TMonetary = true.
Proof.
  intros Hp. assert (In (mdecl (passet p, pamt p), VMonetary (passet p) (Some (pamt p))) (vof ps)) as Hin.
  { unfold vof. apply in_or_app. right. apply (in_map (fun m => (mdecl m, VMonetary (fst m) (Some (snd m)))) _ (passet p, pamt p)).
    apply in_mons. exists p. auto. }
  pose proof (lookup_map_in (fun dv : vardecl * value => vname (fst dv)) (fun dv => vty (fst dv)) _ _ (vof_nodup ps) Hin) as Hl.
  simpl in Hl. unfold has_ty, te_of. rewrite Hl. reflexivity.
Qed.

Lemma chk_acc_expr a : (exists p, In p ps /\ (psrc p = a \/ pdst p = a)) -> chk_acc te_of (acc_expr a) = true.
Proof.
  intros Hex. unfold acc_expr. destruct (String.eqb a wld) eqn:E; simpl; [reflexivity|].
  apply te_acc; [|assumption]. intros ->. rewrite String.eqb_refl in E. discriminate.
Qed.

Lemma chk_stmt_of p : In p ps -> chk_stmt te_of (stmt_of force p) = true.
Proof.
  intros Hp. unfold stmt_of. simpl. rewrite (te_mon _ Hp). rewrite !chk_acc_expr by (exists p; auto). simpl.
  rewrite is_world_acc_expr. unfold src_od. destruct (String.eqb (psrc p) wld); [reflexivity|]. destruct force; reflexivity.
Qed.

Lemma script_check : check (script_of force ps) = true /\ chk_vars [] (decls_of ps) = Some te_of.
Proof.
  assert (chk_vars [] (decls_of ps) = Some te_of) as Hk.
  { rewrite <- vof_decls. rewrite chk_vars_plain; [reflexivity| |apply vof_nodup|reflexivity].
    intros dv Hin. apply (vof_props _ _ Hvalid Hin). }
  split; [|assumption]. unfold check. simpl pvars. simpl pstmts. rewrite Hk.
  destruct (map (stmt_of force) ps) as [|s0 l0] eqn:Em.
  - destruct ps; [contradiction|discriminate].
  - rewrite <- Em. apply forallb_forall. intros st Hst. apply in_map_iff in Hst. destruct Hst as [p [<- Hp]].
    apply chk_stmt_of. assumption.
Qed.

Lemma script_vars : set_vars (decls_of ps) (given_of ps) && no_extraneous (decls_of ps) (given_of ps) = true.
Proof.
  apply andb_true_iff. split.
  - rewrite <- vof_decls. apply set_vars_plain. intros dv Hin. destruct (vof_props _ _ Hvalid Hin) as [H1 [H2 H3]].
    repeat split; try assumption. apply given_lookup. assumption.
  - unfold no_extraneous. rewrite <- vof_decls, plain_names_vof by (intros dv Hin; apply (vof_props _ _ Hvalid Hin)).
    rewrite <- vof_given. apply forallb_forall. intros nv Hin. apply in_map_iff in Hin. destruct Hin as [dv [<- Hdv]]. simpl.
    apply existsb_exists. exists (vname (fst dv)). split; [apply (in_map (fun dv => vname (fst dv))); assumption|apply String.eqb_refl].
Qed.

Lemma script_resolve s : resolve_vars (decls_of ps) (given_of ps) s [] [] = Ok (given_of ps, []).
Proof.
  rewrite <- vof_decls. rewrite resolve_vars_plain.
  - simpl. rewrite vof_given. reflexivity.
  - intros dv Hin. split; [apply (vof_props _ _ Hvalid Hin)|apply given_lookup; assumption].
Qed.

Lemma stmt_needed_of p : In p ps ->
  stmt_needed (given_of ps) (stmt_of force p) = if bounded force p then [(psrc p, passet p)] else [].
Proof.
  intros Hp. unfold stmt_of, stmt_needed, vsrc_needed, bounded, src_od. simpl.
  assert (mon_asset (given_of ps) (MonVar (nmon (passet p) (pamt p))) = passet p) as Ea
    by (pose proof (env_mon ps p Hp) as Hl; unfold env0 in Hl; unfold mon_asset, leaf_value; simpl; rewrite Hl; reflexivity).
  rewrite Ea, is_world_acc_expr. destruct (String.eqb (psrc p) wld) eqn:Ew; simpl.
  - rewrite andb_false_r. reflexivity.
  - destruct force; simpl; [reflexivity|]. rewrite ?is_world_acc_expr, ?Ew. simpl.
    pose proof (env_acc ps (psrc p) (ex_intro _ p (conj Hp (or_introl eq_refl)))) as Hl. unfold env0 in Hl. rewrite Hl. reflexivity.
Qed.

Lemma needed_script : forall k, In k (needed (given_of ps) (script_of force ps)) <->
  exists p, In p ps /\ bounded force p = true /\ k = (psrc p, passet p).
Proof.
  intros k. unfold needed. simpl. rewrite in_flat_map. split.
  - intros [st [Hst Hk]]. apply in_map_iff in Hst. destruct Hst as [p [<- Hp]]. rewrite (stmt_needed_of _ Hp) in Hk.
    destruct (bounded force p) eqn:Eb; [|contradiction]. destruct Hk as [<-|[]]. exists p. auto.
  - intros [p [Hp [Hb ->]]]. exists (stmt_of force p). split; [apply in_map; assumption|].
    rewrite (stmt_needed_of _ Hp), Hb. left. reflexivity.
Qed.

Theorem tx_script_run s :
  (walk force (store_balance s) ps = true ->
     exists r, run (script_of force ps) (given_of ps) s = Ok r /\ rposts r = map (fun p => [p]) ps /\ all_postings r = ps /\
               rtx r = [] /\ racc r = [] /\ rsaved r = []) /\
  (walk force (store_balance s) ps = false -> run (script_of force ps) (given_of ps) s = Err EInsufficient).
Proof.
  destruct script_check as [Hc Hk]. pose proof script_vars as Hv.
  unfold run. rewrite Hc. simpl negb. cbv iota. simpl pvars. rewrite Hv. simpl negb. cbv iota.
  rewrite script_resolve. simpl bind. unfold resolve_balances.
  set (nd := needed (given_of ps) (script_of force ps)).
  assert (existsb (fun k => String.eqb (fst k) "world") nd = false) as Hw.
  { destruct (existsb (fun k : key => String.eqb (fst k) "world") nd) eqn:E; [|exact E]. exfalso. apply existsb_exists in E. destruct E as [k [Hin Hq]].
    apply needed_script in Hin. destruct Hin as [p [_ [Hb ->]]]. unfold bounded in Hb. simpl in Hq.
    apply andb_prop in Hb. destruct Hb as [_ Hb]. unfold wld in Hb. rewrite Hq in Hb. discriminate. }
  rewrite Hw. simpl existsb. cbv iota. simpl fold_left. rewrite app_nil_r. simpl bind.
  set (T := dedup_keys nd []).
  assert (forall k, In k T -> fst k <> wld) as HT.
  { intros k Hin. apply dedup_keys_in in Hin. apply needed_script in Hin. destruct Hin as [p [_ [Hb ->]]]. simpl.
    unfold bounded in Hb. apply andb_prop in Hb. destruct Hb as [_ Hb]. intros Hq. rewrite Hq, String.eqb_refl in Hb. discriminate. }
  set (b0 := map (fun k => (k, store_balance s k)) T).
  assert (tinv T b0 (store_balance s)) as Hinv by (intros k Hin; apply bget_map_in; assumption).
  assert (forall p, In p ps -> bounded force p = true -> In (psrc p, passet p) T) as Htr.
  { intros p Hp Hb. destruct (dedup_keys_complete nd [] (psrc p, passet p)) as [Hq|Hq]; [|discriminate Hq|assumption].
    apply needed_script. exists p. auto. }
  pose proof (exec_script force ps Hvalid T HT ps (store_balance s)
                {| mbal := b0; mposts := []; mtx := []; macc := []; msaved := [] |} (fun p Hp => Hp) Hinv Htr) as Hex.
  simpl pstmts. unfold env0 in Hex. destruct (walk force (store_balance s) ps).
  - split; [|discriminate]. intros _. destruct Hex as [ms' [E1 [E2 [E3 [E4 E5]]]]]. rewrite E1. simpl bind.
    eexists. split; [reflexivity|]. simpl in *. unfold all_postings. simpl. rewrite E2, E3, E4, E5, concat_singletons. auto.
  - split; [discriminate|]. intros _. rewrite Hex. reflexivity.
Qed.
End Run.

End Naming.
