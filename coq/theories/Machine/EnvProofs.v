(* The environment a successful run executes its statements in: every variable declared (typing environment of
   Sem.check) has a value of its declared type, accounts match the address pattern, assets the asset pattern,
   monetary amounts are present (no nil) and non-negative, portions lie in [0,1]. *)
From Coq Require Import List ZArith QArith String Bool Lia.
From LV Require Import Machine.Syntax Machine.Allot Machine.Lex Machine.Sem Machine.SemProofs.
Import ListNotations.
Open Scope Z_scope.

(* phase 1 (after ResolveResources): a balance() variable still has a nil amount *)
Definition value_ok1 (v : value) : Prop :=
  match v with
  | VAccount s => valid_address s = true
  | VAsset s => valid_asset s = true
  | VMonetary a o => valid_asset a = true /\ (forall n, o = Some n -> 0 <= n)
  | VPortion q => q_in_unit q = true
  | _ => True
  end.
Definition value_ok (v : value) : Prop := value_ok1 v /\ (forall a, v <> VMonetary a None).

Definition env_valid1 (e : env) : Prop := forall x v, lookup e x = Some v -> value_ok1 v.
Definition env_valid (e : env) : Prop := forall x v, lookup e x = Some v -> value_ok v.

(* typing environment and environment declare the same names, with values of the declared types *)
Definition cons_env (te : tenv) (e : env) : Prop :=
  (forall x t, lookup te x = Some t -> exists v, lookup e x = Some v /\ ty_of v = t) /\
  (forall x v, lookup e x = Some v -> declared te x = true).

Lemma lookup_app {V} (e1 e2 : list (string * V)) x :
  lookup (e1 ++ e2) x = match lookup e1 x with Some v => Some v | None => lookup e2 x end.
Proof. induction e1 as [|[y v] r IH]; simpl; [reflexivity|]. destruct (String.eqb y x); [reflexivity|apply IH]. Qed.

Lemma ty_eqb_eq a b : ty_eqb a b = true -> a = b.
Proof. destruct a, b; simpl; intros H; try reflexivity; discriminate. Qed.

Lemma validate_value_ok v : validate_value v = true -> value_ok v.
Proof.
  destruct v as [s|s|n|s|a o|q]; simpl; intros H; (split; [|intros a0; try discriminate]); simpl; auto.
  - destruct o as [n|]; [|discriminate]. apply andb_prop in H. destruct H as [H1 H2]. split; [assumption|].
    intros m Hm. inv Hm. apply Z.leb_le. assumption.
  - destruct o; [discriminate|discriminate].
Qed.

Section Exprs.
Variable te : tenv.
Variable e : env.
Hypothesis Hc : cons_env te e.
Hypothesis Hv : env_valid1 e.

Lemma has_ty_value x t : has_ty te x t = true -> exists v, lookup e x = Some v /\ ty_of v = t /\ value_ok1 v.
Proof.
  unfold has_ty. destruct (lookup te x) as [t'|] eqn:E; [|discriminate]. intros H. apply ty_eqb_eq in H. subst t'.
  destruct (proj1 Hc _ _ E) as [v [H1 H2]]. exists v. repeat split; try assumption. apply (Hv _ _ H1).
Qed.

Lemma chk_acc_valid a : chk_acc te a = true -> valid_address (eval_acc e a) = true.
Proof.
  destruct a as [s|x]; simpl; [auto|]. intros H. destruct (has_ty_value _ _ H) as [v [H1 [H2 H3]]].
  rewrite H1. destruct v; try discriminate. exact H3.
Qed.

Lemma chk_asset_valid a : chk_asset te a = true -> valid_asset (eval_asset e a) = true.
Proof.
  destruct a as [s|x]; simpl.
  - intros H. apply andb_prop in H. apply H.
  - intros H. destruct (has_ty_value _ _ H) as [v [H1 [H2 H3]]]. rewrite H1. destruct v; try discriminate. exact H3.
Qed.

Lemma chk_mon_valid m : chk_mon te m = true -> forall A o, eval_mon e m = Ok (A, o) ->
  valid_asset A = true.
Proof.
  induction m as [a n|x|l IHl r IHr|l IHl r IHr]; simpl; intros H A o He.
  - apply andb_prop in H. destruct H as [H _]. inv He. apply chk_asset_valid. assumption.
  - destruct (has_ty_value _ _ H) as [v [H1 [H2 H3]]]. rewrite H1 in He. destruct v; try discriminate. inv He. apply H3.
  - apply andb_prop in H. destruct H as [H _]. apply andb_prop in H. destruct H as [H1 H2].
    dobind He x1 E1. destruct x1 as [la lo]. dobind He x2 E2. destruct x2 as [ra ro].
    destruct (String.eqb la ra); [|discriminate]. inv He. apply (IHl H1 _ _ eq_refl).
  - apply andb_prop in H. destruct H as [H _]. apply andb_prop in H. destruct H as [H1 H2].
    dobind He x1 E1. destruct x1 as [la lo]. dobind He x2 E2. destruct x2 as [ra ro].
    destruct (String.eqb la ra); [|discriminate]. inv He. apply (IHl H1 _ _ eq_refl).
Qed.

(* the left-most operand (what `save M from` uses) has a non-negative amount *)
Lemma chk_mon_leaf_nonneg m : chk_mon te m = true -> 0 <= oz (snd (leaf_value e m)).
Proof.
  unfold leaf_value. induction m as [a n|x|l IHl r IHr|l IHl r IHr]; simpl; intros H.
  - apply andb_prop in H. destruct H as [_ H]. apply Z.leb_le. assumption.
  - destruct (has_ty_value _ _ H) as [v [H1 [H2 H3]]]. rewrite H1. destruct v; try discriminate. simpl.
    destruct H3 as [_ H3]. destruct amt as [n|]; simpl; [apply H3; reflexivity|lia].
  - apply andb_prop in H. destruct H as [H _]. apply andb_prop in H. destruct H as [H1 _]. apply IHl. assumption.
  - apply andb_prop in H. destruct H as [H _]. apply andb_prop in H. destruct H as [H1 _]. apply IHl. assumption.
Qed.
End Exprs.

(* ---------- chk => account expressions evaluate to valid addresses ---------- *)
Definition validacc : string -> Prop := fun s => valid_address s = true.

Section ChkAccs.
Variable te : tenv.
Variable e : env.
Hypothesis Hc : cons_env te e.
Hypothesis Hv : env_valid1 e.

Lemma chk_source_accs :
  (forall s isAll r, chk_source te isAll s = Some r -> src_accs validacc e s) /\
  (forall l isAll em r, chk_sources te isAll l em = Some r -> srcs_accs validacc e l).
Proof.
  apply source_mutind.
  - intros a o isAll r H. simpl in H |- *. destruct (chk_acc te a) eqn:Ea; [|discriminate].
    apply (chk_acc_valid te e Hc Hv _ Ea).
  - intros m s IH isAll r H. simpl in H. destruct (chk_source te false s) as [r0|] eqn:E; [|discriminate].
    apply (IH _ _ E).
  - intros l IH isAll r H. simpl in H. destruct l; [discriminate|]. apply (IH _ _ _ H).
  - intros isAll em r H. exact I.
  - intros s IHs l IHl isAll em r H. simpl in H. destruct (chk_source te isAll s) as [[em1 fb]|] eqn:E; [|discriminate].
    destruct (overlap em1 em); [discriminate|]. split; [apply (IHs _ _ E)|].
    destruct l as [|s2 l2]; [exact I|]. destruct (is_some fb); [discriminate|]. apply (IHl _ _ _ H).
Qed.

Lemma chk_vsource_accs vs : chk_vsource te vs = true -> vsrc_accs validacc e vs.
Proof.
  destruct vs as [s|l]; simpl; intros H.
  - destruct (chk_source te false s) as [r|] eqn:E; [|discriminate]. apply (proj1 chk_source_accs _ _ _ E).
  - apply andb_prop in H. destruct H as [_ H]. rewrite forallb_forall in H. apply Forall_forall. intros ps Hin.
    specialize (H _ Hin). destruct (chk_source te false (snd ps)) as [r|] eqn:E; [|discriminate].
    apply (proj1 chk_source_accs _ _ _ E).
Qed.

Lemma chk_dest_accs :
  (forall d, chk_dest te d = true -> dest_accs validacc e d) /\
  (forall k, chk_kod te k = true -> kod_accs validacc e k) /\
  (forall l, chk_dmaxes te l = true -> dmaxes_accs validacc e l) /\
  (forall l, chk_dallots te l = true -> dallots_accs validacc e l).
Proof.
  apply dest_mutind.
  - intros a H. simpl in *. apply (chk_acc_valid te e Hc Hv _ H).
  - intros l IHl r IHr H. simpl in H. destruct l as [|m0 k0 l0]; [discriminate|].
    apply andb_prop in H. destruct H as [H1 H2]. split; [apply IHl; exact H1|apply IHr; exact H2].
  - intros l IH H. simpl in H. apply andb_prop in H. destruct H as [_ H]. apply IH. exact H.
  - intros _. exact I.
  - intros d IH H. apply IH. exact H.
  - intros _. exact I.
  - intros m k IHk l IHl H. simpl in H. apply andb_prop in H. destruct H as [H H3]. apply andb_prop in H. destruct H as [_ H2].
    split; [apply IHk; exact H2|apply IHl; exact H3].
  - intros _. exact I.
  - intros p k IHk l IHl H. simpl in H. apply andb_prop in H. destruct H as [H1 H2]. split; [apply IHk; exact H1|apply IHl; exact H2].
Qed.
End ChkAccs.

(* ---------- ResolveResources ---------- *)
Definition names_none (e : env) (bv : list (string * key)) : Prop :=
  forall x a, lookup e x = Some (VMonetary a None) -> In x (map fst bv).
Definition bv_assets_ok (bv : list (string * key)) : Prop := Forall (fun xk => valid_asset (snd (snd xk)) = true) bv.

Lemma declared_app te x t y : declared (te ++ [(x, t)]) y = declared te y || String.eqb x y.
Proof.
  unfold declared. rewrite lookup_app. destruct (lookup te y); [reflexivity|]. simpl. destruct (String.eqb x y); reflexivity.
Qed.

Lemma cons_env_snoc te e x t v : cons_env te e -> declared te x = false -> ty_of v = t ->
  cons_env (te ++ [(x, t)]) (e ++ [(x, v)]).
Proof.
  intros [C1 C2] Hd Ht. split.
  - intros y t' H. rewrite lookup_app in H. rewrite lookup_app. destruct (lookup te y) as [t0|] eqn:E.
    + inv H. destruct (C1 _ _ E) as [v0 [H1 H2]]. rewrite H1. exists v0. auto.
    + simpl in H. destruct (String.eqb x y) eqn:Exy; [|discriminate]. inv H.
      destruct (lookup e y) as [v0|] eqn:E0.
      * specialize (C2 _ _ E0). unfold declared in C2. rewrite E in C2. discriminate.
      * simpl. rewrite Exy. exists v. auto.
  - intros y v0 H. rewrite declared_app. rewrite lookup_app in H. destruct (lookup e y) as [v1|] eqn:E0.
    + rewrite (C2 _ _ E0). reflexivity.
    + simpl in H. destruct (String.eqb x y); [apply orb_true_r|discriminate].
Qed.

Lemma env_valid1_snoc e x v : env_valid1 e -> value_ok1 v -> env_valid1 (e ++ [(x, v)]).
Proof.
  intros He Hv y v0 H. rewrite lookup_app in H. destruct (lookup e y) eqn:E; [inv H; apply (He _ _ E)|].
  simpl in H. destruct (String.eqb x y); [inv H; assumption|discriminate].
Qed.

Lemma names_none_snoc e bv x v : names_none e bv -> (forall a, v <> VMonetary a None) -> names_none (e ++ [(x, v)]) bv.
Proof.
  intros Hn Hv y a H. rewrite lookup_app in H. destruct (lookup e y) eqn:E; [inv H; apply (Hn _ _ E)|].
  simpl in H. destruct (String.eqb x y); [inv H; exfalso; apply (Hv a); reflexivity|discriminate].
Qed.

Lemma resolve_vars_inv decls given s : forall te te' e bv e' bv',
  chk_vars te decls = Some te' -> resolve_vars decls given s e bv = Ok (e', bv') -> set_vars decls given = true ->
  cons_env te e -> env_valid1 e -> names_none e bv -> bv_assets_ok bv ->
  cons_env te' e' /\ env_valid1 e' /\ names_none e' bv' /\ bv_assets_ok bv'.
Proof.
  induction decls as [|d tl IH]; intros te te' e bv e' bv' Hk Hr Hs Hc Hv Hn Hb; simpl in Hk, Hr, Hs.
  - inv Hk. inv Hr. auto.
  - destruct (declared te (vname d)) eqn:Ed; [discriminate|].
    destruct (vorigin d) as [|a k|a asset] eqn:Eo.
    + destruct (lookup given (vname d)) as [v|] eqn:Eg; [|discriminate].
      apply andb_prop in Hs. destruct Hs as [Hs Hs2]. apply andb_prop in Hs. destruct Hs as [Ht Hval].
      apply ty_eqb_eq in Ht. destruct (validate_value_ok _ Hval) as [V1 V2].
      apply (IH _ _ _ _ _ _ Hk Hr Hs2).
      * apply cons_env_snoc; assumption.
      * apply env_valid1_snoc; assumption.
      * apply names_none_snoc; assumption.
      * assumption.
    + destruct (chk_acc te a); [|discriminate].
      destruct (bget (st_meta s) (eval_acc e a, k)) as [v|]; [|discriminate].
      destruct (ty_eqb (ty_of v) (vty d) && validate_value v) eqn:Ev; [|discriminate].
      apply andb_prop in Ev. destruct Ev as [Ht Hval]. apply ty_eqb_eq in Ht. destruct (validate_value_ok _ Hval) as [V1 V2].
      apply (IH _ _ _ _ _ _ Hk Hr Hs).
      * apply cons_env_snoc; assumption.
      * apply env_valid1_snoc; assumption.
      * apply names_none_snoc; assumption.
      * assumption.
    + destruct (ty_eqb (vty d) TMonetary && chk_acc te a && chk_asset te asset) eqn:Ec; [|discriminate].
      apply andb_prop in Ec. destruct Ec as [Ec Eas]. apply andb_prop in Ec. destruct Ec as [Ety _]. apply ty_eqb_eq in Ety.
      pose proof (chk_asset_valid te e Hc Hv _ Eas) as Hva.
      apply (IH _ _ _ _ _ _ Hk Hr Hs).
      * apply cons_env_snoc; [assumption|assumption|simpl; symmetry; assumption].
      * apply env_valid1_snoc; [assumption|]. simpl. split; [assumption|]. intros n Hq. discriminate.
      * intros y a0 H. rewrite map_app, in_app_iff. rewrite lookup_app in H. destruct (lookup e y) eqn:E.
        -- inv H. left. apply (Hn _ _ E).
        -- simpl in H. destruct (String.eqb (vname d) y) eqn:Ey; [|discriminate]. apply String.eqb_eq in Ey. subst y.
           right. simpl. left. reflexivity.
      * apply Forall_app. split; [assumption|]. constructor; [simpl; assumption|constructor].
Qed.

(* ---------- ResolveBalances ---------- *)
Lemma lookup_set_env e x v y :
  lookup (set_env e x v) y = if String.eqb x y then match lookup e y with Some _ => Some v | None => None end else lookup e y.
Proof.
  induction e as [|[z w] r IH]; simpl; [destruct (String.eqb x y); reflexivity|].
  destruct (String.eqb z x) eqn:Ezx; simpl.
  - apply String.eqb_eq in Ezx. subst z. destruct (String.eqb x y); reflexivity.
  - destruct (String.eqb z y) eqn:Ezy.
    + apply String.eqb_eq in Ezy. subst z. rewrite String.eqb_sym in Ezx. rewrite Ezx. reflexivity.
    + apply IH.
Qed.

Definition bal_value (s : store) (xk : string * key) : value := VMonetary (snd (snd xk)) (Some (store_balance s (snd xk))).

Lemma fold_set_env_lookup s bv : forall e y v',
  lookup (fold_left (fun e xk => set_env e (fst xk) (bal_value s xk)) bv e) y = Some v' ->
  (lookup e y = Some v' /\ ~ In y (map fst bv)) \/ (exists xk, In xk bv /\ fst xk = y /\ v' = bal_value s xk).
Proof.
  induction bv as [|xk tl IH]; intros e y v' H; simpl in H.
  - left. split; [assumption|intros []].
  - destruct (IH _ _ _ H) as [[H1 H2]|[xk' [H1 [H2 H3]]]].
    + rewrite lookup_set_env in H1. destruct (String.eqb (fst xk) y) eqn:E.
      * apply String.eqb_eq in E. right. exists xk. destruct (lookup e y); [|discriminate]. inv H1. simpl. auto.
      * left. split; [assumption|]. simpl. intros [Hq|Hq]; [subst y; rewrite String.eqb_refl in E; discriminate|contradiction].
    + right. exists xk'. simpl. auto.
Qed.

Lemma fold_set_env_types s bv : forall te e, cons_env te e ->
  (forall xk, In xk bv -> has_ty te (fst xk) TMonetary = true \/ lookup e (fst xk) = None) ->
  cons_env te (fold_left (fun e xk => set_env e (fst xk) (bal_value s xk)) bv e).
Proof.
  induction bv as [|xk tl IH]; intros te e Hc Hb; simpl; [assumption|]. apply IH.
  - destruct Hc as [C1 C2]. split.
    + intros y t H. rewrite lookup_set_env. destruct (C1 _ _ H) as [v [H1 H2]]. destruct (String.eqb (fst xk) y) eqn:E.
      * rewrite H1. eexists. split; [reflexivity|]. apply String.eqb_eq in E. subst y.
        destruct (Hb xk (or_introl eq_refl)) as [Ht|Hnone]; [|congruence].
        unfold has_ty in Ht. rewrite H in Ht. apply ty_eqb_eq in Ht. simpl. congruence.
      * exists v. auto.
    + intros y v H. rewrite lookup_set_env in H. destruct (String.eqb (fst xk) y).
      * destruct (lookup e y) as [v0|] eqn:E0; [|discriminate]. apply (C2 _ _ E0).
      * apply (C2 _ _ H).
  - intros xk' Hin. destruct (Hb xk' (or_intror Hin)) as [H|H]; [left; assumption|].
    right. rewrite lookup_set_env. destruct (String.eqb (fst xk) (fst xk')); [rewrite H|]; auto.
Qed.

(* ---------- the whole run ---------- *)
Definition init_state (b0 : bals) : mstate := {| mbal := b0; mposts := []; mtx := []; macc := []; msaved := [] |}.

(* balance variables are declared with type monetary *)
Lemma resolve_vars_bv decls given s : forall te te' e bv e' bv',
  chk_vars te decls = Some te' -> resolve_vars decls given s e bv = Ok (e', bv') ->
  (forall xk, In xk bv -> has_ty te (fst xk) TMonetary = true) ->
  (forall x t, lookup te x = Some t -> True) ->
  forall xk, In xk bv' -> has_ty te' (fst xk) TMonetary = true.
Proof.
  assert (Hmono : forall decls te te', chk_vars te decls = Some te' -> forall x t, has_ty te x t = true -> has_ty te' x t = true).
  { induction decls0 as [|d tl IH]; intros te te' H x t Hx; simpl in H; [inv H; assumption|].
    destruct (declared te (vname d)) eqn:Ed; [discriminate|].
    destruct (match vorigin d with ONone => true | OMeta a _ => chk_acc te a | OBalance a s0 => ty_eqb (vty d) TMonetary && chk_acc te a && chk_asset te s0 end); [|discriminate].
    apply (IH _ _ H). unfold has_ty in *. rewrite lookup_app. destruct (lookup te x); [assumption|discriminate]. }
  induction decls as [|d tl IH]; intros te te' e bv e' bv' Hk Hr Hb _ xk Hin; simpl in Hk, Hr.
  - inv Hk. inv Hr. apply Hb. assumption.
  - destruct (declared te (vname d)) eqn:Ed; [discriminate|].
    assert (forall xk0, In xk0 bv -> has_ty (te ++ [(vname d, vty d)]) (fst xk0) TMonetary = true) as Hb'.
    { intros xk0 H0. specialize (Hb _ H0). unfold has_ty in *. rewrite lookup_app. destruct (lookup te (fst xk0)); [assumption|discriminate]. }
    destruct (vorigin d) as [|a k|a asset] eqn:Eo.
    + destruct (lookup given (vname d)); [|discriminate]. apply (IH _ _ _ _ _ _ Hk Hr Hb' (fun _ _ _ => I) _ Hin).
    + destruct (chk_acc te a); [|discriminate]. destruct (bget _ _); [|discriminate]. destruct (_ && _); [|discriminate].
      apply (IH _ _ _ _ _ _ Hk Hr Hb' (fun _ _ _ => I) _ Hin).
    + destruct (ty_eqb (vty d) TMonetary && chk_acc te a && chk_asset te asset) eqn:Ec; [|discriminate].
      apply andb_prop in Ec. destruct Ec as [Ec _]. apply andb_prop in Ec. destruct Ec as [Ety _]. apply ty_eqb_eq in Ety.
      apply (IH _ _ _ _ _ _ Hk Hr) with (xk := xk); [|intros; exact I|assumption].
      intros xk0 H0. apply in_app_or in H0. destruct H0 as [H0|[H0|[]]]; [apply Hb'; assumption|]. subst xk0. simpl.
      unfold has_ty. rewrite lookup_app. unfold declared in Ed. destruct (lookup te (vname d)); [discriminate|].
      simpl. rewrite String.eqb_refl. rewrite Ety. reflexivity.
Qed.

Lemma env_valid_1 e : env_valid e -> env_valid1 e.
Proof. intros H x v Hl. apply (H _ _ Hl). Qed.

(* what ResolveResources + ResolveBalances establish, whatever happens afterwards *)
Lemma resolve_env p given s te e0 bv e b0 :
  chk_vars [] (pvars p) = Some te -> set_vars (pvars p) given = true ->
  resolve_vars (pvars p) given s [] [] = Ok (e0, bv) -> resolve_balances p s e0 bv = Ok (e, b0) ->
  cons_env te e /\ env_valid e.
Proof.
  intros Ek Es E0 E1.
  assert (cons_env [] []) as C0 by (split; intros x v Hq; discriminate).
  assert (env_valid1 []) as V0 by (intros x v Hq; discriminate).
  assert (names_none [] []) as N0 by (intros x a Hq; discriminate).
  destruct (resolve_vars_inv _ _ _ _ _ _ _ _ _ Ek E0 Es C0 V0 N0 (Forall_nil _)) as [C1 [V1 [N1 B1]]].
  pose proof (resolve_vars_bv _ _ _ _ _ _ _ _ _ Ek E0 (fun _ Hq => match Hq with end) (fun _ _ _ => I)) as T1.
  unfold resolve_balances in E1.
  destruct (existsb (fun k => String.eqb (fst k) "world") (needed e0 p)); [discriminate|].
  destruct (existsb (fun xk => store_balance s (snd xk) <? 0) bv) eqn:Eneg; [discriminate|]. inv E1.
  change (fold_left _ bv e0) with (fold_left (fun e xk => set_env e (fst xk) (bal_value s xk)) bv e0).
  split; [apply fold_set_env_types; [assumption|intros xk Hin; left; apply T1; assumption]|].
  intros y v' Hl. destruct (fold_set_env_lookup _ _ _ _ _ Hl) as [[H1 H2]|[xk [H1 [H2 H3]]]].
  - split; [apply (V1 _ _ H1)|]. intros a ->. apply H2. apply (N1 _ _ H1).
  - subst v'. split; [|intros a Hq; discriminate]. simpl. split.
    + unfold bv_assets_ok in B1. rewrite Forall_forall in B1. apply (B1 _ H1).
    + intros n Hq. inv Hq.
      destruct (store_balance s (snd xk) <? 0) eqn:El; [|apply Z.ltb_ge; assumption].
      exfalso. assert (existsb (fun xk => store_balance s (snd xk) <? 0) bv = true) as Hex
        by (apply existsb_exists; exists xk; auto).
      congruence.
Qed.

Theorem run_inv p given s r : run p given s = Ok r ->
  exists te e ms,
    chk_vars [] (pvars p) = Some te /\ Forall (fun st => chk_stmt te st = true) (pstmts p) /\
    cons_env te e /\ env_valid e /\
    exec_stmts e (pstmts p) (init_state (rinit r)) = Ok ms /\
    rposts r = mposts ms /\ rbal r = mbal ms /\ rsaved r = msaved ms.
Proof.
  unfold run. destruct (check p) eqn:Ec; [|discriminate]. simpl.
  destruct (set_vars (pvars p) given && no_extraneous (pvars p) given) eqn:Es; [|discriminate]. simpl.
  apply andb_prop in Es. destruct Es as [Es _].
  intros H. dobind H x0 E0. destruct x0 as [e0 bv]. dobind H x1 E1. destruct x1 as [e b0]. dobind H ms E2. inv H. simpl.
  unfold check in Ec. destruct (pstmts p) as [|s0 l0] eqn:Est; [discriminate|].
  destruct (chk_vars [] (pvars p)) as [te|] eqn:Ek; [|discriminate].
  destruct (resolve_env _ _ _ _ _ _ _ _ Ek Es E0 E1) as [C V].
  exists te, e, ms. split; [reflexivity|]. split; [apply Forall_forall; rewrite forallb_forall in Ec; exact Ec|].
  split; [exact C|]. split; [exact V|]. split; [exact E2|]. repeat split.
Qed.

Theorem run_inv_full p given s r : run p given s = Ok r ->
  exists te e ms,
    chk_vars [] (pvars p) = Some te /\ Forall (fun st => chk_stmt te st = true) (pstmts p) /\
    cons_env te e /\ env_valid e /\
    exec_stmts e (pstmts p) (init_state (rinit r)) = Ok ms /\
    rposts r = mposts ms /\ rbal r = mbal ms /\ rsaved r = msaved ms /\ rtx r = mtx ms /\ racc r = macc ms.
Proof.
  unfold run. destruct (check p) eqn:Ec; [|discriminate]. simpl.
  destruct (set_vars (pvars p) given && no_extraneous (pvars p) given) eqn:Es; [|discriminate]. simpl.
  apply andb_prop in Es. destruct Es as [Es _].
  intros H. dobind H x0 E0. destruct x0 as [e0 bv]. dobind H x1 E1. destruct x1 as [e b0]. dobind H ms E2. inv H. simpl.
  unfold check in Ec. destruct (pstmts p) as [|s0 l0] eqn:Est; [discriminate|].
  destruct (chk_vars [] (pvars p)) as [te|] eqn:Ek; [|discriminate].
  destruct (resolve_env _ _ _ _ _ _ _ _ Ek Es E0 E1) as [C V].
  exists te, e, ms. split; [reflexivity|]. split; [apply Forall_forall; rewrite forallb_forall in Ec; exact Ec|].
  split; [exact C|]. split; [exact V|]. split; [exact E2|]. repeat split.
Qed.
