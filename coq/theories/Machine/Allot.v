(* Model of internal/machine/allotment.go: NewAllotment and Allotment.Allocate.
   Portions are rationals (Coq Q, not necessarily normalised; big.Rat normalises, floors agree
   because Qfloor respects Qeq). Amounts are unbounded integers. *)
From Coq Require Import List ZArith QArith Qround Lia.
Import ListNotations.
Open Scope Z_scope.

(* res.Mul(amt, num); res.Div(res, den)  -- big.Int.Div is Euclidean, den > 0 => floor *)
Definition floor_part (amt : Z) (p : Q) : Z := (amt * Qnum p) / Zpos (Qden p).

Fixpoint zsum (l : list Z) : Z := match l with [] => 0 | x :: xs => x + zsum xs end.

(* second loop of Allocate: hand one unit to each part, front to back, while the running total is
   below the amount; [deficit] = amount - totalAllocated *)
Fixpoint bump (deficit : Z) (parts : list Z) : list Z :=
  match parts with
  | [] => []
  | x :: xs => if 0 <? deficit then (x + 1) :: bump (deficit - 1) xs else x :: bump deficit xs
  end.

Definition allocate (amt : Z) (a : list Q) : list Z :=
  let fl := map (floor_part amt) a in bump (amt - zsum fl) fl.

(* NewAllotment *)
Inductive portion := Specific (q : Q) | Remaining.

Fixpoint qsum (l : list Q) : Q := match l with [] => 0%Q | x :: xs => (x + qsum xs)%Q end.

Definition specifics (ps : list portion) : list Q :=
  flat_map (fun p => match p with Specific q => [q] | Remaining => [] end) ps.
Definition count_remaining (ps : list portion) : nat :=
  length (filter (fun p => match p with Remaining => true | _ => false end) ps).

Inductive allot_err := TwoRemaining | Exceeded | BadPortion.

Definition new_allotment (ps : list portion) : allot_err + list Q :=
  if Nat.ltb 1 (count_remaining ps) then inl TwoRemaining
  else
    let total := qsum (specifics ps) in
    if Qlt_le_dec 1 total then inl Exceeded
    else inr (map (fun p => match p with Specific q => q | Remaining => (1 - total)%Q end) ps).

(* NewPortionSpecific: a specific portion must lie in [0,1]; callers build portions first *)
Definition portion_ok (p : portion) : bool :=
  match p with Specific q => Qle_bool 0 q && Qle_bool q 1 | Remaining => true end.
Definition new_allotment_checked (ps : list portion) : allot_err + list Q :=
  if forallb portion_ok ps then new_allotment ps else inl BadPortion.
