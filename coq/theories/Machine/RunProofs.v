(* Program-level theorems about Sem.run, assembled from SemProofs (sums, well-formedness), EnvProofs (the
   environment of a run), BalProofs (balance accounting, lower bounds) and SemSafe (no Panic). *)
From Coq Require Import List ZArith QArith String Bool Lia.
From LV Require Import Machine.Syntax Machine.Allot Machine.Lex Machine.Sem Machine.SemProofs Machine.EnvProofs
  Machine.BalProofs Machine.SemSafe.
Import ListNotations.
Open Scope Z_scope.

(* ---------- the i-th posting list is what the i-th statement produced ---------- *)
Definition stmt_posts (e : env) (s : stmt) (ps : list npost) : Prop :=
  match s with
  | Send m vs d => exists b b', exec_send e m vs d b = Ok (b', ps)
  | SendAll a src d => exists b b', exec_send_all e a src d b = Ok (b', ps)
  | _ => ps = []
  end.

Lemma exec_stmt_posts e s ms ms1 : exec_stmt e s ms = Ok ms1 -> exists ps, mposts ms1 = mposts ms ++ [ps] /\ stmt_posts e s ps.
Proof.
  destruct s; simpl; intros H.
  - dobind H x E. destruct x as [b ps]. inv H. exists ps. split; [reflexivity|]. exists (mbal ms), b. assumption.
  - dobind H x E. destruct x as [b ps]. inv H. exists ps. split; [reflexivity|]. exists (mbal ms), b. assumption.
  - dobind H x E. inv H. exists []. split; reflexivity.
  - dobind H x E. inv H. exists []. split; reflexivity.
  - destruct (leaf_value e m). inv H. exists []. split; reflexivity.
  - inv H. exists []. split; reflexivity.
  - discriminate.
Qed.

Lemma exec_stmts_posts e l : forall ms ms1, exec_stmts e l ms = Ok ms1 ->
  exists L, mposts ms1 = mposts ms ++ L /\ Forall2 (stmt_posts e) l L.
Proof.
  induction l as [|s tl IH]; intros ms ms1 H; simpl in H.
  - inv H. exists []. split; [rewrite app_nil_r; reflexivity|constructor].
  - dobind H ms0 E. destruct (exec_stmt_posts _ _ _ _ E) as [ps [H1 H2]].
    destruct (IH _ _ H) as [L [H3 H4]]. exists (ps :: L). split; [|constructor; assumption].
    rewrite H3, H1, <- app_assoc. reflexivity.
Qed.

(* ---------- C22 (sums) + C28 (well-formedness): what a successful run guarantees per statement ---------- *)
Definition wf_posting (A : string) (q : npost) : Prop :=
  passet q = A /\ 0 <= pamt q /\ valid_address (psrc q) = true /\ valid_address (pdst q) = true.

Definition stmt_guarantee (e : env) (s : stmt) (ps : list npost) : Prop :=
  match s with
  | Send m vs d =>
      exists A x, eval_mon e m = Ok (A, Some x) /\ A = mon_asset e m /\ valid_asset A = true /\
                  Forall (wf_posting A) ps /\ 0 <= post_sum ps <= x /\
                  (no_kept d = true -> post_sum ps = x)
  | SendAll a src d =>
      exists f b b1, eval_source e (eval_asset e a) src b = Ok (f, b1) /\ 0 <= total f /\
                     fasset f = eval_asset e a /\ valid_asset (eval_asset e a) = true /\
                     Forall (wf_posting (eval_asset e a)) ps /\ 0 <= post_sum ps <= total f /\
                     (no_kept d = true -> post_sum ps = total f)
  | _ => ps = []
  end.

Theorem run_guarantee p given s r : run p given s = Ok r ->
  exists e, Forall2 (stmt_guarantee e) (pstmts p) (rposts r).
Proof.
  intros H. destruct (run_inv _ _ _ _ H) as [te [e [ms [Hk [Hchk [Hc [Hv [He [Hp _]]]]]]]]]. exists e.
  destruct (exec_stmts_posts _ _ _ _ He) as [L [HL HF]]. simpl in HL. rewrite Hp, HL.
  pose proof (env_valid_1 _ Hv) as Hv1.
  eapply Forall2_strengthen; [exact HF|exact Hchk|]. intros st ps Hst Hp0.
  destruct st; simpl in *; try assumption.
  - destruct Hp0 as [b [b' Hx]]. apply andb_prop in Hst. destruct Hst as [Hst Hd]. apply andb_prop in Hst. destruct Hst as [Hm Hvs].
    destruct (exec_send_spec validacc te _ _ _ _ _ _ _ Hx Hvs (chk_vsource_accs te e Hc Hv1 _ Hvs)
                (proj1 (chk_dest_accs te e Hc Hv1) _ Hd)) as [A [x [H1 [[H2 H3] H4]]]].
    exists A, x. repeat split; try assumption; try lia.
    + apply (eval_mon_asset _ _ _ _ H1).
    + apply (chk_mon_valid te e Hc Hv1 _ Hm _ _ H1).
    + intros Hk0. apply H4; assumption.
  - destruct Hp0 as [b [b' Hx]]. apply andb_prop in Hst. destruct Hst as [Hst Hd]. apply andb_prop in Hst. destruct Hst as [Ha Hs].
    destruct (chk_source te true s0) as [r0|] eqn:Ecs; [|discriminate].
    destruct (exec_send_all_spec validacc te _ _ _ _ _ _ _ Hx (proj1 (chk_source_accs te e Hc Hv1) _ _ _ Ecs)
                (proj1 (chk_dest_accs te e Hc Hv1) _ Hd)) as [f [b1 [H1 [H2 [H3 [[H4 H5] H6]]]]]].
    exists f, b, b1. repeat split; try assumption; try lia.
    + apply (chk_asset_valid te e Hc Hv1 _ Ha).
    + intros Hk0. apply H6; assumption.
Qed.

(* ---------- C22 (balances): tracked balances = initial + postings - save ---------- *)
Theorem run_balances p given s r : run p given s = Ok r ->
  forall k v, fst k <> "world"%string -> bget (rinit r) k = Some v ->
  bget (rbal r) k = Some (v + effect (fst k) (snd k) (all_postings r) - saved_for k (rsaved r)).
Proof.
  intros H k v Hw Hi. destruct (run_inv _ _ _ _ H) as [te [e [ms [_ [_ [_ [_ [He [Hp [Hb Hs]]]]]]]]]].
  assert (state_inv k (rinit r) (init_state (rinit r))) as H0 by (apply shifted_refl; reflexivity).
  pose proof (exec_stmts_inv k Hw e (rinit r) _ _ _ He H0) as H1. unfold state_inv, shifted in H1.
  rewrite Hi in H1. destruct H1 as [w [H1 ->]]. unfold all_postings. rewrite Hb, Hp, Hs, H1. f_equal. lia.
Qed.

(* ---------- C23: bounded sources ---------- *)
Theorem run_bounded p given s r : run p given s = Ok r ->
  exists e, Forall2 (stmt_posts e) (pstmts p) (rposts r) /\
  forall k B v, fst k <> "world"%string -> 0 <= B -> Forall (stmt_bound k e B) (pstmts p) ->
    bget (rinit r) k = Some v ->
    Z.min v (- B) <= v + effect (fst k) (snd k) (all_postings r).
Proof.
  intros H. destruct (run_inv _ _ _ _ H) as [te [e [ms [Hk [Hchk [Hc [Hv [He [Hp [Hb Hs]]]]]]]]]]. exists e.
  split.
  { destruct (exec_stmts_posts _ _ _ _ He) as [L [HL HF]]. simpl in HL. rewrite Hp, HL. assumption. }
  intros k B v Hw HB Hbound Hi.
  pose proof (run_balances _ _ _ _ H k v Hw Hi) as Hfin.
  pose proof (env_valid_1 _ Hv) as Hv1.
  assert (lb_inv k (Z.min v (- B)) (init_state (rinit r))) as H0.
  { split; [constructor|]. simpl. intros w Hq. rewrite Hi in Hq. inv Hq. lia. }
  pose proof (exec_stmts_lb k Hw e B (Z.min v (- B)) te (pstmts p) HB ltac:(lia)
                (fun m Hm => chk_mon_leaf_nonneg te e Hc Hv1 m Hm) _ _ He Hchk Hbound H0) as [_ H1].
  rewrite <- Hb, <- Hs in H1. specialize (H1 _ Hfin). lia.
Qed.

(* a purely syntactic instance: programs whose sources carry no overdraft clause *)
Fixpoint src_no_overdraft (s : source) : bool :=
  match s with
  | SAccount _ OdNone => true
  | SAccount _ _ => false
  | SMaxed _ s' => src_no_overdraft s'
  | SInOrder l => srcs_no_overdraft l
  end
with srcs_no_overdraft (l : sources) : bool :=
  match l with SNil => true | SCons s tl => src_no_overdraft s && srcs_no_overdraft tl end.
Definition stmt_no_overdraft (s : stmt) : bool :=
  match s with
  | Send _ (VSrc s) _ => src_no_overdraft s
  | Send _ (VSrcAllot l) _ => forallb (fun ps => src_no_overdraft (snd ps)) l
  | SendAll _ s _ => src_no_overdraft s
  | _ => true
  end.

Lemma src_no_overdraft_bound k e B :
  (forall s, src_no_overdraft s = true -> src_bound k e B s) /\ (forall l, srcs_no_overdraft l = true -> srcs_bound k e B l).
Proof.
  apply source_mutind.
  - intros a o H. destruct o; simpl in *; [exact I|discriminate|discriminate].
  - intros m s IH H. apply IH. exact H.
  - intros l IH H. apply IH. exact H.
  - intros _. exact I.
  - intros s IHs l IHl H. simpl in H. apply andb_prop in H. destruct H as [H1 H2]. split; [apply IHs|apply IHl]; assumption.
Qed.

Theorem run_no_overdraft p given s r : run p given s = Ok r ->
  forallb stmt_no_overdraft (pstmts p) = true ->
  forall k v, fst k <> "world"%string -> bget (rinit r) k = Some v ->
  Z.min v 0 <= v + effect (fst k) (snd k) (all_postings r).
Proof.
  intros H Hn k v Hw Hi. destruct (run_bounded _ _ _ _ H) as [e [_ Hb]].
  apply (Hb k 0 v Hw ltac:(lia)); [|assumption].
  apply Forall_forall. intros st Hin. rewrite forallb_forall in Hn. specialize (Hn _ Hin).
  destruct st; simpl in *; try exact I.
  - destruct s0 as [s0|l]; simpl.
    + apply (proj1 (src_no_overdraft_bound k e 0)). assumption.
    + apply Forall_forall. intros ps Hps. rewrite forallb_forall in Hn. apply (proj1 (src_no_overdraft_bound k e 0)). apply Hn. assumption.
  - apply (proj1 (src_no_overdraft_bound k e 0)). assumption.
Qed.

(* ---------- C27: no Panic, for every program and every input ---------- *)
Lemma resolve_vars_np decls given s : forall e bv, resolve_vars decls given s e bv <> Panic.
Proof.
  induction decls as [|d tl IH]; intros e bv; simpl; [discriminate|].
  destruct (vorigin d); [destruct (lookup given (vname d)); [apply IH|discriminate]| |apply IH].
  destruct (bget _ _); [|discriminate]. destruct (_ && _); [apply IH|discriminate].
Qed.

Theorem run_no_panic p given s : run p given s <> Panic.
Proof.
  unfold run. destruct (check p) eqn:Ec; simpl; [|discriminate].
  destruct (set_vars (pvars p) given && no_extraneous (pvars p) given) eqn:Es; simpl; [|discriminate].
  apply andb_prop in Es. destruct Es as [Es _].
  destruct (resolve_vars (pvars p) given s [] []) as [[e0 bv]| |] eqn:Er; simpl; try discriminate.
  - destruct (resolve_balances p s e0 bv) as [[e b0]| |] eqn:Eb; simpl; try discriminate.
    + unfold check in Ec. destruct (pstmts p); [discriminate|]. destruct (chk_vars [] (pvars p)) as [te|] eqn:Ek; [|discriminate].
      destruct (resolve_env _ _ _ _ _ _ _ _ Ek Es Er Eb) as [_ V].
      assert (env_ok e) as Hok by (intros x a Hl; apply (proj2 (V _ _ Hl) a); reflexivity).
      intros H. bp H; [apply (exec_stmts_np _ Hok _ _ H)|discriminate].
    + unfold resolve_balances in Eb. repeat match type of Eb with context[if ?c then _ else _] => destruct c end; discriminate.
  - exfalso. apply (resolve_vars_np _ _ _ _ _ Er).
Qed.

(* the initial tracked balances are the store's balances *)
Lemma bget_map_store (f : key -> Z) l k v : bget (map (fun k => (k, f k)) l) k = Some v -> v = f k.
Proof.
  induction l as [|k0 tl IH]; simpl; [discriminate|]. destruct (key_eqb k0 k) eqn:E; [|apply IH].
  apply key_eqb_eq in E. subst. intros H. inv H. reflexivity.
Qed.

Theorem run_init_store p given s r : run p given s = Ok r -> forall k v, bget (rinit r) k = Some v -> v = store_balance s k.
Proof.
  unfold run. destruct (negb (check p)); [discriminate|]. destruct (negb _); [discriminate|]. intros H.
  dobind H x0 E0. destruct x0 as [e0 bv]. dobind H x1 E1. destruct x1 as [e b0]. dobind H ms E2. inv H. simpl.
  unfold resolve_balances in E1. repeat match type of E1 with context[if ?c then _ else _] => destruct c end; try discriminate.
  inv E1. intros k v Hb. apply (bget_map_store _ _ _ _ Hb).
Qed.
