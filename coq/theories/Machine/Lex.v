(* Boolean recognisers for the three string classes that matter to C28:
     valid_address  = pkg/accounts.Regexp   ^[a-zA-Z0-9_-]+(:[a-zA-Z0-9_-]+)*$   (= the ACCOUNT lexer rule minus '@')
     lexer_asset    = NumScript.g4 ASSET    [A-Z/0-9]+
     valid_asset    = pkg/assets.Regexp     ^[A-Z][A-Z0-9]{0,16}(_[A-Z]{1,16})?(\/\d{1,6})?$
   They are tied to the real regexps by the harness (command `nslex`: same strings through Go regexp and
   through the extracted functions). *)
From Coq Require Import List String Ascii Bool Arith.
Import ListNotations.

Definition between (lo hi : nat) (c : ascii) : bool :=
  let n := nat_of_ascii c in Nat.leb lo n && Nat.leb n hi.
Definition is_upper c := between 65 90 c.
Definition is_lower c := between 97 122 c.
Definition is_digit c := between 48 57 c.
Definition is_char (k : nat) (c : ascii) : bool := Nat.eqb (nat_of_ascii c) k.
Definition is_seg c := is_upper c || is_lower c || is_digit c || is_char 95 c || is_char 45 c.   (* _ - *)
Definition is_lex_asset c := is_upper c || is_digit c || is_char 47 c.                          (* / *)

(* longest prefix satisfying f, and the rest *)
Fixpoint span (f : ascii -> bool) (l : list ascii) : list ascii * list ascii :=
  match l with
  | [] => ([], [])
  | c :: r => if f c then let (a, b) := span f r in (c :: a, b) else ([], l)
  end.

Fixpoint chars (s : string) : list ascii :=
  match s with EmptyString => [] | String c r => c :: chars r end.

(* segments separated by ':' ; [inseg]: at least one character of the current segment has been read *)
Fixpoint addr_go (inseg : bool) (l : list ascii) : bool :=
  match l with
  | [] => inseg
  | c :: r => if is_seg c then addr_go true r
              else if is_char 58 c then inseg && addr_go false r
              else false
  end.
Definition valid_address (s : string) : bool := addr_go false (chars s).

(* the token is an ASSET only if no earlier lexer rule matches the same text: NUMBER [0-9]+ and
   PORTION [0-9]+ '/' [0-9]+ come first in NumScript.g4 *)
Definition is_number_or_portion (l : list ascii) : bool :=
  let (ds, rest) := span is_digit l in
  match ds, rest with
  | [], _ => false
  | _, [] => true
  | _, c :: r => is_char 47 c && (let (ds2, rest2) := span is_digit r in
                                  match rest2 with [] => true | _ => false end)
  end.
(* "//" at the start opens a LINE_COMMENT; "12/" followed by " 5" (as in a monetary literal) lexes as the
   PORTION "12/ 5" (optional blanks around '/'), so digits followed by a final '/' are excluded as well *)
Definition starts_comment (l : list ascii) : bool :=
  match l with c1 :: c2 :: _ => is_char 47 c1 && is_char 47 c2 | _ => false end.
Definition lexer_asset (s : string) : bool :=
  match chars s with
  | [] => false
  | l => forallb is_lex_asset l && negb (is_number_or_portion l) && negb (starts_comment l)
  end.

Definition len_between (lo hi : nat) (l : list ascii) : bool :=
  Nat.leb lo (List.length l) && Nat.leb (List.length l) hi.

(* optional "/digits{1,6}" then end of input *)
Definition asset_tail_scale (l : list ascii) : bool :=
  match l with
  | [] => true
  | c :: r => is_char 47 c &&
              (let (ds, rest) := span is_digit r in
               len_between 1 6 ds && match rest with [] => true | _ => false end)
  end.

(* optional "_[A-Z]{1,16}" then the scale part *)
Definition asset_tail_suffix (l : list ascii) : bool :=
  match l with
  | c :: r => if is_char 95 c
              then let (us, rest) := span is_upper r in len_between 1 16 us && asset_tail_scale rest
              else asset_tail_scale l
  | [] => true
  end.

Definition valid_asset (s : string) : bool :=
  match chars s with
  | c :: r => is_upper c &&
              (let (body, rest) := span (fun c => is_upper c || is_digit c) r in
               len_between 0 16 body && asset_tail_suffix rest)
  | [] => false
  end.
