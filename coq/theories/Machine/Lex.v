(* Boolean recognisers for the three string classes that matter to C28:
     valid_address  = pkg/accounts.Regexp   ^[a-zA-Z0-9_-]+(:[a-zA-Z0-9_-]+)*$   (= the ACCOUNT lexer rule minus '@')
     lexer_asset    = NumScript.g4 ASSET    [A-Z/0-9]+
     valid_asset    = pkg/assets.Regexp     ^[A-Z][A-Z0-9]{0,16}(_[A-Z]{1,16})?(\/\d{1,6})?$
   They are tied to the real regexps by the harness (command `nslex`: same strings through Go regexp and
   through the extracted functions). *)
From Coq Require Import List String Ascii Bool Arith.
Import ListNotations.

Definition between (lo hi : nat) (c : ascii) : bool :=
  let n := nat_of_ascii c in Nat.leb lo n && Nat.leb n hi.
Definition is_upper c := between 65 90 c.
Definition is_lower c := between 97 122 c.
Definition is_digit c := between 48 57 c.
Definition is_char (k : nat) (c : ascii) : bool := Nat.eqb (nat_of_ascii c) k.
Definition is_seg c := is_upper c || is_lower c || is_digit c || is_char 95 c || is_char 45 c.   (* _ - *)
Definition is_lex_asset c := is_upper c || is_digit c || is_char 47 c.                          (* / *)

(* longest prefix satisfying f, and the rest *)
Fixpoint span (f : ascii -> bool) (l : list ascii) : list ascii * list ascii :=
  match l with
  | [] => ([], [])
  | c :: r => if f c then let (a, b) := span f r in (c :: a, b) else ([], l)
  end.

Fixpoint chars (s : string) : list ascii :=
  match s with EmptyString => [] | String c r => c :: chars r end.

(* segments separated by ':' ; [inseg]: at least one character of the current segment has been read *)
Fixpoint addr_go (inseg : bool) (l : list ascii) : bool :=
  match l with
  | [] => inseg
  | c :: r => if is_seg c then addr_go true r
              else if is_char 58 c then inseg && addr_go false r
              else false
  end.
Definition valid_address (s : string) : bool := addr_go false (chars s).

(* the token is an ASSET only if no earlier lexer rule matches the same text: NUMBER [0-9]+ and
   PORTION [0-9]+ '/' [0-9]+ come first in NumScript.g4 *)
Definition is_number_or_portion (l : list ascii) : bool :=
  let (ds, rest) := span is_digit l in
  match ds, rest with
  | [], _ => false
  | _, [] => true
  | _, c :: r => is_char 47 c && (let (ds2, rest2) := span is_digit r in
                                  match rest2 with [] => true | _ => false end)
  end.
(* "//" at the start opens a LINE_COMMENT; "12/" followed by " 5" (as in a monetary literal) lexes as the
   PORTION "12/ 5" (optional blanks around '/'), so digits followed by a final '/' are excluded as well *)
Definition starts_comment (l : list ascii) : bool :=
  match l with c1 :: c2 :: _ => is_char 47 c1 && is_char 47 c2 | _ => false end.
Definition lexer_asset (s : string) : bool :=
  match chars s with
  | [] => false
  | l => forallb is_lex_asset l && negb (is_number_or_portion l) && negb (starts_comment l)
  end.

Definition len_between (lo hi : nat) (l : list ascii) : bool :=
  Nat.leb lo (List.length l) && Nat.leb (List.length l) hi.

(* optional "/digits{1,6}" then end of input *)
Definition asset_tail_scale (l : list ascii) : bool :=
  match l with
  | [] => true
  | c :: r => is_char 47 c &&
              (let (ds, rest) := span is_digit r in
               len_between 1 6 ds && match rest with [] => true | _ => false end)
  end.

(* optional "_[A-Z]{1,16}" then the scale part *)
Definition asset_tail_suffix (l : list ascii) : bool :=
  match l with
  | c :: r => if is_char 95 c
              then let (us, rest) := span is_upper r in len_between 1 16 us && asset_tail_scale rest
              else asset_tail_scale l
  | [] => true
  end.

Definition valid_asset (s : string) : bool :=
  match chars s with
  | c :: r => is_upper c &&
              (let (body, rest) := span (fun c => is_upper c || is_digit c) r in
               len_between 0 16 body && asset_tail_suffix rest)
  | [] => false
  end.

(* ---------------------------------------------------------------- portions: machine.ParsePortionSpecific
     ^([0-9]+)(?:[.]([0-9]+))?[%]$        value = integral.fractional / 100
     ^([0-9]+)\s?[/]\s?([0-9]+)$          value = numerator / denominator; a zero denominator is an error
   (the range check 0..1 is NewPortionSpecific's: Sem.q_in_unit) *)
From Coq Require Import ZArith QArith.
Definition digit_val (c : ascii) : Z := Z.of_nat (nat_of_ascii c - 48).
Definition digits_val (l : list ascii) : Z := fold_left (fun v c => (v * 10 + digit_val c)%Z) l 0%Z.
Definition is_space (c : ascii) : bool :=
  let n := nat_of_ascii c in Nat.eqb n 32 || Nat.eqb n 9 || Nat.eqb n 10 || Nat.eqb n 12 || Nat.eqb n 13.
Definition skip_one_space (l : list ascii) : list ascii :=
  match l with c :: r => if is_space c then r else l | [] => [] end.

(* a term of the fraction form as big.Rat.SetString reads it (base 0): more than one digit with a leading 0 is OCTAL
   (05/010 = 5/8, 08/9 is an error); with [octal = false]: the decimal reading one would expect (finding KF-C27-portion-octal) *)
Definition octal_val (l : list ascii) : Z := fold_left (fun v c => (v * 8 + digit_val c)%Z) l 0%Z.
Definition frac_term (octal : bool) (l : list ascii) : option Z :=
  match l with
  | z :: (_ :: _) as r =>
      if octal && is_char 48 z
      then if forallb (fun c => (digit_val c <? 8)%Z) r then Some (octal_val r) else None
      else Some (digits_val l)
  | _ => Some (digits_val l)
  end.

Definition parse_portion_gen (octal : bool) (s : string) : option Q :=
  let (ds1, rest) := span is_digit (chars s) in
  match ds1 with
  | [] => None
  | _ =>
      match rest with
      | [c] => if is_char 37 c then Some (Qmake (digits_val ds1) 100) else None                      (* 12% *)
      | c :: r =>
          if is_char 46 c then                                                                          (* 12.5% *)
            let (ds2, rest2) := span is_digit r in
            match ds2, rest2 with
            | _ :: _, [p] => if is_char 37 p
                             then Some (Qmake (digits_val (ds1 ++ ds2)) (Z.to_pos (100 * 10 ^ Z.of_nat (List.length ds2))))
                             else None
            | _, _ => None
            end
          else                                                                                          (* 1/2, 1 / 2 *)
            match skip_one_space rest with
            | sl :: r2 =>
                if is_char 47 sl then
                  let (ds2, rest2) := span is_digit (skip_one_space r2) in
                  match ds2, rest2 with
                  | _ :: _, [] =>
                      match frac_term octal ds1, frac_term octal ds2 with
                      | Some n, Some d => if (d =? 0)%Z then None else Some (Qmake n (Z.to_pos d))
                      | _, _ => None
                      end
                  | _, _ => None
                  end
                else None
            | [] => None
            end
      | [] => None
      end
  end.

(* the code as it is (machine.ParsePortionSpecific) and the decimal reading *)
Definition parse_portion : string -> option Q := parse_portion_gen false.   (* decimal reading: the octal reading of leading-zero terms was repaired by a fix: commit *)
Definition parse_portion_dec : string -> option Q := parse_portion_gen false.

Example parse_portion_zero_den : parse_portion "1/0" = None /\ parse_portion "0/0" = None /\ parse_portion "7 / 00" = None.
Proof. repeat split; reflexivity. Qed.
Example parse_portion_forms :
  parse_portion "1/2" = Some (1 # 2) /\ parse_portion "1 / 2" = Some (1 # 2) /\ parse_portion "1  /2" = None /\
  parse_portion "12.5%" = Some (125 # 1000) /\ parse_portion "100%" = Some (100 # 100) /\ parse_portion ".5%" = None /\
  parse_portion "05/010" = Some (5 # 10) /\ parse_portion_gen true "05/010" = Some (5 # 8) /\ parse_portion "08/9" = Some (8 # 9) /\
  parse_portion_gen true "08/9" = None.
Proof. repeat split; reflexivity. Qed.
