(* The bytecode machine of internal/machine/vm/machine.go (Machine.tick / Execute) over the instruction set of
   internal/machine/vm/program/instructions.go.  Instructions are a list (the byte form is [encode]; APUSH carries a
   2-byte little-endian resource address); there are no jumps, so execution is structural recursion over the
   instruction list: it terminates after exactly one step per instruction (P strictly increases in Go).
   Outcomes: [Panic] exactly where Go panics (typed pop[T] finding another type, stack underflow, BUMP index out of
   range, OP_SAVE default branch, nil amounts, "stack not empty after execution"), [Err] where tick returns an error.
   The machine is parameterised by the operand type of APUSH and its lookup, so that the same definition serves the
   concrete machine (operand = address into the resolved resource table) and the symbolic one used by the compiler
   proof (operand = resource description). *)
From Coq Require Import List ZArith QArith String Bool Lia.
From LV Require Import Machine.Syntax Machine.Allot Machine.Lex Machine.Sem.
Import ListNotations.
Open Scope Z_scope.

(* values on the stack / in the resource table *)
Inductive vval :=
| XV (v : value)                 (* account, asset, number, string, monetary, specific portion *)
| XRemaining                     (* Portion{Remaining: true} *)
| XAllot (l : list Q)
| XFunding (f : funding).

Inductive instr (O : Type) :=
| IApush (o : O)
| IBump | IDelete | IIadd | IIsub | IPrint | IFail | IAsset | IMonetaryNew | IMonetaryAdd | IMonetarySub
| IMakeAllotment | ITakeAll | ITakeAlways | ITake | ITakeMax | IFundingAssemble | IFundingSum | IFundingReverse
| IRepay | IAlloc | ISend | ITxMeta | IAccountMeta | ISave.
Arguments IApush {O} o. Arguments IBump {O}. Arguments IDelete {O}. Arguments IIadd {O}. Arguments IIsub {O}.
Arguments IPrint {O}. Arguments IFail {O}. Arguments IAsset {O}. Arguments IMonetaryNew {O}. Arguments IMonetaryAdd {O}.
Arguments IMonetarySub {O}. Arguments IMakeAllotment {O}. Arguments ITakeAll {O}. Arguments ITakeAlways {O}.
Arguments ITake {O}. Arguments ITakeMax {O}. Arguments IFundingAssemble {O}. Arguments IFundingSum {O}.
Arguments IFundingReverse {O}. Arguments IRepay {O}. Arguments IAlloc {O}. Arguments ISend {O}. Arguments ITxMeta {O}.
Arguments IAccountMeta {O}. Arguments ISave {O}.

(* program.OP_* = byte(iota + 1) in declaration order *)
Definition opcode {O} (i : instr O) : nat :=
  match i with
  | IApush _ => 1 | IBump => 2 | IDelete => 3 | IIadd => 4 | IIsub => 5 | IPrint => 6 | IFail => 7 | IAsset => 8
  | IMonetaryNew => 9 | IMonetaryAdd => 10 | IMonetarySub => 11 | IMakeAllotment => 12 | ITakeAll => 13
  | ITakeAlways => 14 | ITake => 15 | ITakeMax => 16 | IFundingAssemble => 17 | IFundingSum => 18
  | IFundingReverse => 19 | IRepay => 20 | IAlloc => 21 | ISend => 22 | ITxMeta => 23 | IAccountMeta => 24 | ISave => 25
  end%nat.

(* byte form: APUSH is followed by the address, little endian, 2 bytes *)
Fixpoint encode (l : list (instr nat)) : list nat :=
  match l with
  | [] => []
  | IApush a :: r => 1%nat :: Nat.modulo a 256 :: Nat.div a 256 :: encode r
  | i :: r => opcode i :: encode r
  end.

Record vmstate := {
  vstk : list vval;                    (* top of the stack first *)
  vbal : bals;
  vposts : list npost;
  vtx : list (string * value);
  vacc : list (key * value)
}.

Definition with_stk (st : vmstate) (s : list vval) : vmstate :=
  {| vstk := s; vbal := vbal st; vposts := vposts st; vtx := vtx st; vacc := vacc st |}.
Definition with_stk_bal (st : vmstate) (s : list vval) (b : bals) : vmstate :=
  {| vstk := s; vbal := b; vposts := vposts st; vtx := vtx st; vacc := vacc st |}.

(* pop the n values above the bumped one: Stack[idx], idx = len - n - 1 *)
Fixpoint bump (n : nat) (s : list vval) : option (list vval) :=
  match n, s with
  | O, v :: r => Some (v :: r)
  | S n', v :: r => match bump n' r with Some (x :: r') => Some (x :: v :: r') | _ => None end
  | _, [] => None
  end.

(* OP_MAKE_ALLOTMENT pops n portions: the first popped is portions[0] *)
Fixpoint pop_portions (n : nat) (s : list vval) : option (list portion * list vval) :=
  match n with
  | O => Some ([], s)
  | S n' =>
      match s with
      | XV (VPortion q) :: r => match pop_portions n' r with Some (ps, r') => Some (Specific q :: ps, r') | None => None end
      | XRemaining :: r => match pop_portions n' r with Some (ps, r') => Some (Remaining :: ps, r') | None => None end
      | _ => None
      end
  end.

(* OP_FUNDING_ASSEMBLE: after the first popped funding (whose asset is the result's), pop n-1 more; an asset
   mismatch is an error at that pop, a non-funding a panic.  Returns the popped fundings, last popped first
   (= first pushed first). *)
Fixpoint pop_fundings (n : nat) (asset : string) (acc : list funding) (s : list vval) : outcome (list funding * list vval) :=
  match n with
  | O => Ok (acc, s)
  | S n' =>
      match s with
      | XFunding f :: r => if String.eqb (fasset f) asset then pop_fundings n' asset (f :: acc) r else Err EInvalidScript
      | _ => Panic
      end
  end.


(* OP_FUNDING_ASSEMBLE with count n on the stack r (count already popped) *)
Definition vm_assemble (n : Z) (r : list vval) : outcome (list vval) :=
  if n =? 0 then Err EInvalidScript
  else if n <? 0 then Panic
  else match r with
       | XFunding first :: r1 =>
           do (fs, r2) <- pop_fundings (Nat.pred (Z.to_nat n)) (fasset first) [first] r1;
           Ok (XFunding {| fasset := fasset first;
                           fparts := fold_left (fun acc f => concat_parts acc (fparts f)) fs [] |} :: r2)
       | _ => Panic
       end.

Section Exec.
Context {O : Type}.
Variable look : O -> option vval.

Definition step (i : instr O) (st : vmstate) : outcome vmstate :=
  let s := vstk st in
  match i with
  | IApush o => match look o with Some v => Ok (with_stk st (v :: s)) | None => Err EOther end   (* ErrResourceNotFound *)
  | IBump =>
      match s with
      | XV (VNumber n) :: r => if n <? 0 then Panic else match bump (Z.to_nat n) r with Some r' => Ok (with_stk st r') | None => Panic end
      | _ => Panic
      end
  | IDelete =>
      match s with
      | XFunding _ :: _ => Err EInvalidScript
      | _ :: r => Ok (with_stk st r)
      | [] => Panic
      end
  | IIadd => match s with XV (VNumber b) :: XV (VNumber a) :: r => Ok (with_stk st (XV (VNumber (a + b)) :: r)) | _ => Panic end
  | IIsub => match s with XV (VNumber b) :: XV (VNumber a) :: r => Ok (with_stk st (XV (VNumber (a - b)) :: r)) | _ => Panic end
  | IPrint => match s with _ :: r => Ok (with_stk st r) | [] => Panic end
  | IFail => Err EScriptFailed
  | IAsset =>
      match s with
      | XV (VAsset a) :: r => Ok (with_stk st (XV (VAsset a) :: r))
      | XV (VMonetary a _) :: r => Ok (with_stk st (XV (VAsset a) :: r))
      | XFunding f :: r => Ok (with_stk st (XV (VAsset (fasset f)) :: r))
      | _ :: _ => Err EInvalidScript
      | [] => Panic
      end
  | IMonetaryNew =>
      match s with
      | XV (VNumber n) :: XV (VAsset a) :: r => Ok (with_stk st (XV (VMonetary a (Some n)) :: r))
      | _ => Panic
      end
  | IMonetaryAdd =>
      match s with
      | XV (VMonetary ab ob) :: XV (VMonetary aa oa) :: r =>
          if String.eqb aa ab then Ok (with_stk st (XV (VMonetary aa (Some (oz oa + oz ob))) :: r)) else Err EInvalidScript
      | _ => Panic
      end
  | IMonetarySub =>
      match s with
      | XV (VMonetary ab ob) :: XV (VMonetary aa oa) :: r =>
          if String.eqb aa ab then Ok (with_stk st (XV (VMonetary aa (Some (oz oa - oz ob))) :: r)) else Err EOther
      | _ => Panic
      end
  | IMakeAllotment =>
      match s with
      | XV (VNumber n) :: r =>
          if n <? 0 then Panic else
          match pop_portions (Z.to_nat n) r with
          | Some (ps, r') => match new_allotment ps with inr al => Ok (with_stk st (XAllot al :: r')) | inl _ => Err EInvalidScript end
          | None => Panic
          end
      | _ => Panic
      end
  | ITakeAll =>
      match s with
      | XV (VMonetary a od) :: XV (VAccount acc) :: r =>
          do (f, b) <- withdraw_all (vbal st) acc a od; Ok (with_stk_bal st (XFunding f :: r) b)
      | _ => Panic
      end
  | ITakeAlways =>
      match s with
      | XV (VMonetary a (Some amt)) :: XV (VAccount acc) :: r =>
          let (f, b) := withdraw_always (vbal st) acc a amt in Ok (with_stk_bal st (XFunding f :: r) b)
      | _ => Panic
      end
  | ITake =>
      match s with
      | XV (VMonetary a o) :: XFunding f :: r =>
          if negb (String.eqb (fasset f) a) then Err EInvalidScript
          else match o with
               | None => Panic
               | Some x => do (res, rem) <- take x f; Ok (with_stk st (XFunding res :: XFunding rem :: r))
               end
      | _ => Panic
      end
  | ITakeMax =>
      match s with
      | XV (VMonetary a o) :: s1 =>
          match o with
          | None => Panic
          | Some x =>
              if x <? 0 then Err EOther else
              match s1 with
              | XFunding f :: r =>
                  if negb (String.eqb (fasset f) a) then Err EInvalidScript
                  else
                    let missing := if total f <? x then x - total f else 0 in
                    let (taken, rem) := take_max x f in
                    Ok (with_stk st (XFunding taken :: XFunding rem :: XV (VMonetary a (Some missing)) :: r))
              | _ => Panic
              end
          end
      | _ => Panic
      end
  | IFundingAssemble =>
      match s with
      | XV (VNumber n) :: r => do r' <- vm_assemble n r; Ok (with_stk st r')
      | _ => Panic
      end
  | IFundingSum =>
      match s with
      | XFunding f :: r => Ok (with_stk st (XV (VMonetary (fasset f) (Some (total f))) :: XFunding f :: r))
      | _ => Panic
      end
  | IFundingReverse => match s with XFunding f :: r => Ok (with_stk st (XFunding (freverse f) :: r)) | _ => Panic end
  | IRepay => match s with XFunding f :: r => Ok (with_stk_bal st r (repay (vbal st) f)) | _ => Panic end
  | IAlloc =>
      match s with
      | XAllot al :: XV (VMonetary a o) :: r =>
          match o with
          | None => Panic
          | Some x => Ok (with_stk st (map (fun y => XV (VMonetary a (Some y))) (allocate x al) ++ r))
          end
      | _ => Panic
      end
  | ISend =>
      match s with
      | XV (VAccount dst) :: XFunding f :: r =>
          let (b, ps) := send_to dst f (vbal st) in
          Ok {| vstk := r; vbal := b; vposts := vposts st ++ ps; vtx := vtx st; vacc := vacc st |}
      | _ => Panic
      end
  | ITxMeta =>
      match s with
      | XV (VString k) :: XV v :: r =>
          Ok {| vstk := r; vbal := vbal st; vposts := vposts st; vtx := sset (vtx st) k v; vacc := vacc st |}
      | _ => Panic   (* a non-string key panics in pop; a funding/allotment value panics later in GetTxMetaJSON *)
      end
  | IAccountMeta =>
      match s with
      | XV (VAccount a) :: XV (VString k) :: XV v :: r =>
          Ok {| vstk := r; vbal := vbal st; vposts := vposts st; vtx := vtx st; vacc := kset (vacc st) (a, k) v |}
      | _ => Panic
      end
  | ISave =>
      match s with
      | XV (VAccount a) :: XV (VAsset asset) :: r =>
          let k := (a, asset) in
          Ok (with_stk_bal st r (bupd (vbal st) k (fun x => x - save_amount (vbal st) k true 0)))
      | XV (VAccount a) :: XV (VMonetary asset o) :: r =>
          let k := (a, asset) in
          Ok (with_stk_bal st r (bupd (vbal st) k (fun x => x - save_amount (vbal st) k false (oz o))))
      | _ => Panic
      end
  end.

(* Machine.Execute: one tick per instruction; "stack not empty after execution" panics *)
Fixpoint exec (is : list (instr O)) (st : vmstate) : outcome vmstate :=
  match is with
  | [] => Ok st
  | i :: r => do st1 <- step i st; exec r st1
  end.

Lemma exec_app a b st : exec (a ++ b) st = do st1 <- exec a st; exec b st1.
Proof.
  revert st. induction a as [|i a IH]; intros st; simpl; [reflexivity|].
  destruct (step i st) as [st1| |]; simpl; [apply IH|reflexivity|reflexivity].
Qed.

Definition finish (st : vmstate) : outcome vmstate := match vstk st with [] => Ok st | _ => Panic end.
End Exec.

(* fuel form of Machine.Execute (P advances by one instruction per tick): [length is] ticks always suffice *)
Fixpoint exec_fuel {O} (look : O -> option vval) (fuel : nat) (is : list (instr O)) (st : vmstate) : option (outcome vmstate) :=
  match is with
  | [] => Some (Ok st)
  | i :: r =>
      match fuel with
      | O => None
      | S n => match step look i st with Ok st1 => exec_fuel look n r st1 | Err e => Some (Err e) | Panic => Some Panic end
      end
  end.

Lemma fuel_sufficient {O} (look : O -> option vval) is : forall fuel st, (List.length is <= fuel)%nat ->
  exec_fuel look fuel is st = Some (exec look is st).
Proof.
  induction is as [|i r IH]; intros fuel st H; [destruct fuel; reflexivity|]. destruct fuel as [|n]; [simpl in H; lia|]. simpl.
  destruct (step look i st) as [st1| |]; simpl; [apply IH; simpl in H; lia|reflexivity|reflexivity].
Qed.
