(* Lemmas about Machine/Sem.v: fundings (take / take_max / concat / assemble), sources, destinations.
   [parts_ok P] = every part has a non-negative amount and an account satisfying P; all structural lemmas are
   proved for an arbitrary P (P := fun _ => True gives non-negativity, P := valid address gives C28). *)
From Coq Require Import List ZArith QArith String Bool Lia.
From LV Require Import Machine.Syntax Machine.Allot Machine.AllotProofs Machine.Lex Machine.Sem.
Import ListNotations.
Open Scope Z_scope.

Ltac inv H := inversion H; subst; clear H.
Ltac zbool := repeat match goal with |- context[?a <? ?b] => destruct (Z.ltb_spec a b) end; try lia.

(* destruct the next [bind] in hypothesis H *)
Ltac dobind H x E :=
  match type of H with
  | bind ?o _ = Ok _ => destruct o as [x| |] eqn:E; simpl in H; [|discriminate H|discriminate H]
  end.

Section Parts.
Variable P : string -> Prop.

Definition parts_ok (l : list part) : Prop := Forall (fun p => P (fst p) /\ 0 <= snd p) l.
Definition fok (f : funding) : Prop := parts_ok (fparts f).

Lemma total_parts_app a b : total_parts (a ++ b) = total_parts a + total_parts b.
Proof. induction a as [|[x v] a IH]; simpl; [reflexivity|]. rewrite IH. lia. Qed.

Lemma total_parts_rev a : total_parts (rev a) = total_parts a.
Proof. induction a as [|[x v] a IH]; simpl; [reflexivity|]. rewrite total_parts_app, IH. simpl. lia. Qed.

Lemma parts_ok_nonneg l : parts_ok l -> 0 <= total_parts l.
Proof. induction 1 as [|[a x] l [_ Hx] _ IH]; simpl in *; lia. Qed.

Lemma parts_ok_app a b : parts_ok a -> parts_ok b -> parts_ok (a ++ b).
Proof. intros; apply Forall_app; split; assumption. Qed.

Lemma parts_ok_rev a : parts_ok a -> parts_ok (rev a).
Proof. intros; apply Forall_rev; assumption. Qed.

(* ---------- take_loop ---------- *)
Lemma take_loop_spec ps : forall rem r m lft, take_loop rem ps = (r, m, lft) ->
  total_parts r + total_parts m = total_parts ps /\ total_parts r = rem - lft.
Proof.
  induction ps as [|[a x] tl IH]; intros rem r m lft H; simpl in H.
  - inv H. simpl. lia.
  - destruct (0 <? rem) eqn:E1.
    + destruct (rem <? x) eqn:E2.
      * inv H. simpl. lia.
      * destruct (take_loop (rem - x) tl) as [[r' m'] l'] eqn:E3. inv H.
        destruct (IH _ _ _ _ E3) as [H1 H2]. simpl. lia.
    + inv H. simpl. lia.
Qed.

Lemma take_loop_ok ps : forall rem r m lft, take_loop rem ps = (r, m, lft) ->
  parts_ok ps -> parts_ok r /\ parts_ok m.
Proof.
  induction ps as [|[a x] tl IH]; intros rem r m lft H Hok; simpl in H.
  - inv H. split; constructor.
  - inv Hok. destruct H2 as [Ha Hx]. simpl in *.
    destruct (0 <? rem) eqn:E1.
    + destruct (rem <? x) eqn:E2.
      * inv H. apply Z.ltb_lt in E1, E2. split; constructor; simpl; try (split; [assumption|lia]); auto.
      * destruct (take_loop (rem - x) tl) as [[r' m'] l'] eqn:E3. inv H.
        destruct (IH _ _ _ _ E3 H3) as [H1 H2]. split; [constructor; simpl; auto|assumption].
    + inv H. split; constructor; simpl; auto.
Qed.

Lemma take_loop_left ps : forall rem r m lft, take_loop rem ps = (r, m, lft) ->
  parts_ok ps -> 0 <= rem -> lft = (if total_parts ps <? rem then rem - total_parts ps else 0).
Proof.
  induction ps as [|[a x] tl IH]; intros rem r m lft H Hok Hrem; simpl in H.
  - inv H. simpl. zbool.
  - inv Hok. destruct H2 as [Ha Hx]. simpl in *. pose proof (parts_ok_nonneg _ H3) as Hn.
    destruct (0 <? rem) eqn:E1.
    + apply Z.ltb_lt in E1. destruct (rem <? x) eqn:E2.
      * apply Z.ltb_lt in E2. inv H. zbool.
      * apply Z.ltb_ge in E2. destruct (take_loop (rem - x) tl) as [[r' m'] l'] eqn:E3. inv H.
        rewrite (IH _ _ _ _ E3 H3) by lia. zbool.
    + apply Z.ltb_ge in E1. inv H. zbool.
Qed.

(* ---------- take / take_max ---------- *)
Lemma take_spec amt f res rem : take amt f = Ok (res, rem) ->
  total res = amt /\ total rem = total f - amt /\ fasset res = fasset f /\ fasset rem = fasset f.
Proof.
  unfold take. destruct (take_loop amt (fparts f)) as [[r m] lft] eqn:E.
  destruct (lft =? 0) eqn:E0; [|discriminate]. intros H. inv H. apply Z.eqb_eq in E0.
  destruct (take_loop_spec _ _ _ _ _ E) as [H1 H2]. unfold total; simpl.
  rewrite total_parts_app.
  destruct (fparts f) as [|[a x] tl] eqn:Ef; simpl in *.
  - repeat split; lia.
  - destruct (amt =? 0) eqn:Ez; [apply Z.eqb_eq in Ez|]; simpl; repeat split; lia.
Qed.

Lemma take_ok amt f res rem : take amt f = Ok (res, rem) -> fok f -> fok res /\ fok rem.
Proof.
  unfold take, fok. destruct (take_loop amt (fparts f)) as [[r m] lft] eqn:E.
  destruct (lft =? 0); [|discriminate]. intros H Hok. inv H. simpl.
  destruct (take_loop_ok _ _ _ _ _ E Hok) as [H1 H2]. split; [|assumption].
  apply parts_ok_app; [|assumption].
  destruct (fparts f) as [|[a x] tl]; [constructor|]. inv Hok. destruct H3 as [Ha _]. simpl in Ha.
  destruct (amt =? 0) eqn:Ez; [|constructor]. apply Z.eqb_eq in Ez. constructor; [simpl; split; [assumption|lia]|constructor].
Qed.

Lemma take_max_spec amt f taken rem : take_max amt f = (taken, rem) ->
  total taken + total rem = total f /\ fasset taken = fasset f /\ fasset rem = fasset f /\
  (fok f -> fok taken /\ fok rem) /\
  (fok f -> 0 <= amt -> total taken + (if total f <? amt then amt - total f else 0) = amt).
Proof.
  unfold take_max. destruct (take_loop amt (fparts f)) as [[r m] lft] eqn:E. intros H. inv H.
  destruct (take_loop_spec _ _ _ _ _ E) as [H1 H2]. unfold total, fok; simpl. repeat split; try lia.
  - apply (take_loop_ok _ _ _ _ _ E H).
  - apply (take_loop_ok _ _ _ _ _ E H).
  - intros Hok Ha. rewrite <- (take_loop_left _ _ _ _ _ E Hok Ha). lia.
Qed.

(* ---------- concat / assemble ---------- *)
Lemma concat_parts_cons2 a x q l r : concat_parts ((a, x) :: q :: l) r = (a, x) :: concat_parts (q :: l) r.
Proof. reflexivity. Qed.

Lemma concat_parts_total l : forall r, total_parts (concat_parts l r) = total_parts l + total_parts r.
Proof.
  induction l as [|[a x] l' IH]; intros r; [reflexivity|].
  destruct l' as [|q l''].
  - destruct r as [|[b y] r']; simpl; [lia|]. destruct (String.eqb a b); simpl; lia.
  - rewrite concat_parts_cons2. change (x + total_parts (concat_parts (q :: l'') r) = x + total_parts (q :: l'') + total_parts r).
    rewrite IH. lia.
Qed.

Lemma concat_parts_ok l : forall r, parts_ok l -> parts_ok r -> parts_ok (concat_parts l r).
Proof.
  induction l as [|[a x] l' IH]; intros r Hl Hr; [assumption|].
  inv Hl. destruct H1 as [Ha Hx]. simpl in Ha, Hx. destruct l' as [|q l''].
  - destruct r as [|[b y] r']; simpl; [constructor; [simpl; auto|constructor]|].
    inv Hr. destruct H1 as [Hb Hy]. simpl in Hb, Hy.
    destruct (String.eqb a b); constructor; simpl; auto; try (split; [assumption|lia]).
  - rewrite concat_parts_cons2. constructor; [simpl; auto|]. apply IH; assumption.
Qed.

Lemma fold_concat_total fs : forall acc,
  total_parts (fold_left (fun acc f => concat_parts acc (fparts f)) fs acc) = total_parts acc + fold_right (fun f s => total f + s) 0 fs.
Proof.
  induction fs as [|f fs IH]; intros acc; simpl; [lia|]. rewrite IH, concat_parts_total. unfold total. lia.
Qed.

Lemma fold_concat_ok fs : forall acc, parts_ok acc -> Forall fok fs ->
  parts_ok (fold_left (fun acc f => concat_parts acc (fparts f)) fs acc).
Proof.
  induction fs as [|f fs IH]; intros acc Ha Hf; simpl; [assumption|]. inv Hf. apply IH; [|assumption].
  apply concat_parts_ok; assumption.
Qed.

Lemma assemble_spec fs f : assemble fs = Ok f ->
  total f = fold_right (fun f s => total f + s) 0 fs /\
  Forall (fun g => fasset g = fasset f) fs /\
  (Forall fok fs -> fok f).
Proof.
  unfold assemble. destruct (rev fs) as [|lastf tl] eqn:E; [discriminate|].
  destruct (forallb _ fs) eqn:Ef; [|discriminate]. intros H. inv H. unfold total, fok; simpl.
  rewrite fold_concat_total. simpl. repeat split.
  - rewrite forallb_forall in Ef. apply Forall_forall. intros g Hg. apply String.eqb_eq. apply Ef. assumption.
  - intros Hok. apply fold_concat_ok; [constructor|assumption].
Qed.

Lemma assemble2 a b f : assemble [a; b] = Ok f ->
  total f = total a + total b /\ fasset f = fasset b /\ fasset a = fasset b /\ (fok a -> fok b -> fok f).
Proof.
  intros H. destruct (assemble_spec _ _ H) as [H1 [H2 H3]]. simpl in H1.
  pose proof (Forall_inv H2) as Ha. pose proof (Forall_inv (Forall_inv_tail H2)) as Hb. simpl in Ha, Hb.
  split; [lia|]. split; [congruence|]. split; [congruence|]. intros; apply H3; repeat constructor; assumption.
Qed.

Lemma freverse_spec f : total (freverse f) = total f /\ fasset (freverse f) = fasset f /\ (fok f -> fok (freverse f)).
Proof. unfold freverse, total, fok; simpl. rewrite total_parts_rev. repeat split. apply parts_ok_rev. Qed.

(* ---------- balance primitives produce ok fundings ---------- *)
Lemma withdraw_all_ok b acc asset od f b1 : withdraw_all b acc asset od = Ok (f, b1) -> P acc -> fok f /\ fasset f = asset.
Proof.
  unfold withdraw_all. destruct (bget b (acc, asset)) as [x|]; [|discriminate].
  destruct (0 <? x + oz od) eqn:E.
  - destruct od as [o|]; [|discriminate]. intros H Hp. inv H. simpl in E. apply Z.ltb_lt in E.
    split; [|reflexivity]. constructor; [simpl; split; [assumption|lia]|constructor].
  - intros H Hp. inv H. split; [|reflexivity]. constructor; [simpl; split; [assumption|lia]|constructor].
Qed.

Lemma withdraw_always_ok b acc asset amt f b1 : withdraw_always b acc asset amt = (f, b1) -> P acc -> 0 <= amt -> fok f /\ fasset f = asset /\ total f = amt.
Proof.
  unfold withdraw_always. intros H Hp Ha. inv H. unfold fok, total; simpl. repeat split; try lia.
  constructor; [simpl; auto|constructor].
Qed.

End Parts.

Arguments send_to : simpl never.
Arguments take : simpl never.
Arguments take_max : simpl never.
Arguments assemble : simpl never.
Arguments freverse : simpl never.
Arguments repay : simpl never.
Arguments withdraw_all : simpl never.
Arguments withdraw_always : simpl never.
Arguments take_max_fb : simpl never.
Arguments take_from_source : simpl never.
Arguments make_allotment : simpl never.
Arguments allocate : simpl never.

(* ---------- account expressions of a fragment evaluate to P-accounts ---------- *)
Section Accs.
Variable P : string -> Prop.
Variable e : env.

Fixpoint src_accs (s : source) : Prop :=
  match s with
  | SAccount a _ => P (eval_acc e a)
  | SMaxed _ s' => src_accs s'
  | SInOrder l => srcs_accs l
  end
with srcs_accs (l : sources) : Prop := match l with SNil => True | SCons s tl => src_accs s /\ srcs_accs tl end.

Definition vsrc_accs (vs : vsource) : Prop :=
  match vs with VSrc s => src_accs s | VSrcAllot l => Forall (fun ps => src_accs (snd ps)) l end.

Fixpoint dest_accs (d : dest) : Prop :=
  match d with
  | DAccount a => P (eval_acc e a)
  | DInOrder l r => dmaxes_accs l /\ kod_accs r
  | DAllot l => dallots_accs l
  end
with kod_accs (k : kod) : Prop := match k with Kept => True | To d => dest_accs d end
with dmaxes_accs (l : dmaxes) : Prop := match l with DMNil => True | DMCons _ k tl => kod_accs k /\ dmaxes_accs tl end
with dallots_accs (l : dallots) : Prop := match l with DANil => True | DACons _ k tl => kod_accs k /\ dallots_accs tl end.

Lemma fallback_accs :
  (forall s, src_accs s -> forall fa, fallback_of s = Some fa -> P (eval_acc e fa)) /\
  (forall l, srcs_accs l -> forall fa, fallbacks_of l = Some fa -> P (eval_acc e fa)).
Proof.
  apply source_mutind.
  - intros a o Ha fa H. simpl in *. destruct o; [destruct (is_world a)| |]; inv H; assumption.
  - intros m s _ _ fa H. discriminate.
  - intros l IH Ha fa H. simpl in *. apply (IH Ha _ H).
  - intros _ fa H. discriminate.
  - intros s IHs l IHl [Hs Hl] fa H. simpl in H. destruct l; [apply (IHs Hs _ H)|apply (IHl Hl _ H)].
Qed.
End Accs.

Section Sources.
Variable P : string -> Prop.
Variable e : env.

Lemma take_max_fb_ok fb f ma mo b r b1 : take_max_fb e fb f ma mo b = Ok (r, b1) -> fok P f ->
  (forall fa, fb = Some fa -> P (eval_acc e fa)) ->
  fok P r /\ fasset r = ma /\ (fb <> None -> forall x, mo = Some x -> total r = x) /\ total r <= oz mo /\ 0 <= oz mo.
Proof.
  unfold take_max_fb. destruct mo as [x|]; [|discriminate].
  destruct (x <? 0) eqn:Ex; [discriminate|]. apply Z.ltb_ge in Ex.
  destruct (negb (String.eqb (fasset f) ma)) eqn:Ea; [discriminate|]. apply negb_false_iff, String.eqb_eq in Ea.
  destruct (take_max x f) as [taken rem] eqn:Et.
  destruct (take_max_spec P _ _ _ _ Et) as [T1 [T2 [T3 [T4 T5]]]].
  intros H Hok Hfb. specialize (T5 Hok Ex). destruct (T4 Hok) as [Hk1 Hk2].
  assert (0 <= (if total f <? x then x - total f else 0)) as Hmiss.
  { destruct (total f <? x) eqn:E; [apply Z.ltb_lt in E|]; lia. }
  destruct fb as [fa|].
  - destruct (withdraw_always (repay b rem) (eval_acc e fa) ma (if total f <? x then x - total f else 0)) as [f2 b2] eqn:Ew.
    destruct (withdraw_always_ok P _ _ _ _ _ _ Ew (Hfb fa eq_refl) Hmiss) as [W1 [W2 W3]].
    dobind H r0 Er. inv H. destruct (assemble2 P _ _ _ Er) as [A1 [A2 [A3 A4]]].
    simpl. repeat split; try (apply A4; assumption); try congruence; try lia.
    all: try (intros _ y Hy; inv Hy; lia).
  - inv H. simpl. repeat split; try assumption; try congruence; try lia.
Qed.

Lemma take_from_source_ok fb f ma x b r b1 : take_from_source e fb f ma (Some x) b = Ok (r, b1) -> fok P f ->
  (forall fa, fb = Some fa -> P (eval_acc e fa)) ->
  fok P r /\ fasset r = ma /\ total r = x.
Proof.
  unfold take_from_source. destruct fb as [fa|].
  - intros H Hok Hfb. destruct (take_max_fb_ok _ _ _ _ _ _ _ H Hok Hfb) as [H1 [H2 [H3 _]]].
    repeat split; try assumption. apply H3; [discriminate|reflexivity].
  - destruct (negb (String.eqb (fasset f) ma)) eqn:Ea; [discriminate|]. apply negb_false_iff, String.eqb_eq in Ea.
    intros H Hok _. dobind H rr Et. destruct rr as [res rem]. inv H.
    destruct (take_spec _ _ _ _ Et) as [T1 [T2 [T3 T4]]]. destruct (take_ok P _ _ _ _ Et Hok) as [K1 K2].
    repeat split; try assumption; congruence.
Qed.

Lemma eval_source_ok :
  (forall s A b f b1, eval_source e A s b = Ok (f, b1) -> src_accs P e s -> fok P f) /\
  (forall l A b fs b1, eval_sources e A l b = Ok (fs, b1) -> srcs_accs P e l -> Forall (fok P) fs).
Proof.
  apply source_mutind.
  - intros a o A b f b1 H Ha. simpl in H, Ha. destruct o as [|m|].
    + destruct (is_world a).
      * inv H. constructor; [simpl; split; [assumption|lia]|constructor].
      * apply (withdraw_all_ok P _ _ _ _ _ _ H Ha).
    + dobind H mm Em. destruct mm as [ma mo]. apply (withdraw_all_ok P _ _ _ _ _ _ H Ha).
    + inv H. constructor; [simpl; split; [assumption|lia]|constructor].
  - intros m s IH A b f b1 H Ha. simpl in H, Ha. dobind H fb Es. destruct fb as [f0 b0].
    dobind H mm Em. destruct mm as [ma mo]. assert (src_accs P e s) as Ha' by exact Ha. specialize (IH _ _ _ _ Es Ha').
    pose proof (proj1 (fallback_accs P e) _ Ha') as Hfb.
    destruct (fallback_of s) as [fa|]; apply (take_max_fb_ok _ _ _ _ _ _ _ H IH); intros fa' Hq; inv Hq; apply Hfb; reflexivity.
  - intros l IH A b f b1 H Ha. simpl in H, Ha. dobind H fb Es. destruct fb as [fs b0]. dobind H f0 Ea. inv H.
    apply (assemble_spec P _ _ Ea). apply (IH _ _ _ _ Es). exact Ha.
  - intros A b fs b1 H _. simpl in H. inv H. constructor.
  - intros s IHs l IHl A b fs b1 H [Hs Hl]. simpl in H. dobind H fb Es. destruct fb as [f0 b0].
    dobind H gb El. destruct gb as [gs b2]. inv H. constructor; [apply (IHs _ _ _ _ Es Hs)|apply (IHl _ _ _ _ El Hl)].
Qed.

Lemma eval_alloc_sources_ok A ma : forall l parts b fs b1,
  eval_alloc_sources e A ma l parts b = Ok (fs, b1) -> Forall (fun ps => src_accs P e (snd ps)) l ->
  Forall (fok P) fs /\ Forall (fun g => fasset g = ma) fs /\
  (List.length parts = List.length l -> fold_right (fun f s => total f + s) 0 fs = zsum parts).
Proof.
  induction l as [|[p s] tl IH]; intros parts b fs b1 H Ha; simpl in H.
  - destruct parts; inv H; repeat split; try constructor; try (simpl; intros; try reflexivity; discriminate).
  - destruct parts as [|x ptl].
    + inv H. repeat split; try constructor; try (simpl; intros; discriminate).
    + dobind H fb Es. destruct fb as [f0 b0]. dobind H rb Et. destruct rb as [res b2].
      dobind H gb El. destruct gb as [gs b3]. inv H. inv Ha. simpl in H1.
      pose proof (proj1 eval_source_ok _ _ _ _ _ Es H1) as Hf0.
      destruct (take_from_source_ok _ _ _ _ _ _ _ Et Hf0 (proj1 (fallback_accs P e) _ H1)) as [T1 [T2 T3]].
      destruct (IH _ _ _ _ El H2) as [I1 [I2 I3]].
      repeat split; try (constructor; assumption). simpl. intros Hl. rewrite I3 by lia. lia.
Qed.

End Sources.

(* ---------- allotments sum to one ---------- *)
Lemma count_remaining_eval e ps : count_remaining (map (eval_portion e) ps) = n_remaining ps.
Proof.
  unfold count_remaining, n_remaining. induction ps as [|p ps IH]; simpl; [reflexivity|].
  destruct p; simpl; try rewrite IH; try reflexivity.
  destruct (lookup e x) as [[]|]; simpl; rewrite IH; reflexivity.
Qed.

Lemma specifics_const e ps : has_pvar ps = false ->
  specifics (map (eval_portion e) ps) = flat_map (fun p => match p with PConst q => [q] | _ => [] end) ps.
Proof.
  induction ps as [|p ps IH]; simpl; [reflexivity|]. destruct p; simpl; intros H; try discriminate; rewrite IH; auto.
Qed.

Lemma make_allotment_one te e ps al : chk_portions te ps = true -> make_allotment e ps = Ok al -> (qsum al == 1)%Q.
Proof.
  unfold chk_portions, make_allotment. destruct ps as [|p0 ps0]; [discriminate|]. set (ps := p0 :: ps0).
  intros H. apply andb_prop in H. destruct H as [H Ht]. apply andb_prop in H. destruct H as [_ Hn].
  apply andb_prop in Ht. destruct Ht as [Hle Hc].
  destruct (new_allotment (map (eval_portion e) ps)) as [|a] eqn:En; [discriminate|]. intros H; inv H.
  destruct (new_allotment_total _ _ En) as [N1 N0]. rewrite count_remaining_eval in N1, N0.
  destruct (Nat.eqb (n_remaining ps) 1) eqn:E1.
  - apply Nat.eqb_eq in E1. apply N1. assumption.
  - destruct (Qle_bool 1 (const_total ps)) eqn:Eq; [|discriminate].
    apply andb_prop in Hc. destruct Hc as [Hv _]. apply negb_true_iff in Hv.
    apply Nat.leb_le in Hn. apply Nat.eqb_neq in E1.
    destruct (N0 ltac:(lia)) as [Q1 _]. rewrite Q1, specifics_const by assumption.
    apply Qle_bool_iff in Hle, Eq. unfold const_total in *. apply Qle_antisym; assumption.
Qed.

Lemma zsum_allot_eq l : Allot.zsum l = fold_right Z.add 0 l.
Proof. induction l; simpl; congruence. Qed.

(* ---------- sends: what the source hands to the destination ---------- *)
Section VSource.
Variable P : string -> Prop.
Variable e : env.

Lemma eval_vsource_ok te m vs b f b1 A x :
  eval_vsource e m vs b = Ok (f, b1) -> eval_mon e m = Ok (A, Some x) -> chk_vsource te vs = true -> vsrc_accs P e vs ->
  fok P f /\ fasset f = A /\ total f = x.
Proof.
  intros H Hm Hc Ha. unfold eval_vsource in H. destruct vs as [s|l]; simpl in Ha.
  - dobind H fb Es. destruct fb as [f0 b0]. rewrite Hm in H. simpl in H.
    apply (take_from_source_ok P e _ _ _ _ _ _ _ H).
    + apply (proj1 (eval_source_ok P e) _ _ _ _ _ Es Ha).
    + apply (proj1 (fallback_accs P e) _ Ha).
  - rewrite Hm in H. simpl in H. dobind H al Ea. dobind H fb Es. destruct fb as [fs b0]. dobind H f0 Ef. inv H.
    simpl in Hc. apply andb_prop in Hc. destruct Hc as [Hp _].
    destruct (eval_alloc_sources_ok P e _ _ _ _ _ _ _ Es Ha) as [S1 [S2 S3]].
    destruct (assemble_spec P _ _ Ef) as [A1 [A2 A3]].
    repeat split.
    + apply A3; assumption.
    + destruct fs as [|g gs].
      * unfold assemble in Ef. simpl in Ef. discriminate.
      * inv A2. inv S2. congruence.
    + rewrite A1, S3.
      * apply allocate_sum. apply (make_allotment_one te e _ _ Hp Ea).
      * rewrite allocate_length. unfold make_allotment in Ea.
        destruct (new_allotment (map (eval_portion e) (map fst l))) as [|a] eqn:En; [discriminate|]. inv Ea.
        unfold new_allotment in En. destruct (Nat.ltb 1 _); [discriminate|]. destruct (Qlt_le_dec _ _); [discriminate|].
        inv En. rewrite !map_length. reflexivity.
Qed.
End VSource.

(* ---------- destinations ---------- *)
Definition post_sum (ps : list npost) : Z := fold_right (fun p s => pamt p + s) 0 ps.
Lemma post_sum_app a b : post_sum (a ++ b) = post_sum a + post_sum b.
Proof. induction a; simpl; lia. Qed.

Fixpoint no_kept (d : dest) : bool :=
  match d with
  | DAccount _ => true
  | DInOrder l r => no_kept_dmaxes l && no_kept_kod r
  | DAllot l => no_kept_dallots l
  end
with no_kept_kod (k : kod) : bool := match k with Kept => false | To d => no_kept d end
with no_kept_dmaxes (l : dmaxes) : bool := match l with DMNil => true | DMCons _ k tl => no_kept_kod k && no_kept_dmaxes tl end
with no_kept_dallots (l : dallots) : bool := match l with DANil => true | DACons _ k tl => no_kept_kod k && no_kept_dallots tl end.

Fixpoint dallots_len (l : dallots) : nat := match l with DANil => O | DACons _ _ tl => S (dallots_len tl) end.
Lemma dallots_portions_len l : List.length (dallots_portions l) = dallots_len l.
Proof. induction l; simpl; congruence. Qed.

Section Dests.
Variable P : string -> Prop.
Variable e : env.
Variable te : tenv.

(* what every posting of a destination looks like *)
Definition posts_ok (A : string) (ps : list npost) : Prop :=
  Forall (fun p => passet p = A /\ 0 <= pamt p /\ P (psrc p) /\ P (pdst p)) ps.

Lemma send_to_ok dst f b b1 ps : send_to dst f b = (b1, ps) -> fok P f -> P dst ->
  posts_ok (fasset f) ps /\ post_sum ps = total f.
Proof.
  unfold send_to. intros H Hok Hd. inv H. unfold fok, total in *. induction (fparts f) as [|[a x] tl IH]; simpl.
  - split; [constructor|reflexivity].
  - inv Hok. destruct H1 as [Ha Hx]. destruct (IH H2) as [I1 I2]. split; [constructor; simpl; auto|]. simpl in *. lia.
Qed.

Definition dest_spec (f lf : funding) (ps : list npost) : Prop :=
  fok P lf /\ fasset lf = fasset f /\ post_sum ps + total lf = total f /\ posts_ok (fasset f) ps.

Lemma eval_dest_ok :
  (forall d f b lf b1 ps, eval_dest e d f b = Ok (lf, b1, ps) -> fok P f -> dest_accs P e d -> dest_spec f lf ps) /\
  (forall k f b lf b1 ps, eval_kod e k f b = Ok (lf, b1, ps) -> fok P f -> kod_accs P e k -> dest_spec f lf ps) /\
  (forall l f k b lf k1 b1 ps, eval_dmaxes e l f k b = Ok (lf, k1, b1, ps) -> fok P f -> dmaxes_accs P e l ->
      dest_spec f lf ps /\ k <= k1) /\
  (forall l parts f b lf b1 ps, eval_dallots e l parts f b = Ok (lf, b1, ps) -> fok P f -> dallots_accs P e l -> dest_spec f lf ps).
Proof.
  apply dest_mutind; unfold dest_spec.
  - (* DAccount *) intros a f b lf b1 ps H Hok Ha. simpl in H. dobind H rr Et. destruct rr as [res rem].
    inv H.
    destruct (take_spec _ _ _ _ Et) as [T1 [T2 [T3 T4]]]. destruct (take_ok P _ _ _ _ Et Hok) as [K1 K2].
    destruct (send_to_ok (eval_acc e a) res b _ _ eq_refl K1 Ha) as [S1 S2].
    repeat split; try assumption; [lia|rewrite <- T3; assumption].
  - (* DInOrder *) intros l IHl r IHr f b lf b1 ps H Hok [Ha1 Ha2]. simpl in H.
    dobind H x1 E1. destruct x1 as [[[f1 k] b2] ps1].
    destruct (IHl _ _ _ _ _ _ _ E1 Hok Ha1) as [[L1 [L2 [L3 L4]]] _].
    destruct (freverse_spec P f1) as [R1 [R2 R3]].
    dobind H x2 E2. destruct x2 as [res rem].
    destruct (take_spec _ _ _ _ E2) as [T1 [T2 [T3 T4]]]. destruct (take_ok P _ _ _ _ E2 (R3 L1)) as [K1 K2].
    dobind H x3 E3. destruct x3 as [[lf3 b3] ps3].
    destruct (freverse_spec P rem) as [Q1 [Q2 Q3]]. destruct (freverse_spec P res) as [U1 [U2 U3]].
    destruct (IHr _ _ _ _ _ E3 (Q3 K2) Ha2) as [M1 [M2 [M3 M4]]].
    dobind H out E4. inv H. destruct (assemble2 P _ _ _ E4) as [A1 [A2 [A3 A4]]].
    repeat split.
    + apply A4; [assumption|apply U3; assumption].
    + congruence.
    + rewrite post_sum_app. lia.
    + apply Forall_app. split; [assumption|]. replace (fasset f) with (fasset (freverse rem)) by congruence. assumption.
  - (* DAllot *) intros l IHl f b lf b1 ps H Hok Ha. simpl in H. dobind H al Ea. apply (IHl _ _ _ _ _ _ H Hok Ha).
  - (* Kept *) intros f b lf b1 ps H Hok _. simpl in H. inv H. repeat split; try assumption; simpl; try lia. constructor.
  - (* To *) intros d IH f b lf b1 ps H Hok Ha. simpl in H. apply (IH _ _ _ _ _ H Hok Ha).
  - (* DMNil *) intros f k b lf k1 b1 ps H Hok _. simpl in H. inv H. repeat split; try assumption; simpl; try lia. constructor.
  - (* DMCons *) intros m kd IHk tl IHt f k b lf k1 b1 ps H Hok [Ha1 Ha2]. simpl in H.
    dobind H mm Em. destruct mm as [ma mo]. destruct mo as [x|]; [|discriminate].
    destruct (x <? 0) eqn:Ex; [discriminate|]. destruct (negb (String.eqb (fasset f) ma)); [discriminate|].
    destruct (take_max x f) as [taken rem] eqn:Et.
    destruct (take_max_spec P _ _ _ _ Et) as [T1 [T2 [T3 [T4 _]]]]. destruct (T4 Hok) as [K1 K2].
    dobind H x1 E1. destruct x1 as [[lf1 b2] ps1]. destruct (IHk _ _ _ _ _ E1 K1 Ha1) as [M1 [M2 [M3 M4]]].
    dobind H f1 E2. destruct (assemble2 P _ _ _ E2) as [A1 [A2 [A3 A4]]].
    dobind H x2 E3. destruct x2 as [[[f2 k2] b3] ps2]. inv H.
    destruct (IHt _ _ _ _ _ _ _ E3 (A4 M1 K2) Ha2) as [[N1 [N2 [N3 N4]]] N5].
    pose proof (parts_ok_nonneg P _ M1) as Hn. unfold total in *.
    repeat split; try assumption; try congruence; try lia.
    + rewrite post_sum_app. lia.
    + apply Forall_app. split; [rewrite <- T2; assumption|]. replace (fasset f) with (fasset f1) by congruence. assumption.
  - (* DANil *) intros parts f b lf b1 ps H Hok _. simpl in H. inv H. repeat split; try assumption; simpl; try lia. constructor.
  - (* DACons *) intros p kd IHk tl IHt parts f b lf b1 ps H Hok [Ha1 Ha2]. simpl in H. destruct parts as [|x ptl].
    + inv H. repeat split; try assumption; simpl; try lia. constructor.
    + dobind H x0 E0. destruct x0 as [res rem].
      destruct (take_spec _ _ _ _ E0) as [T1 [T2 [T3 T4]]]. destruct (take_ok P _ _ _ _ E0 Hok) as [K1 K2].
      dobind H x1 E1. destruct x1 as [[lf1 b2] ps1]. destruct (IHk _ _ _ _ _ E1 K1 Ha1) as [M1 [M2 [M3 M4]]].
      dobind H f1 E2. destruct (assemble2 P _ _ _ E2) as [A1 [A2 [A3 A4]]].
      dobind H x2 E3. destruct x2 as [[f2 b3] ps2]. inv H.
      destruct (IHt _ _ _ _ _ _ E3 (A4 M1 K2) Ha2) as [N1 [N2 [N3 N4]]].
      repeat split; try assumption; try congruence.
      * rewrite post_sum_app. lia.
      * apply Forall_app. split; [rewrite <- T3; assumption|]. replace (fasset f) with (fasset f1) by congruence. assumption.
Qed.

(* without `kept` nothing is left over *)
Lemma eval_dest_all_sent :
  (forall d f b lf b1 ps, eval_dest e d f b = Ok (lf, b1, ps) -> fok P f -> dest_accs P e d -> chk_dest te d = true -> no_kept d = true -> total lf = 0) /\
  (forall k f b lf b1 ps, eval_kod e k f b = Ok (lf, b1, ps) -> fok P f -> kod_accs P e k -> chk_kod te k = true -> no_kept_kod k = true -> total lf = 0) /\
  (forall l f k b lf k1 b1 ps, eval_dmaxes e l f k b = Ok (lf, k1, b1, ps) -> fok P f -> dmaxes_accs P e l -> chk_dmaxes te l = true ->
      no_kept_dmaxes l = true -> k1 = k) /\
  (forall l parts f b lf b1 ps, eval_dallots e l parts f b = Ok (lf, b1, ps) -> fok P f -> dallots_accs P e l -> chk_dallots te l = true ->
      no_kept_dallots l = true -> List.length parts = dallots_len l -> total lf = total f - Allot.zsum parts).
Proof.
  apply dest_mutind.
  - intros a f b lf b1 ps H Hok _ _ _. simpl in H. dobind H rr Et. destruct rr as [res rem].
    inv H.
    destruct (take_spec _ _ _ _ Et) as [T1 [T2 _]]. lia.
  - intros l IHl r IHr f b lf b1 ps H Hok [Ha1 Ha2] Hc Hn. simpl in H, Hc, Hn.
    destruct l as [|m0 k0 l0]; [discriminate|]. set (l := DMCons m0 k0 l0) in *.
    apply andb_prop in Hc. destruct Hc as [Hc1 Hc2]. apply andb_prop in Hn. destruct Hn as [Hn1 Hn2].
    dobind H x1 E1. destruct x1 as [[[f1 k] b2] ps1].
    pose proof (IHl _ _ _ _ _ _ _ E1 Hok Ha1 Hc1 Hn1) as Hk. subst k.
    destruct (proj1 (proj2 (proj2 eval_dest_ok)) _ _ _ _ _ _ _ _ E1 Hok Ha1) as [[L1 _] _].
    destruct (freverse_spec P f1) as [R1 [R2 R3]].
    dobind H x2 E2. destruct x2 as [res rem].
    destruct (take_spec _ _ _ _ E2) as [T1 [T2 [T3 T4]]]. destruct (take_ok P _ _ _ _ E2 (R3 L1)) as [K1 K2].
    dobind H x3 E3. destruct x3 as [[lf3 b3] ps3].
    destruct (freverse_spec P rem) as [Q1 [Q2 Q3]]. destruct (freverse_spec P res) as [U1 [U2 U3]].
    pose proof (IHr _ _ _ _ _ E3 (Q3 K2) Ha2 Hc2 Hn2) as Hz.
    dobind H out E4. inv H. destruct (assemble2 P _ _ _ E4) as [A1 _]. lia.
  - intros l IHl f b lf b1 ps H Hok Ha Hc Hn. simpl in H, Hc, Hn. apply andb_prop in Hc. destruct Hc as [Hp Hc].
    dobind H al Ea.
    assert (List.length al = dallots_len l) as Hlen.
    { unfold make_allotment in Ea. destruct (new_allotment (map (eval_portion e) (dallots_portions l))) as [|a] eqn:En; [discriminate|]. inv Ea.
      unfold new_allotment in En. destruct (Nat.ltb 1 _); [discriminate|]. destruct (Qlt_le_dec _ _); [discriminate|].
      inv En. rewrite !map_length. apply dallots_portions_len. }
    rewrite (IHl _ _ _ _ _ _ H Hok Ha Hc Hn) by (rewrite allocate_length; assumption).
    rewrite allocate_sum by (apply (make_allotment_one te e _ _ Hp Ea)). lia.
  - intros f b lf b1 ps H Hok _ _ Hn. discriminate.
  - intros d IH f b lf b1 ps H Hok Ha Hc Hn. simpl in *. apply (IH _ _ _ _ _ H Hok Ha Hc Hn).
  - intros f k b lf k1 b1 ps H _ _ _ _. simpl in H. inv H. reflexivity.
  - intros m kd IHk tl IHt f k b lf k1 b1 ps H Hok [Ha1 Ha2] Hc Hn. simpl in H, Hc, Hn.
    apply andb_prop in Hc. destruct Hc as [Hc Hc3]. apply andb_prop in Hc. destruct Hc as [Hc1 Hc2].
    apply andb_prop in Hn. destruct Hn as [Hn1 Hn2].
    dobind H mm Em. destruct mm as [ma mo]. destruct mo as [x|]; [|discriminate].
    destruct (x <? 0) eqn:Ex; [discriminate|]. destruct (negb (String.eqb (fasset f) ma)); [discriminate|].
    destruct (take_max x f) as [taken rem] eqn:Et.
    destruct (take_max_spec P _ _ _ _ Et) as [T1 [T2 [T3 [T4 _]]]]. destruct (T4 Hok) as [K1 K2].
    dobind H x1 E1. destruct x1 as [[lf1 b2] ps1].
    pose proof (IHk _ _ _ _ _ E1 K1 Ha1 Hc2 Hn1) as Hz.
    destruct (proj1 (proj2 eval_dest_ok) _ _ _ _ _ _ E1 K1 Ha1) as [M1 _].
    dobind H f1 E2. destruct (assemble2 P _ _ _ E2) as [A1 [A2 [A3 A4]]].
    dobind H x2 E3. destruct x2 as [[[f2 k2] b3] ps2]. inv H.
    rewrite (IHt _ _ _ _ _ _ _ E3 (A4 M1 K2) Ha2 Hc3 Hn2). lia.
  - intros parts f b lf b1 ps H _ _ _ _ Hl. simpl in H, Hl. inv H. destruct parts; [simpl; lia|discriminate].
  - intros p kd IHk tl IHt parts f b lf b1 ps H Hok [Ha1 Ha2] Hc Hn Hl. simpl in H, Hc, Hn, Hl.
    apply andb_prop in Hc. destruct Hc as [Hc1 Hc2]. apply andb_prop in Hn. destruct Hn as [Hn1 Hn2].
    destruct parts as [|x ptl]; [discriminate|]. simpl in Hl.
    dobind H x0 E0. destruct x0 as [res rem].
    destruct (take_spec _ _ _ _ E0) as [T1 [T2 [T3 T4]]]. destruct (take_ok P _ _ _ _ E0 Hok) as [K1 K2].
    dobind H x1 E1. destruct x1 as [[lf1 b2] ps1].
    pose proof (IHk _ _ _ _ _ E1 K1 Ha1 Hc1 Hn1) as Hz.
    destruct (proj1 (proj2 eval_dest_ok) _ _ _ _ _ _ E1 K1 Ha1) as [M1 _].
    dobind H f1 E2. destruct (assemble2 P _ _ _ E2) as [A1 [A2 [A3 A4]]].
    dobind H x2 E3. destruct x2 as [[f2 b3] ps2]. inv H.
    rewrite (IHt _ _ _ _ _ _ E3 (A4 M1 K2) Ha2 Hc2 Hn2) by lia. simpl. lia.
Qed.

End Dests.

(* ====================================================================== statement level (C22, C28) *)
Definition anyacc : string -> Prop := fun _ => True.

Lemma src_accs_any e : (forall s, src_accs anyacc e s) /\ (forall l, srcs_accs anyacc e l).
Proof. apply source_mutind; simpl; intros; try exact I; try assumption; split; assumption. Qed.
Lemma dest_accs_any e :
  (forall d, dest_accs anyacc e d) /\ (forall k, kod_accs anyacc e k) /\ (forall l, dmaxes_accs anyacc e l) /\ (forall l, dallots_accs anyacc e l).
Proof. apply dest_mutind; simpl; intros; try exact I; try assumption; split; assumption. Qed.

Lemma posts_ok_sum P A ps : posts_ok P A ps -> 0 <= post_sum ps.
Proof. induction 1 as [|p ps [_ [Hp _]] _ IH]; simpl; lia. Qed.

Lemma eval_vsource_amount e m vs b f b1 : eval_vsource e m vs b = Ok (f, b1) -> exists A x, eval_mon e m = Ok (A, Some x).
Proof.
  unfold eval_vsource. destruct vs as [s|l]; intros H.
  - dobind H fb Es. destruct fb as [f0 b0]. dobind H mm Em. destruct mm as [ma mo].
    destruct mo as [x|]; [exists ma, x; reflexivity|].
    unfold take_from_source, take_max_fb in H. destruct (fallback_of s); [discriminate|].
    destruct (negb _); discriminate.
  - dobind H mm Em. destruct mm as [ma mo]. dobind H al Ea. destruct mo as [x|]; [exists ma, x; reflexivity|discriminate].
Qed.

(* every posting: asset A, non-negative amount, source and destination satisfying P; the sum is between 0 and x *)
Definition send_post_spec (P : string -> Prop) (A : string) (x : Z) (ps : list npost) : Prop :=
  posts_ok P A ps /\ 0 <= post_sum ps <= x.

Theorem exec_send_spec P te e m vs d b b' ps :
  exec_send e m vs d b = Ok (b', ps) -> chk_vsource te vs = true -> vsrc_accs P e vs -> dest_accs P e d ->
  exists A x, eval_mon e m = Ok (A, Some x) /\ send_post_spec P A x ps /\
              (chk_dest te d = true -> no_kept d = true -> post_sum ps = x).
Proof.
  unfold exec_send. intros H Hc Hs Hd. dobind H fb Ev. destruct fb as [f b1].
  destruct (eval_vsource_amount _ _ _ _ _ _ Ev) as [A [x Hm]]. exists A, x. split; [assumption|].
  destruct (eval_vsource_ok P e te _ _ _ _ _ _ _ Ev Hm Hc Hs) as [F1 [F2 F3]].
  dobind H x1 Ed. destruct x1 as [[lf b2] ps1]. inv H.
  destruct (proj1 (eval_dest_ok P e) _ _ _ _ _ _ Ed F1 Hd) as [D1 [D2 [D3 D4]]].
  pose proof (parts_ok_nonneg _ _ D1) as Hl. pose proof (posts_ok_sum _ _ _ D4) as Hsum. unfold total in *.
  split; [split|].
  - first [assumption | rewrite <- F2; assumption | rewrite F2 in D4; assumption].
  - lia.
  - intros Hcd Hnk. pose proof (proj1 (eval_dest_all_sent P e te) _ _ _ _ _ _ Ed F1 Hd Hcd Hnk) as Hz.
    unfold total in Hz. lia.
Qed.

(* sources without an `allowing overdraft up to` clause produce fundings in the asset of the statement *)
Lemma eval_source_asset e A :
  (forall s b f b1, eval_source e A s b = Ok (f, b1) -> src_plain s = true -> fasset f = A) /\
  (forall l b fs b1, eval_sources e A l b = Ok (fs, b1) -> srcs_plain l = true -> Forall (fun g => fasset g = A) fs).
Proof.
  pose proof (proj1 (src_accs_any e)) as Hany.
  apply source_mutind.
  - intros a o b f b1 H Hp. simpl in H. destruct o as [|m|]; [|discriminate|].
    + destruct (is_world a); [inv H; reflexivity|]. apply (withdraw_all_ok anyacc _ _ _ _ _ _ H I).
    + inv H. reflexivity.
  - intros m s IH b f b1 H Hp. simpl in H, Hp. dobind H fb Es. destruct fb as [f0 b0].
    dobind H mm Em. destruct mm as [ma mo]. specialize (IH _ _ _ Es Hp).
    pose proof (proj1 (eval_source_ok anyacc e) _ _ _ _ _ Es (Hany s)) as Hok.
    assert (fasset f = ma) as Hf by (destruct (fallback_of s); apply (take_max_fb_ok anyacc e _ _ _ _ _ _ _ H Hok); intros; exact I).
    unfold take_max_fb in H. destruct mo as [x|]; [|destruct (fallback_of s); discriminate].
    destruct (fallback_of s); destruct (x <? 0); try discriminate;
      destruct (negb (String.eqb (fasset f0) ma)) eqn:Ea; try discriminate;
      apply negb_false_iff, String.eqb_eq in Ea; congruence.
  - intros l IH b f b1 H Hp. simpl in H, Hp. dobind H fb Es. destruct fb as [fs b0]. dobind H f0 Ea. inv H.
    specialize (IH _ _ _ Es Hp). destruct (assemble_spec anyacc _ _ Ea) as [_ [A2 _]].
    destruct fs as [|g gs]; [unfold assemble in Ea; simpl in Ea; discriminate|]. inv A2. inv IH. congruence.
  - intros b fs b1 H _. simpl in H. inv H. constructor.
  - intros s IHs l IHl b fs b1 H Hp. simpl in H, Hp. apply andb_prop in Hp. destruct Hp as [Hp1 Hp2].
    dobind H fb Es. destruct fb as [f0 b0]. dobind H gb El. destruct gb as [gs b2]. inv H.
    constructor; [apply (IHs _ _ _ Es Hp1)|apply (IHl _ _ _ El Hp2)].
Qed.

Theorem exec_send_all_spec P te e a s d b b' ps :
  exec_send_all e a s d b = Ok (b', ps) -> src_accs P e s -> dest_accs P e d ->
  exists f b1, eval_source e (eval_asset e a) s b = Ok (f, b1) /\ 0 <= total f /\ fasset f = eval_asset e a /\
               send_post_spec P (eval_asset e a) (total f) ps /\
               (chk_dest te d = true -> no_kept d = true -> post_sum ps = total f).
Proof.
  unfold exec_send_all. intros H Hs Hd. dobind H fb Es. destruct fb as [f b1]. exists f, b1. split; [reflexivity|].
  pose proof (proj1 (eval_source_ok P e) _ _ _ _ _ Es Hs) as F1.
  assert (fasset f = eval_asset e a) as HA.
  { destruct (src_plain s) eqn:Ep; [apply (proj1 (eval_source_asset e _) _ _ _ _ Es Ep)|].
    simpl in H. destruct (String.eqb (fasset f) (eval_asset e a)) eqn:Eq; [apply String.eqb_eq; assumption|discriminate]. }
  destruct (negb (src_plain s) && negb (String.eqb (fasset f) (eval_asset e a))); [discriminate|].
  dobind H x1 Ed. destruct x1 as [[lf b2] ps1]. inv H.
  destruct (proj1 (eval_dest_ok P e) _ _ _ _ _ _ Ed F1 Hd) as [D1 [D2 [D3 D4]]].
  pose proof (parts_ok_nonneg _ _ D1) as Hl. pose proof (parts_ok_nonneg _ _ F1) as Hf.
  pose proof (posts_ok_sum _ _ _ D4) as Hsum. unfold total in *.
  repeat split; try lia; try assumption.
  - first [assumption | rewrite <- HA; assumption | rewrite HA in D4; assumption].
  - intros Hcd Hnk. pose proof (proj1 (eval_dest_all_sent P e te) _ _ _ _ _ _ Ed F1 Hd Hcd Hnk) as Hz.
    unfold total in Hz. lia.
Qed.

Lemma Forall2_strengthen {A B} (R S : A -> B -> Prop) (Q : A -> Prop) l L :
  Forall2 R l L -> Forall Q l -> (forall a b, Q a -> R a b -> S a b) -> Forall2 S l L.
Proof. induction 1; intros HQ HS; [constructor|]. inv HQ. constructor; auto. Qed.

Lemma eval_mon_asset e m : forall A o, eval_mon e m = Ok (A, o) -> A = mon_asset e m.
Proof.
  unfold mon_asset, leaf_value. induction m as [a n|x|l IHl r IHr|l IHl r IHr]; intros A o H; simpl in H |- *.
  - inv H. reflexivity.
  - destruct (lookup e x) as [[]|]; inv H; reflexivity.
  - dobind H x1 E1. destruct x1 as [la lo]. dobind H x2 E2. destruct x2 as [ra ro].
    destruct (String.eqb la ra); [|discriminate]. inv H. apply (IHl _ _ eq_refl).
  - dobind H x1 E1. destruct x1 as [la lo]. dobind H x2 E2. destruct x2 as [ra ro].
    destruct (String.eqb la ra); [|discriminate]. inv H. apply (IHl _ _ eq_refl).
Qed.

(* C26: dropping zero-amount postings (the documented difference of the interpreter) changes no sum and no balance *)
Definition nonzero_posts (ps : list npost) : list npost := filter (fun p => negb (pamt p =? 0)) ps.
Definition effect (acc asset : string) (ps : list npost) : Z :=
  fold_right (fun p s =>
    (if String.eqb (passet p) asset then
       (if String.eqb (pdst p) acc then pamt p else 0) - (if String.eqb (psrc p) acc then pamt p else 0)
     else 0) + s) 0 ps.

Lemma nonzero_posts_sum ps : post_sum (nonzero_posts ps) = post_sum ps.
Proof. induction ps as [|p ps IH]; simpl; [reflexivity|]. destruct (pamt p =? 0) eqn:E; simpl; [apply Z.eqb_eq in E|]; lia. Qed.

Lemma nonzero_posts_effect acc asset ps : effect acc asset (nonzero_posts ps) = effect acc asset ps.
Proof.
  induction ps as [|p ps IH]; simpl; [reflexivity|]. destruct (pamt p =? 0) eqn:E; simpl; rewrite IH; [|reflexivity].
  apply Z.eqb_eq in E. rewrite E. destruct (String.eqb (passet p) asset), (String.eqb (pdst p) acc), (String.eqb (psrc p) acc); lia.
Qed.

Lemma effect_app acc asset a b : effect acc asset (a ++ b) = effect acc asset a + effect acc asset b.
Proof. induction a; simpl; lia. Qed.
