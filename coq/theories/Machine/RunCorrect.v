(* The whole run: compiler.Compile + SetVarsFromJSON + ResolveResources + ResolveBalances + Execute on the concrete
   program (Compile.compile, VmRun.run_program) equals Sem.run, for every program, variables and store. *)
From Coq Require Import List ZArith QArith String Bool Lia.
From LV Require Import Machine.Syntax Machine.Allot Machine.Lex Machine.Sem Machine.SemProofs Machine.EnvProofs
  Machine.Vm Machine.Compile Machine.VmRun Machine.CompileCorrect Machine.AssignCorrect Machine.GenWf Machine.ResolveCorrect.
Import ListNotations.
Open Scope Z_scope.

(* ====================================================================== tables built by [assign] have no duplicates *)
Definition canon (t : list rdesc) : Prop := forall i r, nth_error t i = Some r -> find_res t r O = Some i.

Lemma canon_nil : canon [].
Proof. intros i r H. destruct i; discriminate. Qed.

Lemma canon_snoc t r : canon t -> find_res t r O = None -> canon (t ++ [r]).
Proof.
  intros Hc Hn i r0 H. destruct (Nat.lt_ge_cases i (List.length t)) as [Hi|Hi].
  - rewrite nth_error_app1 in H by assumption. apply find_res_app. apply Hc. assumption.
  - rewrite nth_error_app2 in H by assumption. destruct (i - List.length t)%nat as [|j] eqn:Ej; simpl in H; [|destruct j; discriminate].
    inv H. rewrite (find_res_new _ _ _ Hn). f_equal. lia.
Qed.

Lemma canon_intern1 t r : canon t -> canon (fst (intern1 t r)).
Proof. intros Hc. unfold intern1. destruct (find_res t r O) eqn:E; simpl; [assumption|apply canon_snoc; assumption]. Qed.

Lemma canon_intern : forall r t, canon t -> canon (fst (intern t r)).
Proof.
  induction r as [c|ty x|ty x acc IHa k|x acc IHa asset IHs|ra IH n]; intros t Hc; simpl; try (apply canon_intern1; assumption).
  apply canon_intern1. apply IH. assumption.
Qed.

Lemma canon_assign evs : forall t is t', canon t -> assign evs t = (is, t') -> canon t'.
Proof.
  induction evs as [|v tl IH]; intros t is t' Hc H.
  - simpl in H. inv H. assumption.
  - destruct v as [r|i].
    + simpl in H. apply (IH _ _ _ (canon_intern r t Hc) H).
    + assert (no_operand i \/ exists o, i = IApush o) as [Hn|[o ->]] by (destruct i; simpl; eauto).
      * rewrite (assign_no_operand i tl t Hn) in H. destruct (assign tl t) as [is0 t2] eqn:E. inv H. apply (IH _ _ _ Hc E).
      * simpl in H. destruct (intern t o) as [t1 a] eqn:Ei. destruct (assign tl t1) as [is0 t2] eqn:E. inv H.
        apply (IH (fst (intern t o)) is0 _ (canon_intern o t Hc)). rewrite Ei. exact E.
Qed.

(* two entries for the same variable are the same entry *)
Lemma find_res_same_var t r r' x : var_name r = Some x -> var_name r' = Some x -> forall n, find_res t r n = find_res t r' n.
Proof.
  intros H1 H2. induction t as [|z tl IH]; intros n; simpl; [reflexivity|].
  assert (rdesc_eqb z r = rdesc_eqb z r') as ->.
  { destruct z, r, r'; simpl in *; try discriminate; try reflexivity; inv H1; inv H2; reflexivity. }
  destruct (rdesc_eqb z r'); [reflexivity|apply IH].
Qed.

Lemma canon_var t i i' r r' x : canon t -> nth_error t i = Some r -> nth_error t i' = Some r' ->
  var_name r = Some x -> var_name r' = Some x -> i = i'.
Proof.
  intros Hc H1 H2 V1 V2. pose proof (Hc _ _ H1) as F1. pose proof (Hc _ _ H2) as F2.
  rewrite (find_res_same_var t r r' x V1 V2) in F1. congruence.
Qed.

(* ====================================================================== ResolveBalances: assigning the balance() variables *)
Lemma set_nth_length {A} (l : list A) : forall i v, List.length (set_nth l i v) = List.length l.
Proof. induction l as [|x tl IH]; intros [|i] v; simpl; auto. Qed.

Lemma nth_error_set_nth {A} (l : list A) : forall i v j,
  nth_error (set_nth l i v) j = if Nat.eqb j i then (match nth_error l j with Some _ => Some v | None => None end) else nth_error l j.
Proof.
  induction l as [|x tl IH]; intros [|i] v [|j]; simpl; try reflexivity.
  - destruct (Nat.eqb j i); reflexivity.
  - apply IH.
Qed.

Section BalStep.
Variable e : env.
Variable x sa : string.
Variable o o' : option Z.
Hypothesis Hx : lookup e x = Some (VMonetary sa o).
Let e' := set_env e x (VMonetary sa o').

Lemma asset_of_set_env : forall r, asset_of (denote e' r) = asset_of (denote e r).
Proof.
  assert (Hv : forall y, asset_of (XV (match lookup e' y with Some v => v | None => VString "" end)) =
                         asset_of (XV (match lookup e y with Some v => v | None => VString "" end))).
  { intros y. unfold e'. rewrite lookup_set_env. destruct (String.eqb x y) eqn:E; [|reflexivity].
    apply String.eqb_eq in E. subst y. rewrite Hx. reflexivity. }
  induction r as [c|ty y|ty y acc IHa k|y acc IHa asset IHs|ra IH n]; simpl; try apply Hv; try reflexivity. assumption.
Qed.

Lemma denote_set_env_other r : var_name r <> Some x -> denote e' r = denote e r.
Proof.
  assert (Hv : forall y, y <> x -> lookup e' y = lookup e y).
  { intros y Hy. unfold e'. rewrite lookup_set_env. destruct (String.eqb x y) eqn:E; [|reflexivity]. apply String.eqb_eq in E. congruence. }
  destruct r; simpl; intros Hn; try reflexivity; try (rewrite Hv; [reflexivity|congruence]).
  rewrite asset_of_set_env. reflexivity.
Qed.

Lemma denote_set_env_same r : var_name r = Some x -> denote e' r = XV (VMonetary sa o').
Proof.
  assert (lookup e' x = Some (VMonetary sa o')) as Hl by (unfold e'; rewrite lookup_set_env, String.eqb_refl, Hx; reflexivity).
  destruct r; simpl; intros Hn; try discriminate; inv Hn; rewrite Hl; reflexivity.
Qed.

Lemma bal_step t vals i r : canon t -> tinv e t vals -> nth_error t i = Some r -> var_name r = Some x ->
  tinv e' t (set_nth vals i (XV (VMonetary sa o'))).
Proof.
  intros Hc [Hl Ht] Hi Hr. split; [rewrite set_nth_length; assumption|]. intros j r2 Hj. rewrite nth_error_set_nth.
  destruct (Nat.eqb j i) eqn:Eji.
  - apply Nat.eqb_eq in Eji. subst j. rewrite Hi in Hj. inv Hj. rewrite (Ht _ _ Hi). rewrite (denote_set_env_same _ Hr). reflexivity.
  - rewrite (Ht _ _ Hj). f_equal. symmetry. apply denote_set_env_other. intros Hq.
    apply Nat.eqb_neq in Eji. apply Eji. apply (canon_var t j i r2 r x Hc Hj Hi Hq Hr).
Qed.
End BalStep.

Lemma bal_fold s t : canon t -> forall bv bvs e vals, tinv e t vals -> map snd bvs = map snd bv ->
  (forall j y k, nth_error bv j = Some (y, k) -> exists i r, nth_error bvs j = Some (i, k) /\ nth_error t i = Some r /\ var_name r = Some y) ->
  (forall y k, In (y, k) bv -> exists o, lookup e y = Some (VMonetary (snd k) o)) ->
  tinv (fold_left (fun e xk => set_env e (fst xk) (VMonetary (snd (snd xk)) (Some (store_balance s (snd xk))))) bv e) t
       (fold_left (fun vs ik => set_nth vs (fst ik) (XV (VMonetary (snd (snd ik)) (Some (store_balance s (snd ik)))))) bvs vals).
Proof.
  intros Hc. induction bv as [|[y k] tl IH]; intros bvs e vals Hi Hm Hidx Hval; destruct bvs as [|[i k'] bvs']; simpl in Hm; try discriminate; simpl; [assumption|].
  injection Hm as Hk Hm'. simpl in Hk. subst k'.
  destruct (Hidx O y k eq_refl) as [i0 [r [H1 [H2 H3]]]]. simpl in H1. inv H1.
  destruct (Hval y k (or_introl eq_refl)) as [o Ho].
  apply IH.
  - apply (bal_step e y (snd k) o _ Ho t vals i0 r Hc Hi H2 H3).
  - assumption.
  - intros j y' k2 Hj. apply (Hidx (S j) y' k2 Hj).
  - intros y' k2 Hin. rewrite lookup_set_env. destruct (String.eqb y y') eqn:E.
    + apply String.eqb_eq in E. subst y'. destruct (Hval y k2 (or_intror Hin)) as [o2 Ho2]. rewrite Ho2. rewrite Ho in Ho2. inv Ho2. eexists. reflexivity.
    + apply (Hval y' k2 (or_intror Hin)).
Qed.

(* the balance() variables hold their asset (amount pending) after ResolveResources *)
Lemma resolve_vars_bvval decls given s : forall te te' e bv e' bv',
  chk_vars te decls = Some te' -> resolve_vars decls given s e bv = Ok (e', bv') ->
  (forall y v, lookup e y = Some v -> declared te y = true) ->
  (forall y k, In (y, k) bv -> lookup e y = Some (VMonetary (snd k) None)) ->
  forall y k, In (y, k) bv' -> lookup e' y = Some (VMonetary (snd k) None).
Proof.
  induction decls as [|d tl IH]; intros te te' e bv e' bv' Hk Hr Hdom Hb; simpl in Hk, Hr.
  - inv Hk. inv Hr. assumption.
  - destruct (declared te (vname d)) eqn:Ed; [discriminate|].
    destruct (match vorigin d with ONone => true | OMeta a _ => chk_acc te a | OBalance a s0 => ty_eqb (vty d) TMonetary && chk_acc te a && chk_asset te s0 end); [|discriminate].
    assert (Hfresh : lookup e (vname d) = None).
    { destruct (lookup e (vname d)) as [v|] eqn:E; [|reflexivity]. rewrite (Hdom _ _ E) in Ed. discriminate. }
    assert (Hdom' : forall v0 y v, lookup (e ++ [(vname d, v0)]) y = Some v -> declared (te ++ [(vname d, vty d)]) y = true).
    { intros v0 y v Hl. rewrite declared_app. rewrite lookup_app in Hl. destruct (lookup e y) as [w|] eqn:E.
      - rewrite (Hdom _ _ E). reflexivity.
      - simpl in Hl. destruct (String.eqb (vname d) y); [apply orb_true_r|discriminate]. }
    assert (Hb' : forall v0 y k, In (y, k) bv -> lookup (e ++ [(vname d, v0)]) y = Some (VMonetary (snd k) None)).
    { intros v0 y k Hin. rewrite lookup_app, (Hb _ _ Hin). reflexivity. }
    destruct (vorigin d) as [|a k0|a asset].
    + destruct (lookup given (vname d)) as [v|]; [|discriminate]. apply (IH _ _ _ _ _ _ Hk Hr (Hdom' v) (Hb' v)).
    + destruct (bget _ _) as [v|]; [|discriminate]. destruct (_ && _); [|discriminate]. apply (IH _ _ _ _ _ _ Hk Hr (Hdom' v) (Hb' v)).
    + apply (IH _ _ _ _ _ _ Hk Hr (Hdom' _)). intros y k Hin. apply in_app_or in Hin. destruct Hin as [Hin|[Hq|[]]].
      * apply Hb'. assumption.
      * inv Hq. rewrite lookup_app, Hfresh. simpl. rewrite String.eqb_refl. reflexivity.
Qed.

(* ====================================================================== NeededBalances *)
Lemma needed_keys_app vals a b :
  needed_keys vals (a ++ b) = match needed_keys vals a, needed_keys vals b with Some x, Some y => Some (x ++ y) | _, _ => None end.
Proof.
  induction a as [|an tl IH]; simpl; [destruct (needed_keys vals b); reflexivity|].
  rewrite IH. destruct (needed_key vals an); [|reflexivity]. destruct (needed_keys vals tl); [|reflexivity]. destruct (needed_keys vals b); reflexivity.
Qed.

Definition addr_pair (tF : list rdesc) (an : rdesc * rdesc) : nat * nat := (addr_of tF (fst an), addr_of tF (snd an)).

Lemma needed_keys_map e tF vals (vm : key -> vval) : tinv e tF vals ->
  (forall k, vm k = XV (VAsset (snd k)) \/ exists o, vm k = XV (VMonetary (snd k) o)) ->
  forall (l : list (rdesc * rdesc)) (ks : list key),
  (forall an, In an l -> find_res tF (fst an) O <> None /\ find_res tF (snd an) O <> None) ->
  map (pair_den e) l = map (fun k => (XV (VAccount (fst k)), vm k)) ks ->
  needed_keys vals (map (addr_pair tF) l) = Some ks.
Proof.
  intros Hi Hvm. induction l as [|an tl IH]; intros ks Hp Hm; destruct ks as [|k ks']; simpl in Hm; try discriminate; [reflexivity|].
  injection Hm as H1 H2 Hm'. simpl. rewrite (IH ks' (fun an0 H => Hp an0 (or_intror H)) Hm').
  destruct (Hp an (or_introl eq_refl)) as [P1 P2].
  unfold needed_key, addr_pair. simpl.
  rewrite (lookup_tab e tF vals tF [] (fst an) Hi P1 (eq_sym (app_nil_r tF))), (lookup_tab e tF vals tF [] (snd an) Hi P2 (eq_sym (app_nil_r tF))).
  rewrite H1, H2. destruct (Hvm k) as [->|[o ->]]; destruct k; reflexivity.
Qed.

Lemma needed_keys_stmts te e ve tF vals : cons_env te e -> venv_ok te ve -> tinv e tF vals ->
  forall stmts, Forall (fun s => chk_stmt te s = true) stmts ->
  (forall an, In an (flat_map (gstmt_needed ve) stmts) -> find_res tF (fst an) O <> None /\ find_res tF (snd an) O <> None) ->
  needed_keys vals (map (addr_pair tF) (flat_map (gstmt_needed ve) stmts)) = Some (flat_map (stmt_needed e) stmts).
Proof.
  intros Hc Hve Hi. induction stmts as [|s tl IH]; intros Hs Hp; [reflexivity|]. simpl. rewrite map_app, needed_keys_app.
  rewrite (IH (Forall_inv_tail Hs) (fun an H => Hp an (in_or_app _ _ _ (or_intror H)))).
  pose proof (Forall_inv Hs) as Hcs.
  destruct (needed_stmt te e ve Hc Hve (fun _ => True) (fun _ => I) (fun _ _ _ _ => I) (fun _ _ _ => I) s Hcs) as [_ Hm].
  assert (Hp1 : forall an, In an (gstmt_needed ve s) -> find_res tF (fst an) O <> None /\ find_res tF (snd an) O <> None)
    by (intros an H; apply Hp; simpl; apply in_or_app; left; assumption).
  destruct s as [m vs d|a src d|key v|a key v|m a|a acc|]; try reflexivity.
  - (* send: the monetary resource; every key has the statement's asset *)
    set (vm := fun k : key => XV (VMonetary (snd k) (snd (leaf_value e m)))).
    assert (map (pair_den e) (gstmt_needed ve (Send m vs d)) = map (fun k => (XV (VAccount (fst k)), vm k)) (stmt_needed e (Send m vs d))) as Hm2.
    { rewrite Hm. apply map_ext_in. intros k Hk. unfold vm. simpl in Hk. apply in_map_iff in Hk. destruct Hk as [a0 [<- _]]. reflexivity. }
    rewrite (needed_keys_map e tF vals vm Hi (fun k => or_intror (ex_intro _ _ eq_refl)) _ _ Hp1 Hm2). reflexivity.
  - rewrite (needed_keys_map e tF vals (fun k => XV (VAsset (snd k))) Hi (fun k => or_introl eq_refl) _ _ Hp1 Hm). reflexivity.
Qed.

(* ====================================================================== every event of the statement phase *)
Lemma stmts_events_ok te e ve (Hcons : cons_env te e) (Hve : venv_ok te ve) (Pr : rdesc -> Prop)
  (Pc : forall c, Pr (RConst c)) (Pm : forall ra n, Pr ra -> is_asset_v (denote e ra) -> Pr (RMon ra n))
  (Hrok : forall x r, lookup ve x = Some r -> Pr r) stmts :
  Forall (fun s => chk_stmt te s = true) stmts ->
  evs_ok Pr (flat_map (gen_stmt ve) stmts ++
             flat_map (fun an => [EAlloc (fst an); EAlloc (snd an)]) (flat_map (gstmt_needed ve) stmts)).
Proof.
  intros Hs. apply Forall_app. split.
  - induction Hs as [|s tl H _ IH]; [constructor|]. simpl. apply Forall_app. split; [|assumption].
    apply (ok_stmt te e ve Hcons Hve Pr Pc Pm Hrok s H).
  - induction Hs as [|s tl H _ IH]; [constructor|]. simpl. rewrite flat_map_app. apply Forall_app. split; [|assumption].
    destruct (needed_stmt te e ve Hcons Hve Pr Pc Pm Hrok s H) as [Hf _]. clear -Hf.
    induction Hf as [|an l [H1 H2] _ IH]; [constructor|]. simpl. constructor; [exact H1|constructor; [exact H2|exact IH]].
Qed.

(* an environment for a typing environment (only used to talk about the shape of the table) *)
Definition dummy_value (t : ty) : value :=
  match t with
  | TAccount => VAccount "" | TAsset => VAsset "" | TNumber => VNumber 0 | TString => VString ""
  | TMonetary => VMonetary "" (Some 0) | TPortion => VPortion 0
  end.
Definition dummy_env (te : tenv) : env := map (fun xt => (fst xt, dummy_value (snd xt))) te.
Lemma lookup_dummy te x : lookup (dummy_env te) x = option_map dummy_value (lookup te x).
Proof. induction te as [|[y t] tl IH]; simpl; [reflexivity|]. destruct (String.eqb y x); [reflexivity|apply IH]. Qed.
Lemma cons_env_dummy te : cons_env te (dummy_env te).
Proof.
  split.
  - intros x t H. rewrite lookup_dummy, H. simpl. eexists. split; [reflexivity|]. destruct t; reflexivity.
  - intros x v H. rewrite lookup_dummy in H. unfold declared. destruct (lookup te x); [reflexivity|discriminate].
Qed.

Lemma existsb_snd {A B} (f : B -> bool) (l : list (A * B)) : existsb (fun p => f (snd p)) l = existsb f (map snd l).
Proof. induction l as [|p tl IH]; simpl; [reflexivity|]. rewrite IH. reflexivity. Qed.

Lemma var_present t r : var_name r <> None -> find_res t r O <> None -> rpresent t r.
Proof. destruct r; simpl; auto; intros H; exfalso; apply H; reflexivity. Qed.

(* ====================================================================== the theorem *)
Theorem vm_run_correct p given s : vm_run p given s = flat_outcome (run p given s).
Proof.
  unfold vm_run, compile, run. destruct (check p) eqn:Ec; [|reflexivity]. simpl negb. cbv iota.
  assert (exists te, chk_vars [] (pvars p) = Some te /\ forallb (chk_stmt te) (pstmts p) = true) as [te [Ek Hfs]].
  { unfold check in Ec. destruct (pstmts p); [discriminate|]. destruct (chk_vars [] (pvars p)) as [te|]; [|discriminate]. exists te. split; [reflexivity|exact Ec]. }
  assert (Hs : Forall (fun s => chk_stmt te s = true) (pstmts p)) by (apply Forall_forall; apply forallb_forall; exact Hfs).
  assert (Hgen : exists evs ve, gen_vars [] (pvars p) = (evs, ve) /\
            sp_events (gen p) = evs ++ (flat_map (gen_stmt ve) (pstmts p) ++
                                 flat_map (fun an => [EAlloc (fst an); EAlloc (snd an)]) (flat_map (gstmt_needed ve) (pstmts p))) /\
            sp_needed (gen p) = flat_map (gstmt_needed ve) (pstmts p)).
  { unfold gen. destruct (gen_vars [] (pvars p)) as [evs ve]. exists evs, ve. repeat split. }
  destruct Hgen as [evs [ve [Eg [Hev Hnd]]]]. rewrite Hnd.
  set (nd := flat_map (gstmt_needed ve) (pstmts p)) in *.
  set (sev := flat_map (gen_stmt ve) (pstmts p) ++ flat_map (fun an => [EAlloc (fst an); EAlloc (snd an)]) nd) in *.
  destruct (assign (sp_events (gen p)) []) as [is tF] eqn:Eall.
  pose proof Eall as Eall2. rewrite Hev, assign_app in Eall2.
  destruct (assign evs []) as [ia ta] eqn:Ea. destruct (assign sev ta) as [ib tF'] eqn:Eb. injection Eall2 as His HtF. subst tF'.
  (* the shape of the table *)
  assert (Hs0 : sinv [] [] []) by (constructor; [intros x t H; discriminate|intros x r H; discriminate|intros x r H; discriminate|intros r x []]).
  destruct (vars_table _ _ _ _ _ _ _ _ _ Hs0 Ek Eg Ea) as [Hia [extv [Hta [Htv Hsi]]]]. simpl in Hta. subst ia ta. simpl in His. subst ib.
  pose proof (si_ve _ _ _ Hsi) as Hve.
  assert (Hvn : forall x r, lookup ve x = Some r -> var_name r <> None).
  { intros x r Hl. pose proof (si_dom _ _ _ Hsi _ _ Hl) as Hd. unfold declared in Hd. destruct (lookup te x) as [t|] eqn:E; [|discriminate].
    destruct (Hve _ _ E) as [r' [H1 H2]]. rewrite Hl in H1. inv H1. rewrite H2. discriminate. }
  assert (Hpres : Forall (fun v => match v with EAlloc r | EIns (IApush r) => rpresent extv r | _ => True end) sev).
  { pose proof (stmts_events_ok te (dummy_env te) ve (cons_env_dummy te) Hve (rpresent extv) (fun _ => I) (fun ra n H _ => H)
                  (fun x r Hl => var_present extv r (Hvn x r Hl) (si_pres _ _ _ Hsi x r Hl)) (pstmts p) Hs) as Hf.
    eapply Forall_impl; [|exact Hf]. intros [r|[]]; simpl; auto. }
  destruct (assign_novar sev extv is tF Eb Hpres) as [exts [HtF Htvs]].
  assert (Htvars : tvars tF = plain_of (pvars p)) by (rewrite HtF, tvars_app, Htv, Htvs, app_nil_r; reflexivity).
  (* ParseVariablesJSON *)
  unfold run_program. cbn [cp_res cp_needed cp_instrs].
  assert (vm_set_vars (map (concretize tF) tF) given = set_vars (pvars p) given) as -> by (rewrite vm_set_vars_tvars, set_vars_plain_of, Htvars; reflexivity).
  assert (vm_no_extraneous (map (concretize tF) tF) given = no_extraneous (pvars p) given) as ->
    by (unfold vm_no_extraneous, no_extraneous; rewrite vm_plain_names_tvars, plain_names_plain_of, Htvars; reflexivity).
  destruct (set_vars (pvars p) given) eqn:Esv; [|reflexivity]. destruct (no_extraneous (pvars p) given); [|reflexivity]. simpl negb. cbv iota.
  (* ResolveResources: the vars block *)
  assert (Hv0 : vinv [] [] [] [] [] [] []).
  { constructor; try (intros; discriminate).
    - split; intros; discriminate.
    - split; [reflexivity|]. intros i r H. destruct i; discriminate.
    - intros r [].
    - intros r x [].
    - split; [reflexivity|]. intros j x k H. destruct j; discriminate. }
  destruct (vars_phase given s tF (pvars p) [] te [] [] [] [] [] [] evs ve [] extv Hv0 Ek Eg Ea (ex_intro _ exts HtF) Esv) as [extv' [Hx Hvp]].
  simpl in Hx. subst extv'. rewrite HtF at 2. rewrite map_app, vm_resolve_app.
  destruct (resolve_vars (pvars p) given s [] []) as [[e0 bv]|err|] eqn:Er; [|rewrite Hvp; reflexivity|contradiction].
  destruct Hvp as [vals' [bvs [Hr1 Hvi]]]. rewrite Hr1. cbv beta iota delta [bind].
  (* ResolveResources: the resources of the statements *)
  pose proof (vi_cons _ _ _ _ _ _ _ Hvi) as Hc0.
  assert (Hf0 : Forall (fun v => match v with EAlloc r | EIns (IApush r) => rok e0 r /\ rpresent extv r | _ => True end) sev).
  { pose proof (stmts_events_ok te e0 ve Hc0 Hve (fun r => rok e0 r /\ rpresent extv r) (fun _ => conj I I)
                  (fun ra n H Ha => conj (conj (proj1 H) Ha) (proj2 H))
                  (fun x r Hl => conj (proj1 (vi_rok _ _ _ _ _ _ _ Hvi x r Hl)) (var_present extv r (Hvn x r Hl) (si_pres _ _ _ Hsi x r Hl)))
                  (pstmts p) Hs) as Hf.
    eapply Forall_impl; [|exact Hf]. intros [r|[]]; simpl; auto. }
  destruct (assign_resolve e0 given s sev extv vals' bvs is tF Eb (vi_tab _ _ _ _ _ _ _ Hvi) Hf0) as [exts' [HtF' [Hi0 Hr2]]].
  assert (exts' = exts) by (apply (app_inv_head extv); congruence). subst exts'.
  rewrite (Hr2 tF [] (eq_sym (app_nil_r tF))). cbv beta iota delta [bind].
  set (vals0 := vals' ++ map (denote e0) exts) in *.
  (* ResolveBalances *)
  assert (Hnk : needed_keys vals0 (map (fun an => (addr_of tF (fst an), addr_of tF (snd an))) nd) = Some (needed e0 p)).
  { apply (needed_keys_stmts te e0 ve tF vals0 Hc0 Hve Hi0 (pstmts p) Hs). intros an Hin. split.
    - apply (assign_present sev extv is tF (fst an) Eb). left. unfold sev. apply in_or_app. right. apply in_flat_map. exists an. split; [assumption|left; reflexivity].
    - apply (assign_present sev extv is tF (snd an) Eb). left. unfold sev. apply in_or_app. right. apply in_flat_map. exists an. split; [assumption|right; left; reflexivity]. }
  destruct (vi_bv _ _ _ _ _ _ _ Hvi) as [Hbm Hbi].
  unfold vm_resolve_balances. rewrite Hnk.
  rewrite (existsb_snd (fun k => store_balance s k <? 0) bvs), Hbm, <- (existsb_snd (fun k => store_balance s k <? 0) bv).
  set (e1 := fold_left (fun e xk => set_env e (fst xk) (VMonetary (snd (snd xk)) (Some (store_balance s (snd xk))))) bv e0).
  set (b0 := map (fun k => (k, store_balance s k)) (dedup_keys (needed e0 p ++ map snd bv) [])).
  destruct (existsb (fun k => String.eqb (fst k) "world") (needed e0 p)) eqn:Ew.
  { unfold resolve_balances. rewrite Ew. reflexivity. }
  destruct (existsb (fun xk => store_balance s (snd xk) <? 0) bv) eqn:En.
  { unfold resolve_balances. rewrite Ew, En. reflexivity. }
  assert (Erb : resolve_balances p s e0 bv = Ok (e1, b0)) by (unfold resolve_balances; rewrite Ew, En; reflexivity).
  rewrite Erb. cbv beta iota delta [bind].
  set (vals1 := fold_left (fun vs (ik : nat * key) => set_nth vs (fst ik) (XV (VMonetary (snd (snd ik)) (Some (store_balance s (snd ik)))))) bvs vals0).
  assert (Hc : canon tF) by (apply (canon_assign _ _ _ _ canon_nil Eall)).
  assert (Hi1 : tinv e1 tF vals1).
  { apply (bal_fold s tF Hc bv bvs e0 vals0 Hi0 Hbm).
    - intros j y k Hj. destruct (Hbi j y k Hj) as [i [r [H1 [H2 H3]]]]. exists i, r. split; [assumption|]. split; [|assumption].
      rewrite HtF, nth_error_app1; [assumption|]. apply nth_error_Some. congruence.
    - intros y k Hin. exists None.
      apply (resolve_vars_bvval (pvars p) given s [] te [] [] e0 bv Ek Er (fun y v H => ltac:(discriminate)) (fun y k H => match H with end) y k Hin). }
  (* Execute *)
  destruct (resolve_env p given s te e0 bv e1 b0 Ek Esv Er Erb) as [Hc1 _].
  fold b0.
  rewrite (exec_assign e1 vals1 (sp_events (gen p)) [] is tF Eall (proj2 Hi1)).
  pose proof (exec_gen_correct p te e1 b0 Ek Hs Hc1) as Hx. unfold sym_look. rewrite Hx. unfold init_state.
  destruct (exec_stmts e1 (pstmts p) _) as [ms|err|]; reflexivity.
Qed.

(* ====================================================================== consequences *)
From LV Require Import Machine.SemSafe Machine.BalProofs Machine.RunProofs.

Corollary vm_run_ok p given s vr : vm_run p given s = Ok vr -> exists r, run p given s = Ok r /\ vr = flat_result r.
Proof. rewrite vm_run_correct. destruct (run p given s) as [r|err|]; simpl; intros H; inv H. exists r. auto. Qed.

(* no typed pop on another type, no stack underflow, no BUMP out of range, no nil amount, no default branch, no type
   assertion in ResolveResources / ResolveBalances, and the stack is empty after the last instruction *)
Corollary vm_run_no_panic p given s : vm_run p given s <> Panic.
Proof. rewrite vm_run_correct. pose proof (run_no_panic p given s). destruct (run p given s); simpl; congruence. Qed.

Corollary run_program_no_panic p cp given s : compile p = Some cp -> run_program cp given s <> Panic.
Proof. intros H. pose proof (vm_run_no_panic p given s) as Hn. unfold vm_run in Hn. rewrite H in Hn. exact Hn. Qed.

(* when the machine returns, Execute ended with an empty stack and every instruction was executed *)
Corollary run_program_stack_empty cp given s vr : run_program cp given s = Ok vr ->
  exists vals b0 st, exec (nth_error vals) (cp_instrs cp) {| vstk := []; vbal := b0; vposts := []; vtx := []; vacc := [] |} = Ok st /\
                     vstk st = [] /\ vr_posts vr = vposts st /\ vr_bal vr = vbal st.
Proof.
  unfold run_program. destruct (negb _); [discriminate|].
  destruct (vm_resolve _ _ _ _ _) as [[vals0 bvs]|?|]; try discriminate. cbv beta iota delta [bind].
  destruct (vm_resolve_balances _ _ _ _) as [[vals b0]|?|]; try discriminate. cbv beta iota delta [bind].
  destruct (exec _ _ _) as [st|?|] eqn:E; try discriminate. cbv beta iota delta [bind].
  unfold finish. destruct (vstk st) eqn:Es; [|discriminate]. intros H. inv H. exists vals, b0, st. simpl. auto.
Qed.

(* ---------- C22 / C23 of the machine itself (compiled program on the bytecode VM) ---------- *)
Corollary vm_send p given s vr : vm_run p given s = Ok vr ->
  exists e groups, Forall2 (stmt_guarantee e) (pstmts p) groups /\ vr_posts vr = List.concat groups.
Proof. intros H. destruct (vm_run_ok _ _ _ _ H) as [r [Hr ->]]. destruct (run_guarantee _ _ _ _ Hr) as [e HF]. exists e, (rposts r). auto. Qed.

Corollary vm_balances p given s vr : vm_run p given s = Ok vr ->
  exists saved, forall k v, fst k <> "world"%string -> bget (vr_init vr) k = Some v ->
    v = store_balance s k /\
    bget (vr_bal vr) k = Some (v + effect (fst k) (snd k) (vr_posts vr) - saved_for k saved).
Proof.
  intros H. destruct (vm_run_ok _ _ _ _ H) as [r [Hr ->]]. exists (rsaved r). intros k v Hw Hi. simpl in *.
  split; [apply (run_init_store _ _ _ _ Hr _ _ Hi)|apply (run_balances _ _ _ _ Hr _ _ Hw Hi)].
Qed.

Corollary vm_bounded p given s vr : vm_run p given s = Ok vr ->
  exists e, forall k B v, fst k <> "world"%string -> 0 <= B -> Forall (stmt_bound k e B) (pstmts p) ->
    bget (vr_init vr) k = Some v -> Z.min v (- B) <= v + effect (fst k) (snd k) (vr_posts vr).
Proof. intros H. destruct (vm_run_ok _ _ _ _ H) as [r [Hr ->]]. destruct (run_bounded _ _ _ _ Hr) as [e [_ Hb]]. exists e. exact Hb. Qed.

Corollary vm_no_overdraft p given s vr : vm_run p given s = Ok vr -> forallb stmt_no_overdraft (pstmts p) = true ->
  forall k v, fst k <> "world"%string -> bget (vr_init vr) k = Some v -> Z.min v 0 <= v + effect (fst k) (snd k) (vr_posts vr).
Proof. intros H Hn. destruct (vm_run_ok _ _ _ _ H) as [r [Hr ->]]. exact (run_no_overdraft _ _ _ _ Hr Hn). Qed.
