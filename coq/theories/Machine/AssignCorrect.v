(* Address assignment (Compile.assign): the concrete instructions, run with the resolved resource table, do what
   the symbolic instructions do with operands read by denotation. Generic bookkeeping, independent of the AST. *)
From Coq Require Import List ZArith QArith String Bool Lia.
From LV Require Import Machine.Syntax Machine.Allot Machine.Lex Machine.Sem Machine.SemProofs Machine.EnvProofs
  Machine.Vm Machine.Compile Machine.VmRun Machine.CompileCorrect.
Import ListNotations.
Open Scope Z_scope.

(* ---------- equality of resource descriptions ---------- *)
Lemma cval_eqb_eq a b : cval_eqb a b = true -> a = b.
Proof.
  destruct a, b; simpl; intros H; try discriminate; try (apply String.eqb_eq in H; congruence); try reflexivity.
  - apply Z.eqb_eq in H. congruence.
  - apply andb_prop in H. destruct H as [H1 H2]. apply Z.eqb_eq in H1. apply Pos.eqb_eq in H2. destruct q, q0; simpl in *. congruence.
Qed.
Lemma cval_eqb_refl a : cval_eqb a a = true.
Proof. destruct a; simpl; try apply String.eqb_refl; try apply Z.eqb_refl; try reflexivity. rewrite Z.eqb_refl, Pos.eqb_refl. reflexivity. Qed.

Lemma rdesc_eqb_denote e : forall a b, rdesc_eqb a b = true -> denote e a = denote e b.
Proof.
  induction a as [c|t x|t x acc IHa k|x acc IHa asset IHs|ra IH n]; intros b H; destruct b as [d|t' y|t' y acc' k'|y acc' asset'|rb m]; simpl in H; try discriminate.
  - apply cval_eqb_eq in H. congruence.
  - apply String.eqb_eq in H. subst. reflexivity.
  - apply String.eqb_eq in H. subst. reflexivity.
  - apply String.eqb_eq in H. subst. reflexivity.
  - apply String.eqb_eq in H. subst. reflexivity.
  - apply String.eqb_eq in H. subst. reflexivity.
  - apply String.eqb_eq in H. subst. reflexivity.
  - apply String.eqb_eq in H. subst. reflexivity.
  - apply String.eqb_eq in H. subst. reflexivity.
  - apply String.eqb_eq in H. subst. reflexivity.
  - apply andb_prop in H. destruct H as [H1 H2]. apply Z.eqb_eq in H2. subst. simpl. rewrite (IH _ H1). reflexivity.
Qed.

Lemma rdesc_eqb_refl : forall a, rdesc_eqb a a = true.
Proof.
  induction a as [c|t x|t x acc IHa k|x acc IHa asset IHs|ra IH n]; simpl.
  - apply cval_eqb_refl.
  - apply String.eqb_refl.
  - apply String.eqb_refl.
  - apply String.eqb_refl.
  - rewrite IH, Z.eqb_refl. reflexivity.
Qed.

(* ---------- find / intern ---------- *)
Lemma find_res_spec t r : forall n i, find_res t r n = Some i ->
  (n <= i)%nat /\ exists r', nth_error t (i - n) = Some r' /\ rdesc_eqb r' r = true.
Proof.
  induction t as [|x tl IH]; intros n i H; simpl in H; [discriminate|]. destruct (rdesc_eqb x r) eqn:E.
  - inv H. split; [lia|]. rewrite Nat.sub_diag. exists x. auto.
  - destruct (IH _ _ H) as [H1 [r' [H2 H3]]]. split; [lia|]. exists r'. split; [|assumption].
    replace (i - n)%nat with (S (i - S n)) by lia. assumption.
Qed.

Lemma find_res_app t ext r : forall n i, find_res t r n = Some i -> find_res (t ++ ext) r n = Some i.
Proof.
  induction t as [|x tl IH]; intros n i H; simpl in H; [discriminate|]. simpl. destruct (rdesc_eqb x r); [assumption|apply IH; assumption].
Qed.

Lemma find_res_lt t r : forall n i, find_res t r n = Some i -> (i < n + List.length t)%nat.
Proof.
  induction t as [|x tl IH]; intros n i H; simpl in H; [discriminate|]. destruct (rdesc_eqb x r); [inv H; simpl; lia|].
  specialize (IH _ _ H). simpl. lia.
Qed.

Lemma find_res_new t r : forall n, find_res t r n = None -> find_res (t ++ [r]) r n = Some (n + List.length t)%nat.
Proof.
  induction t as [|x tl IH]; intros n H; simpl in *.
  - rewrite (rdesc_eqb_refl r). f_equal. lia.
  - destruct (rdesc_eqb x r); [discriminate|]. rewrite (IH _ H). f_equal. lia.
Qed.

(* what an address returned by intern points to *)
Definition points (t : list rdesc) (a : nat) (r : rdesc) : Prop :=
  find_res t r O = Some a.

Lemma intern1_spec t r t' a : intern1 t r = (t', a) -> (exists ext, t' = t ++ ext) /\ points t' a r.
Proof.
  unfold intern1, points. destruct (find_res t r O) as [i|] eqn:E; intros H; inv H.
  - split; [exists []; rewrite app_nil_r; reflexivity|assumption].
  - split; [exists [r]; reflexivity|]. apply (find_res_new t r O E).
Qed.

Lemma intern_ext : forall r t, exists ext, fst (intern t r) = t ++ ext.
Proof.
  induction r as [c|ty x|ty x acc IHa k|x acc IHa asset IHs|ra IH n]; intros t; simpl;
    try (match goal with |- context[intern1 t ?r] => destruct (intern1 t r) as [t' a] eqn:E end;
         destruct (proj1 (intern1_spec _ _ _ _ E)) as [ext ->]; exists ext; reflexivity).
  destruct (IH t) as [e1 H1]. rewrite H1. destruct (intern1 (t ++ e1) (RMon ra n)) as [t' a] eqn:E.
  destruct (proj1 (intern1_spec _ _ _ _ E)) as [ext ->]. exists (e1 ++ ext). simpl. rewrite app_assoc. reflexivity.
Qed.

Lemma intern_points r t : points (fst (intern t r)) (snd (intern t r)) r.
Proof.
  destruct r; simpl;
    match goal with |- context[intern1 ?t0 ?r0] => destruct (intern1 t0 r0) as [t' a] eqn:E end; apply (intern1_spec _ _ _ _ E).
Qed.

Lemma assign_ext evs : forall t is t', assign evs t = (is, t') -> exists ext, t' = t ++ ext.
Proof.
  induction evs as [|ev tl IH]; intros t is t' H; simpl in H.
  - inv H. exists []. rewrite app_nil_r. reflexivity.
  - destruct ev as [r|i].
    + destruct (intern_ext r t) as [e1 H1]. rewrite H1 in H. destruct (IH _ _ _ H) as [e2 ->]. exists (e1 ++ e2). rewrite app_assoc. reflexivity.
    + destruct i; try (destruct (assign tl t) as [is0 t2] eqn:E; inv H; apply (IH _ _ _ E)).
      destruct (intern t o) as [t1 a] eqn:Ei. destruct (assign tl t1) as [is0 t2] eqn:E. inv H.
      destruct (intern_ext o t) as [e1 H1]. rewrite Ei in H1. simpl in H1. subst t1.
      destruct (IH _ _ _ E) as [e2 ->]. exists (e1 ++ e2). rewrite app_assoc. reflexivity.
Qed.

(* ---------- execution with a table that holds the denotations ---------- *)
Definition tab_ok (e : env) (t : list rdesc) (vals : list vval) : Prop :=
  forall i r, nth_error t i = Some r -> nth_error vals i = Some (denote e r).

Definition no_operand {A} (i : instr A) : Prop := match i with IApush _ => False | _ => True end.

Lemma step_no_operand {A} (la : A -> option vval) (lb : nat -> option vval) (i : instr A) st :
  no_operand i -> step la i st = step lb (map_instr (fun _ => O) i) st.
Proof. intros H. destruct i; try reflexivity. contradiction. Qed.

Lemma assign_no_operand i tl t : no_operand i ->
  assign (EIns i :: tl) t = (let (is, t2) := assign tl t in (map_instr (fun _ => O) i :: is, t2)).
Proof. intros H. destruct i; try reflexivity. contradiction. Qed.

Lemma exec_assign e vals evs : forall t is t', assign evs t = (is, t') -> tab_ok e t' vals ->
  forall st, exec (nth_error vals) is st = exec (sym_look e) (code evs) st.
Proof.
  induction evs as [|ev tl IH]; intros t is t' H Ht st.
  - simpl in H. inv H. reflexivity.
  - destruct ev as [r|i]; [simpl in H; apply (IH _ _ _ H Ht)|].
    assert (no_operand i \/ exists o, i = IApush o) as [Hn|[o ->]] by (destruct i; simpl; eauto).
    + rewrite (assign_no_operand i tl t Hn) in H. destruct (assign tl t) as [is0 t2] eqn:E. inv H. simpl.
      rewrite <- (step_no_operand (sym_look e) (nth_error vals) i st Hn).
      destruct (step (sym_look e) i st); simpl; try reflexivity. apply (IH _ _ _ E Ht).
    + simpl in H. destruct (intern t o) as [t1 a] eqn:Ei. destruct (assign tl t1) as [is0 t2] eqn:E. inv H.
      pose proof (intern_points o t) as Hp. rewrite Ei in Hp. simpl in Hp. unfold points in Hp.
      destruct (assign_ext _ _ _ _ E) as [ext ->]. pose proof (find_res_app _ ext _ _ _ Hp) as Hp'.
      destruct (find_res_spec _ _ _ _ Hp') as [_ [r' [Hn He]]]. rewrite Nat.sub_0_r in Hn.
      simpl. unfold sym_look at 1. rewrite (Ht _ _ Hn), (rdesc_eqb_denote e _ _ He). simpl. apply (IH _ _ _ E Ht).
Qed.
