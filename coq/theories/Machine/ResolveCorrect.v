(* ResolveResources / ResolveBalances on the concrete resource table the compiler emits: the resolved table holds,
   at every address, the denotation of the resource description in the environment of Sem. *)
From Coq Require Import List ZArith QArith String Bool Lia.
From LV Require Import Machine.Syntax Machine.Allot Machine.Lex Machine.Sem Machine.SemProofs Machine.EnvProofs
  Machine.Vm Machine.Compile Machine.VmRun Machine.CompileCorrect Machine.AssignCorrect Machine.GenWf.
Import ListNotations.
Open Scope Z_scope.

Definition tinv (e : env) (t : list rdesc) (vals : list vval) : Prop :=
  List.length vals = List.length t /\ tab_ok e t vals.

Lemma tinv_snoc e t vals r : tinv e t vals -> tinv e (t ++ [r]) (vals ++ [denote e r]).
Proof.
  intros [Hl Ht]. split; [rewrite !app_length, Hl; reflexivity|]. intros i x Hn.
  destruct (Nat.lt_ge_cases i (List.length t)) as [Hi|Hi].
  - rewrite nth_error_app1 in Hn by assumption. rewrite nth_error_app1 by lia. apply Ht. assumption.
  - rewrite nth_error_app2 in Hn by assumption. rewrite nth_error_app2 by lia. rewrite Hl.
    destruct (i - List.length t)%nat as [|j]; simpl in *; [inv Hn; reflexivity|destruct j; discriminate].
Qed.

Lemma vm_resolve_app given s a : forall b vals bvs,
  vm_resolve (a ++ b) given s vals bvs = do (v1, b1) <- vm_resolve a given s vals bvs; vm_resolve b given s v1 b1.
Proof.
  induction a as [|r tl IH]; intros b vals bvs; simpl; [reflexivity|].
  destruct r as [c|t x|t x acc k|x acc asset|asset n]; simpl;
    repeat match goal with
           | |- context[match ?x with _ => _ end] => destruct x; simpl; try reflexivity
           end; apply IH.
Qed.

(* variables are in the table; everything else can be allocated on the fly *)
Fixpoint rpresent (t : list rdesc) (r : rdesc) : Prop :=
  match r with
  | RConst _ => True
  | RMon ra _ => rpresent t ra
  | _ => find_res t r O <> None
  end.
Lemma rpresent_app t ext r : rpresent t r -> rpresent (t ++ ext) r.
Proof.
  induction r; simpl; auto; intros H; (destruct (find_res t _ O) as [i|] eqn:E; [rewrite (find_res_app _ ext _ _ _ E); discriminate|contradiction]).
Qed.

Section Res.
Variable e : env.
Variable given : list (string * value).
Variable s : store.

(* allocating r: the new table entries resolve to their denotations *)
Lemma intern_resolve : forall r t vals bvs ext, tinv e t vals -> rok e r -> rpresent t r ->
  fst (intern t r) = t ++ ext ->
  tinv e (t ++ ext) (vals ++ map (denote e) ext) /\
  forall tF post, tF = t ++ ext ++ post ->
    vm_resolve (map (concretize tF) ext) given s vals bvs = Ok (vals ++ map (denote e) ext, bvs).
Proof.
  assert (Hpres : forall r t vals bvs ext, tinv e t vals -> find_res t r O <> None -> fst (intern1 t r) = t ++ ext ->
            tinv e (t ++ ext) (vals ++ map (denote e) ext) /\
            forall tF post, tF = t ++ ext ++ post ->
              vm_resolve (map (concretize tF) ext) given s vals bvs = Ok (vals ++ map (denote e) ext, bvs)).
  { intros r t vals bvs ext Hi Hp He. unfold intern1 in He. destruct (find_res t r O); [|contradiction]. simpl in He.
    assert (ext = []) by (apply (app_inv_head t); rewrite app_nil_r; symmetry; assumption). subst ext.
    simpl. rewrite !app_nil_r. split; [assumption|reflexivity]. }
  induction r as [c|ty x|ty x acc IHa k|x acc IHa asset IHs|ra IH n]; intros t vals bvs ext Hi Hok Hp He; simpl in He, Hp;
    try (apply (Hpres _ _ _ _ _ Hi Hp He)).
  - (* constant *) unfold intern1 in He. destruct (find_res t (RConst c) O) as [i|] eqn:Ef; simpl in He.
    + assert (ext = []) by (apply (app_inv_head t); rewrite app_nil_r; symmetry; assumption). subst ext.
      simpl. rewrite !app_nil_r. split; [assumption|reflexivity].
    + assert (ext = [RConst c]) by (apply (app_inv_head t); symmetry; assumption). subst ext. simpl.
      split; [apply (tinv_snoc e t vals (RConst c) Hi)|reflexivity].
  - (* monetary *) destruct Hok as [Hok [sa Hsa]]. destruct (intern_ext ra t) as [e1 H1]. rewrite H1 in He.
    destruct (IH t vals bvs e1 Hi Hok Hp H1) as [Hi1 Hr1].
    pose proof (intern_points ra t) as Hpt. rewrite H1 in Hpt. unfold points in Hpt.
    unfold intern1 in He. destruct (find_res (t ++ e1) (RMon ra n) O) as [i|] eqn:Ef; simpl in He.
    + assert (ext = e1) by (apply (app_inv_head t); symmetry; assumption). subst ext.
      split; [assumption|]. intros tF post HtF. apply (Hr1 tF post HtF).
    + assert (ext = e1 ++ [RMon ra n]) by (apply (app_inv_head t); rewrite app_assoc; symmetry; assumption). subst ext.
      split; [pose proof (tinv_snoc e (t ++ e1) _ (RMon ra n) Hi1) as Hs; rewrite map_app; simpl; rewrite !app_assoc; exact Hs|].
      intros tF post HtF. rewrite !map_app, vm_resolve_app, (Hr1 tF ([RMon ra n] ++ post)) by (rewrite HtF, <- !app_assoc; reflexivity).
      simpl. unfold addr_of.
      assert (find_res tF ra O = Some (snd (intern t ra))) as Hf by (rewrite HtF, !app_assoc, <- (app_assoc t); apply find_res_app; rewrite app_assoc; apply find_res_app; assumption).
      rewrite Hf. destruct (find_res_spec _ _ _ _ Hpt) as [_ [r' [Hn Hq]]]. rewrite Nat.sub_0_r in Hn.
      rewrite (proj2 Hi1 _ _ Hn), (rdesc_eqb_denote e _ _ Hq), Hsa. simpl. rewrite <- app_assoc. reflexivity.
Qed.

(* the statement phase: all events refer to well-typed resources whose variables are already in the table *)
Lemma assign_resolve evs : forall t vals bvs is t', assign evs t = (is, t') -> tinv e t vals ->
  Forall (fun v => match v with EAlloc r | EIns (IApush r) => rok e r /\ rpresent t r | _ => True end) evs ->
  exists ext, t' = t ++ ext /\ tinv e t' (vals ++ map (denote e) ext) /\
    forall tF post, tF = t' ++ post -> vm_resolve (map (concretize tF) ext) given s vals bvs = Ok (vals ++ map (denote e) ext, bvs).
Proof.
  induction evs as [|v tl IH]; intros t vals bvs is t' H Hi Hf.
  - simpl in H. inv H. exists []. simpl. rewrite !app_nil_r. repeat split; try apply Hi. 
  - inv Hf.
    assert (Hstep : forall r t1, rok e r /\ rpresent t r -> fst (intern t r) = t1 ->
              forall is0, assign tl t1 = (is0, t') ->
              exists ext, t' = t ++ ext /\ tinv e t' (vals ++ map (denote e) ext) /\
                forall tF post, tF = t' ++ post -> vm_resolve (map (concretize tF) ext) given s vals bvs = Ok (vals ++ map (denote e) ext, bvs)).
    { intros r t1 [Hok Hp] Ht1 is0 Ha. destruct (intern_ext r t) as [e1 H1]. rewrite <- Ht1, H1 in Ha.
      destruct (intern_resolve r t vals bvs e1 Hi Hok Hp H1) as [Hi1 Hr1].
      assert (Forall (fun v => match v with EAlloc r | EIns (IApush r) => rok e r /\ rpresent (t ++ e1) r | _ => True end) tl) as Hf'.
      { eapply Forall_impl; [|exact H3]. intros [r0|[]]; try (intros; exact I); intros [A B]; split; try assumption; apply rpresent_app; assumption. }
      destruct (IH _ _ bvs _ _ Ha Hi1 Hf') as [e2 [He2 [Hi2 Hr2]]]. exists (e1 ++ e2).
      split; [rewrite He2, app_assoc; reflexivity|]. split; [rewrite map_app, app_assoc; exact Hi2|].
      intros tF post HtF. rewrite !map_app, vm_resolve_app, (Hr1 tF (e2 ++ post)) by (rewrite HtF, He2, <- !app_assoc; reflexivity).
      simpl. rewrite app_assoc. apply (Hr2 tF post). exact HtF. }
    destruct v as [r|i].
    + simpl in H. apply (Hstep r _ H2 eq_refl is H).
    + assert (no_operand i \/ exists o, i = IApush o) as [Hn|[o ->]] by (destruct i; simpl; eauto).
      * rewrite (assign_no_operand i tl t Hn) in H. destruct (assign tl t) as [is0 t2] eqn:E. inv H. apply (IH _ _ bvs _ _ E Hi H3).
      * simpl in H. destruct (intern t o) as [t1 a] eqn:Ei. destruct (assign tl t1) as [is0 t2] eqn:E. inv H.
        apply (Hstep o t1 H2 (f_equal fst Ei) is0 E).
Qed.
End Res.
