(* ResolveResources / ResolveBalances on the concrete resource table the compiler emits: the resolved table holds,
   at every address, the denotation of the resource description in the environment of Sem. *)
From Coq Require Import List ZArith QArith String Bool Lia.
From LV Require Import Machine.Syntax Machine.Allot Machine.Lex Machine.Sem Machine.SemProofs Machine.EnvProofs
  Machine.Vm Machine.Compile Machine.VmRun Machine.CompileCorrect Machine.AssignCorrect Machine.GenWf.
Import ListNotations.
Open Scope Z_scope.

Definition tinv (e : env) (t : list rdesc) (vals : list vval) : Prop :=
  List.length vals = List.length t /\ tab_ok e t vals.

Lemma tinv_snoc e t vals r : tinv e t vals -> tinv e (t ++ [r]) (vals ++ [denote e r]).
Proof.
  intros [Hl Ht]. split; [rewrite !app_length, Hl; reflexivity|]. intros i x Hn.
  destruct (Nat.lt_ge_cases i (List.length t)) as [Hi|Hi].
  - rewrite nth_error_app1 in Hn by assumption. rewrite nth_error_app1 by lia. apply Ht. assumption.
  - rewrite nth_error_app2 in Hn by assumption. rewrite nth_error_app2 by lia. rewrite Hl.
    destruct (i - List.length t)%nat as [|j]; simpl in *; [inv Hn; reflexivity|destruct j; discriminate].
Qed.

Lemma vm_resolve_app given s a : forall b vals bvs,
  vm_resolve (a ++ b) given s vals bvs = do (v1, b1) <- vm_resolve a given s vals bvs; vm_resolve b given s v1 b1.
Proof.
  induction a as [|r tl IH]; intros b vals bvs; simpl; [reflexivity|].
  destruct r as [c|t x|t x acc k|x acc asset|asset n]; simpl;
    repeat match goal with
           | |- context[match ?x with _ => _ end] => destruct x; simpl; try reflexivity
           end; apply IH.
Qed.

(* variables are in the table; everything else can be allocated on the fly *)
Fixpoint rpresent (t : list rdesc) (r : rdesc) : Prop :=
  match r with
  | RConst _ => True
  | RMon ra _ => rpresent t ra
  | _ => find_res t r O <> None
  end.
Lemma rpresent_app t ext r : rpresent t r -> rpresent (t ++ ext) r.
Proof.
  induction r; simpl; auto; intros H; (destruct (find_res t _ O) as [i|] eqn:E; [rewrite (find_res_app _ ext _ _ _ E); discriminate|contradiction]).
Qed.

Section Res.
Variable e : env.
Variable given : list (string * value).
Variable s : store.

(* allocating r: the new table entries resolve to their denotations *)
Lemma intern_resolve : forall r t vals bvs ext, tinv e t vals -> rok e r -> rpresent t r ->
  fst (intern t r) = t ++ ext ->
  tinv e (t ++ ext) (vals ++ map (denote e) ext) /\
  forall tF post, tF = t ++ ext ++ post ->
    vm_resolve (map (concretize tF) ext) given s vals bvs = Ok (vals ++ map (denote e) ext, bvs).
Proof.
  assert (Hpres : forall r t vals bvs ext, tinv e t vals -> find_res t r O <> None -> fst (intern1 t r) = t ++ ext ->
            tinv e (t ++ ext) (vals ++ map (denote e) ext) /\
            forall tF post, tF = t ++ ext ++ post ->
              vm_resolve (map (concretize tF) ext) given s vals bvs = Ok (vals ++ map (denote e) ext, bvs)).
  { intros r t vals bvs ext Hi Hp He. unfold intern1 in He. destruct (find_res t r O); [|contradiction]. simpl in He.
    assert (ext = []) by (apply (app_inv_head t); rewrite app_nil_r; symmetry; assumption). subst ext.
    simpl. rewrite !app_nil_r. split; [assumption|reflexivity]. }
  induction r as [c|ty x|ty x acc IHa k|x acc IHa asset IHs|ra IH n]; intros t vals bvs ext Hi Hok Hp He; simpl in He, Hp;
    try (apply (Hpres _ _ _ _ _ Hi Hp He)).
  - (* constant *) unfold intern1 in He. destruct (find_res t (RConst c) O) as [i|] eqn:Ef; simpl in He.
    + assert (ext = []) by (apply (app_inv_head t); rewrite app_nil_r; symmetry; assumption). subst ext.
      simpl. rewrite !app_nil_r. split; [assumption|reflexivity].
    + assert (ext = [RConst c]) by (apply (app_inv_head t); symmetry; assumption). subst ext. simpl.
      split; [apply (tinv_snoc e t vals (RConst c) Hi)|reflexivity].
  - (* monetary *) destruct Hok as [Hok [sa Hsa]]. destruct (intern_ext ra t) as [e1 H1]. rewrite H1 in He.
    destruct (IH t vals bvs e1 Hi Hok Hp H1) as [Hi1 Hr1].
    pose proof (intern_points ra t) as Hpt. rewrite H1 in Hpt. unfold points in Hpt.
    unfold intern1 in He. destruct (find_res (t ++ e1) (RMon ra n) O) as [i|] eqn:Ef; simpl in He.
    + assert (ext = e1) by (apply (app_inv_head t); symmetry; assumption). subst ext.
      split; [assumption|]. intros tF post HtF. apply (Hr1 tF post HtF).
    + assert (ext = e1 ++ [RMon ra n]) by (apply (app_inv_head t); rewrite app_assoc; symmetry; assumption). subst ext.
      split; [pose proof (tinv_snoc e (t ++ e1) _ (RMon ra n) Hi1) as Hs; rewrite map_app; simpl; rewrite !app_assoc; exact Hs|].
      intros tF post HtF. rewrite !map_app, vm_resolve_app, (Hr1 tF ([RMon ra n] ++ post)) by (rewrite HtF, <- !app_assoc; reflexivity).
      simpl. unfold addr_of.
      assert (find_res tF ra O = Some (snd (intern t ra))) as Hf by (rewrite HtF, !app_assoc, <- (app_assoc t); apply find_res_app; rewrite app_assoc; apply find_res_app; assumption).
      rewrite Hf. destruct (find_res_spec _ _ _ _ Hpt) as [_ [r' [Hn Hq]]]. rewrite Nat.sub_0_r in Hn.
      rewrite (proj2 Hi1 _ _ Hn), (rdesc_eqb_denote e _ _ Hq), Hsa. simpl. rewrite <- app_assoc. reflexivity.
Qed.

(* the statement phase: all events refer to well-typed resources whose variables are already in the table *)
Lemma assign_resolve evs : forall t vals bvs is t', assign evs t = (is, t') -> tinv e t vals ->
  Forall (fun v => match v with EAlloc r | EIns (IApush r) => rok e r /\ rpresent t r | _ => True end) evs ->
  exists ext, t' = t ++ ext /\ tinv e t' (vals ++ map (denote e) ext) /\
    forall tF post, tF = t' ++ post -> vm_resolve (map (concretize tF) ext) given s vals bvs = Ok (vals ++ map (denote e) ext, bvs).
Proof.
  induction evs as [|v tl IH]; intros t vals bvs is t' H Hi Hf.
  - simpl in H. inv H. exists []. simpl. rewrite !app_nil_r. repeat split; try apply Hi. 
  - inv Hf.
    assert (Hstep : forall r t1, rok e r /\ rpresent t r -> fst (intern t r) = t1 ->
              forall is0, assign tl t1 = (is0, t') ->
              exists ext, t' = t ++ ext /\ tinv e t' (vals ++ map (denote e) ext) /\
                forall tF post, tF = t' ++ post -> vm_resolve (map (concretize tF) ext) given s vals bvs = Ok (vals ++ map (denote e) ext, bvs)).
    { intros r t1 [Hok Hp] Ht1 is0 Ha. destruct (intern_ext r t) as [e1 H1]. rewrite <- Ht1, H1 in Ha.
      destruct (intern_resolve r t vals bvs e1 Hi Hok Hp H1) as [Hi1 Hr1].
      assert (Forall (fun v => match v with EAlloc r | EIns (IApush r) => rok e r /\ rpresent (t ++ e1) r | _ => True end) tl) as Hf'.
      { eapply Forall_impl; [|exact H3]. intros [r0|[]]; try (intros; exact I); intros [A B]; split; try assumption; apply rpresent_app; assumption. }
      destruct (IH _ _ bvs _ _ Ha Hi1 Hf') as [e2 [He2 [Hi2 Hr2]]]. exists (e1 ++ e2).
      split; [rewrite He2, app_assoc; reflexivity|]. split; [rewrite map_app, app_assoc; exact Hi2|].
      intros tF post HtF. rewrite !map_app, vm_resolve_app, (Hr1 tF (e2 ++ post)) by (rewrite HtF, He2, <- !app_assoc; reflexivity).
      simpl. rewrite app_assoc. apply (Hr2 tF post). exact HtF. }
    destruct v as [r|i].
    + simpl in H. apply (Hstep r _ H2 eq_refl is H).
    + assert (no_operand i \/ exists o, i = IApush o) as [Hn|[o ->]] by (destruct i; simpl; eauto).
      * rewrite (assign_no_operand i tl t Hn) in H. destruct (assign tl t) as [is0 t2] eqn:E. inv H. apply (IH _ _ bvs _ _ E Hi H3).
      * simpl in H. destruct (intern t o) as [t1 a] eqn:Ei. destruct (assign tl t1) as [is0 t2] eqn:E. inv H.
        apply (Hstep o t1 H2 (f_equal fst Ei) is0 E).
Qed.
End Res.

(* ====================================================================== the vars block *)
Fixpoint rnames (r : rdesc) : list string :=
  match r with
  | RConst _ => []
  | RVar _ x => [x]
  | RVarMeta _ x acc _ => x :: rnames acc
  | RVarBal x acc asset => x :: rnames acc ++ rnames asset
  | RMon ra _ => rnames ra
  end.
Definition closed (te : tenv) (r : rdesc) : Prop := forall y, In y (rnames r) -> declared te y = true.

Lemma closed_ext te x t r : closed te r -> closed (te ++ [(x, t)]) r.
Proof. intros H y Hy. rewrite declared_app, (H y Hy). reflexivity. Qed.

Lemma lookup_snoc_other {V} (e : list (string * V)) x v y : lookup e y <> None -> lookup (e ++ [(x, v)]) y = lookup e y.
Proof. intros H. rewrite lookup_app. destruct (lookup e y); [reflexivity|contradiction]. Qed.

Lemma denote_ext te e x v r : cons_env te e -> closed te r -> denote (e ++ [(x, v)]) r = denote e r.
Proof.
  intros [C1 C2] Hc. assert (Hy : forall y, In y (rnames r) -> lookup (e ++ [(x, v)]) y = lookup e y).
  { intros y Hy. apply lookup_snoc_other. specialize (Hc y Hy). unfold declared in Hc. destruct (lookup te y) as [t|] eqn:E; [|discriminate].
    destruct (C1 _ _ E) as [v0 [H0 _]]. rewrite H0. discriminate. }
  clear Hc. induction r as [c|t y|t y acc IHa k|y acc IHa asset IHs|ra IH n]; simpl in *; try reflexivity;
    try (rewrite (Hy y (or_introl eq_refl)); reflexivity).
  rewrite IH; [reflexivity|assumption].
Qed.

Lemma rok_ext te e x v r : cons_env te e -> closed te r -> rok e r -> rok (e ++ [(x, v)]) r.
Proof.
  intros Hc. induction r as [c|t y|t y acc IHa k|y acc IHa asset IHs|ra IH n]; simpl; intros Hcl Hr; auto.
  - destruct Hr as [R1 R2]. assert (closed te acc) as Ha by (intros z Hz; apply Hcl; right; assumption).
    split; [apply IHa; assumption|]. rewrite (denote_ext te e x v acc Hc Ha). assumption.
  - destruct Hr as [R1 [R2 [R3 R4]]].
    assert (closed te acc) as Ha by (intros z Hz; apply Hcl; right; apply in_or_app; left; assumption).
    assert (closed te asset) as Hs by (intros z Hz; apply Hcl; right; apply in_or_app; right; assumption).
    repeat split; [apply IHa; assumption|rewrite (denote_ext te e x v acc Hc Ha); assumption|apply IHs; assumption|rewrite (denote_ext te e x v asset Hc Hs); assumption].
  - destruct Hr as [R1 R2]. split; [apply IH; assumption|]. rewrite (denote_ext te e x v ra Hc Hcl). assumption.
Qed.

Lemma find_res_var_none t r x : var_name r = Some x -> (forall r', In r' t -> var_name r' <> Some x) -> forall n, find_res t r n = None.
Proof.
  intros Hr. induction t as [|r0 tl IH]; intros Hn n; [reflexivity|]. simpl.
  assert (rdesc_eqb r0 r = false) as E.
  { pose proof (Hn r0 (or_introl eq_refl)) as H0. destruct r0, r; simpl in *; try reflexivity; try discriminate;
      inv Hr; destruct (String.eqb _ _) eqn:Eq; try reflexivity; apply String.eqb_eq in Eq; subst; exfalso; apply H0; reflexivity. }
  rewrite E. apply IH. intros r' Hin. apply Hn. right. assumption.
Qed.

(* the variable entries of a table *)
Definition tvars (t : list rdesc) : list (string * ty) := flat_map (fun r => match r with RVar ty x => [(x, ty)] | _ => [] end) t.
Definition plain_of (ds : list vardecl) : list (string * ty) :=
  flat_map (fun d => match vorigin d with ONone => [(vname d, vty d)] | _ => [] end) ds.
Lemma tvars_app a b : tvars (a ++ b) = tvars a ++ tvars b.
Proof. unfold tvars. apply flat_map_app. Qed.

Record vinv (te : tenv) (ve : venv) (e : env) (bv : list (string * key)) (t : list rdesc) (vals : list vval) (bvs : list (nat * key)) : Prop := {
  vi_cons : cons_env te e;
  vi_ve : venv_ok te ve;
  vi_dom : forall x r, lookup ve x = Some r -> declared te x = true;
  vi_rok : forall x r, lookup ve x = Some r -> rok e r /\ find_res t r O <> None /\ closed te r;
  vi_tab : tinv e t vals;
  vi_closed : forall r, In r t -> closed te r;
  vi_names : forall r x, In r t -> var_name r = Some x -> declared te x = true;
  vi_bv : map snd bvs = map snd bv /\
          forall j x k, nth_error bv j = Some (x, k) -> exists i r, nth_error bvs j = Some (i, k) /\ nth_error t i = Some r /\ var_name r = Some x
}.

Definition is_const (r : rdesc) : Prop := match r with RConst _ => True | _ => False end.
Definition simple_alloc (t : list rdesc) (v : event) : Prop :=
  match v with
  | EAlloc (RConst _) => True
  | EAlloc (RMon _ _) => False
  | EAlloc r => find_res t r O <> None
  | _ => False
  end.

Lemma assign_simple evs : forall t is t', Forall (simple_alloc t) evs -> assign evs t = (is, t') ->
  is = [] /\ exists ext, t' = t ++ ext /\ Forall is_const ext.
Proof.
  induction evs as [|v tl IH]; intros t is t' Hf H; simpl in H.
  - inv H. split; [reflexivity|]. exists []. rewrite app_nil_r. split; [reflexivity|constructor].
  - pose proof (Forall_inv Hf) as Hh. pose proof (Forall_inv_tail Hf) as H2. clear Hf. destruct v as [r|i]; [|contradiction].
    assert (exists ext1, fst (intern t r) = t ++ ext1 /\ Forall is_const ext1) as [e1 [H1 Hc1]].
    { destruct r as [c|ty x|ty x acc k|x acc asset|ra n]; simpl in Hh |- *; try contradiction;
        unfold intern1; try (destruct (find_res t _ O) as [i|]; [exists []; rewrite app_nil_r; split; [reflexivity|constructor]|contradiction]).
      destruct (find_res t (RConst c) O); simpl; [exists []; rewrite app_nil_r; split; [reflexivity|constructor]|].
      exists [RConst c]. split; [reflexivity|constructor; [exact I|constructor]]. }
    rewrite H1 in H.
    assert (Forall (simple_alloc (t ++ e1)) tl) as Hf'.
    { eapply Forall_impl; [|exact H2]. intros [[c|ty x|ty x acc k|x acc asset|ra n]|i]; simpl; auto;
        intros Hq; (destruct (find_res t _ O) as [j|] eqn:E; [rewrite (find_res_app _ e1 _ _ _ E); discriminate|contradiction]). }
    destruct (IH _ _ _ Hf' H) as [Hi [e2 [He2 Hc2]]]. split; [assumption|]. exists (e1 ++ e2). rewrite He2, app_assoc. split; [reflexivity|].
    apply Forall_app. split; assumption.
Qed.

Lemma assign_app a : forall b t, assign (a ++ b) t =
  (let (ia, ta) := assign a t in let (ib, tb) := assign b ta in (ia ++ ib, tb)).
Proof.
  induction a as [|v tl IH]; intros b t; simpl.
  - destruct (assign b t); reflexivity.
  - destruct v as [r|i].
    + apply IH.
    + destruct i; try (rewrite IH; destruct (assign tl t) as [ia ta]; destruct (assign b ta); reflexivity).
      destruct (intern t o) as [t1 a0]. rewrite IH. destruct (assign tl t1) as [ia ta]. destruct (assign b ta); reflexivity.
Qed.

Lemma const_facts ext : Forall is_const ext ->
  tvars ext = [] /\ (forall te r, In r ext -> closed te r) /\ (forall r x, In r ext -> var_name r <> Some x).
Proof.
  induction 1 as [|r ext Hr _ [I1 [I2 I3]]]; [repeat split; intros; try contradiction; reflexivity|].
  destruct r; try contradiction. repeat split.
  - simpl. assumption.
  - intros te r [<-|Hin]; [intros y []|apply I2; assumption].
  - intros r x [<-|Hin]; [discriminate|apply I3; assumption].
Qed.

(* reading the table at the address of a resource that is in it *)
Lemma lookup_tab e t vals tF post r : tinv e t vals -> find_res t r O <> None -> tF = t ++ post ->
  nth_error vals (addr_of tF r) = Some (denote e r).
Proof.
  intros [Hl Ht] Hf ->. destruct (find_res t r O) as [i|] eqn:E; [|contradiction]. unfold addr_of.
  rewrite (find_res_app _ post _ _ _ E). destruct (find_res_spec _ _ _ _ E) as [_ [r' [Hn Hq]]]. rewrite Nat.sub_0_r in Hn.
  rewrite (Ht _ _ Hn). rewrite (rdesc_eqb_denote e _ _ Hq). reflexivity.
Qed.

Section Vars.
Variable given : list (string * value).
Variable s : store.
Variable tF : list rdesc.

Lemma lookup_fresh te e x : cons_env te e -> declared te x = false -> lookup e x = None.
Proof.
  intros [_ C2] Hd. destruct (lookup e x) as [v|] eqn:E; [|reflexivity]. rewrite (C2 _ _ E) in Hd. discriminate.
Qed.

(* invariant after adding the variable x with resource r and value v, the table having grown by constants then r *)
Lemma vinv_step te ve e bv t vals bvs x ty r v ext bv1 bvs1 :
  vinv te ve e bv t vals bvs -> declared te x = false -> var_name r = Some x -> ty_of v = ty ->
  Forall is_const ext -> tinv e (t ++ ext) (vals ++ map (denote e) ext) ->
  rok (e ++ [(x, v)]) r -> closed (te ++ [(x, ty)]) r ->
  denote (e ++ [(x, v)]) r = XV v ->
  (bv1 = bv /\ bvs1 = bvs \/ exists k, bv1 = bv ++ [(x, k)] /\ bvs1 = bvs ++ [(List.length (t ++ ext), k)]) ->
  vinv (te ++ [(x, ty)]) (ve ++ [(x, r)]) (e ++ [(x, v)]) bv1 ((t ++ ext) ++ [r]) ((vals ++ map (denote e) ext) ++ [XV v]) bvs1.
Proof.
  intros [Ic Ive Idom Irok Itab Icl Inm Ibv] Hd Hr Hty Hext Hta Hrok Hclr Hden Hb.
  destruct (const_facts ext Hext) as [_ [Cc Cn]].
  assert (cons_env (te ++ [(x, ty)]) (e ++ [(x, v)])) as Ic' by (apply cons_env_snoc; assumption).
  assert (forall r0, In r0 (t ++ ext) -> closed te r0) as Icl'.
  { intros r0 Hin. apply in_app_or in Hin. destruct Hin; [apply Icl|apply Cc]; assumption. }
  constructor.
  - exact Ic'.
  - intros y t0 Hl. rewrite lookup_app in Hl. rewrite lookup_app. destruct (lookup te y) as [t1|] eqn:E.
    + inv Hl. destruct (Ive _ _ E) as [r0 [Hr0 Hn0]]. rewrite Hr0. exists r0. auto.
    + simpl in Hl. destruct (String.eqb x y) eqn:Ex; [|discriminate]. apply String.eqb_eq in Ex. subst y.
      destruct (lookup ve x) as [r0|] eqn:E0; [specialize (Idom _ _ E0); congruence|]. simpl. rewrite String.eqb_refl. exists r. auto.
  - intros y r0 Hl. rewrite declared_app. rewrite lookup_app in Hl. destruct (lookup ve y) as [r1|] eqn:E0.
    + rewrite (Idom _ _ E0). reflexivity.
    + simpl in Hl. destruct (String.eqb x y); [apply orb_true_r|discriminate].
  - intros y r0 Hl. rewrite lookup_app in Hl. destruct (lookup ve y) as [r1|] eqn:E0.
    + inv Hl. destruct (Irok _ _ E0) as [R1 [R2 R3]]. repeat split.
      * apply (rok_ext te); assumption.
      * destruct (find_res t r0 O) as [i|] eqn:Ef; [|contradiction]. rewrite <- app_assoc. rewrite (find_res_app _ _ _ _ _ Ef). discriminate.
      * apply closed_ext. assumption.
    + simpl in Hl. destruct (String.eqb x y); [|discriminate]. inv Hl. repeat split.
      * exact Hrok.
      * destruct (find_res (t ++ ext) r0 O) as [i|] eqn:Ef; [rewrite (find_res_app _ _ _ _ _ Ef); discriminate|].
        rewrite (find_res_new _ _ _ Ef). discriminate.
      * exact Hclr.
  - (* table *) assert (tinv (e ++ [(x, v)]) (t ++ ext) (vals ++ map (denote e) ext)) as Hta'.
    { destruct Hta as [Hl Ht]. split; [assumption|]. intros i r0 Hn. rewrite (Ht _ _ Hn).
      rewrite (denote_ext te e x v r0 Ic); [reflexivity|]. apply Icl'. apply (nth_error_In _ _ Hn). }
    pose proof (tinv_snoc _ _ _ r Hta') as Hs. rewrite Hden in Hs. exact Hs.
  - intros r0 Hin. apply in_app_or in Hin. destruct Hin as [Hin|[<-|[]]]; [apply closed_ext; apply Icl'; assumption|exact Hclr].
  - intros r0 y Hin Hn. rewrite declared_app. apply in_app_or in Hin. destruct Hin as [Hin|[<-|[]]].
    + apply in_app_or in Hin. destruct Hin as [Hin|Hin]; [rewrite (Inm _ _ Hin Hn); reflexivity|exfalso; apply (Cn _ _ Hin Hn)].
    + rewrite Hr in Hn. inv Hn. rewrite String.eqb_refl. apply orb_true_r.
  - destruct Ibv as [B1 B2].
    assert (forall j y k, nth_error bv j = Some (y, k) -> exists i r0, nth_error bvs j = Some (i, k) /\ nth_error ((t ++ ext) ++ [r]) i = Some r0 /\ var_name r0 = Some y) as B2'.
    { intros j y k Hj. destruct (B2 _ _ _ Hj) as [i [r0 [H1 [H2 H3]]]]. exists i, r0. repeat split; try assumption.
      rewrite <- app_assoc. rewrite nth_error_app1; [assumption|]. apply nth_error_Some. congruence. }
    destruct Hb as [[-> ->]|[k [-> ->]]].
    + split; assumption.
    + split; [rewrite !map_app, B1; reflexivity|]. intros j y k0 Hj.
      assert (List.length bvs = List.length bv) as Hlen by (rewrite <- (map_length snd bvs), B1, map_length; reflexivity).
      destruct (Nat.lt_ge_cases j (List.length bv)) as [Hlt|Hge].
      * rewrite nth_error_app1 in Hj by assumption. destruct (B2' _ _ _ Hj) as [i [r0 [H1 H2]]]. exists i, r0.
        split; [rewrite nth_error_app1 by lia; assumption|assumption].
      * rewrite nth_error_app2 in Hj by assumption. destruct (j - List.length bv)%nat as [|j'] eqn:Ej; [|destruct j'; discriminate].
        simpl in Hj. inv Hj. exists (List.length (t ++ ext)), r. repeat split.
        -- rewrite nth_error_app2 by lia. replace (j - List.length bvs)%nat with O by lia. reflexivity.
        -- rewrite nth_error_app2 by lia. rewrite Nat.sub_diag. reflexivity.
        -- assumption.
Qed.
End Vars.

(* whatever an event list allocates or pushes is in the resulting table *)
Lemma assign_present evs : forall t is t' r, assign evs t = (is, t') ->
  (In (EAlloc r) evs \/ In (EIns (IApush r)) evs \/ find_res t r O <> None) -> find_res t' r O <> None.
Proof.
  induction evs as [|v tl IH]; intros t is t' r H Hin.
  - simpl in H. inv H. destruct Hin as [[]|[[]|Hp]]. assumption.
  - assert (Hkeep : forall t1, (exists ext, t1 = t ++ ext) -> find_res t r O <> None -> find_res t1 r O <> None).
    { intros t1 [ext ->] Hp. destruct (find_res t r O) as [i|] eqn:E; [rewrite (find_res_app _ ext _ _ _ E); discriminate|contradiction]. }
    assert (Hhere : find_res (fst (intern t r)) r O <> None).
    { pose proof (intern_points r t) as Hp. unfold points in Hp. rewrite Hp. discriminate. }
    assert (Hnext : forall t1, (exists ext, t1 = t ++ ext) -> (v = EAlloc r \/ v = EIns (IApush r) -> t1 = fst (intern t r)) ->
              In (EAlloc r) tl \/ In (EIns (IApush r)) tl \/ find_res t1 r O <> None).
    { intros t1 Hext Hv. destruct Hin as [[Hq|Hq]|[[Hq|Hq]|Hp]].
      - right. right. rewrite (Hv (or_introl Hq)). exact Hhere.
      - left. exact Hq.
      - right. right. rewrite (Hv (or_intror Hq)). exact Hhere.
      - right. left. exact Hq.
      - right. right. apply (Hkeep _ Hext Hp). }
    destruct v as [r0|i].
    + simpl in H. apply (IH _ _ _ r H). apply (Hnext _ (intern_ext r0 t)). intros [Hq|Hq]; inv Hq. reflexivity.
    + assert (no_operand i \/ exists o, i = IApush o) as [Hn|[o ->]] by (destruct i; simpl; eauto).
      * rewrite (assign_no_operand i tl t Hn) in H. destruct (assign tl t) as [is0 t2] eqn:E. inv H. apply (IH _ _ _ r E).
        apply (Hnext t). { exists []. rewrite app_nil_r. reflexivity. } intros [Hq|Hq]; inv Hq. contradiction.
      * simpl in H. destruct (intern t o) as [t1 a] eqn:Ei. destruct (assign tl t1) as [is0 t2] eqn:E. inv H. apply (IH _ _ _ r E).
        replace t1 with (fst (intern t o)) by (rewrite Ei; reflexivity). apply (Hnext _ (intern_ext o t)). intros [Hq|Hq]; inv Hq. reflexivity.
Qed.

Lemma ty_eqb_refl t : ty_eqb t t = true.
Proof. destruct t; reflexivity. Qed.

Section VarsPhase.
Variable given : list (string * value).
Variable s : store.
Variable tF : list rdesc.

(* allocating the account / asset resources a meta() or balance() origin refers to: constants or earlier variables *)
Lemma origin_allocs te ve e bv t vals bvs (evs0 : list event) :
  vinv te ve e bv t vals bvs ->
  Forall (fun v => exists r, v = EAlloc r /\ rok e r /\ (is_const r \/ (var_name r <> None /\ find_res t r O <> None))) evs0 ->
  forall is t1, assign evs0 t = (is, t1) ->
  is = [] /\ exists ext, t1 = t ++ ext /\ Forall is_const ext /\ tinv e t1 (vals ++ map (denote e) ext) /\
    forall post, tF = t1 ++ post -> vm_resolve (map (concretize tF) ext) given s vals bvs = Ok (vals ++ map (denote e) ext, bvs).
Proof.
  intros Hi Hf is t1 Ha.
  assert (Forall (simple_alloc t) evs0) as Hs.
  { eapply Forall_impl; [|exact Hf]. intros v [r [-> [_ [Hc|[Hv Hp]]]]]; destruct r; simpl in *; try contradiction; auto; exfalso; apply Hv; reflexivity. }
  destruct (assign_simple _ _ _ _ Hs Ha) as [His [ext [He Hc]]]. split; [assumption|].
  assert (Forall (fun v => match v with EAlloc r | EIns (IApush r) => rok e r /\ rpresent t r | _ => True end) evs0) as Hf2.
  { eapply Forall_impl; [|exact Hf]. intros v [r [-> [Hr [Hc0|[Hv Hp]]]]]; split; try assumption; destruct r; simpl in *; try contradiction; auto. }
  destruct (assign_resolve e given s evs0 t vals bvs is t1 Ha (vi_tab _ _ _ _ _ _ _ Hi) Hf2) as [ext' [He' [Ht' Hr']]].
  assert (ext' = ext) by (apply (app_inv_head t); congruence). subst ext'.
  exists ext. split; [exact He|]. split; [exact Hc|]. split; [exact Ht'|]. intros post Hp. apply (Hr' tF post Hp).
Qed.

Lemma vars_phase ds : forall te te' ve e bv t vals bvs evs ve' is t',
  vinv te ve e bv t vals bvs ->
  chk_vars te ds = Some te' -> gen_vars ve ds = (evs, ve') -> assign evs t = (is, t') ->
  (exists post, tF = t' ++ post) -> set_vars ds given = true ->
  exists ext, t' = t ++ ext /\
  match resolve_vars ds given s e bv with
  | Ok (e', bv') => exists vals' bvs', vm_resolve (map (concretize tF) ext) given s vals bvs = Ok (vals', bvs') /\ vinv te' ve' e' bv' t' vals' bvs'
  | Err x => vm_resolve (map (concretize tF) ext) given s vals bvs = Err x
  | Panic => False
  end.
Proof.
  induction ds as [|d tl IH]; intros te te' ve e bv t vals bvs evs ve' is t' Hi Hk Hg Ha HtF Hsv; simpl in Hk, Hg, Hsv.
  - inv Hk. inv Hg. simpl in Ha. inv Ha. exists []. rewrite app_nil_r. split; [reflexivity|].
    simpl. exists vals, bvs. split; [reflexivity|assumption].
  - destruct (declared te (vname d)) eqn:Ed; [discriminate|].
    set (r := match vorigin d with
              | ONone => RVar (vty d) (vname d)
              | OMeta a k => RVarMeta (vty d) (vname d) (res_acc ve a) k
              | OBalance a s0 => RVarBal (vname d) (res_acc ve a) (res_asset ve s0)
              end).
    set (evs0 := match vorigin d with
                 | ONone => []
                 | OMeta a k => [EAlloc (res_acc ve a)]
                 | OBalance a s0 => [EAlloc (res_acc ve a); EAlloc (res_asset ve s0)]
                 end).
    assert (var_name r = Some (vname d)) as Hr by (unfold r; destruct (vorigin d); reflexivity).
    destruct (match vorigin d with ONone => true | OMeta a _ => chk_acc te a | OBalance a s0 => ty_eqb (vty d) TMonetary && chk_acc te a && chk_asset te s0 end) eqn:Ho; [|discriminate].
    assert (exists rest, gen_vars (ve ++ [(vname d, r)]) tl = (rest, ve') /\ evs = evs0 ++ [EAlloc r] ++ rest) as [rest [Hg' He]].
    { unfold r, evs0. destruct (vorigin d) as [|a k|a s0]; destruct (gen_vars _ tl) as [rest ve''] eqn:Eg; inv Hg; exists rest; split; reflexivity. }
    subst evs. rewrite assign_app in Ha. destruct (assign evs0 t) as [i0 t1] eqn:E0.
    simpl in Ha.
    assert (fst (intern t1 r) = fst (intern1 t1 r)) as Hint by (unfold r; destruct (vorigin d); reflexivity).
    rewrite Hint in Ha. destruct (assign rest (fst (intern1 t1 r))) as [i2 t2] eqn:E2. injection Ha as His Ht2. subst is t'.
    (* typing facts for the origin *)
    pose proof (vi_cons _ _ _ _ _ _ _ Hi) as Ic. pose proof (vi_ve _ _ _ _ _ _ _ Hi) as Ive.
    assert (Hrokve : forall y r0, lookup ve y = Some r0 -> rok e r0) by (intros y r0 Hl; apply (vi_rok _ _ _ _ _ _ _ Hi _ _ Hl)).
    assert (Hacc : forall a, chk_acc te a = true ->
              rok e (res_acc ve a) /\ denote e (res_acc ve a) = XV (VAccount (eval_acc e a)) /\ closed te (res_acc ve a) /\
              (is_const (res_acc ve a) \/ (var_name (res_acc ve a) <> None /\ find_res t (res_acc ve a) O <> None))).
    { intros a Hc. split; [apply (rok_acc te e ve Ic Ive (rok e) (fun c => I) Hrokve a Hc)|]. split; [apply (denote_acc te e ve Ic Ive a Hc)|].
      destruct a as [sa|y]; simpl; [split; [intros z []|left; exact I]|].
      destruct (Ive _ _ (has_ty_lookup te _ _ Hc)) as [r0 [Hl Hn]]. unfold rvar. rewrite Hl.
      destruct (vi_rok _ _ _ _ _ _ _ Hi _ _ Hl) as [_ [P C]]. split; [assumption|]. right. split; [congruence|assumption]. }
    assert (Hasset : forall a, chk_asset te a = true ->
              rok e (res_asset ve a) /\ denote e (res_asset ve a) = XV (VAsset (eval_asset e a)) /\ closed te (res_asset ve a) /\
              (is_const (res_asset ve a) \/ (var_name (res_asset ve a) <> None /\ find_res t (res_asset ve a) O <> None))).
    { intros a Hc. split; [apply (rok_asset te e ve Ic Ive (rok e) (fun c => I) Hrokve a Hc)|]. split; [apply (denote_asset te e ve Ic Ive a Hc)|].
      destruct a as [sa|y]; simpl; [split; [intros z []|left; exact I]|].
      destruct (Ive _ _ (has_ty_lookup te _ _ Hc)) as [r0 [Hl Hn]]. unfold rvar. rewrite Hl.
      destruct (vi_rok _ _ _ _ _ _ _ Hi _ _ Hl) as [_ [P C]]. split; [assumption|]. right. split; [congruence|assumption]. }
    (* the origin's resources *)
    assert (Forall (fun v => exists r0, v = EAlloc r0 /\ rok e r0 /\ (is_const r0 \/ (var_name r0 <> None /\ find_res t r0 O <> None))) evs0) as Hf0.
    { unfold evs0. destruct (vorigin d) as [|a k|a s0]; [constructor| |].
      - destruct (Hacc a Ho) as [R1 [_ [_ R4]]]. constructor; [eexists; eauto|constructor].
      - apply andb_prop in Ho. destruct Ho as [Ho Hs0]. apply andb_prop in Ho. destruct Ho as [_ Ha0].
        destruct (Hacc a Ha0) as [R1 [_ [_ R4]]]. destruct (Hasset s0 Hs0) as [S1 [_ [_ S4]]].
        constructor; [eexists; eauto|constructor; [eexists; eauto|constructor]]. }
    destruct (origin_allocs te ve e bv t vals bvs evs0 Hi Hf0 i0 t1 E0) as [Hi0 [ext0 [Ht1 [Hc0 [Hta Hr0]]]]]. subst i0 t1.
    destruct (const_facts ext0 Hc0) as [Tv0 [Cc0 Cn0]].
    (* the variable itself is new *)
    assert (find_res (t ++ ext0) r O = None) as Hnew.
    { apply (find_res_var_none _ _ (vname d) Hr). intros r' Hin Hq. apply in_app_or in Hin. destruct Hin as [Hin|Hin].
      - pose proof (vi_names _ _ _ _ _ _ _ Hi _ _ Hin Hq). congruence.
      - apply (Cn0 _ _ Hin Hq). }
    unfold intern1 in E2. rewrite Hnew in E2. simpl in E2.
    destruct HtF as [post HtF].
    destruct (assign_ext _ _ _ _ E2) as [ext2 Hext2].
    assert (tF = (t ++ ext0) ++ ([r] ++ ext2 ++ post)) as HtF0 by (rewrite HtF, Hext2, <- !app_assoc; reflexivity).
    (* reading the origin's resources from the table *)
    assert (Hread : forall r0, In (EAlloc r0) evs0 -> nth_error (vals ++ map (denote e) ext0) (addr_of tF r0) = Some (denote e r0)).
    { intros r0 Hin. apply (lookup_tab e (t ++ ext0) _ tF ([r] ++ ext2 ++ post) r0 Hta); [|exact HtF0].
      apply (assign_present _ _ _ _ r0 E0). left. assumption. }
    assert (Hlen : List.length (vals ++ map (denote e) ext0) = List.length (t ++ ext0)) by apply Hta.
    (* common tail: once the variable has value v, continue with the rest of the block *)
    assert (Hcont : forall v bv1 bvs1, ty_of v = vty d -> rok (e ++ [(vname d, v)]) r -> closed (te ++ [(vname d, vty d)]) r ->
              denote (e ++ [(vname d, v)]) r = XV v ->
              (bv1 = bv /\ bvs1 = bvs \/ exists k, bv1 = bv ++ [(vname d, k)] /\ bvs1 = bvs ++ [(List.length (t ++ ext0), k)]) ->
              set_vars tl given = true ->
              vm_resolve [concretize tF r] given s (vals ++ map (denote e) ext0) bvs = Ok ((vals ++ map (denote e) ext0) ++ [XV v], bvs1) ->
              exists ext, t2 = t ++ ext /\
                match resolve_vars tl given s (e ++ [(vname d, v)]) bv1 with
                | Ok (e', bv') => exists vals' bvs', vm_resolve (map (concretize tF) ext) given s vals bvs = Ok (vals', bvs') /\ vinv te' ve' e' bv' t2 vals' bvs'
                | Err x0 => vm_resolve (map (concretize tF) ext) given s vals bvs = Err x0
                | Panic => False
                end).
    { intros v bv1 bvs1 Hty Hrk Hcl Hden Hb Hsv' Hvm.
      pose proof (vinv_step te ve e bv t vals bvs (vname d) (vty d) r v ext0 bv1 bvs1 Hi Ed Hr Hty Hc0 Hta Hrk Hcl Hden Hb) as Hi1.
      destruct (IH _ _ _ _ _ _ _ _ _ _ _ _ Hi1 Hk Hg' E2 (ex_intro _ post HtF) Hsv') as [extr [Her Hm]].
      exists (ext0 ++ [r] ++ extr). split; [rewrite Her, <- !app_assoc; reflexivity|].
      assert (Heq : vm_resolve (map (concretize tF) (ext0 ++ [r] ++ extr)) given s vals bvs =
                    vm_resolve (map (concretize tF) extr) given s ((vals ++ map (denote e) ext0) ++ [XV v]) bvs1).
      { rewrite !map_app, vm_resolve_app, (Hr0 ([r] ++ ext2 ++ post) HtF0). unfold bind at 1. cbv beta iota.
        rewrite vm_resolve_app. change (map (concretize tF) [r]) with [concretize tF r]. rewrite Hvm. unfold bind at 1. cbv beta iota. reflexivity. }
      rewrite Heq. exact Hm. }
    (* an error at this variable *)
    assert (Hfail : forall x0, vm_resolve [concretize tF r] given s (vals ++ map (denote e) ext0) bvs = Err x0 ->
              exists ext, t2 = t ++ ext /\ vm_resolve (map (concretize tF) ext) given s vals bvs = Err x0).
    { intros x0 Hvm. exists (ext0 ++ [r] ++ ext2). split; [rewrite Hext2, <- !app_assoc; reflexivity|].
      rewrite !map_app, vm_resolve_app, (Hr0 ([r] ++ ext2 ++ post) HtF0). unfold bind at 1. cbv beta iota.
      rewrite vm_resolve_app. change (map (concretize tF) [r]) with [concretize tF r]. rewrite Hvm. reflexivity. }
    (* by origin *)
    unfold r in *. clear r. unfold evs0 in *. clear evs0.
    destruct (vorigin d) as [|a k|a s0] eqn:Eo; simpl resolve_vars; rewrite Eo.
    + (* plain variable *) destruct (lookup given (vname d)) as [v|] eqn:Eg; [|discriminate].
      apply andb_prop in Hsv. destruct Hsv as [Hsv Hsv']. apply andb_prop in Hsv. destruct Hsv as [Hty _]. apply ty_eqb_eq in Hty.
      apply (Hcont v bv bvs Hty I).
      * intros y [<-|[]]. rewrite declared_app, String.eqb_refl. apply orb_true_r.
      * simpl. rewrite lookup_app, (lookup_fresh _ _ _ Ic Ed). simpl. rewrite String.eqb_refl. reflexivity.
      * left. auto.
      * assumption.
      * simpl. rewrite Eg. reflexivity.
    + (* meta *) destruct (Hacc a Ho) as [R1 [R2 [R3 R4]]].
      assert (nth_error (vals ++ map (denote e) ext0) (addr_of tF (res_acc ve a)) = Some (XV (VAccount (eval_acc e a)))) as Hn
        by (rewrite (Hread _ (or_introl eq_refl)); rewrite R2; reflexivity).
      destruct (bget (st_meta s) (eval_acc e a, k)) as [v|] eqn:Em.
      * destruct (ty_eqb (ty_of v) (vty d) && validate_value v) eqn:Ev.
        -- apply andb_prop in Ev. destruct Ev as [Hty Hval]. apply ty_eqb_eq in Hty.
           apply (Hcont v bv bvs Hty).
           ++ simpl. split; [apply (rok_ext te); assumption|]. rewrite (denote_ext te e _ _ _ Ic R3), R2. eexists. reflexivity.
           ++ intros y [<-|Hy]; [rewrite declared_app, String.eqb_refl; apply orb_true_r|apply (closed_ext te _ _ _ R3 y Hy)].
           ++ simpl. rewrite lookup_app, (lookup_fresh _ _ _ Ic Ed). simpl. rewrite String.eqb_refl. reflexivity.
           ++ left. auto.
           ++ assumption.
           ++ simpl. rewrite Hn, Em, Hty, ty_eqb_refl, Hval. reflexivity.
        -- apply Hfail. simpl. rewrite Hn, Em, Ev. reflexivity.
      * apply Hfail. simpl. rewrite Hn, Em. reflexivity.
    + (* balance *) apply andb_prop in Ho. destruct Ho as [Ho Hs0]. apply andb_prop in Ho. destruct Ho as [Hty Ha0]. apply ty_eqb_eq in Hty.
      destruct (Hacc a Ha0) as [R1 [R2 [R3 R4]]]. destruct (Hasset s0 Hs0) as [S1 [S2 [S3 S4]]].
      assert (nth_error (vals ++ map (denote e) ext0) (addr_of tF (res_acc ve a)) = Some (XV (VAccount (eval_acc e a)))) as Hn
        by (rewrite (Hread _ (or_introl eq_refl)); rewrite R2; reflexivity).
      assert (nth_error (vals ++ map (denote e) ext0) (addr_of tF (res_asset ve s0)) = Some (XV (VAsset (eval_asset e s0)))) as Hm
        by (rewrite (Hread _ (or_intror (or_introl eq_refl))); rewrite S2; reflexivity).
      apply (Hcont (VMonetary (eval_asset e s0) None) (bv ++ [(vname d, (eval_acc e a, eval_asset e s0))])
                   (bvs ++ [(List.length (t ++ ext0), (eval_acc e a, eval_asset e s0))])).
      * simpl. symmetry. exact Hty.
      * simpl. repeat split; [apply (rok_ext te); assumption|rewrite (denote_ext te e _ _ _ Ic R3), R2; eexists; reflexivity
                             |apply (rok_ext te); assumption|rewrite (denote_ext te e _ _ _ Ic S3), S2; eexists; reflexivity].
      * intros y [<-|Hy]; [rewrite declared_app, String.eqb_refl; apply orb_true_r|].
        apply in_app_or in Hy. destruct Hy as [Hy|Hy]; [apply (closed_ext te _ _ _ R3 y Hy)|apply (closed_ext te _ _ _ S3 y Hy)].
      * simpl. rewrite lookup_app, (lookup_fresh _ _ _ Ic Ed). simpl. rewrite String.eqb_refl. reflexivity.
      * right. eexists. split; reflexivity.
      * assumption.
      * simpl. rewrite Hn, Hm, Hlen. reflexivity.
Qed.
End VarsPhase.

(* ====================================================================== the shape of the table (no semantics) *)
Record sinv (te : tenv) (ve : venv) (t : list rdesc) : Prop := {
  si_ve : venv_ok te ve;
  si_dom : forall x r, lookup ve x = Some r -> declared te x = true;
  si_pres : forall x r, lookup ve x = Some r -> find_res t r O <> None;
  si_names : forall r x, In r t -> var_name r = Some x -> declared te x = true
}.

Lemma vars_table ds : forall te te' ve t evs ve' is t', sinv te ve t ->
  chk_vars te ds = Some te' -> gen_vars ve ds = (evs, ve') -> assign evs t = (is, t') ->
  is = [] /\ exists ext, t' = t ++ ext /\ tvars ext = plain_of ds /\ sinv te' ve' t'.
Proof.
  induction ds as [|d tl IH]; intros te te' ve t evs ve' is t' Hi Hk Hg Ha; simpl in Hk, Hg.
  - inv Hk. inv Hg. simpl in Ha. inv Ha. split; [reflexivity|]. exists []. rewrite app_nil_r. split; [reflexivity|]. split; [reflexivity|]. exact Hi.
  - destruct (declared te (vname d)) eqn:Ed; [discriminate|].
    set (r := match vorigin d with
              | ONone => RVar (vty d) (vname d)
              | OMeta a k => RVarMeta (vty d) (vname d) (res_acc ve a) k
              | OBalance a s0 => RVarBal (vname d) (res_acc ve a) (res_asset ve s0)
              end).
    set (evs0 := match vorigin d with
                 | ONone => []
                 | OMeta a k => [EAlloc (res_acc ve a)]
                 | OBalance a s0 => [EAlloc (res_acc ve a); EAlloc (res_asset ve s0)]
                 end).
    assert (var_name r = Some (vname d)) as Hr by (unfold r; destruct (vorigin d); reflexivity).
    destruct (match vorigin d with ONone => true | OMeta a _ => chk_acc te a | OBalance a s0 => ty_eqb (vty d) TMonetary && chk_acc te a && chk_asset te s0 end) eqn:Ho; [|discriminate].
    assert (exists rest, gen_vars (ve ++ [(vname d, r)]) tl = (rest, ve') /\ evs = evs0 ++ [EAlloc r] ++ rest) as [rest [Hg' He]].
    { unfold r, evs0. destruct (vorigin d) as [|a k|a s0]; destruct (gen_vars _ tl) as [rest ve''] eqn:Eg; inv Hg; exists rest; split; reflexivity. }
    subst evs. rewrite assign_app in Ha. destruct (assign evs0 t) as [i0 t1] eqn:E0. simpl in Ha.
    assert (fst (intern t1 r) = fst (intern1 t1 r)) as Hint by (unfold r; destruct (vorigin d); reflexivity).
    rewrite Hint in Ha. destruct (assign rest (fst (intern1 t1 r))) as [i2 t2] eqn:E2. injection Ha as His Ht2. subst is t'.
    pose proof (si_ve _ _ _ Hi) as Ive.
    assert (Hacc : forall a, chk_acc te a = true -> simple_alloc t (EAlloc (res_acc ve a))).
    { intros [sa|y] Hc; simpl; [exact I|]. destruct (Ive _ _ (has_ty_lookup te _ _ Hc)) as [r0 [Hl Hn]]. unfold rvar. rewrite Hl.
      pose proof (si_pres _ _ _ Hi _ _ Hl). destruct r0; simpl in Hn; try discriminate; assumption. }
    assert (Hasset : forall a, chk_asset te a = true -> simple_alloc t (EAlloc (res_asset ve a))).
    { intros [sa|y] Hc; simpl; [exact I|]. destruct (Ive _ _ (has_ty_lookup te _ _ Hc)) as [r0 [Hl Hn]]. unfold rvar. rewrite Hl.
      pose proof (si_pres _ _ _ Hi _ _ Hl). destruct r0; simpl in Hn; try discriminate; assumption. }
    assert (Forall (simple_alloc t) evs0) as Hs0.
    { unfold evs0. destruct (vorigin d) as [|a k|a s0]; [constructor|constructor; [apply Hacc; assumption|constructor]|].
      apply andb_prop in Ho. destruct Ho as [Ho Hs0]. apply andb_prop in Ho. destruct Ho as [_ Ha0].
      constructor; [apply Hacc; assumption|constructor; [apply Hasset; assumption|constructor]]. }
    destruct (assign_simple _ _ _ _ Hs0 E0) as [Hi0 [ext0 [Ht1 Hc0]]]. subst i0 t1.
    destruct (const_facts ext0 Hc0) as [Tv0 [_ Cn0]].
    assert (find_res (t ++ ext0) r O = None) as Hnew.
    { apply (find_res_var_none _ _ (vname d) Hr). intros r' Hin Hq. apply in_app_or in Hin. destruct Hin as [Hin|Hin].
      - pose proof (si_names _ _ _ Hi _ _ Hin Hq). congruence.
      - apply (Cn0 _ _ Hin Hq). }
    unfold intern1 in E2. rewrite Hnew in E2. simpl in E2.
    assert (sinv (te ++ [(vname d, vty d)]) (ve ++ [(vname d, r)]) ((t ++ ext0) ++ [r])) as Hi1.
    { constructor.
      - intros y t0 Hl. rewrite lookup_app in Hl. rewrite lookup_app. destruct (lookup te y) as [t1|] eqn:E.
        + inv Hl. destruct (Ive _ _ E) as [r0 [Hr0 Hn0]]. rewrite Hr0. exists r0. auto.
        + simpl in Hl. destruct (String.eqb (vname d) y) eqn:Ex; [|discriminate]. apply String.eqb_eq in Ex. subst y.
          destruct (lookup ve (vname d)) as [r0|] eqn:E1; [pose proof (si_dom _ _ _ Hi _ _ E1); congruence|]. simpl. rewrite String.eqb_refl. exists r. auto.
      - intros y r0 Hl. rewrite declared_app. rewrite lookup_app in Hl. destruct (lookup ve y) as [r1|] eqn:E1.
        + rewrite (si_dom _ _ _ Hi _ _ E1). reflexivity.
        + simpl in Hl. destruct (String.eqb (vname d) y); [apply orb_true_r|discriminate].
      - intros y r0 Hl. rewrite lookup_app in Hl. destruct (lookup ve y) as [r1|] eqn:E1.
        + inv Hl. pose proof (si_pres _ _ _ Hi _ _ E1) as Hp. destruct (find_res t r0 O) as [i|] eqn:Ef; [|contradiction].
          rewrite <- app_assoc, (find_res_app _ _ _ _ _ Ef). discriminate.
        + simpl in Hl. destruct (String.eqb (vname d) y); [|discriminate]. inv Hl. rewrite (find_res_new _ _ _ Hnew). discriminate.
      - intros r0 y Hin Hn. rewrite declared_app. apply in_app_or in Hin. destruct Hin as [Hin|[<-|[]]].
        + apply in_app_or in Hin. destruct Hin as [Hin|Hin]; [rewrite (si_names _ _ _ Hi _ _ Hin Hn); reflexivity|exfalso; apply (Cn0 _ _ Hin Hn)].
        + rewrite Hr in Hn. inv Hn. rewrite String.eqb_refl. apply orb_true_r. }
    destruct (IH _ _ _ _ _ _ _ _ Hi1 Hk Hg' E2) as [Hi2 [extr [Her [Htv Hsi]]]]. subst i2. split; [reflexivity|].
    exists (ext0 ++ [r] ++ extr). split; [rewrite Her, <- !app_assoc; reflexivity|]. split; [|assumption].
    rewrite !tvars_app, Tv0, Htv. unfold r. simpl. destruct (vorigin d); reflexivity.
Qed.

(* ParseVariablesJSON on the table = on the declarations *)
Definition chk1 (given : list (string * value)) (xt : string * ty) : bool :=
  match lookup given (fst xt) with Some v => ty_eqb (ty_of v) (snd xt) && validate_value v | None => false end.

Lemma vm_set_vars_tvars tF given t : vm_set_vars (map (concretize tF) t) given = forallb (chk1 given) (tvars t).
Proof.
  induction t as [|r tl IH]; [reflexivity|]. destruct r; simpl; try assumption. unfold chk1 at 1. simpl.
  destruct (lookup given x); [|reflexivity]. rewrite IH. destruct (ty_eqb _ _ && _); reflexivity.
Qed.
Lemma set_vars_plain_of given ds : set_vars ds given = forallb (chk1 given) (plain_of ds).
Proof.
  induction ds as [|d tl IH]; [reflexivity|]. simpl. unfold plain_of. simpl. destruct (vorigin d); simpl; try assumption.
  unfold chk1 at 1. simpl. destruct (lookup given (vname d)); [|reflexivity]. fold (plain_of tl). rewrite <- IH.
  destruct (ty_eqb _ _ && _); reflexivity.
Qed.
Lemma vm_plain_names_tvars tF t : vm_plain_names (map (concretize tF) t) = map fst (tvars t).
Proof. induction t as [|r tl IH]; [reflexivity|]. destruct r; simpl; try assumption. f_equal. assumption. Qed.
Lemma plain_names_plain_of ds : plain_names ds = map fst (plain_of ds).
Proof. induction ds as [|d tl IH]; [reflexivity|]. unfold plain_names, plain_of in *. simpl. destruct (vorigin d); simpl; try assumption. f_equal. assumption. Qed.

(* allocating resources whose variables are present adds no variable entry *)
Lemma intern1_novar r t ext : (find_res t r O <> None \/ var_name r = None) -> fst (intern1 t r) = t ++ ext -> tvars ext = [].
Proof.
  intros Hc He. unfold intern1 in He. destruct (find_res t r O) eqn:Ef; simpl in He.
  - assert (ext = []) by (apply (app_inv_head t); rewrite app_nil_r; symmetry; assumption). subst. reflexivity.
  - assert (ext = [r]) by (apply (app_inv_head t); symmetry; assumption). subst. destruct Hc as [Hc|Hc]; [contradiction|].
    destruct r; simpl in Hc; try discriminate; reflexivity.
Qed.

Lemma intern_novar : forall r t ext, rpresent t r -> fst (intern t r) = t ++ ext -> tvars ext = [].
Proof.
  induction r as [c|ty x|ty x acc IHa k|x acc IHa asset IHs|ra IH n]; intros t ext Hp He; simpl in He, Hp.
  - apply (intern1_novar (RConst c) t ext (or_intror eq_refl) He).
  - apply (intern1_novar _ _ _ (or_introl Hp) He).
  - apply (intern1_novar _ _ _ (or_introl Hp) He).
  - apply (intern1_novar _ _ _ (or_introl Hp) He).
  - destruct (intern_ext ra t) as [e1 He1]. rewrite He1 in He. unfold intern1 in He.
    destruct (find_res (t ++ e1) (RMon ra n) O); simpl in He.
    + assert (ext = e1) by (apply (app_inv_head t); symmetry; assumption). subst. apply (IH t e1 Hp He1).
    + rewrite <- app_assoc in He. assert (ext = e1 ++ [RMon ra n]) by (apply (app_inv_head t); symmetry; assumption). subst.
      rewrite tvars_app, (IH t e1 Hp He1). reflexivity.
Qed.

Lemma assign_novar evs : forall t is t', assign evs t = (is, t') ->
  Forall (fun v => match v with EAlloc r | EIns (IApush r) => rpresent t r | _ => True end) evs ->
  exists ext, t' = t ++ ext /\ tvars ext = [].
Proof.
  induction evs as [|v tl IH]; intros t is t' H Hf.
  - simpl in H. inv H. exists []. rewrite app_nil_r. auto.
  - pose proof (Forall_inv Hf) as Hh. pose proof (Forall_inv_tail Hf) as Ht. clear Hf.
    assert (Hstep : forall r is0, rpresent t r -> assign tl (fst (intern t r)) = (is0, t') -> exists ext, t' = t ++ ext /\ tvars ext = []).
    { intros r is0 Hp Ha. destruct (intern_ext r t) as [e1 H1]. rewrite H1 in Ha.
      assert (Forall (fun v => match v with EAlloc r | EIns (IApush r) => rpresent (t ++ e1) r | _ => True end) tl) as Hf'.
      { eapply Forall_impl; [|exact Ht]. intros [r0|[]]; try (intros; exact I); apply rpresent_app. }
      destruct (IH _ _ _ Ha Hf') as [e2 [He2 Hv2]]. exists (e1 ++ e2). split; [rewrite He2, app_assoc; reflexivity|].
      rewrite tvars_app, (intern_novar r t e1 Hp H1), Hv2. reflexivity. }
    destruct v as [r|i].
    + simpl in H. apply (Hstep r is Hh H).
    + assert (no_operand i \/ exists o, i = IApush o) as [Hn|[o ->]] by (destruct i; simpl; eauto).
      * rewrite (assign_no_operand i tl t Hn) in H. destruct (assign tl t) as [is0 t2] eqn:E. inv H. apply (IH _ _ _ E Ht).
      * simpl in H. destruct (intern t o) as [t1 a] eqn:Ei. destruct (assign tl t1) as [is0 t2] eqn:E. inv H.
        apply (Hstep o is0 Hh). rewrite Ei. exact E.
Qed.
