(* ResolveResources / ResolveBalances on the concrete resource table the compiler emits: the resolved table holds,
   at every address, the denotation of the resource description in the environment of Sem. *)
From Coq Require Import List ZArith QArith String Bool Lia.
From LV Require Import Machine.Syntax Machine.Allot Machine.Lex Machine.Sem Machine.SemProofs Machine.EnvProofs
  Machine.Vm Machine.Compile Machine.VmRun Machine.CompileCorrect Machine.AssignCorrect Machine.GenWf.
Import ListNotations.
Open Scope Z_scope.

Definition tinv (e : env) (t : list rdesc) (vals : list vval) : Prop :=
  List.length vals = List.length t /\ tab_ok e t vals.

Lemma tinv_snoc e t vals r : tinv e t vals -> tinv e (t ++ [r]) (vals ++ [denote e r]).
Proof.
  intros [Hl Ht]. split; [rewrite !app_length, Hl; reflexivity|]. intros i x Hn.
  destruct (Nat.lt_ge_cases i (List.length t)) as [Hi|Hi].
  - rewrite nth_error_app1 in Hn by assumption. rewrite nth_error_app1 by lia. apply Ht. assumption.
  - rewrite nth_error_app2 in Hn by assumption. rewrite nth_error_app2 by lia. rewrite Hl.
    destruct (i - List.length t)%nat as [|j]; simpl in *; [inv Hn; reflexivity|destruct j; discriminate].
Qed.

Lemma vm_resolve_app given s a : forall b vals bvs,
  vm_resolve (a ++ b) given s vals bvs = do (v1, b1) <- vm_resolve a given s vals bvs; vm_resolve b given s v1 b1.
Proof.
  induction a as [|r tl IH]; intros b vals bvs; simpl; [reflexivity|].
  destruct r as [c|t x|t x acc k|x acc asset|asset n]; simpl;
    repeat match goal with
           | |- context[match ?x with _ => _ end] => destruct x; simpl; try reflexivity
           end; apply IH.
Qed.

(* variables are in the table; everything else can be allocated on the fly *)
Fixpoint rpresent (t : list rdesc) (r : rdesc) : Prop :=
  match r with
  | RConst _ => True
  | RMon ra _ => rpresent t ra
  | _ => find_res t r O <> None
  end.
Lemma rpresent_app t ext r : rpresent t r -> rpresent (t ++ ext) r.
Proof.
  induction r; simpl; auto; intros H; (destruct (find_res t _ O) as [i|] eqn:E; [rewrite (find_res_app _ ext _ _ _ E); discriminate|contradiction]).
Qed.

Section Res.
Variable e : env.
Variable given : list (string * value).
Variable s : store.

(* allocating r: the new table entries resolve to their denotations *)
Lemma intern_resolve : forall r t vals bvs ext, tinv e t vals -> rok e r -> rpresent t r ->
  fst (intern t r) = t ++ ext ->
  tinv e (t ++ ext) (vals ++ map (denote e) ext) /\
  forall tF post, tF = t ++ ext ++ post ->
    vm_resolve (map (concretize tF) ext) given s vals bvs = Ok (vals ++ map (denote e) ext, bvs).
Proof.
  assert (Hpres : forall r t vals bvs ext, tinv e t vals -> find_res t r O <> None -> fst (intern1 t r) = t ++ ext ->
            tinv e (t ++ ext) (vals ++ map (denote e) ext) /\
            forall tF post, tF = t ++ ext ++ post ->
              vm_resolve (map (concretize tF) ext) given s vals bvs = Ok (vals ++ map (denote e) ext, bvs)).
  { intros r t vals bvs ext Hi Hp He. unfold intern1 in He. destruct (find_res t r O); [|contradiction]. simpl in He.
    assert (ext = []) by (apply (app_inv_head t); rewrite app_nil_r; symmetry; assumption). subst ext.
    simpl. rewrite !app_nil_r. split; [assumption|reflexivity]. }
  induction r as [c|ty x|ty x acc IHa k|x acc IHa asset IHs|ra IH n]; intros t vals bvs ext Hi Hok Hp He; simpl in He, Hp;
    try (apply (Hpres _ _ _ _ _ Hi Hp He)).
  - (* constant *) unfold intern1 in He. destruct (find_res t (RConst c) O) as [i|] eqn:Ef; simpl in He.
    + assert (ext = []) by (apply (app_inv_head t); rewrite app_nil_r; symmetry; assumption). subst ext.
      simpl. rewrite !app_nil_r. split; [assumption|reflexivity].
    + assert (ext = [RConst c]) by (apply (app_inv_head t); symmetry; assumption). subst ext. simpl.
      split; [apply (tinv_snoc e t vals (RConst c) Hi)|reflexivity].
  - (* monetary *) destruct Hok as [Hok [sa Hsa]]. destruct (intern_ext ra t) as [e1 H1]. rewrite H1 in He.
    destruct (IH t vals bvs e1 Hi Hok Hp H1) as [Hi1 Hr1].
    pose proof (intern_points ra t) as Hpt. rewrite H1 in Hpt. unfold points in Hpt.
    unfold intern1 in He. destruct (find_res (t ++ e1) (RMon ra n) O) as [i|] eqn:Ef; simpl in He.
    + assert (ext = e1) by (apply (app_inv_head t); symmetry; assumption). subst ext.
      split; [assumption|]. intros tF post HtF. apply (Hr1 tF post HtF).
    + assert (ext = e1 ++ [RMon ra n]) by (apply (app_inv_head t); rewrite app_assoc; symmetry; assumption). subst ext.
      split; [pose proof (tinv_snoc e (t ++ e1) _ (RMon ra n) Hi1) as Hs; rewrite map_app; simpl; rewrite !app_assoc; exact Hs|].
      intros tF post HtF. rewrite !map_app, vm_resolve_app, (Hr1 tF ([RMon ra n] ++ post)) by (rewrite HtF, <- !app_assoc; reflexivity).
      simpl. unfold addr_of.
      assert (find_res tF ra O = Some (snd (intern t ra))) as Hf by (rewrite HtF, !app_assoc, <- (app_assoc t); apply find_res_app; rewrite app_assoc; apply find_res_app; assumption).
      rewrite Hf. destruct (find_res_spec _ _ _ _ Hpt) as [_ [r' [Hn Hq]]]. rewrite Nat.sub_0_r in Hn.
      rewrite (proj2 Hi1 _ _ Hn), (rdesc_eqb_denote e _ _ Hq), Hsa. simpl. rewrite <- app_assoc. reflexivity.
Qed.

(* the statement phase: all events refer to well-typed resources whose variables are already in the table *)
Lemma assign_resolve evs : forall t vals bvs is t', assign evs t = (is, t') -> tinv e t vals ->
  Forall (fun v => match v with EAlloc r | EIns (IApush r) => rok e r /\ rpresent t r | _ => True end) evs ->
  exists ext, t' = t ++ ext /\ tinv e t' (vals ++ map (denote e) ext) /\
    forall tF post, tF = t' ++ post -> vm_resolve (map (concretize tF) ext) given s vals bvs = Ok (vals ++ map (denote e) ext, bvs).
Proof.
  induction evs as [|v tl IH]; intros t vals bvs is t' H Hi Hf.
  - simpl in H. inv H. exists []. simpl. rewrite !app_nil_r. repeat split; try apply Hi. 
  - inv Hf.
    assert (Hstep : forall r t1, rok e r /\ rpresent t r -> fst (intern t r) = t1 ->
              forall is0, assign tl t1 = (is0, t') ->
              exists ext, t' = t ++ ext /\ tinv e t' (vals ++ map (denote e) ext) /\
                forall tF post, tF = t' ++ post -> vm_resolve (map (concretize tF) ext) given s vals bvs = Ok (vals ++ map (denote e) ext, bvs)).
    { intros r t1 [Hok Hp] Ht1 is0 Ha. destruct (intern_ext r t) as [e1 H1]. rewrite <- Ht1, H1 in Ha.
      destruct (intern_resolve r t vals bvs e1 Hi Hok Hp H1) as [Hi1 Hr1].
      assert (Forall (fun v => match v with EAlloc r | EIns (IApush r) => rok e r /\ rpresent (t ++ e1) r | _ => True end) tl) as Hf'.
      { eapply Forall_impl; [|exact H3]. intros [r0|[]]; try (intros; exact I); intros [A B]; split; try assumption; apply rpresent_app; assumption. }
      destruct (IH _ _ bvs _ _ Ha Hi1 Hf') as [e2 [He2 [Hi2 Hr2]]]. exists (e1 ++ e2).
      split; [rewrite He2, app_assoc; reflexivity|]. split; [rewrite map_app, app_assoc; exact Hi2|].
      intros tF post HtF. rewrite !map_app, vm_resolve_app, (Hr1 tF (e2 ++ post)) by (rewrite HtF, He2, <- !app_assoc; reflexivity).
      simpl. rewrite app_assoc. apply (Hr2 tF post). exact HtF. }
    destruct v as [r|i].
    + simpl in H. apply (Hstep r _ H2 eq_refl is H).
    + assert (no_operand i \/ exists o, i = IApush o) as [Hn|[o ->]] by (destruct i; simpl; eauto).
      * rewrite (assign_no_operand i tl t Hn) in H. destruct (assign tl t) as [is0 t2] eqn:E. inv H. apply (IH _ _ bvs _ _ E Hi H3).
      * simpl in H. destruct (intern t o) as [t1 a] eqn:Ei. destruct (assign tl t1) as [is0 t2] eqn:E. inv H.
        apply (Hstep o t1 H2 (f_equal fst Ei) is0 E).
Qed.
End Res.

(* ====================================================================== the vars block *)
Fixpoint rnames (r : rdesc) : list string :=
  match r with
  | RConst _ => []
  | RVar _ x => [x]
  | RVarMeta _ x acc _ => x :: rnames acc
  | RVarBal x acc asset => x :: rnames acc ++ rnames asset
  | RMon ra _ => rnames ra
  end.
Definition closed (te : tenv) (r : rdesc) : Prop := forall y, In y (rnames r) -> declared te y = true.

Lemma closed_ext te x t r : closed te r -> closed (te ++ [(x, t)]) r.
Proof. intros H y Hy. rewrite declared_app, (H y Hy). reflexivity. Qed.

Lemma lookup_snoc_other {V} (e : list (string * V)) x v y : lookup e y <> None -> lookup (e ++ [(x, v)]) y = lookup e y.
Proof. intros H. rewrite lookup_app. destruct (lookup e y); [reflexivity|contradiction]. Qed.

Lemma denote_ext te e x v r : cons_env te e -> closed te r -> denote (e ++ [(x, v)]) r = denote e r.
Proof.
  intros [C1 C2] Hc. assert (Hy : forall y, In y (rnames r) -> lookup (e ++ [(x, v)]) y = lookup e y).
  { intros y Hy. apply lookup_snoc_other. specialize (Hc y Hy). unfold declared in Hc. destruct (lookup te y) as [t|] eqn:E; [|discriminate].
    destruct (C1 _ _ E) as [v0 [H0 _]]. rewrite H0. discriminate. }
  clear Hc. induction r as [c|t y|t y acc IHa k|y acc IHa asset IHs|ra IH n]; simpl in *; try reflexivity;
    try (rewrite (Hy y (or_introl eq_refl)); reflexivity).
  rewrite IH; [reflexivity|assumption].
Qed.

Lemma rok_ext te e x v r : cons_env te e -> closed te r -> rok e r -> rok (e ++ [(x, v)]) r.
Proof.
  intros Hc. induction r as [c|t y|t y acc IHa k|y acc IHa asset IHs|ra IH n]; simpl; intros Hcl Hr; auto.
  - destruct Hr as [R1 R2]. assert (closed te acc) as Ha by (intros z Hz; apply Hcl; right; assumption).
    split; [apply IHa; assumption|]. rewrite (denote_ext te e x v acc Hc Ha). assumption.
  - destruct Hr as [R1 [R2 [R3 R4]]].
    assert (closed te acc) as Ha by (intros z Hz; apply Hcl; right; apply in_or_app; left; assumption).
    assert (closed te asset) as Hs by (intros z Hz; apply Hcl; right; apply in_or_app; right; assumption).
    repeat split; [apply IHa; assumption|rewrite (denote_ext te e x v acc Hc Ha); assumption|apply IHs; assumption|rewrite (denote_ext te e x v asset Hc Hs); assumption].
  - destruct Hr as [R1 R2]. split; [apply IH; assumption|]. rewrite (denote_ext te e x v ra Hc Hcl). assumption.
Qed.

Lemma find_res_var_none t r x : var_name r = Some x -> (forall r', In r' t -> var_name r' <> Some x) -> forall n, find_res t r n = None.
Proof.
  intros Hr. induction t as [|r0 tl IH]; intros Hn n; [reflexivity|]. simpl.
  assert (rdesc_eqb r0 r = false) as E.
  { pose proof (Hn r0 (or_introl eq_refl)) as H0. destruct r0, r; simpl in *; try reflexivity; try discriminate;
      inv Hr; destruct (String.eqb _ _) eqn:Eq; try reflexivity; apply String.eqb_eq in Eq; subst; exfalso; apply H0; reflexivity. }
  rewrite E. apply IH. intros r' Hin. apply Hn. right. assumption.
Qed.

(* the variable entries of a table *)
Definition tvars (t : list rdesc) : list (string * ty) := flat_map (fun r => match r with RVar ty x => [(x, ty)] | _ => [] end) t.
Definition plain_of (ds : list vardecl) : list (string * ty) :=
  flat_map (fun d => match vorigin d with ONone => [(vname d, vty d)] | _ => [] end) ds.
Lemma tvars_app a b : tvars (a ++ b) = tvars a ++ tvars b.
Proof. unfold tvars. apply flat_map_app. Qed.

Record vinv (te : tenv) (ve : venv) (e : env) (bv : list (string * key)) (t : list rdesc) (vals : list vval) (bvs : list (nat * key)) : Prop := {
  vi_cons : cons_env te e;
  vi_ve : venv_ok te ve;
  vi_dom : forall x r, lookup ve x = Some r -> declared te x = true;
  vi_rok : forall x r, lookup ve x = Some r -> rok e r /\ find_res t r O <> None /\ closed te r;
  vi_tab : tinv e t vals;
  vi_closed : forall r, In r t -> closed te r;
  vi_names : forall r x, In r t -> var_name r = Some x -> declared te x = true;
  vi_bv : map snd bvs = map snd bv /\
          forall j x k, nth_error bv j = Some (x, k) -> exists i r, nth_error bvs j = Some (i, k) /\ nth_error t i = Some r /\ var_name r = Some x
}.

Definition is_const (r : rdesc) : Prop := match r with RConst _ => True | _ => False end.
Definition simple_alloc (t : list rdesc) (v : event) : Prop :=
  match v with
  | EAlloc (RConst _) => True
  | EAlloc (RMon _ _) => False
  | EAlloc r => find_res t r O <> None
  | _ => False
  end.

Lemma assign_simple evs : forall t is t', Forall (simple_alloc t) evs -> assign evs t = (is, t') ->
  is = [] /\ exists ext, t' = t ++ ext /\ Forall is_const ext.
Proof.
  induction evs as [|v tl IH]; intros t is t' Hf H; simpl in H.
  - inv H. split; [reflexivity|]. exists []. rewrite app_nil_r. split; [reflexivity|constructor].
  - pose proof (Forall_inv Hf) as Hh. pose proof (Forall_inv_tail Hf) as H2. clear Hf. destruct v as [r|i]; [|contradiction].
    assert (exists ext1, fst (intern t r) = t ++ ext1 /\ Forall is_const ext1) as [e1 [H1 Hc1]].
    { destruct r as [c|ty x|ty x acc k|x acc asset|ra n]; simpl in Hh |- *; try contradiction;
        unfold intern1; try (destruct (find_res t _ O) as [i|]; [exists []; rewrite app_nil_r; split; [reflexivity|constructor]|contradiction]).
      destruct (find_res t (RConst c) O); simpl; [exists []; rewrite app_nil_r; split; [reflexivity|constructor]|].
      exists [RConst c]. split; [reflexivity|constructor; [exact I|constructor]]. }
    rewrite H1 in H.
    assert (Forall (simple_alloc (t ++ e1)) tl) as Hf'.
    { eapply Forall_impl; [|exact H2]. intros [[c|ty x|ty x acc k|x acc asset|ra n]|i]; simpl; auto;
        intros Hq; (destruct (find_res t _ O) as [j|] eqn:E; [rewrite (find_res_app _ e1 _ _ _ E); discriminate|contradiction]). }
    destruct (IH _ _ _ Hf' H) as [Hi [e2 [He2 Hc2]]]. split; [assumption|]. exists (e1 ++ e2). rewrite He2, app_assoc. split; [reflexivity|].
    apply Forall_app. split; assumption.
Qed.

Lemma assign_app a : forall b t, assign (a ++ b) t =
  (let (ia, ta) := assign a t in let (ib, tb) := assign b ta in (ia ++ ib, tb)).
Proof.
  induction a as [|v tl IH]; intros b t; simpl.
  - destruct (assign b t); reflexivity.
  - destruct v as [r|i].
    + apply IH.
    + destruct i; try (rewrite IH; destruct (assign tl t) as [ia ta]; destruct (assign b ta); reflexivity).
      destruct (intern t o) as [t1 a0]. rewrite IH. destruct (assign tl t1) as [ia ta]. destruct (assign b ta); reflexivity.
Qed.

Lemma const_facts ext : Forall is_const ext ->
  tvars ext = [] /\ (forall te r, In r ext -> closed te r) /\ (forall r x, In r ext -> var_name r <> Some x).
Proof.
  induction 1 as [|r ext Hr _ [I1 [I2 I3]]]; [repeat split; intros; try contradiction; reflexivity|].
  destruct r; try contradiction. repeat split.
  - simpl. assumption.
  - intros te r [<-|Hin]; [intros y []|apply I2; assumption].
  - intros r x [<-|Hin]; [discriminate|apply I3; assumption].
Qed.

(* reading the table at the address of a resource that is in it *)
Lemma lookup_tab e t vals tF post r : tinv e t vals -> find_res t r O <> None -> tF = t ++ post ->
  nth_error vals (addr_of tF r) = Some (denote e r).
Proof.
  intros [Hl Ht] Hf ->. destruct (find_res t r O) as [i|] eqn:E; [|contradiction]. unfold addr_of.
  rewrite (find_res_app _ post _ _ _ E). destruct (find_res_spec _ _ _ _ E) as [_ [r' [Hn Hq]]]. rewrite Nat.sub_0_r in Hn.
  rewrite (Ht _ _ Hn). rewrite (rdesc_eqb_denote e _ _ Hq). reflexivity.
Qed.

Section Vars.
Variable given : list (string * value).
Variable s : store.
Variable tF : list rdesc.

Lemma lookup_fresh te e x : cons_env te e -> declared te x = false -> lookup e x = None.
Proof.
  intros [_ C2] Hd. destruct (lookup e x) as [v|] eqn:E; [|reflexivity]. rewrite (C2 _ _ E) in Hd. discriminate.
Qed.

(* invariant after adding the variable x with resource r and value v, the table having grown by constants then r *)
Lemma vinv_step te ve e bv t vals bvs x ty r v ext bv1 bvs1 :
  vinv te ve e bv t vals bvs -> declared te x = false -> var_name r = Some x -> ty_of v = ty ->
  Forall is_const ext -> tinv e (t ++ ext) (vals ++ map (denote e) ext) ->
  rok (e ++ [(x, v)]) r -> closed (te ++ [(x, ty)]) r ->
  denote (e ++ [(x, v)]) r = XV v ->
  (bv1 = bv /\ bvs1 = bvs \/ exists k, bv1 = bv ++ [(x, k)] /\ bvs1 = bvs ++ [(List.length (t ++ ext), k)]) ->
  vinv (te ++ [(x, ty)]) (ve ++ [(x, r)]) (e ++ [(x, v)]) bv1 ((t ++ ext) ++ [r]) ((vals ++ map (denote e) ext) ++ [XV v]) bvs1.
Proof.
  intros [Ic Ive Idom Irok Itab Icl Inm Ibv] Hd Hr Hty Hext Hta Hrok Hclr Hden Hb.
  destruct (const_facts ext Hext) as [_ [Cc Cn]].
  assert (cons_env (te ++ [(x, ty)]) (e ++ [(x, v)])) as Ic' by (apply cons_env_snoc; assumption).
  assert (forall r0, In r0 (t ++ ext) -> closed te r0) as Icl'.
  { intros r0 Hin. apply in_app_or in Hin. destruct Hin; [apply Icl|apply Cc]; assumption. }
  constructor.
  - exact Ic'.
  - intros y t0 Hl. rewrite lookup_app in Hl. rewrite lookup_app. destruct (lookup te y) as [t1|] eqn:E.
    + inv Hl. destruct (Ive _ _ E) as [r0 [Hr0 Hn0]]. rewrite Hr0. exists r0. auto.
    + simpl in Hl. destruct (String.eqb x y) eqn:Ex; [|discriminate]. apply String.eqb_eq in Ex. subst y.
      destruct (lookup ve x) as [r0|] eqn:E0; [specialize (Idom _ _ E0); congruence|]. simpl. rewrite String.eqb_refl. exists r. auto.
  - intros y r0 Hl. rewrite declared_app. rewrite lookup_app in Hl. destruct (lookup ve y) as [r1|] eqn:E0.
    + rewrite (Idom _ _ E0). reflexivity.
    + simpl in Hl. destruct (String.eqb x y); [apply orb_true_r|discriminate].
  - intros y r0 Hl. rewrite lookup_app in Hl. destruct (lookup ve y) as [r1|] eqn:E0.
    + inv Hl. destruct (Irok _ _ E0) as [R1 [R2 R3]]. repeat split.
      * apply (rok_ext te); assumption.
      * destruct (find_res t r0 O) as [i|] eqn:Ef; [|contradiction]. rewrite <- app_assoc. rewrite (find_res_app _ _ _ _ _ Ef). discriminate.
      * apply closed_ext. assumption.
    + simpl in Hl. destruct (String.eqb x y); [|discriminate]. inv Hl. repeat split.
      * exact Hrok.
      * destruct (find_res (t ++ ext) r0 O) as [i|] eqn:Ef; [rewrite (find_res_app _ _ _ _ _ Ef); discriminate|].
        rewrite (find_res_new _ _ _ Ef). discriminate.
      * exact Hclr.
  - (* table *) assert (tinv (e ++ [(x, v)]) (t ++ ext) (vals ++ map (denote e) ext)) as Hta'.
    { destruct Hta as [Hl Ht]. split; [assumption|]. intros i r0 Hn. rewrite (Ht _ _ Hn).
      rewrite (denote_ext te e x v r0 Ic); [reflexivity|]. apply Icl'. apply (nth_error_In _ _ Hn). }
    pose proof (tinv_snoc _ _ _ r Hta') as Hs. rewrite Hden in Hs. exact Hs.
  - intros r0 Hin. apply in_app_or in Hin. destruct Hin as [Hin|[<-|[]]]; [apply closed_ext; apply Icl'; assumption|exact Hclr].
  - intros r0 y Hin Hn. rewrite declared_app. apply in_app_or in Hin. destruct Hin as [Hin|[<-|[]]].
    + apply in_app_or in Hin. destruct Hin as [Hin|Hin]; [rewrite (Inm _ _ Hin Hn); reflexivity|exfalso; apply (Cn _ _ Hin Hn)].
    + rewrite Hr in Hn. inv Hn. rewrite String.eqb_refl. apply orb_true_r.
  - destruct Ibv as [B1 B2].
    assert (forall j y k, nth_error bv j = Some (y, k) -> exists i r0, nth_error bvs j = Some (i, k) /\ nth_error ((t ++ ext) ++ [r]) i = Some r0 /\ var_name r0 = Some y) as B2'.
    { intros j y k Hj. destruct (B2 _ _ _ Hj) as [i [r0 [H1 [H2 H3]]]]. exists i, r0. repeat split; try assumption.
      rewrite <- app_assoc. rewrite nth_error_app1; [assumption|]. apply nth_error_Some. congruence. }
    destruct Hb as [[-> ->]|[k [-> ->]]].
    + split; assumption.
    + split; [rewrite !map_app, B1; reflexivity|]. intros j y k0 Hj.
      assert (List.length bvs = List.length bv) as Hlen by (rewrite <- (map_length snd bvs), B1, map_length; reflexivity).
      destruct (Nat.lt_ge_cases j (List.length bv)) as [Hlt|Hge].
      * rewrite nth_error_app1 in Hj by assumption. destruct (B2' _ _ _ Hj) as [i [r0 [H1 H2]]]. exists i, r0.
        split; [rewrite nth_error_app1 by lia; assumption|assumption].
      * rewrite nth_error_app2 in Hj by assumption. destruct (j - List.length bv)%nat as [|j'] eqn:Ej; [|destruct j'; discriminate].
        simpl in Hj. inv Hj. exists (List.length (t ++ ext)), r. repeat split.
        -- rewrite nth_error_app2 by lia. replace (j - List.length bvs)%nat with O by lia. reflexivity.
        -- rewrite nth_error_app2 by lia. rewrite Nat.sub_diag. reflexivity.
        -- assumption.
Qed.
End Vars.
