(* Balance accounting of Machine/Sem.v for one tracked (account, asset) pair k whose account is not "world":
   - conservation: what a funding holds for k was withdrawn from k's tracked balance ([shifted]);
   - C22: tracked balance after a statement = before + effect of its postings (- save);
   - C23: a lower bound on the tracked balance survives every source/destination. *)
From Coq Require Import List ZArith QArith String Bool Lia.
From LV Require Import Machine.Syntax Machine.Allot Machine.AllotProofs Machine.Lex Machine.Sem Machine.SemProofs.
Import ListNotations.
Open Scope Z_scope.

(* ---------- keys ---------- *)
Lemma key_eqb_eq a b : key_eqb a b = true <-> a = b.
Proof.
  unfold key_eqb. destruct a as [a1 a2], b as [b1 b2]; simpl. rewrite andb_true_iff, !String.eqb_eq.
  split; [intros [-> ->]; reflexivity|intros H; inv H; auto].
Qed.
Lemma key_eqb_refl k : key_eqb k k = true.
Proof. apply key_eqb_eq. reflexivity. Qed.
Lemma key_eqb_sym a b : key_eqb a b = key_eqb b a.
Proof.
  destruct (key_eqb a b) eqn:E1, (key_eqb b a) eqn:E2; try reflexivity.
  - apply key_eqb_eq in E1. subst. rewrite key_eqb_refl in E2. discriminate.
  - apply key_eqb_eq in E2. subst. rewrite key_eqb_refl in E1. discriminate.
Qed.

Lemma bget_bupd b k' k f : bget (bupd b k' f) k = if key_eqb k' k then option_map f (bget b k) else bget b k.
Proof.
  induction b as [|[k0 v] r IH]; simpl; [destruct (key_eqb k' k); reflexivity|].
  destruct (key_eqb k0 k') eqn:E0; simpl.
  - apply key_eqb_eq in E0. subst k0. destruct (key_eqb k' k); reflexivity.
  - destruct (key_eqb k0 k) eqn:E1.
    + apply key_eqb_eq in E1. subst k0. rewrite key_eqb_sym, E0. reflexivity.
    + apply IH.
Qed.

(* the tracked balance of k moves by d; tracked stays tracked, untracked stays untracked *)
Definition shifted (b b1 : bals) (k : key) (d : Z) : Prop :=
  match bget b k with
  | Some v => exists w, bget b1 k = Some w /\ w = v + d
  | None => bget b1 k = None
  end.

Lemma shifted_refl b k d : d = 0 -> shifted b b k d.
Proof. intros ->. unfold shifted. destruct (bget b k) as [v|]; [exists v; split; [reflexivity|lia]|reflexivity]. Qed.

Lemma shifted_trans b b1 b2 k d1 d2 d : shifted b b1 k d1 -> shifted b1 b2 k d2 -> d = d1 + d2 -> shifted b b2 k d.
Proof.
  unfold shifted. intros H1 H2 ->. destruct (bget b k) as [v|].
  - destruct H1 as [w [H1 ->]]. rewrite H1 in H2. destruct H2 as [w2 [H2 ->]]. exists (v + d1 + d2). split; [assumption|lia].
  - rewrite H1 in H2. assumption.
Qed.

Lemma shifted_eq b b1 k d d' : shifted b b1 k d -> d' = d -> shifted b b1 k d'.
Proof. intros H ->. assumption. Qed.

Lemma bupd_shifted b k' k f d : (forall v, f v = v + d) -> shifted b (bupd b k' f) k (if key_eqb k' k then d else 0).
Proof.
  intros Hf. unfold shifted. rewrite bget_bupd. destruct (bget b k) as [v|]; destruct (key_eqb k' k); simpl; try reflexivity.
  - exists (f v). split; [reflexivity|apply Hf].
  - exists v. split; [reflexivity|lia].
Qed.

Section Key.
Variable k : key.
Hypothesis Hworld : fst k <> "world"%string.

Fixpoint owed_parts (l : list part) : Z :=
  match l with [] => 0 | (a, x) :: r => (if String.eqb a (fst k) then x else 0) + owed_parts r end.
Definition fowed (f : funding) : Z := if String.eqb (fasset f) (snd k) then owed_parts (fparts f) else 0.

Lemma owed_parts_app a b : owed_parts (a ++ b) = owed_parts a + owed_parts b.
Proof. induction a as [|[x v] a IH]; simpl; [reflexivity|]. rewrite IH. lia. Qed.
Lemma owed_parts_rev a : owed_parts (rev a) = owed_parts a.
Proof. induction a as [|[x v] a IH]; simpl; [reflexivity|]. rewrite owed_parts_app, IH. simpl. lia. Qed.
Lemma owed_parts_nonneg P l : parts_ok P l -> 0 <= owed_parts l.
Proof. induction 1 as [|[a x] l [_ Hx] _ IH]; simpl in *; [lia|]. destruct (String.eqb a (fst k)); lia. Qed.
Lemma fowed_nonneg P f : fok P f -> 0 <= fowed f.
Proof. unfold fowed, fok. intros H. destruct (String.eqb _ _); [apply (owed_parts_nonneg P); assumption|lia]. Qed.

Lemma key_eqb_split acc asset : key_eqb (acc, asset) k = String.eqb acc (fst k) && String.eqb asset (snd k).
Proof. reflexivity. Qed.

(* ---------- fundings ---------- *)
Lemma take_loop_owed ps : forall rem r m lft, take_loop rem ps = (r, m, lft) -> owed_parts r + owed_parts m = owed_parts ps.
Proof.
  induction ps as [|[a x] tl IH]; intros rem r m lft H; simpl in H.
  - inv H. reflexivity.
  - destruct (0 <? rem).
    + destruct (rem <? x).
      * inv H. simpl. destruct (String.eqb a (fst k)); lia.
      * destruct (take_loop (rem - x) tl) as [[r' m'] l'] eqn:E3. inv H. specialize (IH _ _ _ _ E3). simpl. lia.
    + inv H. simpl. lia.
Qed.

Lemma take_owed amt f res rem : take amt f = Ok (res, rem) -> fowed res + fowed rem = fowed f.
Proof.
  unfold take, fowed. destruct (take_loop amt (fparts f)) as [[r m] lft] eqn:E. destruct (lft =? 0); [|discriminate].
  intros H. inv H. simpl. pose proof (take_loop_owed _ _ _ _ _ E) as Ho.
  destruct (String.eqb (fasset f) (snd k)); [|reflexivity]. rewrite owed_parts_app.
  destruct (fparts f) as [|[a x] tl]; simpl in *; [lia|].
  destruct (amt =? 0) eqn:Ez; simpl; [apply Z.eqb_eq in Ez; subst amt; destruct (String.eqb a (fst k)); lia|lia].
Qed.

Lemma take_max_owed amt f taken rem : take_max amt f = (taken, rem) -> fowed taken + fowed rem = fowed f.
Proof.
  unfold take_max, fowed. destruct (take_loop amt (fparts f)) as [[r m] lft] eqn:E. intros H. inv H. simpl.
  pose proof (take_loop_owed _ _ _ _ _ E). destruct (String.eqb (fasset f) (snd k)); lia.
Qed.

Lemma concat_parts_owed l : forall r, owed_parts (concat_parts l r) = owed_parts l + owed_parts r.
Proof.
  induction l as [|[a x] l' IH]; intros r; [reflexivity|]. destruct l' as [|q l''].
  - destruct r as [|[b y] r']; simpl; [lia|]. destruct (String.eqb a b) eqn:E; simpl; [|lia].
    apply String.eqb_eq in E. subst b. destruct (String.eqb a (fst k)); lia.
  - rewrite concat_parts_cons2. change (owed_parts ((a, x) :: concat_parts (q :: l'') r)) with
      ((if String.eqb a (fst k) then x else 0) + owed_parts (concat_parts (q :: l'') r)).
    rewrite IH. simpl. lia.
Qed.

Lemma fold_concat_owed fs : forall acc,
  owed_parts (fold_left (fun acc f => concat_parts acc (fparts f)) fs acc)
  = owed_parts acc + fold_right (fun f s => owed_parts (fparts f) + s) 0 fs.
Proof. induction fs as [|f fs IH]; intros acc; simpl; [lia|]. rewrite IH, concat_parts_owed. lia. Qed.

Lemma assemble_owed fs f : assemble fs = Ok f -> fowed f = fold_right (fun g s => fowed g + s) 0 fs.
Proof.
  intros H. destruct (assemble_spec anyacc _ _ H) as [_ [Ha _]]. unfold assemble in H.
  destruct (rev fs) as [|lastf tl]; [discriminate|]. destruct (forallb _ fs); [|discriminate]. inv H.
  unfold fowed at 1. simpl fasset in *. simpl fparts. rewrite fold_concat_owed. simpl.
  induction fs as [|g gs IH]; simpl.
  - destruct (String.eqb _ _); reflexivity.
  - inv Ha. specialize (IH H2). unfold fowed at 1. simpl in H1. rewrite H1.
    destruct (String.eqb (fasset lastf) (snd k)); lia.
Qed.

Lemma assemble2_owed a b f : assemble [a; b] = Ok f -> fowed f = fowed a + fowed b.
Proof. intros H. rewrite (assemble_owed _ _ H). simpl. lia. Qed.

Lemma freverse_owed f : fowed (freverse f) = fowed f.
Proof. unfold fowed, freverse. simpl. rewrite owed_parts_rev. reflexivity. Qed.

(* ---------- balance primitives ---------- *)
Lemma withdraw_all_shift b acc asset od f b1 : withdraw_all b acc asset od = Ok (f, b1) -> shifted b b1 k (- fowed f).
Proof.
  unfold withdraw_all. destruct (bget b (acc, asset)) as [x|] eqn:Ex; [|discriminate].
  destruct (0 <? x + oz od).
  - destruct od as [o|]; [|discriminate]. intros H. inv H. unfold shifted, fowed. simpl. rewrite bget_bupd, key_eqb_split.
    destruct (String.eqb acc (fst k)) eqn:E1; destruct (String.eqb asset (snd k)) eqn:E2; simpl;
      try (destruct (bget b k) as [v|]; [exists v; split; [reflexivity|lia]|reflexivity]).
    apply String.eqb_eq in E1, E2. subst. destruct k as [k1 k2]. simpl in *. rewrite Ex. simpl.
    exists (- o). split; [reflexivity|lia].
  - intros H. inv H. apply shifted_refl. unfold fowed. simpl. destruct (String.eqb asset (snd k)), (String.eqb acc (fst k)); lia.
Qed.

Lemma withdraw_always_shift b acc asset amt f b1 : withdraw_always b acc asset amt = (f, b1) -> shifted b b1 k (- fowed f).
Proof.
  unfold withdraw_always. intros H. inv H.
  eapply shifted_eq; [apply (bupd_shifted _ _ _ _ (- amt)); intros; lia|].
  unfold fowed. simpl. rewrite key_eqb_split.
  destruct (String.eqb acc (fst k)), (String.eqb asset (snd k)); simpl; lia.
Qed.

Lemma repay_parts_shift asset ps : forall b,
  shifted b (repay_parts b asset ps) k (if String.eqb asset (snd k) then owed_parts ps else 0).
Proof.
  induction ps as [|[a x] r IH]; intros b; simpl.
  - apply shifted_refl. destruct (String.eqb asset (snd k)); reflexivity.
  - destruct (String.eqb a "world") eqn:Ew.
    + apply String.eqb_eq in Ew. subst a. eapply shifted_eq; [apply IH|].
      destruct (String.eqb "world" (fst k)) eqn:E; [apply String.eqb_eq in E; exfalso; apply Hworld; symmetry; assumption|].
      destruct (String.eqb asset (snd k)); lia.
    + eapply shifted_trans; [apply (bupd_shifted b (a, asset) k (fun v => v + x) x); intros; lia|apply IH|].
      rewrite key_eqb_split. destruct (String.eqb a (fst k)), (String.eqb asset (snd k)); simpl; lia.
Qed.

Lemma repay_shift b f : shifted b (repay b f) k (fowed f).
Proof. unfold repay, fowed. apply repay_parts_shift. Qed.

Lemma credit_shift b dst f :
  shifted b (credit b dst f) k (if String.eqb dst (fst k) && String.eqb (fasset f) (snd k) then total f else 0).
Proof.
  unfold credit, total. destruct (String.eqb dst "world") eqn:Ew.
  - apply String.eqb_eq in Ew. subst dst. apply shifted_refl.
    destruct (String.eqb "world" (fst k)) eqn:E; [apply String.eqb_eq in E; exfalso; apply Hworld; symmetry; assumption|reflexivity].
  - generalize b. induction (fparts f) as [|[a x] r IH]; intros b0; simpl.
    + apply shifted_refl. destruct (_ && _); reflexivity.
    + eapply shifted_trans; [apply (bupd_shifted b0 (dst, fasset f) k (fun v => v + snd (a, x)) x); intros; simpl; lia|apply IH|].
      rewrite key_eqb_split. destruct (String.eqb dst (fst k) && String.eqb (fasset f) (snd k)); lia.
Qed.

Lemma send_to_effect dst f :
  effect (fst k) (snd k) (map (fun p => {| psrc := fst p; pdst := dst; passet := fasset f; pamt := snd p |}) (fparts f))
  = (if String.eqb dst (fst k) && String.eqb (fasset f) (snd k) then total f else 0) - fowed f.
Proof.
  unfold fowed, total. induction (fparts f) as [|[a x] r IH]; simpl.
  - destruct (_ && _), (String.eqb (fasset f) (snd k)); reflexivity.
  - rewrite IH. destruct (String.eqb (fasset f) (snd k)), (String.eqb dst (fst k)), (String.eqb a (fst k)); simpl; lia.
Qed.

Lemma send_to_shift dst f b b1 ps : send_to dst f b = (b1, ps) -> shifted b b1 k (effect (fst k) (snd k) ps + fowed f).
Proof.
  unfold send_to. intros H. inv H. eapply shifted_eq; [apply credit_shift|]. rewrite send_to_effect. lia.
Qed.

(* ---------- sources ---------- *)
Variable e : env.

Lemma take_max_fb_shift fb f ma mo b r b1 : take_max_fb e fb f ma mo b = Ok (r, b1) -> shifted b b1 k (fowed f - fowed r).
Proof.
  unfold take_max_fb. destruct mo as [x|]; [|discriminate]. destruct (x <? 0); [discriminate|].
  destruct (negb _); [discriminate|]. destruct (take_max x f) as [taken rem] eqn:Et.
  pose proof (take_max_owed _ _ _ _ Et) as Ho. destruct fb as [fa|].
  - destruct (withdraw_always (repay b rem) (eval_acc e fa) ma _) as [f2 b2] eqn:Ew. intros H.
    dobind H r0 Er. inv H. rewrite (assemble2_owed _ _ _ Er).
    eapply shifted_trans; [apply repay_shift|apply (withdraw_always_shift _ _ _ _ _ _ Ew)|]. lia.
  - intros H. inv H. eapply shifted_eq; [apply repay_shift|]. lia.
Qed.

Lemma take_from_source_shift fb f ma mo b r b1 : take_from_source e fb f ma mo b = Ok (r, b1) -> shifted b b1 k (fowed f - fowed r).
Proof.
  unfold take_from_source. destruct fb as [fa|]; [apply take_max_fb_shift|].
  destruct (negb _); [discriminate|]. destruct mo as [x|]; [|discriminate]. intros H.
  dobind H rr Et. destruct rr as [res rem]. inv H. pose proof (take_owed _ _ _ _ Et).
  eapply shifted_eq; [apply repay_shift|]. lia.
Qed.

Lemma eval_source_shift :
  (forall s A b f b1, eval_source e A s b = Ok (f, b1) -> shifted b b1 k (- fowed f)) /\
  (forall l A b fs b1, eval_sources e A l b = Ok (fs, b1) -> shifted b b1 k (- fold_right (fun g s => fowed g + s) 0 fs)).
Proof.
  apply source_mutind.
  - intros a o A b f b1 H. simpl in H. destruct o as [|m|].
    + destruct (is_world a); [inv H; eapply withdraw_always_shift; reflexivity|apply (withdraw_all_shift _ _ _ _ _ _ H)].
    + dobind H mm Em. destruct mm as [ma mo]. apply (withdraw_all_shift _ _ _ _ _ _ H).
    + inv H. eapply withdraw_always_shift; reflexivity.
  - intros m s IH A b f b1 H. simpl in H. dobind H fb Es. destruct fb as [f0 b0].
    dobind H mm Em. destruct mm as [ma mo].
    assert (shifted b0 b1 k (fowed f0 - fowed f)) as Hs by (destruct (fallback_of s); apply (take_max_fb_shift _ _ _ _ _ _ _ H)).
    eapply shifted_trans; [apply (IH _ _ _ _ Es)|exact Hs|]. lia.
  - intros l IH A b f b1 H. simpl in H. dobind H fb Es. destruct fb as [fs b0]. dobind H f0 Ea. inv H.
    rewrite (assemble_owed _ _ Ea). apply (IH _ _ _ _ Es).
  - intros A b fs b1 H. simpl in H. inv H. apply shifted_refl. reflexivity.
  - intros s IHs l IHl A b fs b1 H. simpl in H. dobind H fb Es. destruct fb as [f0 b0].
    dobind H gb El. destruct gb as [gs b2]. inv H.
    eapply shifted_trans; [apply (IHs _ _ _ _ Es)|apply (IHl _ _ _ _ El)|]. simpl. lia.
Qed.

Lemma eval_alloc_sources_shift A ma : forall l parts b fs b1, eval_alloc_sources e A ma l parts b = Ok (fs, b1) ->
  shifted b b1 k (- fold_right (fun g s => fowed g + s) 0 fs).
Proof.
  induction l as [|[p s] tl IH]; intros parts b fs b1 H; simpl in H.
  - destruct parts; inv H; apply shifted_refl; reflexivity.
  - destruct parts as [|x ptl]; [inv H; apply shifted_refl; reflexivity|].
    dobind H fb Es. destruct fb as [f0 b0]. dobind H rb Et. destruct rb as [res b2].
    dobind H gb El. destruct gb as [gs b3]. inv H.
    eapply shifted_trans; [apply (proj1 eval_source_shift _ _ _ _ _ Es)|
      eapply shifted_trans; [apply (take_from_source_shift _ _ _ _ _ _ _ Et)|apply (IH _ _ _ _ El)|reflexivity]|].
    simpl. lia.
Qed.

Lemma eval_vsource_shift m vs b f b1 : eval_vsource e m vs b = Ok (f, b1) -> shifted b b1 k (- fowed f).
Proof.
  unfold eval_vsource. destruct vs as [s|l]; intros H.
  - dobind H fb Es. destruct fb as [f0 b0]. dobind H mm Em. destruct mm as [ma mo].
    eapply shifted_trans; [apply (proj1 eval_source_shift _ _ _ _ _ Es)|apply (take_from_source_shift _ _ _ _ _ _ _ H)|]. lia.
  - dobind H mm Em. destruct mm as [ma mo]. dobind H al Ea. destruct mo as [x|]; [|discriminate].
    dobind H fb Es. destruct fb as [fs b0]. dobind H f0 Ef. inv H.
    rewrite (assemble_owed _ _ Ef). apply (eval_alloc_sources_shift _ _ _ _ _ _ _ Es).
Qed.

(* ---------- destinations ---------- *)
Definition dshift (f lf : funding) (b b1 : bals) (ps : list npost) : Prop :=
  shifted b b1 k (fowed f - fowed lf + effect (fst k) (snd k) ps).

Lemma eval_dest_shift :
  (forall d f b lf b1 ps, eval_dest e d f b = Ok (lf, b1, ps) -> dshift f lf b b1 ps) /\
  (forall kd f b lf b1 ps, eval_kod e kd f b = Ok (lf, b1, ps) -> dshift f lf b b1 ps) /\
  (forall l f kk b lf k1 b1 ps, eval_dmaxes e l f kk b = Ok (lf, k1, b1, ps) -> dshift f lf b b1 ps) /\
  (forall l parts f b lf b1 ps, eval_dallots e l parts f b = Ok (lf, b1, ps) -> dshift f lf b b1 ps).
Proof.
  apply dest_mutind; unfold dshift.
  - intros a f b lf b1 ps H. simpl in H. dobind H rr Et. destruct rr as [res rem].
    inv H. pose proof (take_owed _ _ _ _ Et).
    eapply shifted_eq; [apply (send_to_shift (eval_acc e a) res b _ _ eq_refl)|]. simpl. lia.
  - intros l IHl r IHr f b lf b1 ps H. simpl in H.
    dobind H x1 E1. destruct x1 as [[[f1 kk] b2] ps1]. dobind H x2 E2. destruct x2 as [res rem].
    dobind H x3 E3. destruct x3 as [[lf3 b3] ps3]. dobind H out E4. inv H.
    pose proof (take_owed _ _ _ _ E2) as Ho. rewrite freverse_owed in Ho.
    rewrite (assemble2_owed _ _ _ E4), freverse_owed, effect_app.
    eapply shifted_trans; [apply (IHl _ _ _ _ _ _ _ E1)|apply (IHr _ _ _ _ _ E3)|]. rewrite freverse_owed. lia.
  - intros l IHl f b lf b1 ps H. simpl in H. dobind H al Ea. apply (IHl _ _ _ _ _ _ H).
  - intros f b lf b1 ps H. simpl in H. inv H. apply shifted_refl. simpl. lia.
  - intros d IH f b lf b1 ps H. simpl in H. apply (IH _ _ _ _ _ H).
  - intros f kk b lf k1 b1 ps H. simpl in H. inv H. apply shifted_refl. simpl. lia.
  - intros m kd IHk tl IHt f kk b lf k1 b1 ps H. simpl in H.
    dobind H mm Em. destruct mm as [ma mo]. destruct mo as [x|]; [|discriminate].
    destruct (x <? 0); [discriminate|]. destruct (negb _); [discriminate|].
    destruct (take_max x f) as [taken rem] eqn:Et. pose proof (take_max_owed _ _ _ _ Et) as Ho.
    dobind H x1 E1. destruct x1 as [[lf1 b2] ps1]. dobind H f1 E2. dobind H x2 E3. destruct x2 as [[[f2 k2] b3] ps2]. inv H.
    pose proof (assemble2_owed _ _ _ E2) as Ha. rewrite effect_app.
    eapply shifted_trans; [apply (IHk _ _ _ _ _ E1)|apply (IHt _ _ _ _ _ _ _ E3)|]. lia.
  - intros parts f b lf b1 ps H. simpl in H. inv H. apply shifted_refl. simpl. lia.
  - intros p kd IHk tl IHt parts f b lf b1 ps H. simpl in H. destruct parts as [|x ptl].
    + inv H. apply shifted_refl. simpl. lia.
    + dobind H x0 E0. destruct x0 as [res rem]. pose proof (take_owed _ _ _ _ E0) as Ho.
      dobind H x1 E1. destruct x1 as [[lf1 b2] ps1]. dobind H f1 E2. dobind H x2 E3. destruct x2 as [[f2 b3] ps2]. inv H.
      pose proof (assemble2_owed _ _ _ E2) as Ha. rewrite effect_app.
      eapply shifted_trans; [apply (IHk _ _ _ _ _ E1)|apply (IHt _ _ _ _ _ _ E3)|]. lia.
Qed.

(* ---------- statements ---------- *)
Lemma exec_send_shift m vs d b b' ps : exec_send e m vs d b = Ok (b', ps) -> shifted b b' k (effect (fst k) (snd k) ps).
Proof.
  unfold exec_send. intros H. dobind H fb Ev. destruct fb as [f b1]. dobind H x1 Ed. destruct x1 as [[lf b2] ps1]. inv H.
  eapply shifted_trans; [apply (eval_vsource_shift _ _ _ _ _ Ev)|
    eapply shifted_trans; [apply (proj1 eval_dest_shift _ _ _ _ _ _ Ed)|apply repay_shift|reflexivity]|]. lia.
Qed.

Lemma exec_send_all_shift a s d b b' ps : exec_send_all e a s d b = Ok (b', ps) -> shifted b b' k (effect (fst k) (snd k) ps).
Proof.
  unfold exec_send_all. intros H. dobind H fb Ev. destruct fb as [f b1].
  destruct (negb (src_plain s) && negb (String.eqb (fasset f) (eval_asset e a))); [discriminate|].
  dobind H x1 Ed. destruct x1 as [[lf b2] ps1]. inv H.
  eapply shifted_trans; [apply (proj1 eval_source_shift _ _ _ _ _ Ev)|
    eapply shifted_trans; [apply (proj1 eval_dest_shift _ _ _ _ _ _ Ed)|apply repay_shift|reflexivity]|]. lia.
Qed.

(* what `save` removed from k *)
Definition saved_for (l : list (key * Z)) : Z := fold_right (fun ka s => (if key_eqb (fst ka) k then snd ka else 0) + s) 0 l.
Lemma saved_for_app a b : saved_for (a ++ b) = saved_for a + saved_for b.
Proof. induction a; simpl; lia. Qed.

Definition state_inv (b0 : bals) (ms : mstate) : Prop :=
  shifted b0 (mbal ms) k (effect (fst k) (snd k) (List.concat (mposts ms)) - saved_for (msaved ms)).

Lemma concat_snoc {A} (l : list (list A)) x : List.concat (l ++ [x]) = List.concat l ++ x.
Proof. rewrite concat_app. simpl. rewrite app_nil_r. reflexivity. Qed.

Lemma exec_stmt_inv b0 s ms ms1 : exec_stmt e s ms = Ok ms1 -> state_inv b0 ms -> state_inv b0 ms1.
Proof.
  unfold state_inv. destruct s; simpl; intros H Hi.
  - dobind H x E. destruct x as [b ps]. inv H. simpl. rewrite concat_snoc, effect_app.
    eapply shifted_trans; [exact Hi|apply (exec_send_shift _ _ _ _ _ _ E)|]. lia.
  - dobind H x E. destruct x as [b ps]. inv H. simpl. rewrite concat_snoc, effect_app.
    eapply shifted_trans; [exact Hi|apply (exec_send_all_shift _ _ _ _ _ _ E)|]. lia.
  - dobind H x E. inv H. simpl. rewrite concat_snoc, app_nil_r. exact Hi.
  - dobind H x E. inv H. simpl. rewrite concat_snoc, app_nil_r. exact Hi.
  - destruct (leaf_value e m) as [asset o]. inv H. simpl. rewrite concat_snoc, app_nil_r, saved_for_app. simpl.
    eapply shifted_trans; [exact Hi|apply (bupd_shifted _ _ _ _ (- save_amount (mbal ms) (eval_acc e a, asset) false (oz o))); intros; lia|].
    destruct (key_eqb (eval_acc e a, asset) k); lia.
  - inv H. simpl. rewrite concat_snoc, app_nil_r, saved_for_app. simpl.
    eapply shifted_trans; [exact Hi|apply (bupd_shifted _ _ _ _ (- save_amount (mbal ms) (eval_acc e acc, eval_asset e a) true 0)); intros; lia|].
    destruct (key_eqb (eval_acc e acc, eval_asset e a) k); lia.
  - discriminate.
Qed.

Lemma exec_stmts_inv b0 l : forall ms ms1, exec_stmts e l ms = Ok ms1 -> state_inv b0 ms -> state_inv b0 ms1.
Proof.
  induction l as [|s tl IH]; intros ms ms1 H Hi; simpl in H; [inv H; assumption|].
  dobind H ms0 E. apply (IH _ _ H). apply (exec_stmt_inv _ _ _ _ E Hi).
Qed.

(* ====================================================================== C23: lower bounds *)
Definition lbd (c : Z) (b : bals) : Prop := forall v, bget b k = Some v -> c <= v.

Lemma shifted_lbd b b1 c d : shifted b b1 k d -> 0 <= d -> lbd c b -> lbd c b1.
Proof.
  unfold shifted, lbd. intros Hs Hd Hl v Hv. destruct (bget b k) as [w|].
  - destruct Hs as [w1 [H1 ->]]. rewrite H1 in Hv. inv Hv. specialize (Hl _ eq_refl). lia.
  - rewrite Hs in Hv. discriminate.
Qed.

Lemma repay_lbd b f c : fok anyacc f -> lbd c b -> lbd c (repay b f).
Proof. intros Hf. apply (shifted_lbd _ _ _ _ (repay_shift b f)). apply (fowed_nonneg anyacc). assumption. Qed.

Lemma send_to_lbd dst f b b1 ps c : send_to dst f b = (b1, ps) -> fok anyacc f -> lbd c b -> lbd c b1.
Proof.
  unfold send_to. intros H Hf. inv H. apply (shifted_lbd _ _ _ _ (credit_shift b dst f)).
  pose proof (parts_ok_nonneg _ _ Hf). unfold total. destruct (_ && _); lia.
Qed.

(* every account of the source that can be overdrawn without limit is another account than k's; every
   `overdraft up to` clause on k's account, in k's asset, is at most B *)
Fixpoint src_bound (B : Z) (s : source) : Prop :=
  match s with
  | SAccount a OdNone => True
  | SAccount a (OdUpTo m) => eval_acc e a = fst k -> forall A o, eval_mon e m = Ok (A, Some o) -> A = snd k -> o <= B
  | SAccount a OdUnbounded => eval_acc e a <> fst k
  | SMaxed _ s' => src_bound B s'
  | SInOrder l => srcs_bound B l
  end
with srcs_bound (B : Z) (l : sources) : Prop :=
  match l with SNil => True | SCons s tl => src_bound B s /\ srcs_bound B tl end.

Lemma is_world_eval a : is_world a = true -> eval_acc e a = "world"%string.
Proof. destruct a as [s|x]; simpl; [intros H; apply String.eqb_eq; assumption|discriminate]. Qed.

Lemma fallback_not_k B :
  (forall s, src_bound B s -> forall fa, fallback_of s = Some fa -> eval_acc e fa <> fst k) /\
  (forall l, srcs_bound B l -> forall fa, fallbacks_of l = Some fa -> eval_acc e fa <> fst k).
Proof.
  apply source_mutind.
  - intros a o Hb fa H. simpl in *. destruct o.
    + destruct (is_world a) eqn:Ew; inv H. rewrite (is_world_eval _ Ew). intros Hq. apply Hworld. symmetry. assumption.
    + discriminate.
    + inv H. assumption.
  - intros m s _ _ fa H. discriminate.
  - intros l IH Hb fa H. apply (IH Hb _ H).
  - intros _ fa H. discriminate.
  - intros s IHs l IHl [Hs Hl] fa H. simpl in H. destruct l; [apply (IHs Hs _ H)|apply (IHl Hl _ H)].
Qed.

Lemma bupd_other_lbd b k' f c : key_eqb k' k = false -> lbd c b -> lbd c (bupd b k' f).
Proof. unfold lbd. intros Hk Hl v Hv. rewrite bget_bupd, Hk in Hv. apply Hl. assumption. Qed.

Lemma key_other acc asset : acc <> fst k -> key_eqb (acc, asset) k = false.
Proof. intros H. rewrite key_eqb_split. destruct (String.eqb acc (fst k)) eqn:E; [apply String.eqb_eq in E; contradiction|reflexivity]. Qed.

Lemma withdraw_all_lbd b acc asset od f b1 c :
  withdraw_all b acc asset od = Ok (f, b1) -> lbd c b ->
  ((acc, asset) = k -> forall o, od = Some o -> c <= - o) -> lbd c b1.
Proof.
  unfold withdraw_all. destruct (bget b (acc, asset)) as [x|]; [|discriminate]. destruct (0 <? x + oz od).
  - destruct od as [o|]; [|discriminate]. intros H Hl Ho. inv H. unfold lbd. intros v Hv. rewrite bget_bupd in Hv.
    destruct (key_eqb (acc, asset) k) eqn:E; [|apply Hl; assumption].
    apply key_eqb_eq in E. destruct (bget b k); [|discriminate]. simpl in Hv. inv Hv. apply (Ho E _ eq_refl).
  - intros H Hl _. inv H. assumption.
Qed.

Lemma take_max_fb_lbd fb f ma mo b r b1 c : take_max_fb e fb f ma mo b = Ok (r, b1) -> fok anyacc f ->
  (forall fa, fb = Some fa -> eval_acc e fa <> fst k) -> lbd c b -> lbd c b1.
Proof.
  unfold take_max_fb. destruct mo as [x|]; [|discriminate]. destruct (x <? 0); [discriminate|].
  destruct (negb _); [discriminate|]. destruct (take_max x f) as [taken rem] eqn:Et.
  intros H Hf Hfb Hl. destruct (take_max_spec anyacc _ _ _ _ Et) as [_ [_ [_ [T4 _]]]]. destruct (T4 Hf) as [_ K2].
  pose proof (repay_lbd b rem c K2 Hl) as Hl1. destruct fb as [fa|].
  - unfold withdraw_always in H. simpl in H. dobind H r0 Er. inv H.
    apply bupd_other_lbd; [apply key_other; apply Hfb; reflexivity|assumption].
  - inv H. assumption.
Qed.

Lemma take_from_source_lbd fb f ma mo b r b1 c : take_from_source e fb f ma mo b = Ok (r, b1) -> fok anyacc f ->
  (forall fa, fb = Some fa -> eval_acc e fa <> fst k) -> lbd c b -> lbd c b1.
Proof.
  unfold take_from_source. destruct fb as [fa|]; [apply take_max_fb_lbd|].
  destruct (negb _); [discriminate|]. destruct mo as [x|]; [|discriminate]. intros H Hf _ Hl.
  dobind H rr Et. destruct rr as [res rem]. inv H. destruct (take_ok anyacc _ _ _ _ Et Hf) as [_ K2]. apply repay_lbd; assumption.
Qed.

Section Bound.
Variable B c : Z.
Hypothesis HB : 0 <= B.
Hypothesis Hc : c <= - B.

Lemma eval_source_lbd :
  (forall s A b f b1, eval_source e A s b = Ok (f, b1) -> src_bound B s -> lbd c b -> lbd c b1) /\
  (forall l A b fs b1, eval_sources e A l b = Ok (fs, b1) -> srcs_bound B l -> lbd c b -> lbd c b1).
Proof.
  pose proof (proj1 (src_accs_any e)) as Hany.
  apply source_mutind.
  - intros a o A b f b1 H Hb Hl. simpl in H, Hb. destruct o as [|m|].
    + destruct (is_world a) eqn:Ew.
      * inv H. apply bupd_other_lbd; [|assumption]. apply key_other. rewrite (is_world_eval _ Ew).
        intros Hq. apply Hworld. symmetry. assumption.
      * apply (withdraw_all_lbd _ _ _ _ _ _ _ H Hl). intros _ o Ho. inv Ho. lia.
    + dobind H mm Em. destruct mm as [ma mo]. apply (withdraw_all_lbd _ _ _ _ _ _ _ H Hl).
      intros Hk o Ho. subst mo. rewrite <- Hk in Hb. simpl in Hb. specialize (Hb eq_refl ma o eq_refl eq_refl). lia.
    + inv H. apply bupd_other_lbd; [|assumption]. apply key_other. assumption.
  - intros m s IH A b f b1 H Hb Hl. simpl in H. dobind H fb Es. destruct fb as [f0 b0].
    dobind H mm Em. destruct mm as [ma mo]. assert (src_bound B s) as Hb' by exact Hb.
    pose proof (proj1 (eval_source_ok anyacc e) _ _ _ _ _ Es (Hany s)) as Hok.
    pose proof (proj1 (fallback_not_k B) _ Hb') as Hfb.
    destruct (fallback_of s) as [fa|]; apply (take_max_fb_lbd _ _ _ _ _ _ _ _ H Hok); try (apply (IH _ _ _ _ Es Hb' Hl));
      intros fa' Hq; inv Hq; apply Hfb; reflexivity.
  - intros l IH A b f b1 H Hb Hl. simpl in H. dobind H fb Es. destruct fb as [fs b0]. dobind H f0 Ea. inv H.
    apply (IH _ _ _ _ Es); [exact Hb|assumption].
  - intros A b fs b1 H _ Hl. simpl in H. inv H. assumption.
  - intros s IHs l IHl A b fs b1 H [Hb1 Hb2] Hl. simpl in H. dobind H fb Es. destruct fb as [f0 b0].
    dobind H gb El. destruct gb as [gs b2]. inv H. apply (IHl _ _ _ _ El Hb2). apply (IHs _ _ _ _ Es Hb1 Hl).
Qed.

Lemma eval_alloc_sources_lbd A ma : forall l parts b fs b1, eval_alloc_sources e A ma l parts b = Ok (fs, b1) ->
  Forall (fun ps => src_bound B (snd ps)) l -> lbd c b -> lbd c b1.
Proof.
  pose proof (proj1 (src_accs_any e)) as Hany.
  induction l as [|[p s] tl IH]; intros parts b fs b1 H Hb Hl; simpl in H.
  - destruct parts; inv H; assumption.
  - destruct parts as [|x ptl]; [inv H; assumption|].
    dobind H fb Es. destruct fb as [f0 b0]. dobind H rb Et. destruct rb as [res b2].
    dobind H gb El. destruct gb as [gs b3]. inv H. inv Hb. simpl in H1.
    apply (IH _ _ _ _ El H2).
    apply (take_from_source_lbd _ _ _ _ _ _ _ _ Et (proj1 (eval_source_ok anyacc e) _ _ _ _ _ Es (Hany s)) (proj1 (fallback_not_k B) _ H1)).
    apply (proj1 eval_source_lbd _ _ _ _ _ Es H1 Hl).
Qed.

Definition vsrc_bound (vs : vsource) : Prop :=
  match vs with VSrc s => src_bound B s | VSrcAllot l => Forall (fun ps => src_bound B (snd ps)) l end.

Lemma eval_vsource_lbd m vs b f b1 : eval_vsource e m vs b = Ok (f, b1) -> vsrc_bound vs -> lbd c b -> lbd c b1.
Proof.
  pose proof (proj1 (src_accs_any e)) as Hany.
  unfold eval_vsource. destruct vs as [s|l]; intros H Hb Hl; simpl in Hb.
  - dobind H fb Es. destruct fb as [f0 b0]. dobind H mm Em. destruct mm as [ma mo].
    apply (take_from_source_lbd _ _ _ _ _ _ _ _ H (proj1 (eval_source_ok anyacc e) _ _ _ _ _ Es (Hany s)) (proj1 (fallback_not_k B) _ Hb)).
    apply (proj1 eval_source_lbd _ _ _ _ _ Es Hb Hl).
  - dobind H mm Em. destruct mm as [ma mo]. dobind H al Ea. destruct mo as [x|]; [|discriminate].
    dobind H fb Es. destruct fb as [fs b0]. dobind H f0 Ef. inv H. apply (eval_alloc_sources_lbd _ _ _ _ _ _ _ Es Hb Hl).
Qed.
End Bound.

(* destinations only credit *)
Lemma eval_dest_lbd c :
  (forall d f b lf b1 ps, eval_dest e d f b = Ok (lf, b1, ps) -> fok anyacc f -> lbd c b -> lbd c b1) /\
  (forall kd f b lf b1 ps, eval_kod e kd f b = Ok (lf, b1, ps) -> fok anyacc f -> lbd c b -> lbd c b1) /\
  (forall l f kk b lf k1 b1 ps, eval_dmaxes e l f kk b = Ok (lf, k1, b1, ps) -> fok anyacc f -> lbd c b -> lbd c b1) /\
  (forall l parts f b lf b1 ps, eval_dallots e l parts f b = Ok (lf, b1, ps) -> fok anyacc f -> lbd c b -> lbd c b1).
Proof.
  destruct (dest_accs_any e) as [Ad [Ak [Am Aa]]].
  apply dest_mutind.
  - intros a f b lf b1 ps H Hf Hl. simpl in H. dobind H rr Et. destruct rr as [res rem].
    inv H.
    destruct (take_ok anyacc _ _ _ _ Et Hf) as [K1 _]. apply (send_to_lbd (eval_acc e a) res b _ _ c eq_refl K1 Hl).
  - intros l IHl r IHr f b lf b1 ps H Hf Hl. simpl in H.
    dobind H x1 E1. destruct x1 as [[[f1 kk] b2] ps1]. dobind H x2 E2. destruct x2 as [res rem].
    dobind H x3 E3. destruct x3 as [[lf3 b3] ps3]. dobind H out E4. inv H.
    destruct (proj1 (proj2 (proj2 (eval_dest_ok anyacc e))) _ _ _ _ _ _ _ _ E1 Hf (Am l)) as [[L1 _] _].
    destruct (take_ok anyacc _ _ _ _ E2 (proj2 (proj2 (freverse_spec anyacc f1)) L1)) as [_ K2].
    apply (IHr _ _ _ _ _ E3 (proj2 (proj2 (freverse_spec anyacc rem)) K2)). apply (IHl _ _ _ _ _ _ _ E1 Hf Hl).
  - intros l IHl f b lf b1 ps H Hf Hl. simpl in H. dobind H al Ea. apply (IHl _ _ _ _ _ _ H Hf Hl).
  - intros f b lf b1 ps H _ Hl. simpl in H. inv H. assumption.
  - intros d IH f b lf b1 ps H Hf Hl. simpl in H. apply (IH _ _ _ _ _ H Hf Hl).
  - intros f kk b lf k1 b1 ps H _ Hl. simpl in H. inv H. assumption.
  - intros m kd IHk tl IHt f kk b lf k1 b1 ps H Hf Hl. simpl in H.
    dobind H mm Em. destruct mm as [ma mo]. destruct mo as [x|]; [|discriminate].
    destruct (x <? 0); [discriminate|]. destruct (negb _); [discriminate|].
    destruct (take_max x f) as [taken rem] eqn:Et.
    destruct (take_max_spec anyacc _ _ _ _ Et) as [_ [_ [_ [T4 _]]]]. destruct (T4 Hf) as [K1 K2].
    dobind H x1 E1. destruct x1 as [[lf1 b2] ps1]. dobind H f1 E2. dobind H x2 E3. destruct x2 as [[[f2 k2] b3] ps2]. inv H.
    destruct (proj1 (proj2 (eval_dest_ok anyacc e)) _ _ _ _ _ _ E1 K1 (Ak kd)) as [M1 _].
    destruct (assemble2 anyacc _ _ _ E2) as [_ [_ [_ A4]]].
    apply (IHt _ _ _ _ _ _ _ E3 (A4 M1 K2)). apply (IHk _ _ _ _ _ E1 K1 Hl).
  - intros parts f b lf b1 ps H _ Hl. simpl in H. inv H. assumption.
  - intros p kd IHk tl IHt parts f b lf b1 ps H Hf Hl. simpl in H. destruct parts as [|x ptl]; [inv H; assumption|].
    dobind H x0 E0. destruct x0 as [res rem]. destruct (take_ok anyacc _ _ _ _ E0 Hf) as [K1 K2].
    dobind H x1 E1. destruct x1 as [[lf1 b2] ps1]. dobind H f1 E2. dobind H x2 E3. destruct x2 as [[f2 b3] ps2]. inv H.
    destruct (proj1 (proj2 (eval_dest_ok anyacc e)) _ _ _ _ _ _ E1 K1 (Ak kd)) as [M1 _].
    destruct (assemble2 anyacc _ _ _ E2) as [_ [_ [_ A4]]].
    apply (IHt _ _ _ _ _ _ E3 (A4 M1 K2)). apply (IHk _ _ _ _ _ E1 K1 Hl).
Qed.

Definition stmt_bound (B : Z) (s : stmt) : Prop :=
  match s with
  | Send _ vs _ => vsrc_bound B vs
  | SendAll _ src _ => src_bound B src
  | _ => True
  end.

Lemma exec_send_lbd B c te m vs d b b' ps : 0 <= B -> c <= - B -> exec_send e m vs d b = Ok (b', ps) ->
  chk_vsource te vs = true -> vsrc_bound B vs -> lbd c b -> lbd c b'.
Proof.
  intros HB Hc H Hchk Hb Hl. unfold exec_send in H. dobind H fb Ev. destruct fb as [f b1].
  dobind H x1 Ed. destruct x1 as [[lf b2] ps1]. inv H.
  destruct (eval_vsource_amount _ _ _ _ _ _ Ev) as [A [x Hm]].
  assert (vsrc_accs anyacc e vs) as Hacc.
  { destruct vs as [s|l]; simpl; [apply (proj1 (src_accs_any e))|apply Forall_forall; intros; apply (proj1 (src_accs_any e))]. }
  destruct (eval_vsource_ok anyacc e te _ _ _ _ _ _ _ Ev Hm Hchk Hacc) as [F1 _].
  destruct (proj1 (eval_dest_ok anyacc e) _ _ _ _ _ _ Ed F1 (proj1 (dest_accs_any e) d)) as [D1 _].
  apply repay_lbd; [assumption|]. apply (proj1 (eval_dest_lbd c) _ _ _ _ _ _ Ed F1).
  apply (eval_vsource_lbd B c HB Hc _ _ _ _ _ Ev Hb Hl).
Qed.

Lemma exec_send_all_lbd B c a s d b b' ps : 0 <= B -> c <= - B -> exec_send_all e a s d b = Ok (b', ps) ->
  src_bound B s -> lbd c b -> lbd c b'.
Proof.
  intros HB Hc H Hb Hl. unfold exec_send_all in H. dobind H fb Ev. destruct fb as [f b1].
  destruct (negb (src_plain s) && negb (String.eqb (fasset f) (eval_asset e a))); [discriminate|].
  dobind H x1 Ed. destruct x1 as [[lf b2] ps1]. inv H.
  pose proof (proj1 (eval_source_ok anyacc e) _ _ _ _ _ Ev (proj1 (src_accs_any e) s)) as F1.
  destruct (proj1 (eval_dest_ok anyacc e) _ _ _ _ _ _ Ed F1 (proj1 (dest_accs_any e) d)) as [D1 _].
  apply repay_lbd; [assumption|]. apply (proj1 (eval_dest_lbd c) _ _ _ _ _ _ Ed F1).
  apply (proj1 (eval_source_lbd B c HB Hc) _ _ _ _ _ Ev Hb Hl).
Qed.

(* with saves: the bound goes down by what was saved (amounts are non-negative) *)
Definition saves_nonneg (l : list (key * Z)) : Prop := Forall (fun ka => 0 <= snd ka) l.

Lemma saved_for_nonneg l : saves_nonneg l -> 0 <= saved_for l.
Proof. induction 1 as [|[k0 a] l Ha _ IH]; simpl in *; [lia|]. destruct (key_eqb k0 k); lia. Qed.

Definition lb_inv (c0 : Z) (ms : mstate) : Prop := saves_nonneg (msaved ms) /\ lbd (c0 - saved_for (msaved ms)) (mbal ms).

Lemma save_amount_nonneg b k0 all amt : 0 <= amt -> 0 <= save_amount b k0 all amt.
Proof. unfold save_amount. intros H. destruct (bget b k0) as [x|]; [|lia]. destruct all; [destruct (0 <? x) eqn:E; [apply Z.ltb_lt in E|]; lia|assumption]. Qed.

Lemma exec_stmt_lb B c0 te s ms ms1 : 0 <= B -> c0 <= - B -> exec_stmt e s ms = Ok ms1 -> chk_stmt te s = true ->
  (forall m, chk_mon te m = true -> 0 <= oz (snd (leaf_value e m))) ->
  stmt_bound B s -> lb_inv c0 ms -> lb_inv c0 ms1.
Proof.
  intros HB Hc H Hchk Hleaf Hb [Hn Hl]. pose proof (saved_for_nonneg _ Hn) as Hs. destruct s; simpl in H, Hchk, Hb.
  - dobind H x E. destruct x as [b ps]. inv H. split; [assumption|]. simpl.
    apply andb_prop in Hchk. destruct Hchk as [Hchk _]. apply andb_prop in Hchk. destruct Hchk as [_ Hv].
    assert (c0 - saved_for (msaved ms) <= - B) as Hc' by lia.
    apply (exec_send_lbd B _ te _ _ _ _ _ _ HB Hc' E Hv Hb Hl).
  - dobind H x E. destruct x as [b ps]. inv H. split; [assumption|]. simpl.
    assert (c0 - saved_for (msaved ms) <= - B) as Hc' by lia.
    apply (exec_send_all_lbd B _ _ _ _ _ _ _ HB Hc' E Hb Hl).
  - dobind H x E. inv H. split; assumption.
  - dobind H x E. inv H. split; assumption.
  - apply andb_prop in Hchk. destruct Hchk as [Hm _]. specialize (Hleaf _ Hm).
    destruct (leaf_value e m) as [asset o]. simpl in Hleaf. inv H. unfold lb_inv. simpl.
    pose proof (save_amount_nonneg (mbal ms) (eval_acc e a, asset) false _ Hleaf) as Ha.
    split; [apply Forall_app; split; [assumption|constructor; [simpl; assumption|constructor]]|].
    rewrite saved_for_app. simpl. unfold lbd in *. intros v Hv. rewrite bget_bupd in Hv.
    destruct (key_eqb (eval_acc e a, asset) k) eqn:Ek.
    + destruct (bget (mbal ms) k) as [w|] eqn:Ew; [|discriminate]. simpl in Hv. inv Hv. specialize (Hl _ eq_refl). lia.
    + specialize (Hl _ Hv). lia.
  - inv H. unfold lb_inv. simpl.
    pose proof (save_amount_nonneg (mbal ms) (eval_acc e acc, eval_asset e a) true 0 ltac:(lia)) as Ha.
    split; [apply Forall_app; split; [assumption|constructor; [simpl; assumption|constructor]]|].
    rewrite saved_for_app. simpl. unfold lbd in *. intros v Hv. rewrite bget_bupd in Hv.
    destruct (key_eqb (eval_acc e acc, eval_asset e a) k) eqn:Ek.
    + destruct (bget (mbal ms) k) as [w|] eqn:Ew; [|discriminate]. simpl in Hv. inv Hv. specialize (Hl _ eq_refl). lia.
    + specialize (Hl _ Hv). lia.
  - discriminate.
Qed.

Lemma exec_stmts_lb B c0 te l : 0 <= B -> c0 <= - B ->
  (forall m, chk_mon te m = true -> 0 <= oz (snd (leaf_value e m))) ->
  forall ms ms1, exec_stmts e l ms = Ok ms1 -> Forall (fun s => chk_stmt te s = true) l -> Forall (stmt_bound B) l ->
  lb_inv c0 ms -> lb_inv c0 ms1.
Proof.
  intros HB Hc Hleaf. induction l as [|s tl IH]; intros ms ms1 H Hchk Hb Hi; simpl in H; [inv H; assumption|].
  dobind H ms0 E. inv Hchk. inv Hb. apply (IH _ _ H H3 H5). apply (exec_stmt_lb B c0 te _ _ _ HB Hc E H2 Hleaf H4 Hi).
Qed.

End Key.
