(* Extraction of the executable models. Directives used: ExtrOcamlBasic (bool, option, unit, prod,
   list, sumbool, sumor -> OCaml), ExtrOcamlString (ascii -> char, string -> char list).
   Z, N, positive, Q stay Coq datatypes.  Run with coqc from the output directory. *)
Require Extraction.
Require Import ExtrOcamlBasic ExtrOcamlString.
From LV Require Import Machine.Allot Ledger.Types Ledger.Core.
Extraction Language OCaml.
Extraction "model.ml" allocate new_allotment_checked step init_state.
