(* Model of internal/replication: one pipeline, its PipelineHandler.Run goroutine, the subscription
   ("persister") goroutine started by Manager.startPipeline, the manager operations on that
   pipeline, the exporter and the pipelines.last_log_id column.

   Actors and the code they mirror (every event below is ONE atomic step of ONE actor; events of
   different actors interleave arbitrarily, which is how goroutine schedules are quantified over):

   handler (pipeline.go:Run)
     Fetch     the timer case of the top-level select: ListLogs(id > LastLogID, asc, PageSize);
               empty page -> wait PullInterval (state unchanged); else enter the push loop
     PushOk    exporter.Accept(page) returned nil and Run took the errChan case:
               p.pipeline.LastLogID = last id of the page, then Run blocks in
               `ingestedLogs <- lastLogID` (state HSend; NOTE that select has no stopChannel case)
     PushFail  Accept returned an error (including DriverFacade's "not ready exporter"); Run waits
               PushRetryPeriod and tries the SAME page again
     Handoff   the unbuffered send `ingestedLogs <- lastLogID` meets the persister's receive
   persister (manager.go:startPipeline, `for lastLogID := range subscription`)
     Persist      StorePipelineState(pipeline.ID, v) of the value it holds
     LatePersist  the same call made by the persister of an ALREADY HALTED handler: Run returning
               does not wait for it (close(subscription) only ends the range loop after the call in
               flight), and neither stopPipeline nor pipelinesWaitGroup covers that goroutine
   exporter
     LateAccept   (exporter side) the `go func(){ exporter.Accept(...) }()` of a handler that has halted
               in the meantime (Run took the stopChannel case of the select) completes: the exporter
               receives and acknowledges a page nobody waits for any more
   manager (manager.go; m.mu is held from the Req to the end of the operation, so manager
            operations are refused (= would block) while one is in progress)
     Start     StartPipeline / synchronizePipelines (Run at boot, periodic, after restart):
               read the pipelines row, refuse if already in m.pipelines, else NewPipelineHandler
               with LastLogID = the value read, new subscription channel + persister
     StopReq   StopPipeline / Manager.Stop: handler.Shutdown puts the signal in stopChannel
     Halt      Run consumes the stop signal (possible in the top-level select, during Accept and
               in the retry wait; NOT while blocked in the hand-off) and returns.  In the repaired
               code (wt = true, fixes/repl-01) the goroutine that ran Run closes the subscription
               at once and stopPipeline keeps waiting (HDrain) until the persister has stored what
               it holds and exited:
     StopDone  ... that wait ends (only possible once the persister holds nothing): StopPipeline
               returns / ResetPipeline clears last_log_id and starts the new handler.
               Before the repair (wt = false) Halt completed the operation immediately and the
               persister's value became a late store.
     ResetReq  ResetPipeline: not started -> UpdatePipeline(last_log_id = NULL) only;
               started -> Shutdown first (state MResetting); its Halt then clears last_log_id and
               starts a new handler from the row RETURNED by UpdatePipeline (LastLogID = nil)
     Crash     the process dies: every goroutine (handler, persisters, late stores) vanishes
   environment
     Produce n the ledger commits n more logs

   Log ids are modelled by their rank 1..logs in the ledger's id order (the code only uses
   `id > last`, ascending order and a limit, so gaps in the real ids are immaterial);
   0 stands for a nil LastLogID / NULL last_log_id.  Timers only decide WHEN an enabled step is
   taken, never which steps are enabled, so they are not part of the state. *)
From Coq Require Import List ZArith Lia Bool.
Import ListNotations.
Open Scope Z_scope.

Inductive hstate := HNone | HIdle | HPush (hi : Z) | HSend | HDrain.
Inductive mstate := MIdle | MStopping | MResetting.

Inductive event :=
| Produce (n : Z) | Fetch | PushOk | PushFail | Handoff | Persist | LatePersist (k : nat) | LateAccept (k : nat)
| StopReq | Halt | StopDone | ResetReq | Start | Crash.

Inductive output :=
| OFetch (cursor n : Z)            (* ListLogs(id > cursor) returned n logs *)
| OBatch (ids : list Z)            (* exporter accepted and acknowledged this batch *)
| OFail (ids : list Z)             (* exporter refused this batch *)
| OStore (id : Z) (stale : bool)   (* StorePipelineState(id); stale: issued before the last reset *)
| OClear                           (* last_log_id := NULL *)
| OResume (from : Z)               (* a handler was started with LastLogID = from *)
| OHalt
| ORefused.                        (* the event is not enabled in this state; state unchanged *)

Record state := mk {
  wt : bool;                       (* stopPipeline waits for the persister (true: the repaired code,
                                      fixes/repl-01; false: the code before the repair) *)
  psz : Z;                         (* LogsPageSize *)
  logs : Z;                        (* the ledger holds logs 1..logs *)
  stored : Z;                      (* _system.pipelines.last_log_id (0 = NULL) *)
  hnd : hstate;                    (* HNone: not in m.pipelines; HDrain: Run has returned, stopPipeline
                                      is waiting for the persister to store what it holds and exit *)
  cur : Z;                         (* p.pipeline.LastLogID of the current handler *)
  pers : option Z;                 (* value held by the current persister *)
  late : list (nat * Z);           (* values held by persisters of halted handlers, tagged with [gen] *)
  lacc : list (Z * Z);             (* pages (cursor, end] handed to exporter.Accept by a handler that halted meanwhile:
                                      the Accept goroutine of Run is not waited for either *)
  mgr : mstate;
  (* --- observers: exporter-side record and bookkeeping the theorems are stated with *)
  gen : nat;                       (* number of resets so far *)
  stale : bool;                    (* a store issued before a reset has landed after it *)
  resume : Z;                      (* LastLogID the current (or last) handler was started with *)
  epochs : list (Z * list (list Z)); (* per started handler, newest first: resume point and the
                                        batches the exporter acknowledged, newest first *)
  acked : Z;                       (* highest id ever acknowledged by the exporter *)
  acked_r : Z;                     (* highest id acknowledged since the last reset *)
  dsr : list Z                     (* all ids acknowledged since the last reset *)
}.

Definition init (page_size : Z) : state :=
  mk true page_size 0 0 HNone 0 None [] [] MIdle 0 false 0 [(0, [])] 0 0 [].
(* the code before fixes/repl-01: stopPipeline returns as soon as Run has returned *)
Definition init_unrepaired (page_size : Z) : state :=
  mk false page_size 0 0 HNone 0 None [] [] MIdle 0 false 0 [(0, [])] 0 0 [].

Fixpoint ids_from (lo : Z) (n : nat) : list Z :=
  match n with O => [] | S k => lo :: ids_from (lo + 1) k end.

(* the page ListLogs(id > c) returned, given where it ends *)
Definition page (c hi : Z) : list Z := ids_from (c + 1) (Z.to_nat (hi - c)).

Definition add_batch (b : list Z) (ep : list (Z * list (list Z))) :=
  match ep with
  | (r, bs) :: tl => (r, b :: bs) :: tl
  | [] => [(0, [b])]
  end.

(* a straggler batch is recorded as an epoch of its own, resume point = the cursor of the halted
   handler that sent it, placed behind the current handler's epoch *)
Definition add_stray (e : Z * list (list Z)) (ep : list (Z * list (list Z))) :=
  match ep with
  | h :: tl => h :: e :: tl
  | [] => [e]
  end.

Fixpoint remove_nth {A} (k : nat) (l : list A) : list A :=
  match l, k with
  | [], _ => []
  | _ :: xs, O => xs
  | x :: xs, S k' => x :: remove_nth k' xs
  end.

Definition push_late (g : nat) (p : option Z) (l : list (nat * Z)) :=
  match p with Some v => (g, v) :: l | None => l end.

Definition step (s : state) (e : event) : state * list output :=
  match s with
  | mk w ps lg st h c pe la lc m g sl r ep ak ar ds =>
    let refused := (s, [ORefused]) in
    match e with
    | Produce n =>
        (mk w ps (lg + Z.max 0 n) st h c pe la lc m g sl r ep ak ar ds, [])
    | Fetch =>
        match h with
        | HIdle =>
            let k := Z.min (Z.max 1 ps) (lg - c) in
            if k <=? 0 then (s, [OFetch c 0])
            else (mk w ps lg st (HPush (c + k)) c pe la lc m g sl r ep ak ar ds, [OFetch c k])
        | _ => refused
        end
    | PushOk =>
        match h with
        | HPush hi =>
            let b := page c hi in
            (mk w ps lg st HSend hi pe la lc m g sl r (add_batch b ep) (Z.max ak hi) (Z.max ar hi) (ds ++ b),
             [OBatch b])
        | _ => refused
        end
    | PushFail =>
        match h with
        | HPush hi => (s, [OFail (page c hi)])
        | _ => refused
        end
    | Handoff =>
        match h, pe with
        | HSend, None => (mk w ps lg st HIdle c (Some c) la lc m g sl r ep ak ar ds, [])
        | _, _ => refused
        end
    | Persist =>
        match h, pe with
        | HNone, _ => refused
        | _, Some v => (mk w ps lg v h c None la lc m g sl r ep ak ar ds, [OStore v false])
        | _, None => refused
        end
    | LatePersist k =>
        match nth_error la k with
        | Some (g0, v) =>
            let old := Nat.ltb g0 g in
            (mk w ps lg v h c pe (remove_nth k la) lc m g (sl || old) r ep ak ar ds, [OStore v old])
        | None => refused
        end
    | LateAccept k =>
        match nth_error lc k with
        | Some (c0, hi) =>
            let b := page c0 hi in
            (mk w ps lg st h c pe la (remove_nth k lc) m g sl r (add_stray (c0, [b]) ep) (Z.max ak hi) ar (ds ++ b),
             [OBatch b])
        | None => refused
        end
    | StopReq =>
        match m, h with
        | MIdle, HNone => refused
        | MIdle, _ => (mk w ps lg st h c pe la lc MStopping g sl r ep ak ar ds, [])
        | _, _ => refused
        end
    | ResetReq =>
        match m, h with
        | MIdle, HNone => (mk w ps lg 0 h c pe la lc m (S g) sl r ep ak 0 [], [OClear])
        | MIdle, _ => (mk w ps lg st h c pe la lc MResetting g sl r ep ak ar ds, [])
        | _, _ => refused
        end
    | Halt =>
        match h with
        | HIdle | HPush _ =>
            let lc' := match h with HPush hi => (c, hi) :: lc | _ => lc end in
            if w then
              (* repaired: Run returns and closes the subscription; the operation goes on waiting *)
              match m with
              | MIdle => refused
              | _ => (mk w ps lg st HDrain c pe la lc' m g sl r ep ak ar ds, [])
              end
            else
            match m with
            | MIdle => refused
            | MStopping =>
                (mk w ps lg st HNone c None (push_late g pe la) lc' MIdle g sl r ep ak ar ds, [OHalt])
            | MResetting =>
                (mk w ps lg 0 HIdle 0 None (push_late g pe la) lc' MIdle (S g) sl 0 ((0, []) :: ep) ak 0 [],
                 [OHalt; OClear; OResume 0])
            end
        | _ => refused
        end
    | StopDone =>
        match h, pe with
        | HDrain, None =>
            match m with
            | MIdle => refused
            | MStopping =>
                (mk w ps lg st HNone c None la lc MIdle g sl r ep ak ar ds, [OHalt])
            | MResetting =>
                (mk w ps lg 0 HIdle 0 None la lc MIdle (S g) sl 0 ((0, []) :: ep) ak 0 [],
                 [OHalt; OClear; OResume 0])
            end
        | _, _ => refused
        end
    | Start =>
        match m, h with
        | MIdle, HNone => (mk w ps lg st HIdle st None la lc m g sl st ((st, []) :: ep) ak ar ds, [OResume st])
        | _, _ => refused
        end
    | Crash =>
        (mk w ps lg st HNone c None [] [] MIdle g sl r ep ak ar ds, [OHalt])
    end
  end.

Fixpoint run_from (s : state) (evs : list event) : state :=
  match evs with [] => s | e :: tl => run_from (fst (step s e)) tl end.

Fixpoint outs_from (s : state) (evs : list event) : list output :=
  match evs with [] => [] | e :: tl => snd (step s e) ++ outs_from (fst (step s e)) tl end.

Definition run (page_size : Z) (evs : list event) : state := run_from (init page_size) evs.

(* ---- readings the theorems use ---- *)
Definition refusedb (o : output) : bool := match o with ORefused => true | _ => false end.
Definition all_enabled (s : state) (evs : list event) : bool :=
  negb (existsb refusedb (outs_from s evs)).

(* ids acknowledged to the current handler, oldest first *)
Definition delivered (s : state) : list Z :=
  match epochs s with (_, bs) :: _ => concat (rev bs) | [] => [] end.

Definition started (s : state) : bool :=
  match hnd s, mgr s with
  | HNone, _ => false
  | HDrain, _ => false
  | _, MIdle => true
  | _, _ => false
  end.

(* the schedule of the progress lemma: the (at most 4) steps that deliver log [cur+1] when the
   exporter is healthy: let the persister finish, hand the last id over, fetch, push *)
Definition progress_sched (s : state) : list event :=
  match hnd s with
  | HNone | HDrain => []
  | HIdle => [Fetch; PushOk]
  | HPush _ => [PushOk]
  | HSend => match pers s with
             | Some _ => [Persist; Handoff; Fetch; PushOk]
             | None => [Handoff; Fetch; PushOk]
             end
  end.

(* repeating it until the handler's cursor reaches the end of the ledger *)
Fixpoint drain_sched (fuel : nat) (s : state) : list event :=
  match fuel with
  | O => []
  | S f => if cur s <? logs s
           then progress_sched s ++ drain_sched f (run_from s (progress_sched s))
           else []
  end.

(* ---- trace acceptance (used by the correspondence check, ocaml/replrun.ml) ----
   The silent step is Handoff; it is enabled exactly when the handler is HSend and the persister
   is free, it disables nothing, so taking it eagerly loses no behaviour. *)
Definition settle (s : state) : state :=
  match hnd s, pers s with
  | HSend, None => fst (step s Handoff)
  | _, _ => s
  end.

Fixpoint find_late (v : Z) (l : list (nat * Z)) (k : nat) : option nat :=
  match l with
  | [] => None
  | (_, w) :: tl => if v =? w then Some k else find_late v tl (S k)
  end.

(* uniquely named entry points for the extracted checker (ocaml/replrun.ml) *)
Definition repl_init := init.
Definition repl_step := step.
Definition repl_settle := settle.
Definition repl_find_late := find_late.
Definition repl_view (s : state) : (Z * Z * Z) * (hstate * option Z * mstate) * (list (nat * Z) * list (Z * Z)) :=
  ((logs s, cur s, stored s), (hnd s, pers s, mgr s), (late s, lacc s)).
Definition repl_started := started.
