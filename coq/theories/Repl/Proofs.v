(* Invariants of Repl/Model.v, by induction over arbitrary event lists. *)
From Coq Require Import List ZArith Lia Bool Sorted.
From LV Require Import Repl.Model.
Import ListNotations.
Open Scope Z_scope.

(* ---------- id ranges ---------- *)
Lemma ids_from_length : forall n lo, length (ids_from lo n) = n.
Proof. induction n as [|n IH]; intros lo; simpl; [reflexivity | now rewrite IH]. Qed.

Lemma ids_from_app : forall a b lo,
  ids_from lo (a + b) = ids_from lo a ++ ids_from (lo + Z.of_nat a) b.
Proof.
  induction a as [|a IH]; intros b lo.
  - simpl. now rewrite Z.add_0_r.
  - cbn [Nat.add ids_from app]. rewrite IH. do 3 f_equal. lia.
Qed.

Lemma In_ids_from : forall n lo i, In i (ids_from lo n) <-> lo <= i < lo + Z.of_nat n.
Proof.
  induction n as [|n IH]; intros lo i.
  - simpl. lia.
  - cbn [ids_from In]. rewrite IH. lia.
Qed.

Lemma ids_from_sorted : forall n lo, StronglySorted Z.lt (ids_from lo n).
Proof.
  induction n as [|n IH]; intros lo; simpl; constructor.
  - apply IH.
  - apply Forall_forall. intros x Hx. apply In_ids_from in Hx. lia.
Qed.

Lemma page_length : forall c hi, length (page c hi) = Z.to_nat (hi - c).
Proof. intros. apply ids_from_length. Qed.

Lemma In_page : forall c hi i, In i (page c hi) <-> c < i <= hi.
Proof. intros. unfold page. rewrite In_ids_from. lia. Qed.

(* ---------- what "in order, gap-free from the resume point" means ---------- *)
Definition batch_ok (b : list Z) : Prop := exists lo n, b = ids_from lo (S n).

Definition epoch_ok (lg : Z) (e : Z * list (list Z)) : Prop :=
  let d := concat (rev (snd e)) in
  0 <= fst e /\ d = ids_from (fst e + 1) (length d) /\ Forall batch_ok (snd e) /\
  fst e + Z.of_nat (length d) <= lg.

Lemma epoch_ok_mono : forall lg lg' e, lg <= lg' -> epoch_ok lg e -> epoch_ok lg' e.
Proof. unfold epoch_ok. intros lg lg' e Hle (H0 & H1 & H2 & H3). repeat split; auto; lia. Qed.

Lemma epoch_ok_nil : forall lg r, 0 <= r <= lg -> epoch_ok lg (r, []).
Proof. unfold epoch_ok. intros. simpl. repeat split; auto; lia. Qed.

Lemma concat_rev_cons : forall (b : list Z) bs, concat (rev (b :: bs)) = concat (rev bs) ++ b.
Proof. intros. simpl. rewrite concat_app. simpl. now rewrite app_nil_r. Qed.

Lemma epoch_ok_push : forall lg r bs c hi,
  epoch_ok lg (r, bs) -> length (concat (rev bs)) = Z.to_nat (c - r) -> r <= c -> c < hi <= lg ->
  epoch_ok lg (r, page c hi :: bs) /\
  length (concat (rev (page c hi :: bs))) = Z.to_nat (hi - r).
Proof.
  unfold epoch_ok. intros lg r bs c hi (H0 & H1 & H2 & H3) Hlen Hrc Hhi. cbn [fst snd] in *.
  rewrite concat_rev_cons, app_length, page_length, Hlen.
  assert (Hn : (Z.to_nat (c - r) + Z.to_nat (hi - c))%nat = Z.to_nat (hi - r)) by lia.
  split; [|exact Hn]. repeat split; auto.
  - rewrite Hn. rewrite <- Hn, ids_from_app. rewrite H1 at 1. rewrite Hlen. unfold page.
    do 2 f_equal. lia.
  - constructor; auto. exists (c + 1), (Nat.pred (Z.to_nat (hi - c))). unfold page. f_equal. lia.
  - lia.
Qed.

Lemma Forall_remove_nth : forall {A} (P : A -> Prop) l k, Forall P l -> Forall P (remove_nth k l).
Proof.
  intros A P l. induction l as [|x xs IH]; intros k H; simpl.
  - destruct k; constructor.
  - inversion H; subst. destruct k; auto. constructor; auto.
Qed.

Lemma Forall_nth_error : forall {A} (P : A -> Prop) l k x, Forall P l -> nth_error l k = Some x -> P x.
Proof. intros A P l k x H Hn. apply nth_error_In in Hn. rewrite Forall_forall in H. auto. Qed.

Lemma Forall_push_late : forall (P : nat * Z -> Prop) g pe la,
  Forall P la -> (forall v, pe = Some v -> P (g, v)) -> Forall P (push_late g pe la).
Proof. intros P g [v|] la H Hp; simpl; auto. Qed.

(* ---------- invariant A: structure, order, gap-freedom, persisted vs acknowledged ---------- *)
Record InvA (s : state) : Prop := {
  a_res : 0 <= resume s <= cur s;
  a_cur : cur s <= acked s;
  a_ack : 0 <= acked_r s <= acked s /\ acked s <= logs s;
  a_push : forall hi, hnd s = HPush hi -> cur s < hi <= logs s;
  a_st : 0 <= stored s <= acked s;
  a_pers : forall v, pers s = Some v -> 0 <= v <= acked s;
  a_late : Forall (fun gv => 0 <= snd gv <= acked s) (late s);
  a_head : exists bs tl, epochs s = (resume s, bs) :: tl /\
                         length (concat (rev bs)) = Z.to_nat (cur s - resume s);
  a_eps : Forall (epoch_ok (logs s)) (epochs s)
}.

Lemma InvA_init : forall ps, InvA (init ps).
Proof.
  intros. constructor; simpl; try lia; auto.
  - intros hi H; discriminate.
  - intros v H; discriminate.
  - exists [], []. split; reflexivity.
  - constructor; [apply epoch_ok_nil; lia | constructor].
Qed.

Lemma InvA_step : forall s e, InvA s -> InvA (fst (step s e)).
Proof.
  intros [ps lg st h c pe la m g sl r ep ak ar ds] e
         [Hres Hcur Hack Hpush Hst Hpers Hlate (bs & tl & Hep & Hlen) Heps].
  cbn [resume cur logs hnd epochs acked acked_r stored pers late] in *.
  assert (Hsame : InvA (mk ps lg st h c pe la m g sl r ep ak ar ds)).
  { constructor; cbn; auto. exists bs, tl; auto. }
  Ltac fin bs tl := cbn; constructor; cbn; auto; try lia; try (intros; discriminate);
                    try solve [exists bs, tl; auto].
  destruct e; cbn [step].
  - (* Produce *)
    fin bs tl.
    + intros hi Hh. specialize (Hpush hi Hh). lia.
    + eapply Forall_impl; [|exact Heps]. intros a. apply epoch_ok_mono. lia.
  - (* Fetch *)
    destruct h; try exact Hsame.
    destruct (Z.leb_spec (Z.min (Z.max 1 ps) (lg - c)) 0); [exact Hsame|].
    fin bs tl. intros hi Hh. inversion Hh. lia.
  - (* PushOk *)
    destruct h; try exact Hsame.
    specialize (Hpush hi eq_refl). subst ep. inversion Heps as [|x l Hx Hl]; subst.
    destruct (epoch_ok_push lg r bs c hi Hx Hlen ltac:(lia) Hpush) as [Hok Hlen'].
    fin bs tl.
    + intros v Hv. specialize (Hpers v Hv). lia.
    + eapply Forall_impl; [|exact Hlate]. cbn. intros a Ha. lia.
    + exists (page c hi :: bs), tl. split; [reflexivity | exact Hlen'].
  - (* PushFail *) destruct h; exact Hsame.
  - (* Handoff *)
    destruct h; try exact Hsame. destruct pe; try exact Hsame.
    fin bs tl. intros v Hv. inversion Hv; subst. lia.
  - (* Persist *)
    destruct h; try exact Hsame; destruct pe; try exact Hsame;
      specialize (Hpers z eq_refl); fin bs tl.
  - (* LatePersist *)
    destruct (nth_error la k) as [[g0 v]|] eqn:Hn; try exact Hsame.
    pose proof (Forall_nth_error _ _ _ _ Hlate Hn) as Hv. cbn in Hv.
    fin bs tl. apply Forall_remove_nth; auto.
  - (* StopReq *)
    destruct m, h; try exact Hsame; fin bs tl.
  - (* Halt *)
    assert (Hl' : Forall (fun gv : nat * Z => 0 <= snd gv <= ak) (push_late g pe la)).
    { apply Forall_push_late; auto. }
    destruct h; try exact Hsame; destruct m; try exact Hsame.
    + fin bs tl.
    + fin bs tl.
      * exists [], ep. split; reflexivity.
      * constructor; auto. apply epoch_ok_nil. lia.
    + fin bs tl.
    + fin bs tl.
      * exists [], ep. split; reflexivity.
      * constructor; auto. apply epoch_ok_nil. lia.
  - (* ResetReq *)
    destruct m, h; try exact Hsame; fin bs tl.
  - (* Start *)
    destruct m, h; try exact Hsame.
    fin bs tl.
    + exists [], ep. split; [reflexivity|]. cbn. lia.
    + constructor; auto. apply epoch_ok_nil. lia.
  - (* Crash *)
    fin bs tl.
Qed.

Lemma InvA_run_from : forall evs s, InvA s -> InvA (run_from s evs).
Proof. induction evs as [|e tl IH]; intros s H; simpl; auto. apply IH, InvA_step, H. Qed.

Lemma InvA_run : forall ps evs, InvA (run ps evs).
Proof. intros. apply InvA_run_from, InvA_init. Qed.
