(* Invariants of Repl/Model.v, by induction over arbitrary event lists. *)
From Coq Require Import List ZArith Lia Bool Sorted.
From LV Require Import Repl.Model.
Import ListNotations.
Open Scope Z_scope.

(* ---------- id ranges ---------- *)
Lemma ids_from_length : forall n lo, length (ids_from lo n) = n.
Proof. induction n as [|n IH]; intros lo; simpl; [reflexivity | now rewrite IH]. Qed.

Lemma ids_from_app : forall a b lo,
  ids_from lo (a + b) = ids_from lo a ++ ids_from (lo + Z.of_nat a) b.
Proof.
  induction a as [|a IH]; intros b lo.
  - simpl. now rewrite Z.add_0_r.
  - cbn [Nat.add ids_from app]. rewrite IH. do 3 f_equal. lia.
Qed.

Lemma In_ids_from : forall n lo i, In i (ids_from lo n) <-> lo <= i < lo + Z.of_nat n.
Proof.
  induction n as [|n IH]; intros lo i.
  - simpl. lia.
  - cbn [ids_from In]. rewrite IH. lia.
Qed.

Lemma ids_from_sorted : forall n lo, StronglySorted Z.lt (ids_from lo n).
Proof.
  induction n as [|n IH]; intros lo; simpl; constructor.
  - apply IH.
  - apply Forall_forall. intros x Hx. apply In_ids_from in Hx. lia.
Qed.

Lemma page_length : forall c hi, length (page c hi) = Z.to_nat (hi - c).
Proof. intros. apply ids_from_length. Qed.

Lemma In_page : forall c hi i, In i (page c hi) <-> c < i <= hi.
Proof. intros. unfold page. rewrite In_ids_from. lia. Qed.

(* ---------- what "in order, gap-free from the resume point" means ---------- *)
Definition batch_ok (b : list Z) : Prop := exists lo n, b = ids_from lo (S n).

Definition epoch_ok (lg : Z) (e : Z * list (list Z)) : Prop :=
  let d := concat (rev (snd e)) in
  0 <= fst e /\ d = ids_from (fst e + 1) (length d) /\ Forall batch_ok (snd e) /\
  fst e + Z.of_nat (length d) <= lg.

Lemma epoch_ok_mono : forall lg lg' e, lg <= lg' -> epoch_ok lg e -> epoch_ok lg' e.
Proof. unfold epoch_ok. intros lg lg' e Hle (H0 & H1 & H2 & H3). repeat split; auto; lia. Qed.

Lemma epoch_ok_nil : forall lg r, 0 <= r <= lg -> epoch_ok lg (r, []).
Proof. unfold epoch_ok. intros. simpl. repeat split; auto; lia. Qed.

Lemma concat_rev_cons : forall (b : list Z) bs, concat (rev (b :: bs)) = concat (rev bs) ++ b.
Proof. intros. simpl. rewrite concat_app. simpl. now rewrite app_nil_r. Qed.

Lemma epoch_ok_push : forall lg r bs c hi,
  epoch_ok lg (r, bs) -> length (concat (rev bs)) = Z.to_nat (c - r) -> r <= c -> c < hi <= lg ->
  epoch_ok lg (r, page c hi :: bs) /\
  length (concat (rev (page c hi :: bs))) = Z.to_nat (hi - r).
Proof.
  unfold epoch_ok. intros lg r bs c hi (H0 & H1 & H2 & H3) Hlen Hrc Hhi. cbn [fst snd] in *.
  rewrite concat_rev_cons, app_length, page_length, Hlen.
  assert (Hn : (Z.to_nat (c - r) + Z.to_nat (hi - c))%nat = Z.to_nat (hi - r)) by lia.
  split; [|exact Hn]. repeat split; auto.
  - rewrite Hn. rewrite <- Hn, ids_from_app. rewrite H1 at 1. rewrite Hlen. unfold page.
    do 2 f_equal. lia.
  - constructor; auto. exists (c + 1), (Nat.pred (Z.to_nat (hi - c))). unfold page. f_equal. lia.
  - lia.
Qed.

Lemma Forall_remove_nth : forall {A} (P : A -> Prop) l k, Forall P l -> Forall P (remove_nth k l).
Proof.
  intros A P l. induction l as [|x xs IH]; intros k H; simpl.
  - destruct k; constructor.
  - inversion H; subst. destruct k; auto. constructor; auto.
Qed.

Lemma Forall_nth_error : forall {A} (P : A -> Prop) l k x, Forall P l -> nth_error l k = Some x -> P x.
Proof. intros A P l k x H Hn. apply nth_error_In in Hn. rewrite Forall_forall in H. auto. Qed.

Lemma Forall_push_late : forall (P : nat * Z -> Prop) g pe la,
  Forall P la -> (forall v, pe = Some v -> P (g, v)) -> Forall P (push_late g pe la).
Proof. intros P g [v|] la H Hp; simpl; auto. Qed.

(* ---------- invariant A: structure, order, gap-freedom, persisted vs acknowledged ---------- *)
Record InvA (s : state) : Prop := {
  a_res : 0 <= resume s <= cur s;
  a_cur : cur s <= acked s;
  a_ack : 0 <= acked_r s <= acked s /\ acked s <= logs s;
  a_push : forall hi, hnd s = HPush hi -> cur s < hi <= logs s;
  a_st : 0 <= stored s <= acked s;
  a_pers : forall v, pers s = Some v -> 0 <= v <= acked s;
  a_late : Forall (fun gv => 0 <= snd gv <= acked s) (late s);
  a_lacc : Forall (fun p => 0 <= fst p < snd p /\ snd p <= logs s) (lacc s);
  a_head : exists bs tl, epochs s = (resume s, bs) :: tl /\
                         length (concat (rev bs)) = Z.to_nat (cur s - resume s);
  a_eps : Forall (epoch_ok (logs s)) (epochs s)
}.

Lemma InvA_init : forall ps, InvA (init ps).
Proof.
  intros. constructor; simpl; try lia; auto.
  - intros hi H; discriminate.
  - intros v H; discriminate.
  - exists [], []. split; reflexivity.
  - constructor; [apply epoch_ok_nil; lia | constructor].
Qed.

Lemma InvA_step : forall s e, InvA s -> InvA (fst (step s e)).
Proof.
  intros [w ps lg st h c pe la lc m g sl r ep ak ar ds] e
         [Hres Hcur Hack Hpush Hst Hpers Hlate Hlacc (bs & tl & Hep & Hlen) Heps].
  cbn [resume cur logs hnd epochs acked acked_r stored pers late lacc] in *.
  assert (Hsame : InvA (mk w ps lg st h c pe la lc m g sl r ep ak ar ds)).
  { constructor; cbn; auto. exists bs, tl; auto. }
  Ltac fin bs tl := cbn; constructor; cbn; auto; try lia; try (intros; discriminate);
                    try solve [exists bs, tl; auto].
  destruct e; cbn [step].
  - (* Produce *)
    fin bs tl.
    + intros hi Hh. specialize (Hpush hi Hh). lia.
    + eapply Forall_impl; [|exact Hlacc]. cbn. intros a Ha. lia.
    + eapply Forall_impl; [|exact Heps]. intros a. apply epoch_ok_mono. lia.
  - (* Fetch *)
    destruct h; try exact Hsame.
    destruct (Z.leb_spec (Z.min (Z.max 1 ps) (lg - c)) 0); [exact Hsame|].
    fin bs tl. intros hi Hh. inversion Hh. lia.
  - (* PushOk *)
    destruct h; try exact Hsame.
    specialize (Hpush hi eq_refl). subst ep. inversion Heps as [|x l Hx Hl]; subst.
    destruct (epoch_ok_push lg r bs c hi Hx Hlen ltac:(lia) Hpush) as [Hok Hlen'].
    fin bs tl.
    + intros v Hv. specialize (Hpers v Hv). lia.
    + eapply Forall_impl; [|exact Hlate]. cbn. intros a Ha. lia.
    + exists (page c hi :: bs), tl. split; [reflexivity | exact Hlen'].
  - (* PushFail *) destruct h; exact Hsame.
  - (* Handoff *)
    destruct h; try exact Hsame. destruct pe; try exact Hsame.
    fin bs tl. intros v Hv. inversion Hv; subst. lia.
  - (* Persist *)
    destruct h; try exact Hsame; destruct pe; try exact Hsame;
      specialize (Hpers z eq_refl); fin bs tl.
  - (* LatePersist *)
    destruct (nth_error la k) as [[g0 v]|] eqn:Hn; try exact Hsame.
    pose proof (Forall_nth_error _ _ _ _ Hlate Hn) as Hv. cbn in Hv.
    fin bs tl. apply Forall_remove_nth; auto.
  - (* LateAccept *)
    destruct (nth_error lc k) as [[c0 hi]|] eqn:Hn; try exact Hsame.
    pose proof (Forall_nth_error _ _ _ _ Hlacc Hn) as Hv. cbn in Hv.
    subst ep. cbn [add_stray].
    destruct (epoch_ok_push lg c0 [] c0 hi (epoch_ok_nil lg c0 ltac:(lia))
                ltac:(cbn; lia) ltac:(lia) ltac:(lia)) as [Hok _].
    inversion Heps as [|x l Hx Hl]; subst.
    fin bs tl.
    + intros v Hv'. specialize (Hpers v Hv'). lia.
    + eapply Forall_impl; [|exact Hlate]. cbn. intros a Ha. lia.
    + apply Forall_remove_nth; auto.
    + exists bs, ((c0, [page c0 hi]) :: tl). split; [reflexivity | exact Hlen].
  - (* StopReq *)
    destruct m, h; try exact Hsame; fin bs tl.
  - (* Halt *)
    assert (Hl' : Forall (fun gv : nat * Z => 0 <= snd gv <= ak) (push_late g pe la)).
    { apply Forall_push_late; auto. }
    destruct w; (destruct h; try exact Hsame; destruct m; try exact Hsame);
      try (specialize (Hpush hi eq_refl));
      try (assert (Hlc' : Forall (fun p : Z * Z => 0 <= fst p < snd p /\ snd p <= lg) ((c, hi) :: lc))
             by (constructor; [cbn; lia | exact Hlacc])).
    all: fin bs tl.
    all: try (exists [], ep; split; reflexivity).
    all: try (constructor; auto; apply epoch_ok_nil; lia).
  - (* StopDone *)
    destruct h; try exact Hsame; destruct pe; try exact Hsame; destruct m; try exact Hsame.
    all: fin bs tl.
    all: try (exists [], ep; split; reflexivity).
    all: try (constructor; auto; apply epoch_ok_nil; lia).
  - (* ResetReq *)
    destruct m, h; try exact Hsame; fin bs tl.
  - (* Start *)
    destruct m, h; try exact Hsame.
    fin bs tl.
    + exists [], ep. split; [reflexivity|]. cbn. lia.
    + constructor; auto. apply epoch_ok_nil. lia.
  - (* Crash *)
    fin bs tl.
Qed.

Lemma InvA_run_from : forall evs s, InvA s -> InvA (run_from s evs).
Proof. induction evs as [|e tl IH]; intros s H; simpl; auto. apply IH, InvA_step, H. Qed.

Lemma InvA_run : forall ps evs, InvA (run ps evs).
Proof. intros. apply InvA_run_from, InvA_init. Qed.

(* ---------- invariant C: what holds as long as no store issued before a reset lands after it ---------- *)
Record InvC (s : state) : Prop := {
  c_tags : Forall (fun gv => (fst gv <= gen s)%nat) (late s);
  c_none : hnd s = HNone -> pers s = None;
  c_ns : stale s = false ->
         stored s <= acked_r s /\
         (forall v, pers s = Some v -> v <= acked_r s) /\
         Forall (fun gv => fst gv = gen s -> snd gv <= acked_r s) (late s) /\
         (hnd s <> HNone -> cur s <= acked_r s) /\
         (forall i, 1 <= i <= acked_r s -> In i (dsr s))
}.

Lemma InvC_init : forall ps, InvC (init ps).
Proof.
  intros. constructor; simpl; auto.
  intros _. repeat split; auto; try lia. intros v H; discriminate.
Qed.

Lemma InvC_step : forall s e, InvA s -> InvC s -> InvC (fst (step s e)).
Proof.
  intros [w ps lg st h c pe la lc m g sl r ep ak ar ds] e HA [Htags Hnone Hns].
  destruct HA as [Hres Hcur Hack Hpush Hst Hpers Hlate _ _].
  cbn [resume cur logs hnd epochs acked acked_r stored pers late gen stale dsr] in *.
  assert (Hsame : InvC (mk w ps lg st h c pe la lc m g sl r ep ak ar ds)) by (constructor; cbn; auto).
  assert (Htags' : Forall (fun gv : nat * Z => (fst gv <= S g)%nat) (push_late g pe la)).
  { apply Forall_push_late; [|intros; cbn; lia]. eapply Forall_impl; [|exact Htags]. cbn. intros; lia. }
  assert (Hfresh : Forall (fun gv : nat * Z => fst gv = S g -> snd gv <= 0) (push_late g pe la)).
  { apply Forall_push_late; [|cbn; intros; lia].
    eapply Forall_impl; [|exact Htags]. cbn. intros a Ha Hb. lia. }
  destruct e; cbn [step].
  - (* Produce *) cbn. constructor; cbn; auto.
  - (* Fetch *)
    destruct h; try exact Hsame.
    destruct (Z.leb_spec (Z.min (Z.max 1 ps) (lg - c)) 0); [exact Hsame|].
    cbn. constructor; cbn; auto; try (intros; discriminate).
    intros Hsl. destruct (Hns Hsl) as (H1 & H2 & H3 & H4 & H5). repeat split; auto.
    intros _. apply H4. discriminate.
  - (* PushOk *)
    destruct h; try exact Hsame. specialize (Hpush hi eq_refl).
    cbn. constructor; cbn; auto; try (intros; discriminate).
    intros Hsl. destruct (Hns Hsl) as (H1 & H2 & H3 & H4 & H5).
    assert (Hc : c <= ar) by (apply H4; discriminate).
    repeat split; try lia.
    + intros v Hv. specialize (H2 v Hv). lia.
    + eapply Forall_impl; [|exact H3]. cbn. intros a Ha Hg. specialize (Ha Hg). lia.
    + intros i Hi. apply in_or_app.
      destruct (Z_le_gt_dec i ar) as [Hle|Hgt]; [left; apply H5; lia|].
      right. apply In_page. lia.
  - (* PushFail *) destruct h; exact Hsame.
  - (* Handoff *)
    destruct h; try exact Hsame. destruct pe; try exact Hsame.
    cbn. constructor; cbn; auto; try (intros; discriminate).
    intros Hsl. destruct (Hns Hsl) as (H1 & H2 & H3 & H4 & H5). repeat split; auto.
    + intros v Hv. inversion Hv; subst. apply H4. discriminate.
    + intros _. apply H4. discriminate.
  - (* Persist *)
    destruct h; try exact Hsame; destruct pe; try exact Hsame;
      (cbn; constructor; cbn; auto; try (intros; discriminate);
       intros Hsl; destruct (Hns Hsl) as (H1 & H2 & H3 & H4 & H5); repeat split; auto;
       intros; discriminate).
  - (* LatePersist *)
    destruct (nth_error la k) as [[g0 v]|] eqn:Hn; try exact Hsame.
    pose proof (Forall_nth_error _ _ _ _ Htags Hn) as Hg0. cbn in Hg0.
    cbn. constructor; cbn; auto.
    + apply Forall_remove_nth; auto.
    + intros Hsl. apply orb_false_iff in Hsl. destruct Hsl as [Hsl Hold].
      apply Nat.ltb_ge in Hold.
      destruct (Hns Hsl) as (H1 & H2 & H3 & H4 & H5).
      pose proof (Forall_nth_error _ _ _ _ H3 Hn) as Hv. cbn in Hv.
      repeat split; auto. { apply Hv. lia. } apply Forall_remove_nth; auto.
  - (* LateAccept *)
    destruct (nth_error lc k) as [[c0 hi]|] eqn:Hn; try exact Hsame.
    cbn. constructor; cbn; auto.
    intros Hsl. destruct (Hns Hsl) as (H1 & H2 & H3 & H4 & H5). repeat split; auto.
    intros i Hi. apply in_or_app. left. auto.
  - (* StopReq *)
    destruct m, h; try exact Hsame; (cbn; constructor; cbn; auto).
  - (* Halt *)
    destruct w.
    { (* repaired: the handler is gone, the persister and the operation go on *)
      destruct h; try exact Hsame; destruct m; try exact Hsame.
      all: cbn; constructor; cbn; auto; try (intros; discriminate).
      all: intros Hsl; destruct (Hns Hsl) as (H1 & H2 & H3 & H4 & H5); repeat split; auto.
      all: intros _; apply H4; discriminate. }
    destruct h; try exact Hsame; destruct m; try exact Hsame.
    all: cbn; constructor; cbn; auto; try (intros; discriminate).
    all: try (intros Hsl; destruct (Hns Hsl) as (H1 & H2 & H3 & H4 & H5)).
    all: try (apply Forall_push_late; [auto|cbn; intros; lia]).
    + repeat split; auto; try (intros; discriminate); try (intros; congruence).
      apply Forall_push_late; auto.
    + repeat split; auto; try lia; try (intros; discriminate).
    + repeat split; auto; try (intros; discriminate); try (intros; congruence).
      apply Forall_push_late; auto.
    + repeat split; auto; try lia; try (intros; discriminate).
  - (* StopDone *)
    destruct h; try exact Hsame; destruct pe; try exact Hsame; destruct m; try exact Hsame.
    + cbn. constructor; cbn; auto.
      intros Hsl. destruct (Hns Hsl) as (H1 & H2 & H3 & H4 & H5).
      repeat split; auto; try (intros; discriminate); try (intros Hx; congruence).
    + cbn. constructor; cbn; auto; try (intros; discriminate).
      intros Hsl. repeat split; try lia; try (intros; discriminate).
      eapply Forall_impl; [|exact Htags]. cbn. intros a Ha Hb. lia.
  - (* ResetReq *)
    destruct m, h; try exact Hsame; cbn; constructor; cbn; auto.
    + eapply Forall_impl; [|exact Htags]. cbn. intros; lia.
    + intros Hsl. rewrite (Hnone eq_refl). repeat split; try lia; try (intros; discriminate).
      * eapply Forall_impl; [|exact Htags]. cbn. intros a Ha Hb. lia.
      * intros Hx. congruence.
  - (* Start *)
    destruct m, h; try exact Hsame.
    cbn. constructor; cbn; auto; try (intros; discriminate).
    intros Hsl. destruct (Hns Hsl) as (H1 & H2 & H3 & H4 & H5).
    repeat split; auto. intros; discriminate.
  - (* Crash *)
    cbn. constructor; cbn; auto.
    intros Hsl. destruct (Hns Hsl) as (H1 & H2 & H3 & H4 & H5).
    repeat split; auto; try (intros; discriminate); try (intros Hx; congruence).
Qed.

Lemma Inv_run_from : forall evs s, InvA s -> InvC s -> InvA (run_from s evs) /\ InvC (run_from s evs).
Proof.
  induction evs as [|e tl IH]; intros s HA HC; simpl; auto.
  apply IH; [apply InvA_step | apply InvC_step]; auto.
Qed.

Lemma InvC_run : forall ps evs, InvC (run ps evs).
Proof. intros. apply Inv_run_from; [apply InvA_init | apply InvC_init]. Qed.

(* ---------- progress ---------- *)
Lemma run_from_app : forall a b s, run_from s (a ++ b) = run_from (run_from s a) b.
Proof. induction a as [|e a IH]; intros b s; simpl; auto. Qed.

Lemma outs_from_app : forall a b s, outs_from s (a ++ b) = outs_from s a ++ outs_from (run_from s a) b.
Proof. induction a as [|e a IH]; intros b s; simpl; auto. rewrite IH, app_assoc. reflexivity. Qed.

Lemma all_enabled_app : forall a b s,
  all_enabled s (a ++ b) = all_enabled s a && all_enabled (run_from s a) b.
Proof.
  intros. unfold all_enabled. rewrite outs_from_app, existsb_app, negb_orb. reflexivity.
Qed.

Lemma In_delivered_add : forall i b ep,
  In i b -> In i (match add_batch b ep with (_, bs) :: _ => concat (rev bs) | [] => [] end).
Proof.
  intros i b [|[r bs] tl] Hi; cbn [add_batch].
  - simpl. rewrite app_nil_r. exact Hi.
  - rewrite concat_rev_cons. apply in_or_app. now right.
Qed.

Definition after_fetch_push (s : state) : state :=
  let c := cur s in
  let hi := c + Z.min (Z.max 1 (psz s)) (logs s - c) in
  mk (wt s) (psz s) (logs s) (stored s) HSend hi (pers s) (late s) (lacc s) (mgr s) (gen s) (stale s) (resume s)
     (add_batch (page c hi) (epochs s)) (Z.max (acked s) hi) (Z.max (acked_r s) hi)
     (dsr s ++ page c hi).

Lemma fetch_push : forall s, hnd s = HIdle -> cur s < logs s ->
  run_from s [Fetch; PushOk] = after_fetch_push s /\ all_enabled s [Fetch; PushOk] = true.
Proof.
  intros [w ps lg st h c pe la lc m g sl r ep ak ar ds] Hh Hlt. cbn in Hh, Hlt. subst h.
  assert (Hk : (Z.min (Z.max 1 ps) (lg - c) <=? 0) = false) by (apply Z.leb_gt; lia).
  unfold all_enabled, after_fetch_push.
  cbn [run_from outs_from step fst snd]. rewrite Hk.
  cbn [run_from outs_from step fst snd app existsb refusedb negb orb wt psz logs stored cur pers late lacc mgr gen
       stale resume epochs acked acked_r dsr]. split; reflexivity.
Qed.

Lemma progress_step : forall s, InvA s -> started s = true -> cur s < logs s ->
  let sch := progress_sched s in
  let s' := run_from s sch in
  (length sch <= 4)%nat /\ all_enabled s sch = true /\
  In (cur s + 1) (delivered s') /\ cur s < cur s' /\ started s' = true /\
  logs s' = logs s /\ resume s' = resume s.
Proof.
  intros s HA Hst Hlt.
  destruct s as [w ps lg st h c pe la lc m g sl r ep ak ar ds].
  pose proof (a_push _ HA) as Hpush. cbn in Hpush, Hlt.
  unfold started in Hst. cbn in Hst.
  destruct h; try discriminate; destruct m; try discriminate.
  - (* HIdle *)
    cbv zeta. unfold progress_sched. cbn [hnd].
    destruct (fetch_push (mk w ps lg st HIdle c pe la lc MIdle g sl r ep ak ar ds) eq_refl Hlt) as [Hr He].
    rewrite Hr, He. unfold after_fetch_push, delivered, started. cbn.
    repeat split; auto; try lia. apply In_delivered_add, In_page. lia.
  - (* HPush *)
    specialize (Hpush hi eq_refl).
    cbv zeta. unfold progress_sched, all_enabled, delivered, started. cbn.
    repeat split; auto; try lia. apply In_delivered_add, In_page. lia.
  - (* HSend *)
    cbv zeta. unfold progress_sched. cbn [hnd pers].
    destruct pe as [v|].
    + change [Persist; Handoff; Fetch; PushOk] with ([Persist; Handoff] ++ [Fetch; PushOk]).
      rewrite run_from_app, all_enabled_app.
      set (s1 := run_from _ [Persist; Handoff]). cbn in s1.
      destruct (fetch_push s1 eq_refl Hlt) as [Hr He]. rewrite Hr, He.
      unfold after_fetch_push, delivered, started, all_enabled. cbn.
      repeat split; auto; try lia. apply In_delivered_add, In_page. lia.
    + change [Handoff; Fetch; PushOk] with ([Handoff] ++ [Fetch; PushOk]).
      rewrite run_from_app, all_enabled_app.
      set (s1 := run_from _ [Handoff]). cbn in s1.
      destruct (fetch_push s1 eq_refl Hlt) as [Hr He]. rewrite Hr, He.
      unfold after_fetch_push, delivered, started, all_enabled. cbn.
      repeat split; auto; try lia. apply In_delivered_add, In_page. lia.
Qed.

Lemma drain_all : forall fuel s, InvA s -> started s = true ->
  (Z.to_nat (logs s - cur s) <= fuel)%nat ->
  let sch := drain_sched fuel s in
  let s' := run_from s sch in
  all_enabled s sch = true /\ cur s' = logs s /\ logs s' = logs s /\ resume s' = resume s /\
  started s' = true /\ (length sch <= 4 * Z.to_nat (logs s - cur s))%nat.
Proof.
  induction fuel as [|f IH]; intros s HA Hst Hf; cbv zeta.
  - pose proof (a_cur _ HA). pose proof (a_ack _ HA). simpl. unfold all_enabled. simpl.
    repeat split; auto; lia.
  - cbn [drain_sched]. destruct (Z.ltb_spec (cur s) (logs s)) as [Hlt|Hge].
    + destruct (progress_step s HA Hst Hlt) as (Hlen & Hen & _ & Hcur & Hst' & Hlg & Hres).
      rewrite run_from_app, all_enabled_app, app_length.
      set (s1 := run_from s (progress_sched s)) in *.
      assert (HA1 : InvA s1) by (apply InvA_run_from; exact HA).
      destruct (IH s1 HA1 Hst' ltac:(lia)) as (E1 & E2 & E3 & E4 & E5 & E6).
      rewrite Hen, E1.
      repeat split; auto; try congruence; try lia.
    + pose proof (a_cur _ HA). pose proof (a_ack _ HA). unfold all_enabled. simpl.
      repeat split; auto; lia.
Qed.

Lemma delivered_range : forall s, InvA s ->
  delivered s = ids_from (resume s + 1) (Z.to_nat (cur s - resume s)).
Proof.
  intros s HA. destruct (a_head _ HA) as (bs & tl & Hep & Hlen).
  pose proof (a_eps _ HA) as Heps. unfold delivered. rewrite Hep in *.
  inversion Heps as [|x l Hx Hl]; subst. destruct Hx as (_ & Hd & _). cbn [fst snd] in Hd.
  rewrite Hd, Hlen. reflexivity.
Qed.

(* ---------- [stale] is exactly "some OStore _ true was emitted" ---------- *)
Definition stale_store (o : output) : bool := match o with OStore _ true => true | _ => false end.

Lemma stale_step : forall s e,
  stale (fst (step s e)) = stale s || existsb stale_store (snd (step s e)).
Proof.
  intros [w ps lg st h c pe la lc m g sl r ep ak ar ds] e.
  destruct e; cbn [step];
    repeat match goal with
           | |- context [match ?x with _ => _ end] => destruct x
           end; cbn -[Nat.ltb]; rewrite ?orb_false_r; try reflexivity.
  destruct (Nat.ltb n g); reflexivity.
Qed.

Lemma stale_run_from : forall evs s,
  stale (run_from s evs) = stale s || existsb stale_store (outs_from s evs).
Proof.
  induction evs as [|e tl IH]; intros s; simpl.
  - now rewrite orb_false_r.
  - rewrite IH, stale_step, existsb_app, orb_assoc. reflexivity.
Qed.

(* ---------- the repaired code (wt = true): no store outlives the operation that stopped its handler ---------- *)
Lemma wt_step : forall s e, wt (fst (step s e)) = wt s.
Proof.
  intros [w ps lg st h c pe la lc m g sl r ep ak ar ds] e.
  destruct e; cbn [step];
    repeat match goal with
           | |- context [match ?x with _ => _ end] => destruct x
           end; reflexivity.
Qed.

Definition InvW (s : state) : Prop := wt s = true -> late s = [] /\ stale s = false.

Lemma InvW_step : forall s e, InvW s -> InvW (fst (step s e)).
Proof.
  intros s e HW Hw. rewrite wt_step in Hw. destruct (HW Hw) as [Hl Hs]. clear HW.
  destruct s as [w ps lg st h c pe la lc m g sl r ep ak ar ds]. cbn in Hw, Hl, Hs. subst w la sl.
  destruct e; cbn [step]; try (destruct k; cbn [nth_error]);
    repeat match goal with
           | |- context [match ?x with _ => _ end] => destruct x
           end; cbn; auto.
Qed.

Lemma InvW_run_from : forall evs s, InvW s -> InvW (run_from s evs).
Proof. induction evs as [|e tl IH]; intros s H; simpl; auto. apply IH, InvW_step, H. Qed.

Lemma wt_run_from : forall evs s, wt (run_from s evs) = wt s.
Proof.
  induction evs as [|e tl IH]; intros s; cbn [run_from]; auto. rewrite IH. apply wt_step.
Qed.

Lemma InvW_run : forall ps evs, late (run ps evs) = [] /\ stale (run ps evs) = false.
Proof.
  intros. assert (H : InvW (run ps evs)) by (apply InvW_run_from; intros _; split; reflexivity).
  apply H. unfold run. rewrite wt_run_from. reflexivity.
Qed.
