(* C16 — Transaction and log ids are unique and increase in commit order (sequential executions; the concurrent
   statement is examined on schedules by the harness).  Statements only. *)
From Coq Require Import List ZArith String Bool Lia Sorted.
From LV Require Import Base.Util Ledger.Types Ledger.Core Ledger.Invariants.
From LV Require Export Props.C16c.   (* concurrent part: theorems over all schedules of the interleaving model Ledger/Conc.v *)
Import ListNotations.
Open Scope Z_scope.

(* transactions are stored in commit order; their ids are strictly increasing along that order (hence unique) *)
Theorem C16_tx_ids_increase : forall f h, StronglySorted Z.lt (map t_id (s_txs (run f h))).
Proof. intros f h. exact (inv_ids_sorted _ (proj1 (run_inv f h))). Qed.
Print Assumptions C16_tx_ids_increase.

Theorem C16_log_ids_increase : forall f h, StronglySorted Z.lt (map l_id (s_logs (run f h))).
Proof. intros f h. exact (inv_logs_sorted _ (proj2 (run_inv f h))). Qed.
Print Assumptions C16_log_ids_increase.

Lemma sorted_nodup (l : list Z) : StronglySorted Z.lt l -> NoDup l.
Proof. induction 1 as [|x r Hs IH Hf]; constructor; [|exact IH]. intros Hin. rewrite Forall_forall in Hf. specialize (Hf x Hin). lia. Qed.

Theorem C16_ids_unique : forall f h, NoDup (map t_id (s_txs (run f h))) /\ NoDup (map l_id (s_logs (run f h))).
Proof. intros f h. split; apply sorted_nodup; [apply C16_tx_ids_increase | apply C16_log_ids_increase]. Qed.
Print Assumptions C16_ids_unique.

(* ids are below the sequence: a later commit can only draw larger ones; gaps come from rolled-back draws *)
Theorem C16_ids_below_sequence : forall f h,
  Forall (fun id => 0 < id < s_next_tx (run f h)) (map t_id (s_txs (run f h))) /\
  Forall (fun id => 0 < id < s_next_log (run f h)) (map l_id (s_logs (run f h))).
Proof. intros f h. split; [exact (inv_ids _ (proj1 (run_inv f h))) | exact (inv_logs _ (proj2 (run_inv f h)))]. Qed.
Print Assumptions C16_ids_below_sequence.

Local Open Scope string_scope.
Example C16_example :
  let f := {| f_moves := true; f_pcev := true; f_acc_hist := true; f_tx_hist := true; f_hash := true |} in
  let p := {| p_src := "world"; p_dst := "bob"; p_asset := "USD"; p_amt := 5 |} in
  let mk := fun r d => {| o_in := ICreate [p] None r [] [] false; o_ik := ""; o_dry := d |} in
  map t_id (s_txs (run f [(1, mk "r1" false); (2, mk "r1" false); (3, mk "" true); (4, mk "" false)])) = [1; 4].
Proof. vm_compute. reflexivity. Qed.
