(* C17 — Metadata reads reflect the latest write, and history reflects the past.
   This file: the CURRENT transaction metadata and the history tables (table level). The point-in-time read
   queries (which table/column/feature they test) are exercised by the read tie; see C17 notes in DESIGN.md. *)
From Coq Require Import List ZArith String Bool Lia.
From LV Require Import Base.Util Ledger.Types Ledger.Core Ledger.Invariants Ledger.ReplayProofs Ledger.Reads Ledger.IkProofs Ledger.HistProofs Ledger.AHistProofs Ledger.MetaFilterProofs Ledger.ScriptProofs.
Import ListNotations.
Open Scope Z_scope.

(* current transaction metadata = the metadata given at creation, then every save (merge, last write wins per key)
   and delete applied in commit (log) order: exactly what [replay] computes from the journal *)
Theorem C17_current_tx_metadata : forall f h,
  map (fun t => (t_id t, t_meta t)) (s_txs (run f h)) = map (fun v => (v_id v, v_meta v)) (replay (s_logs (run f h))).
Proof. intros f h. rewrite <- run_journal, map_map. reflexivity. Qed.
Print Assumptions C17_current_tx_metadata.

(* last write wins per key; deleted keys disappear; untouched keys stay *)
Theorem C17_merge_last_write_wins : forall (m : meta) k v, mget (mmerge m [(k, v)]) k = Some v.
Proof.
  intros m k v. unfold mmerge, mget; simpl. induction m as [|[k0 v0] r IH]; simpl.
  - rewrite String.eqb_refl; reflexivity.
  - destruct (String.eqb k0 k) eqn:E; simpl; rewrite E; [reflexivity | exact IH].
Qed.
Print Assumptions C17_merge_last_write_wins.

Theorem C17_delete_removes : forall (m : meta) k, mget (mdel m k) k = None.
Proof.
  intros m k. unfold mdel, mget. induction m as [|[k0 v0] r IH]; simpl; [reflexivity|].
  destruct (String.eqb k0 k) eqn:E; simpl; [exact IH | rewrite E; exact IH].
Qed.
Print Assumptions C17_delete_removes.

(* accounts: an upsert merges the given metadata over the stored one (never the other way round), and a newly
   created account starts from exactly the given metadata *)
Theorem C17_account_upsert : forall hist_on now accs hist a md first ins upd,
  let accs' := fst (upsert_account hist_on now (accs, hist) a md first ins upd) in
  match find_account accs a with
  | Some x => exists y, find_account accs' a = Some y /\ (a_meta y = mmerge (a_meta x) md \/ (a_meta y = a_meta x /\ mcontains (a_meta x) md = true))
  | None => accs' = accs ++ [{| a_addr := a; a_meta := md; a_first := opt_default now first; a_ins := opt_default now ins; a_upd := opt_default now upd |}]
  end.
Proof.
  intros hist_on now accs hist a md first ins upd. unfold upsert_account.
  destruct (find_account accs a) as [x|] eqn:F; [|reflexivity].
  destruct (acc_needs_update x md first) eqn:C; cbn [fst].
  - exists (acc_updated now x md first upd). split; [|left; reflexivity].
    unfold find_account in *. induction accs as [|y r IH]; simpl in *; [discriminate|].
    destruct (String.eqb (a_addr y) a) eqn:E; simpl.
    + inversion F; subst y. rewrite C. simpl. rewrite E. reflexivity.
    + rewrite E. apply IH; exact F.
  - exists x. split; [exact F|]. unfold acc_needs_update in C. apply orb_false_iff in C. destruct C as [_ C]. apply negb_false_iff in C.
    right. split; [reflexivity | exact C].
Qed.
Print Assumptions C17_account_upsert.

(* history tables: with the feature SYNC every rewrite of a transaction row appends a revision carrying the NEW metadata,
   dated new.updated_at; with the feature DISABLED nothing is appended *)
Theorem C17_tx_history_revision : forall f s t fn,
  s_thist (touch_tx f s t fn) =
  if f_tx_hist f then s_thist s ++ [{| th_tx := t_id (fn t); th_rev := next_rev_t (s_thist s) (t_id (fn t)); th_date := t_upd (fn t); th_meta := t_meta (fn t) |}]
  else s_thist s.
Proof. reflexivity. Qed.
Print Assumptions C17_tx_history_revision.

(* HISTORY REFLECTS THE PAST.  Split any history into the operations run at clock times <= t (h1) and those run after t (h2).
   With TRANSACTION_METADATA_HISTORY = SYNC, the metadata the FINAL state reports at time t for a transaction that existed
   and was effective at t is exactly the metadata that transaction had in the state reached at t (run f h1): later saves,
   deletes and reverts do not leak into the past, earlier ones are all there.  [thist_at] is what the point-in-time
   transaction read returns as metadata (Ledger/Reads.v: read_transactions, tied to the real read path by the reads tie). *)
Theorem C17_tx_metadata_as_of : forall f h1 h2 t x,
  f_tx_hist f = true -> Forall (fun no => fst no <= t) h1 -> Forall (fun no => t < fst no) h2 ->
  In x (s_txs (run f h1)) -> t_ts x <= t ->
  thist_at (s_thist (run f (h1 ++ h2))) (t_id x) t = t_meta x.
Proof. exact tx_metadata_as_of. Qed.
Print Assumptions C17_tx_metadata_as_of.

(* The same for ACCOUNTS with ACCOUNT_METADATA_HISTORY = SYNC: metadata written by transactions (account metadata of the request,
   script set_account_meta), by explicit saves and deletes; [ahist_at] is what the point-in-time account read returns *)
Theorem C17_account_metadata_as_of : forall f h1 h2 t x,
  f_acc_hist f = true -> Forall (fun no => fst no <= t) h1 -> Forall (fun no => t < fst no) h2 ->
  In x (s_accounts (run f h1)) ->
  ahist_at (s_ahist (run f (h1 ++ h2))) (a_addr x) t = a_meta x.
Proof. exact account_metadata_as_of. Qed.
Print Assumptions C17_account_metadata_as_of.

Theorem C17_pit_account_read_uses_history : forall f s t r, In r (read_accounts f s (Some t)) ->
  exists x, In x (s_accounts s) /\ ar_addr r = a_addr x /\ a_first x <= t /\
            ar_meta r = if f_acc_hist f then ahist_at (s_ahist s) (a_addr x) t else a_meta x.
Proof.
  intros f s t r H. unfold read_accounts in H. apply in_map_iff in H. destruct H as (x & <- & Hx).
  apply filter_In in Hx. destruct Hx as [Hx Hp]. exists x. cbn [ar_addr ar_meta le_opt] in *. repeat split; [exact Hx | lia].
Qed.
Print Assumptions C17_pit_account_read_uses_history.

(* ... and that is what the point-in-time listing shows for that transaction; with the feature DISABLED it shows the current metadata *)
Theorem C17_pit_read_uses_history : forall f s t r, In r (read_transactions f s (Some t)) ->
  exists x, In x (s_txs s) /\ tr_id r = t_id x /\ t_ts x <= t /\
            tr_meta r = if f_tx_hist f then thist_at (s_thist s) (t_id x) t else t_meta x.
Proof.
  intros f s t r H. unfold read_transactions in H. apply in_map_iff in H. destruct H as (x & <- & Hx).
  apply filter_In in Hx. destruct Hx as [Hx Hp]. exists x. cbn [tr_id tr_meta]. unfold tx_hist_flag. cbn [le_opt] in Hp.
  repeat split; [exact Hx | lia].
Qed.
Print Assumptions C17_pit_read_uses_history.

(* ---------- metadata FILTERS at a point in time (volumes, aggregated balances, accounts) ----------
   [vol_meta] / [agg_meta] / [ar_meta] (Ledger/Reads.v) are the metadata column of the three datasets, the column the WHERE of a
   metadata filter runs on; [acc_meta_cur s a] is the metadata of account a in state s ('{}' if it does not exist).
   With ACCOUNT_METADATA_HISTORY = SYNC that column holds, for EVERY address (existing at t or not), the metadata the account
   had in the state reached at t: later saves and deletes do not leak into a filtered read of the past. *)
Theorem C17_account_metadata_as_of_total : forall f h1 h2 t a,
  f_acc_hist f = true -> Forall (fun no => fst no <= t) h1 -> Forall (fun no => t < fst no) h2 ->
  ahist_at (s_ahist (run f (h1 ++ h2))) a t = acc_meta_cur (run f h1) a.
Proof. exact account_metadata_as_of_total. Qed.
Print Assumptions C17_account_metadata_as_of_total.

Theorem C17_filter_metadata_as_of : forall f h1 h2 t a,
  f_acc_hist f = true -> Forall (fun no => fst no <= t) h1 -> Forall (fun no => t < fst no) h2 ->
  (forall w, w_pit w = Some t -> vol_meta f (run f (h1 ++ h2)) w a = acc_meta_cur (run f h1) a) /\
  agg_meta f (run f (h1 ++ h2)) (Some t) a = acc_meta_cur (run f h1) a.
Proof.
  intros f h1 h2 t a Fh H1 H2. split; [intros w Hw; apply (vol_meta_as_of f h1 h2 t w a Fh H1 H2 Hw) | apply agg_meta_as_of; assumption].
Qed.
Print Assumptions C17_filter_metadata_as_of.

(* The DISABLED feature: "such a read returns the current metadata" — for the three filtered reads, any history, any point in
   time / window / date mode: the metadata column is the current metadata of the account.
   (Volumes with a PIT or OOT used to read the — then empty — history table without testing the feature: every account carried
   '{}', `metadata[k]=v` selected nothing and its `$not` everything.  Found by this property's tie, witness alice +10 USD at 1,
   role=v1 at 2, volumes at 3 filtered by metadata[role]=v1 = [] ; repaired in /repo by f445e43, see known_findings.d/reads.json
   KF-C17-volumes-metadata-filter-history-off (fixed).  The former theorems C17_volumes_filter_history_off (= []) and
   C17_volumes_filter_history_off_refuted are gone with the defect.) *)
Theorem C17_filter_history_off : forall f h a,
  f_acc_hist f = false ->
  (forall w, vol_meta f (run f h) w a = acc_meta_cur (run f h) a) /\
  (forall pit, agg_meta f (run f h) pit a = acc_meta_cur (run f h) a) /\
  (forall pit r, In r (read_accounts f (run f h) pit) -> exists x, In x (s_accounts (run f h)) /\ ar_addr r = a_addr x /\ ar_meta r = a_meta x).
Proof.
  intros f h a Fh. split; [intros w; apply vol_meta_history_off; exact Fh|]. split; [intros pit; apply agg_meta_history_off; exact Fh|].
  intros pit r Hr. unfold read_accounts in Hr. apply in_map_iff in Hr. destruct Hr as (x & <- & Hx). apply filter_In in Hx.
  exists x. cbn [ar_addr ar_meta]. rewrite Fh. repeat split; [exact (proj1 Hx) | destruct pit; reflexivity].
Qed.
Print Assumptions C17_filter_history_off.

(* hence, with the feature DISABLED, volumes filtered by metadata at any window list exactly the rows of the unfiltered listing
   whose account satisfies the filter on its CURRENT metadata *)
Theorem C17_volumes_filter_history_off : forall f h w q u v,
  f_acc_hist f = false -> read_volumes f (run f h) w = Some u -> read_volumes_q f (run f h) w (Some q) 0 = Some v ->
  forall kv, In kv v <-> In kv u /\ msat q (acc_meta_cur (run f h) (fst (fst kv))) = true.
Proof.
  intros f h w q u v Fh Hu Hv kv. rewrite (read_volumes_q_rows _ _ _ _ _ _ Hu Hv kv), (vol_meta_history_off f _ w _ Fh). reflexivity.
Qed.
Print Assumptions C17_volumes_filter_history_off.

(* METADATA SET BY SCRIPTS AND AT CREATION.  A create whose Numscript calls set_tx_meta (smd) / set_account_meta (samd) while the
   request carries metadata (md) and accountMetadata (amd) (input IScript; script_op is the operation record).
   When it commits: the request overrode no key the script had set to a non-empty value, and the transaction carries the
   script's metadata with the request's merged over it *)
Theorem C17_script_tx_metadata : forall f now s ps ts ref md amd force smd samd ik s' lid tid,
  step f now s (script_op ps ts ref md amd force smd samd ik false) = SR s' (ROk lid tid false) ->
  (forall k v w, mget smd k = Some v -> In (k, w) md -> v = ""%string) /\
  exists t, s_txs s' = s_txs s ++ [t] /\ tid = Some (t_id t) /\ t_postings t = ps /\ t_meta t = mmerge smd md.
Proof. exact script_create_tx_metadata. Qed.
Print Assumptions C17_script_tx_metadata.

(* every account of the postings or named by either metadata map has a row afterwards, whose metadata is the previous one
   (if the account existed) with [script_acc_meta samd amd]'s entry for it merged over *)
Theorem C17_script_account_metadata : forall f now s ps ts ref md amd force smd samd ik s' lid tid a,
  step f now s (script_op ps ts ref md amd force smd samd ik false) = SR s' (ROk lid tid false) ->
  In a (involved_accounts ps (script_acc_meta samd amd)) ->
  exists y, find_account (s_accounts s') a = Some y /\
            a_meta y = match find_account (s_accounts s) a with
                       | Some x => mmerge (a_meta x) (amd_get (script_acc_meta samd amd) a)
                       | None => amd_get (script_acc_meta samd amd) a
                       end.
Proof. exact script_create_account_metadata. Qed.
Print Assumptions C17_script_account_metadata.

(* ... and that entry is, key by key, the request's value where the request has the key for that account, the script's
   otherwise: a key the script sets on A survives a request entry for A that does not mention it, and the request wins
   on a common key (the request's maps are JSON objects: one entry per account, one per key) *)
Theorem C17_script_account_keys : forall samd amd a k,
  NoDup (map fst amd) -> NoDup (map fst (amd_get amd a)) ->
  mget (amd_get (script_acc_meta samd amd) a) k =
  match mget (amd_get amd a) k with Some v => Some v | None => mget (amd_get samd a) k end.
Proof. exact script_acc_meta_keys. Qed.
Print Assumptions C17_script_account_keys.

Local Open Scope string_scope.
(* the script sets tier=gold and k=s on bank, the request carries category=treasury and k=r for bank: bank ends with the three keys, k=r *)
Example C17_script_example :
  let f := {| f_moves := true; f_pcev := true; f_acc_hist := true; f_tx_hist := true; f_hash := true |} in
  let p := {| p_src := "world"; p_dst := "bank"; p_asset := "USD"; p_amt := 100 |} in
  let o := script_op [p] None "" [("channel", "web")] [("bank", [("category", "treasury"); ("k", "r")])] false
                     [("category", "refund")] [("bank", [("tier", "gold"); ("k", "s")])] "" false in
  let s := run f [(1, o)] in
  map t_meta (s_txs s) = [[("category", "refund"); ("channel", "web")]] /\
  map (fun a => (a_addr a, a_meta a)) (s_accounts s) = [("world", []); ("bank", [("tier", "gold"); ("k", "r"); ("category", "treasury")])] /\
  map ah_meta (s_ahist s) = [[]; [("tier", "gold"); ("k", "r"); ("category", "treasury")]].
Proof. vm_compute. repeat split; reflexivity. Qed.

Example C17_example :
  let f := {| f_moves := true; f_pcev := true; f_acc_hist := true; f_tx_hist := true; f_hash := true |} in
  let p := {| p_src := "world"; p_dst := "bob"; p_asset := "USD"; p_amt := 5 |} in
  let h := [(1, {| o_in := ICreate [p] None "" [("k", "v")] [] false; o_ik := ""; o_dry := false |});
            (2, {| o_in := ISetMeta (TTx 1) [("k", "w"); ("j", "x")]; o_ik := ""; o_dry := false |});
            (3, {| o_in := IDelMeta (TTx 1) "k"; o_ik := ""; o_dry := false |})] in
  map t_meta (s_txs (run f h)) = [[("j", "x")]] /\ map th_meta (s_thist (run f h)) = [[("k", "v")]; [("k", "w"); ("j", "x")]; [("j", "x")]].
Proof. vm_compute. split; reflexivity. Qed.

(* metadata as of t in a filtered read: alice gets role=v1 at 2, role=v2 at 4, loses it at 6; volumes at t=3 filtered by
   metadata[role]=v1 list her, at t=5 they do not, and `$exists role` lists her at 5 but not at 7 *)
Example C17_filter_example :
  let f := {| f_moves := true; f_pcev := true; f_acc_hist := true; f_tx_hist := true; f_hash := true |} in
  let mk := fun i => {| o_in := i; o_ik := ""; o_dry := false |} in
  let h := [(1, mk (ICreate [{| p_src := "world"; p_dst := "alice"; p_asset := "USD"; p_amt := 10 |}] None "" [] [] false));
            (2, mk (ISetMeta (TAcc "alice") [("role", "v1")])); (4, mk (ISetMeta (TAcc "alice") [("role", "v2")]));
            (6, mk (IDelMeta (TAcc "alice") "role"))] in
  let at_ := fun t => {| w_pit := Some t; w_oot := None; w_ins := false |} in
  let row := (("alice", "USD"), (10, 0)) in
  read_volumes_q f (run f h) (at_ 3) (Some (MfMatch "role" "v1")) 0 = Some [row] /\
  read_volumes_q f (run f h) (at_ 5) (Some (MfMatch "role" "v1")) 0 = Some [] /\
  read_volumes_q f (run f h) (at_ 5) (Some (MfExists "role")) 0 = Some [row] /\
  read_volumes_q f (run f h) (at_ 7) (Some (MfExists "role")) 0 = Some [] /\
  read_aggregated_q f (run f h) (Some 5) false (MfNot (MfMatch "role" "v2")) = Some [("USD", -10)] /\
  map ar_addr (read_accounts_q f (run f h) (Some 3) (MfMatch "role" "v1")) = ["alice"].
Proof. vm_compute. repeat split; reflexivity. Qed.

(* the former witness of the repaired defect (history DISABLED): alice +10 USD at 1, role=v1 at 2; volumes at 3 (and from 0 on)
   filtered by metadata[role]=v1 list her, the `$not` does not *)
Example C17_filter_history_off_example :
  let f := {| f_moves := true; f_pcev := true; f_acc_hist := false; f_tx_hist := true; f_hash := true |} in
  let mk := fun i => {| o_in := i; o_ik := ""; o_dry := false |} in
  let h := [(1, mk (ICreate [{| p_src := "world"; p_dst := "alice"; p_asset := "USD"; p_amt := 10 |}] None "" [] [] false));
            (2, mk (ISetMeta (TAcc "alice") [("role", "v1")]))] in
  let row := (("alice", "USD"), (10, 0)) in
  read_volumes_q f (run f h) {| w_pit := Some 3; w_oot := None; w_ins := false |} (Some (MfMatch "role" "v1")) 0 = Some [row] /\
  read_volumes_q f (run f h) {| w_pit := None; w_oot := Some 0; w_ins := false |} (Some (MfMatch "role" "v1")) 0 = Some [row] /\
  read_volumes_q f (run f h) {| w_pit := Some 3; w_oot := None; w_ins := false |} (Some (MfNot (MfMatch "role" "v1"))) 0 = Some [(("world", "USD"), (0, 10))] /\
  read_aggregated_q f (run f h) (Some 3) false (MfMatch "role" "v1") = Some [("USD", 10)].
Proof. vm_compute. repeat split; reflexivity. Qed.
