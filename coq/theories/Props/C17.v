(* C17 — Metadata reads reflect the latest write, and history reflects the past.
   This file: the CURRENT transaction metadata and the history tables (table level). The point-in-time read
   queries (which table/column/feature they test) are exercised by the read tie; see C17 notes in DESIGN.md. *)
From Coq Require Import List ZArith String Bool Lia.
From LV Require Import Base.Util Ledger.Types Ledger.Core Ledger.Invariants Ledger.ReplayProofs Ledger.Reads Ledger.IkProofs Ledger.HistProofs Ledger.AHistProofs Ledger.ScriptProofs.
Import ListNotations.
Open Scope Z_scope.

(* current transaction metadata = the metadata given at creation, then every save (merge, last write wins per key)
   and delete applied in commit (log) order: exactly what [replay] computes from the journal *)
Theorem C17_current_tx_metadata : forall f h,
  map (fun t => (t_id t, t_meta t)) (s_txs (run f h)) = map (fun v => (v_id v, v_meta v)) (replay (s_logs (run f h))).
Proof. intros f h. rewrite <- run_journal, map_map. reflexivity. Qed.
Print Assumptions C17_current_tx_metadata.

(* last write wins per key; deleted keys disappear; untouched keys stay *)
Theorem C17_merge_last_write_wins : forall (m : meta) k v, mget (mmerge m [(k, v)]) k = Some v.
Proof.
  intros m k v. unfold mmerge, mget; simpl. induction m as [|[k0 v0] r IH]; simpl.
  - rewrite String.eqb_refl; reflexivity.
  - destruct (String.eqb k0 k) eqn:E; simpl; rewrite E; [reflexivity | exact IH].
Qed.
Print Assumptions C17_merge_last_write_wins.

Theorem C17_delete_removes : forall (m : meta) k, mget (mdel m k) k = None.
Proof.
  intros m k. unfold mdel, mget. induction m as [|[k0 v0] r IH]; simpl; [reflexivity|].
  destruct (String.eqb k0 k) eqn:E; simpl; [exact IH | rewrite E; exact IH].
Qed.
Print Assumptions C17_delete_removes.

(* accounts: an upsert merges the given metadata over the stored one (never the other way round), and a newly
   created account starts from exactly the given metadata *)
Theorem C17_account_upsert : forall hist_on now accs hist a md first ins upd,
  let accs' := fst (upsert_account hist_on now (accs, hist) a md first ins upd) in
  match find_account accs a with
  | Some x => exists y, find_account accs' a = Some y /\ (a_meta y = mmerge (a_meta x) md \/ (a_meta y = a_meta x /\ mcontains (a_meta x) md = true))
  | None => accs' = accs ++ [{| a_addr := a; a_meta := md; a_first := opt_default now first; a_ins := opt_default now ins; a_upd := opt_default now upd |}]
  end.
Proof.
  intros hist_on now accs hist a md first ins upd. unfold upsert_account.
  destruct (find_account accs a) as [x|] eqn:F; [|reflexivity].
  destruct (acc_needs_update x md first) eqn:C; cbn [fst].
  - exists (acc_updated now x md first upd). split; [|left; reflexivity].
    unfold find_account in *. induction accs as [|y r IH]; simpl in *; [discriminate|].
    destruct (String.eqb (a_addr y) a) eqn:E; simpl.
    + inversion F; subst y. rewrite C. simpl. rewrite E. reflexivity.
    + rewrite E. apply IH; exact F.
  - exists x. split; [exact F|]. unfold acc_needs_update in C. apply orb_false_iff in C. destruct C as [_ C]. apply negb_false_iff in C.
    right. split; [reflexivity | exact C].
Qed.
Print Assumptions C17_account_upsert.

(* history tables: with the feature SYNC every rewrite of a transaction row appends a revision carrying the NEW metadata,
   dated new.updated_at; with the feature DISABLED nothing is appended *)
Theorem C17_tx_history_revision : forall f s t fn,
  s_thist (touch_tx f s t fn) =
  if f_tx_hist f then s_thist s ++ [{| th_tx := t_id (fn t); th_rev := next_rev_t (s_thist s) (t_id (fn t)); th_date := t_upd (fn t); th_meta := t_meta (fn t) |}]
  else s_thist s.
Proof. reflexivity. Qed.
Print Assumptions C17_tx_history_revision.

(* HISTORY REFLECTS THE PAST.  Split any history into the operations run at clock times <= t (h1) and those run after t (h2).
   With TRANSACTION_METADATA_HISTORY = SYNC, the metadata the FINAL state reports at time t for a transaction that existed
   and was effective at t is exactly the metadata that transaction had in the state reached at t (run f h1): later saves,
   deletes and reverts do not leak into the past, earlier ones are all there.  [thist_at] is what the point-in-time
   transaction read returns as metadata (Ledger/Reads.v: read_transactions, tied to the real read path by the reads tie). *)
Theorem C17_tx_metadata_as_of : forall f h1 h2 t x,
  f_tx_hist f = true -> Forall (fun no => fst no <= t) h1 -> Forall (fun no => t < fst no) h2 ->
  In x (s_txs (run f h1)) -> t_ts x <= t ->
  thist_at (s_thist (run f (h1 ++ h2))) (t_id x) t = t_meta x.
Proof. exact tx_metadata_as_of. Qed.
Print Assumptions C17_tx_metadata_as_of.

(* The same for ACCOUNTS with ACCOUNT_METADATA_HISTORY = SYNC: metadata written by transactions (account metadata of the request,
   script set_account_meta), by explicit saves and deletes; [ahist_at] is what the point-in-time account read returns *)
Theorem C17_account_metadata_as_of : forall f h1 h2 t x,
  f_acc_hist f = true -> Forall (fun no => fst no <= t) h1 -> Forall (fun no => t < fst no) h2 ->
  In x (s_accounts (run f h1)) ->
  ahist_at (s_ahist (run f (h1 ++ h2))) (a_addr x) t = a_meta x.
Proof. exact account_metadata_as_of. Qed.
Print Assumptions C17_account_metadata_as_of.

Theorem C17_pit_account_read_uses_history : forall f s t r, In r (read_accounts f s (Some t)) ->
  exists x, In x (s_accounts s) /\ ar_addr r = a_addr x /\ a_first x <= t /\
            ar_meta r = if f_acc_hist f then ahist_at (s_ahist s) (a_addr x) t else a_meta x.
Proof.
  intros f s t r H. unfold read_accounts in H. apply in_map_iff in H. destruct H as (x & <- & Hx).
  apply filter_In in Hx. destruct Hx as [Hx Hp]. exists x. cbn [ar_addr ar_meta le_opt] in *. repeat split; [exact Hx | lia].
Qed.
Print Assumptions C17_pit_account_read_uses_history.

(* ... and that is what the point-in-time listing shows for that transaction; with the feature DISABLED it shows the current metadata *)
Theorem C17_pit_read_uses_history : forall f s t r, In r (read_transactions f s (Some t)) ->
  exists x, In x (s_txs s) /\ tr_id r = t_id x /\ t_ts x <= t /\
            tr_meta r = if f_tx_hist f then thist_at (s_thist s) (t_id x) t else t_meta x.
Proof.
  intros f s t r H. unfold read_transactions in H. apply in_map_iff in H. destruct H as (x & <- & Hx).
  apply filter_In in Hx. destruct Hx as [Hx Hp]. exists x. cbn [tr_id tr_meta]. unfold tx_hist_flag. cbn [le_opt] in Hp.
  repeat split; [exact Hx | lia].
Qed.
Print Assumptions C17_pit_read_uses_history.

(* METADATA SET BY SCRIPTS AND AT CREATION.  A create whose Numscript calls set_tx_meta (smd) / set_account_meta (samd) while the
   request carries metadata (md) and accountMetadata (amd) (input IScript; script_op is the operation record).
   When it commits: the request overrode no key the script had set to a non-empty value, and the transaction carries the
   script's metadata with the request's merged over it *)
Theorem C17_script_tx_metadata : forall f now s ps ts ref md amd force smd samd ik s' lid tid,
  step f now s (script_op ps ts ref md amd force smd samd ik false) = SR s' (ROk lid tid false) ->
  (forall k v w, mget smd k = Some v -> In (k, w) md -> v = ""%string) /\
  exists t, s_txs s' = s_txs s ++ [t] /\ tid = Some (t_id t) /\ t_postings t = ps /\ t_meta t = mmerge smd md.
Proof. exact script_create_tx_metadata. Qed.
Print Assumptions C17_script_tx_metadata.

(* every account of the postings or named by either metadata map has a row afterwards, whose metadata is the previous one
   (if the account existed) with [script_acc_meta samd amd]'s entry for it merged over *)
Theorem C17_script_account_metadata : forall f now s ps ts ref md amd force smd samd ik s' lid tid a,
  step f now s (script_op ps ts ref md amd force smd samd ik false) = SR s' (ROk lid tid false) ->
  In a (involved_accounts ps (script_acc_meta samd amd)) ->
  exists y, find_account (s_accounts s') a = Some y /\
            a_meta y = match find_account (s_accounts s) a with
                       | Some x => mmerge (a_meta x) (amd_get (script_acc_meta samd amd) a)
                       | None => amd_get (script_acc_meta samd amd) a
                       end.
Proof. exact script_create_account_metadata. Qed.
Print Assumptions C17_script_account_metadata.

(* ... and that entry is, key by key, the request's value where the request has the key for that account, the script's
   otherwise: a key the script sets on A survives a request entry for A that does not mention it, and the request wins
   on a common key (the request's maps are JSON objects: one entry per account, one per key) *)
Theorem C17_script_account_keys : forall samd amd a k,
  NoDup (map fst amd) -> NoDup (map fst (amd_get amd a)) ->
  mget (amd_get (script_acc_meta samd amd) a) k =
  match mget (amd_get amd a) k with Some v => Some v | None => mget (amd_get samd a) k end.
Proof. exact script_acc_meta_keys. Qed.
Print Assumptions C17_script_account_keys.

Local Open Scope string_scope.
(* the script sets tier=gold and k=s on bank, the request carries category=treasury and k=r for bank: bank ends with the three keys, k=r *)
Example C17_script_example :
  let f := {| f_moves := true; f_pcev := true; f_acc_hist := true; f_tx_hist := true; f_hash := true |} in
  let p := {| p_src := "world"; p_dst := "bank"; p_asset := "USD"; p_amt := 100 |} in
  let o := script_op [p] None "" [("channel", "web")] [("bank", [("category", "treasury"); ("k", "r")])] false
                     [("category", "refund")] [("bank", [("tier", "gold"); ("k", "s")])] "" false in
  let s := run f [(1, o)] in
  map t_meta (s_txs s) = [[("category", "refund"); ("channel", "web")]] /\
  map (fun a => (a_addr a, a_meta a)) (s_accounts s) = [("world", []); ("bank", [("tier", "gold"); ("k", "r"); ("category", "treasury")])] /\
  map ah_meta (s_ahist s) = [[]; [("tier", "gold"); ("k", "r"); ("category", "treasury")]].
Proof. vm_compute. repeat split; reflexivity. Qed.

Example C17_example :
  let f := {| f_moves := true; f_pcev := true; f_acc_hist := true; f_tx_hist := true; f_hash := true |} in
  let p := {| p_src := "world"; p_dst := "bob"; p_asset := "USD"; p_amt := 5 |} in
  let h := [(1, {| o_in := ICreate [p] None "" [("k", "v")] [] false; o_ik := ""; o_dry := false |});
            (2, {| o_in := ISetMeta (TTx 1) [("k", "w"); ("j", "x")]; o_ik := ""; o_dry := false |});
            (3, {| o_in := IDelMeta (TTx 1) "k"; o_ik := ""; o_dry := false |})] in
  map t_meta (s_txs (run f h)) = [[("j", "x")]] /\ map th_meta (s_thist (run f h)) = [[("k", "v")]; [("k", "w"); ("j", "x")]; [("j", "x")]].
Proof. vm_compute. split; reflexivity. Qed.
