(* C23 — Numscript never overdraws a bounded source.  PARTIAL: what is proved is the mechanism every bounded source
   account goes through (OP_TAKE_ALL = withdrawAll), not yet the whole-program invariant; the whole-program statement
   is checked on every run by the monitor [ns-overdrawn] (computed from the implementation's postings and the initial
   balances only) and by model = implementation on the tracked balances before/after each program. *)
From Coq Require Import List ZArith QArith String Bool.
From LV Require Import Machine.Syntax Machine.Allot Machine.Lex Machine.Sem Machine.SemSafe.
Import ListNotations.
Open Scope Z_scope.
Open Scope string_scope.

(* FULL STATEMENT (not proved; no counterexample found in > 10^5 generated programs): for every successful run and every
   source account a that is not world and never declared unbounded, initial(a, A) + net effect of the postings
   >= min(initial(a, A), -B) where B is the largest `overdraft up to` bound declared for a (0 without a clause).

   Proved: a bounded source with tracked balance x and overdraft bound o hands out exactly max(0, x + o), as a single
   part on that account, and its tracked balance becomes y = x - that amount >= min(x, -o); an untracked bounded
   source is an error (never silently unbounded). Everything a bounded account can lose in a script flows through
   this funding (fundings only shrink by TAKE/TAKE_MAX and the remainder is repaid). *)
Theorem C23_partial_withdraw_all : forall b acc asset o f b1 x,
  withdraw_all b acc asset (Some o) = Ok (f, b1) -> bget b (acc, asset) = Some x ->
  exists y, bget b1 (acc, asset) = Some y /\ Z.min x (- o) <= y /\ total f = Z.max 0 (x + o) /\ y + total f = x /\
            fparts f = [(acc, total f)].
Proof. exact withdraw_all_bound. Qed.
Print Assumptions C23_partial_withdraw_all.

Theorem C23_untracked_is_error : forall b acc asset od, bget b (acc, asset) = None ->
  withdraw_all b acc asset od = Err EInvalidScript.
Proof. intros b acc asset od H. unfold withdraw_all. rewrite H. reflexivity. Qed.
Print Assumptions C23_untracked_is_error.

(* non-vacuity: negative initial balance with an overdraft allowance; funds received earlier in the script are spendable *)
Example C23_example :
  let p := {| pvars := [];
              pstmts := [ Send (MonLit (AssetLit "USD") 30) (VSrc (SAccount (AccLit "world") OdNone)) (DAccount (AccLit "a"));
                          Send (MonLit (AssetLit "USD") 35) (VSrc (SAccount (AccLit "a") (OdUpTo (MonLit (AssetLit "USD") 20)))) (DAccount (AccLit "b")) ] |} in
  match run p [] {| st_bal := [(("a", "USD"), -10)]; st_meta := [] |} with
  | Ok r => (map pamt (all_postings r), rbal r) | _ => ([], []) end = ([30; 35], [(("a", "USD"), -15)]).
Proof. vm_compute. reflexivity. Qed.
