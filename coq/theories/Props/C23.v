(* C23 — Numscript never overdraws a bounded source.  Statements only; proofs in Machine/BalProofs.v, RunProofs.v. *)
From Coq Require Import List ZArith QArith String Bool.
From LV Require Import Machine.Syntax Machine.Allot Machine.Lex Machine.Sem Machine.SemProofs Machine.BalProofs Machine.RunProofs Machine.SemSafe.
Import ListNotations.
Open Scope Z_scope.
Open Scope string_scope.

(* For EVERY program, variables and store, if the run succeeds there is an environment e (the resolved variables, in
   which the statements were executed: Forall2 stmt_posts) such that for every tracked pair k = (account, asset) with
   account <> world and every bound B >= 0:
     IF in every send statement ([stmt_bound k e B]) every source on k's account is either plain (bound 0) or carries
        `allowing overdraft up to M` with M <= B (M evaluated in e, in k's asset), and NO source declared
        `allowing unbounded overdraft` evaluates to k's account,
     THEN  initial(k) + net effect of ALL postings of the run on k  >=  min(initial(k), -B),
   where initial(k) is the store's balance (C22_balances). The balance is initial + postings of the whole run, so
   funds received earlier in the script are spendable. Tracked pairs are exactly the bounded source accounts x the
   statement's asset (NeededBalances) plus balance() pairs; a bounded source that is not tracked cannot be
   withdrawn at all (C23_untracked_is_error), so every bounded source of a successful run is covered. *)
Theorem C23_bound : forall p given s r, run p given s = Ok r ->
  exists e, Forall2 (stmt_posts e) (pstmts p) (rposts r) /\
  forall k B v, fst k <> "world" -> 0 <= B -> Forall (stmt_bound k e B) (pstmts p) ->
    bget (rinit r) k = Some v ->
    Z.min v (- B) <= v + effect (fst k) (snd k) (all_postings r).
Proof. exact run_bounded. Qed.
Print Assumptions C23_bound.

(* purely syntactic instance: no overdraft clause anywhere => no tracked non-world account ends below min(initial, 0) *)
Theorem C23_no_overdraft : forall p given s r, run p given s = Ok r ->
  forallb stmt_no_overdraft (pstmts p) = true ->
  forall k v, fst k <> "world" -> bget (rinit r) k = Some v ->
  Z.min v 0 <= v + effect (fst k) (snd k) (all_postings r).
Proof. exact run_no_overdraft. Qed.
Print Assumptions C23_no_overdraft.

(* the mechanism: withdrawAll hands out max(0, balance + bound) and leaves >= min(balance, -bound) *)
Theorem C23_withdraw_all : forall b acc asset o f b1 x,
  withdraw_all b acc asset (Some o) = Ok (f, b1) -> bget b (acc, asset) = Some x ->
  exists y, bget b1 (acc, asset) = Some y /\ Z.min x (- o) <= y /\ total f = Z.max 0 (x + o) /\ y + total f = x /\
            fparts f = [(acc, total f)].
Proof. exact withdraw_all_bound. Qed.
Print Assumptions C23_withdraw_all.

Theorem C23_untracked_is_error : forall b acc asset od, bget b (acc, asset) = None ->
  withdraw_all b acc asset od = Err EInvalidScript.
Proof. intros b acc asset od H. unfold withdraw_all. rewrite H. reflexivity. Qed.
Print Assumptions C23_untracked_is_error.

(* non-vacuity: negative initial balance with an overdraft allowance; funds received earlier in the script are spendable;
   a: -10 -> +30 -> -35 = -15 >= min(-10, -20) *)
Example C23_example :
  let p := {| pvars := [];
              pstmts := [ Send (MonLit (AssetLit "USD") 30) (VSrc (SAccount (AccLit "world") OdNone)) (DAccount (AccLit "a"));
                          Send (MonLit (AssetLit "USD") 35) (VSrc (SAccount (AccLit "a") (OdUpTo (MonLit (AssetLit "USD") 20)))) (DAccount (AccLit "b")) ] |} in
  match run p [] {| st_bal := [(("a", "USD"), -10)]; st_meta := [] |} with
  | Ok r => (map pamt (all_postings r), rbal r, effect "a" "USD" (all_postings r)) | _ => ([], [], 0) end
  = ([30; 35], [(("a", "USD"), -15)], -5).
Proof. vm_compute. reflexivity. Qed.

(* ---------- the same of the compiled program on the bytecode VM (Machine/RunCorrect.v: vm_run = Sem.run) ---------- *)
From LV Require Import Machine.Vm Machine.Compile Machine.VmRun Machine.RunCorrect.
Theorem C23_machine_bound : forall p given s vr, vm_run p given s = Ok vr ->
  exists e, forall k B v, fst k <> "world" -> 0 <= B -> Forall (stmt_bound k e B) (pstmts p) ->
    bget (vr_init vr) k = Some v -> Z.min v (- B) <= v + effect (fst k) (snd k) (vr_posts vr).
Proof. exact vm_bounded. Qed.
Print Assumptions C23_machine_bound.

Theorem C23_machine_no_overdraft : forall p given s vr, vm_run p given s = Ok vr -> forallb stmt_no_overdraft (pstmts p) = true ->
  forall k v, fst k <> "world" -> bget (vr_init vr) k = Some v -> Z.min v 0 <= v + effect (fst k) (snd k) (vr_posts vr).
Proof. exact vm_no_overdraft. Qed.
Print Assumptions C23_machine_no_overdraft.

Example C23_machine_example :
  let p := {| pvars := [];
              pstmts := [ Send (MonLit (AssetLit "USD") 30) (VSrc (SAccount (AccLit "world") OdNone)) (DAccount (AccLit "a"));
                          Send (MonLit (AssetLit "USD") 35) (VSrc (SAccount (AccLit "a") (OdUpTo (MonLit (AssetLit "USD") 20)))) (DAccount (AccLit "b")) ] |} in
  match vm_run p [] {| st_bal := [(("a", "USD"), -10)]; st_meta := [] |} with
  | Ok vr => (map pamt (vr_posts vr), vr_bal vr, effect "a" "USD" (vr_posts vr)) | _ => ([], [], 0) end
  = ([30; 35], [(("a", "USD"), -15)], -5).
Proof. vm_compute. reflexivity. Qed.
