(* C03 — Post-commit volumes describe the state right after each transaction.  Statements only. *)
From Coq Require Import List ZArith String Bool Lia.
From LV Require Import Base.Util Ledger.Types Ledger.Core Ledger.VolProofs Ledger.Invariants Ledger.PcvProofs.
Import ListNotations.
Open Scope Z_scope.

(* (1) postCommitVolumes has exactly one entry per touched account/asset, equal to the table right after the commit *)
Theorem C03_post_commit_is_state_after : forall f now s ps md ts ref s1 t,
  commit_transaction f now s ps md ts ref = (s1, Some t) ->
  map fst (t_pcv t) = map fst (volume_updates ps) /\
  (forall p, In p ps -> In (skey p) (map fst (t_pcv t)) /\ In (dkey p) (map fst (t_pcv t))) /\
  (forall k, In k (map fst (t_pcv t)) -> vget (t_pcv t) k = vget (s_vols s1) k).
Proof.
  intros f now s ps md ts ref s1 t H. apply commit_some in H.
  destruct H as (_ & _ & _ & _ & _ & _ & _ & _ & _ & _ & _ & Hvol & Hpcv & _).
  rewrite Hpcv, returned_totals_keys. repeat split.
  - apply volume_updates_keys; assumption.
  - apply volume_updates_keys; assumption.
  - intros k Hk. apply vget_returned_totals; [exact Hk | apply volume_updates_nodup].
Qed.
Print Assumptions C03_post_commit_is_state_after.

(* (2) preCommitVolumes = postCommitVolumes minus the transaction's own postings = the table right before *)
Theorem C03_pre_commit_is_state_before : forall f now s ps md ts ref s1 t k,
  commit_transaction f now s ps md ts ref = (s1, Some t) ->
  vget (s_vols s1) k = vplus (vget (s_vols s) k) (fold_postings ps k).
Proof.
  intros f now s ps md ts ref s1 t k H. apply commit_some in H.
  destruct H as (_ & _ & _ & _ & _ & _ & _ & _ & _ & _ & _ & Hvol & _). rewrite Hvol. apply vget_update_volumes.
Qed.
Print Assumptions C03_pre_commit_is_state_before.

(* (3) the moves recorded for the transaction (source side then destination side of posting 0, 1, ...) carry the
   running volumes after applying the postings in order, starting from the table right before -- including repeated
   accounts and source = destination *)
Theorem C03_moves_are_running_volumes : forall vols ps,
  moves_of (returned_totals (update_volumes vols (volume_updates ps)) (volume_updates ps)) ps = fwd vols ps.
Proof. exact commit_moves_forward. Qed.
Print Assumptions C03_moves_are_running_volumes.

(* (4) these values never change afterwards: along any step the stored (id, postings, postCommitVolumes, dates, reference)
   of existing transactions stay, new transactions are only appended *)
Theorem C03_frozen : forall f now s o s' r, step f now s o = SR s' r ->
  exists l, map tx_core (s_txs s') = map tx_core (s_txs s) ++ l.
Proof. exact step_frozen. Qed.
Print Assumptions C03_frozen.

Local Open Scope string_scope.
Example C03_example :
  let p1 := {| p_src := "world"; p_dst := "alice"; p_asset := "USD"; p_amt := 10 |} in
  let p2 := {| p_src := "alice"; p_dst := "alice"; p_asset := "USD"; p_amt := 3 |} in
  let p3 := {| p_src := "alice"; p_dst := "world"; p_asset := "USD"; p_amt := 4 |} in
  map md_pcv (fwd [(("alice", "USD"), (5, 1))] [p1; p2; p3]) = [(0, 10); (15, 1); (15, 4); (18, 4); (18, 8); (4, 10)].
Proof. vm_compute. reflexivity. Qed.
