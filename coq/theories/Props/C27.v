(* C27 — Compiling and running any input never crashes (from the AST down; the ANTLR front end is explored by
   the harness command `nsfront`, not modelled).  Proofs in Machine/SemSafe.v, EnvProofs.v, RunProofs.v.
   Sem.run is a total Gallina function (termination is checked by Coq: structural recursion over the AST, no fuel),
   with an explicit [Panic] outcome wherever the Go code would dereference a nil amount. *)
From Coq Require Import List ZArith QArith String Bool.
From LV Require Import Machine.Syntax Machine.Allot Machine.Lex Machine.Sem Machine.SemSafe Machine.RunProofs.
Import ListNotations.
Open Scope Z_scope.
Open Scope string_scope.

(* no program, no variable assignment, no store makes the (repaired: fixes/01) machine semantics panic *)
Theorem C27_no_panic : forall p given s, run p given s <> Panic.
Proof. exact run_no_panic. Qed.
Print Assumptions C27_no_panic.

Theorem C27_statements_no_panic : forall e, env_ok e -> forall l ms, exec_stmts e l ms <> Panic.
Proof. exact exec_stmts_np. Qed.
Print Assumptions C27_statements_no_panic.

(* an error result carries no postings, metadata or balances: the outcome type has them only under Ok *)
Theorem C27_no_partial : forall p given s e, run p given s = Err e -> forall r, run p given s <> Ok r.
Proof. intros p given s e H r H'. rewrite H in H'. discriminate. Qed.
Print Assumptions C27_no_partial.

(* regression of KF-C27-nil-balance-panic (fixes/01): two balance() variables on one account; the first is usable *)
Example C27_two_balances_same_account :
  match run {| pvars := [ {| vty := TMonetary; vname := "b1"; vorigin := OBalance (AccLit "a") (AssetLit "USD") |};
                          {| vty := TMonetary; vname := "b2"; vorigin := OBalance (AccLit "a") (AssetLit "EUR") |} ];
               pstmts := [ Send (MonVar "b1") (VSrc (SAccount (AccLit "a") OdNone)) (DAccount (AccLit "b")) ] |}
            [] {| st_bal := [(("a", "USD"), 10); (("a", "EUR"), 5)]; st_meta := [] |} with
  | Ok r => map pamt (all_postings r) | _ => [] end = [10].
Proof. vm_compute. reflexivity. Qed.

(* non-vacuity: a program with variables of several kinds runs *)
Example C27_example :
  let p := {| pvars := [ {| vty := TAccount; vname := "acc"; vorigin := ONone |};
                         {| vty := TPortion; vname := "fee"; vorigin := OMeta (AccVar "acc") "fee" |} ];
              pstmts := [ Send (MonLit (AssetLit "USD") 10) (VSrc (SAccount (AccLit "world") OdNone))
                               (DAllot (DACons (PVar "fee") (To (DAccount (AccVar "acc"))) (DACons PRemaining Kept DANil))) ] |} in
  match run p [("acc", VAccount "a")] {| st_bal := []; st_meta := [(("a", "fee"), VPortion (1#4))] |} with
  | Ok r => map pamt (all_postings r) | _ => [] end = [3].
Proof. vm_compute. reflexivity. Qed.
