(* C27 — Compiling and running any input never crashes (from the AST down; the ANTLR front end is explored by
   the harness command `nsfront`, not modelled).  Proofs in Machine/SemSafe.v, EnvProofs.v, RunProofs.v.
   Sem.run is a total Gallina function (termination is checked by Coq: structural recursion over the AST, no fuel),
   with an explicit [Panic] outcome wherever the Go code would dereference a nil amount. *)
From Coq Require Import List ZArith QArith String Bool.
From LV Require Import Machine.Syntax Machine.Allot Machine.Lex Machine.Sem Machine.SemSafe Machine.RunProofs.
Import ListNotations.
Open Scope Z_scope.
Open Scope string_scope.

(* no program, no variable assignment, no store makes the (repaired: fixes/01) machine semantics panic *)
Theorem C27_no_panic : forall p given s, run p given s <> Panic.
Proof. exact run_no_panic. Qed.
Print Assumptions C27_no_panic.

Theorem C27_statements_no_panic : forall e, env_ok e -> forall l ms, exec_stmts e l ms <> Panic.
Proof. exact exec_stmts_np. Qed.
Print Assumptions C27_statements_no_panic.

(* an error result carries no postings, metadata or balances: the outcome type has them only under Ok *)
Theorem C27_no_partial : forall p given s e, run p given s = Err e -> forall r, run p given s <> Ok r.
Proof. intros p given s e H r H'. rewrite H in H'. discriminate. Qed.
Print Assumptions C27_no_partial.

(* regression of KF-C27-nil-balance-panic (fixes/01): two balance() variables on one account; the first is usable *)
Example C27_two_balances_same_account :
  match run {| pvars := [ {| vty := TMonetary; vname := "b1"; vorigin := OBalance (AccLit "a") (AssetLit "USD") |};
                          {| vty := TMonetary; vname := "b2"; vorigin := OBalance (AccLit "a") (AssetLit "EUR") |} ];
               pstmts := [ Send (MonVar "b1") (VSrc (SAccount (AccLit "a") OdNone)) (DAccount (AccLit "b")) ] |}
            [] {| st_bal := [(("a", "USD"), 10); (("a", "EUR"), 5)]; st_meta := [] |} with
  | Ok r => map pamt (all_postings r) | _ => [] end = [10].
Proof. vm_compute. reflexivity. Qed.

(* non-vacuity: a program with variables of several kinds runs *)
Example C27_example :
  let p := {| pvars := [ {| vty := TAccount; vname := "acc"; vorigin := ONone |};
                         {| vty := TPortion; vname := "fee"; vorigin := OMeta (AccVar "acc") "fee" |} ];
              pstmts := [ Send (MonLit (AssetLit "USD") 10) (VSrc (SAccount (AccLit "world") OdNone))
                               (DAllot (DACons (PVar "fee") (To (DAccount (AccVar "acc"))) (DACons PRemaining Kept DANil))) ] |} in
  match run p [("acc", VAccount "a")] {| st_bal := []; st_meta := [(("a", "fee"), VPortion (1#4))] |} with
  | Ok r => map pamt (all_postings r) | _ => [] end = [3].
Proof. vm_compute. reflexivity. Qed.

(* ---------- the bytecode layer (Machine/Vm.v, Compile.v, CompileCorrect.v) ----------
   Vm.v is the machine of vm/machine.go with Panic wherever Go panics (typed pop on another type, stack underflow,
   BUMP index out of range, OP_SAVE default, nil amounts, "stack not empty after execution"); Compile.v is the compiler
   (gen: instructions whose APUSH operand is a resource description; assign: addresses into the resource table).
   The tie `nsbc` checks on every run that Compile.v emits byte-for-byte the program of the real compiler.Compile
   (instructions, resources, needed balances) and that Vm.v on the REAL bytecode yields the real machine's result.
   Proved here, for EVERY checked program (all statement forms: sends with account / world / overdraft / max / in-order /
   allotment sources, account / max-remaining / allotment / kept destinations, send-all, save, metadata) in the
   environment of a run: executing the emitted instruction stream, APUSH operands read by their denotation, never
   panics, and the stack is empty at the end (C27_vm_no_panic_code).  The concrete level is below (C27_vm_no_panic). *)
From LV Require Import Machine.EnvProofs Machine.Vm Machine.Compile Machine.CompileCorrect.
Theorem C27_vm_no_panic_code : forall p te e b0,
  chk_vars [] (pvars p) = Some te -> Forall (fun s => chk_stmt te s = true) (pstmts p) -> cons_env te e -> env_valid e ->
  exec (sym_look e) (code (sp_events (gen p))) (vm_init b0) <> Panic /\
  forall st, exec (sym_look e) (code (sp_events (gen p))) (vm_init b0) = Ok st -> vstk st = [] /\ finish st = Ok st.
Proof. exact code_no_panic. Qed.
Print Assumptions C27_vm_no_panic_code.

(* one tick per instruction always suffices (no jumps: P strictly increases) *)
Theorem C27_vm_fuel : forall (O : Type) (look : O -> option vval) is fuel st, (List.length is <= fuel)%nat ->
  exec_fuel look fuel is st = Some (exec look is st).
Proof. intros O look. exact (fuel_sufficient look). Qed.
Print Assumptions C27_vm_fuel.

(* ---------- the concrete machine (Machine/RunCorrect.v) ----------
   FRAGMENT COVERED: every program (all statement forms, all variable origins); nothing is left to the tie alone.
   For EVERY program p that compiles (Compile.compile p = Some cp: instructions with addresses, concrete resource
   table, needed balances -- the objects the tie `nsbc` compares byte for byte with the real compiler's output),
   every variables JSON and every store, running cp the way the runtime adapter does (VmRun.run_program:
   ParseVariablesJSON, ResolveResources, ResolveBalances, Execute, "stack not empty" check) never reaches a Panic
   outcome of Vm.v / VmRun.v: no typed pop finds another type, no stack underflow, no BUMP index out of range, no
   nil amount is dereferenced, no default branch, no type assertion of ResolveResources / ResolveBalances fails, and
   the stack is empty after the last instruction. *)
From LV Require Import Machine.VmRun Machine.RunCorrect.
Theorem C27_vm_no_panic : forall p cp given s, compile p = Some cp -> run_program cp given s <> Panic.
Proof. exact run_program_no_panic. Qed.
Print Assumptions C27_vm_no_panic.

Theorem C27_vm_no_panic_run : forall p given s, vm_run p given s <> Panic.
Proof. exact vm_run_no_panic. Qed.
Print Assumptions C27_vm_no_panic_run.

Theorem C27_vm_stack_empty : forall cp given s vr, run_program cp given s = Ok vr ->
  exists vals b0 st, exec (nth_error vals) (cp_instrs cp) {| vstk := []; vbal := b0; vposts := []; vtx := []; vacc := [] |} = Ok st /\
                     vstk st = [] /\ vr_posts vr = vposts st /\ vr_bal vr = vbal st.
Proof. exact run_program_stack_empty. Qed.
Print Assumptions C27_vm_stack_empty.

(* non-vacuity: the program of C27_example compiles (non-empty instruction list and resource table) and the bytecode VM
   returns the posting of 3 *)
Example C27_vm_example :
  let p := {| pvars := [ {| vty := TAccount; vname := "acc"; vorigin := ONone |};
                         {| vty := TPortion; vname := "fee"; vorigin := OMeta (AccVar "acc") "fee" |} ];
              pstmts := [ Send (MonLit (AssetLit "USD") 10) (VSrc (SAccount (AccLit "world") OdNone))
                               (DAllot (DACons (PVar "fee") (To (DAccount (AccVar "acc"))) (DACons PRemaining Kept DANil))) ] |} in
  (match compile p with Some cp => (List.length (cp_instrs cp) <=? 0, List.length (cp_res cp) <=? 0)%nat | None => (true, true) end,
   match vm_run p [("acc", VAccount "a")] {| st_bal := []; st_meta := [(("a", "fee"), VPortion (1#4))] |} with
   | Ok vr => map pamt (vr_posts vr) | _ => [] end) = ((false, false), [3]).
Proof. vm_compute. reflexivity. Qed.
