(* C27 — Compiling and running any input never crashes (from the AST down; the ANTLR front end is explored by
   the harness command `nsfront`, not modelled).  Proofs in Machine/SemSafe.v.
   Sem.run is a total Gallina function (termination is checked by Coq: structural recursion over the AST, no fuel),
   with an explicit [Panic] outcome wherever the Go code would panic. *)
From Coq Require Import List ZArith QArith String Bool.
From LV Require Import Machine.Syntax Machine.Allot Machine.Lex Machine.Sem Machine.SemSafe.
Import ListNotations.
Open Scope Z_scope.
Open Scope string_scope.

(* FULL STATEMENT (refuted below): forall p given s, run p given s <> Panic.

   Proved: a program WITHOUT balance() variables never panics, whatever the variables, balances and metadata;
   and, for any program, executing the statements never panics once no variable holds a nil amount. *)
Theorem C27_no_panic_partial : forall p given s, no_balance_vars p -> run p given s <> Panic.
Proof. exact run_no_panic. Qed.
Print Assumptions C27_no_panic_partial.

Theorem C27_statements_no_panic : forall e, env_ok e -> forall l ms, exec_stmts e l ms <> Panic.
Proof. exact exec_stmts_np. Qed.
Print Assumptions C27_statements_no_panic.

(* an error result carries no postings, metadata or balances: the outcome type has them only under Ok *)
Theorem C27_no_partial : forall p given s e, run p given s = Err e -> forall r, run p given s <> Ok r.
Proof. intros p given s e H r H'. rewrite H in H'. discriminate. Qed.
Print Assumptions C27_no_partial.

(* Refutation, replayed on the real compiler + VM (known finding KF-C27-nil-balance-panic):
     vars { monetary $b1 = balance(@a, USD)  monetary $b2 = balance(@a, EUR) }
     send $b1 ( source = @a  destination = @b )
   m.UnresolvedResourceBalances is keyed by account address: $b1 keeps Amount == nil and Funding.Take dereferences it. *)
Definition c27_witness : program :=
  {| pvars := [ {| vty := TMonetary; vname := "b1"; vorigin := OBalance (AccLit "a") (AssetLit "USD") |};
                {| vty := TMonetary; vname := "b2"; vorigin := OBalance (AccLit "a") (AssetLit "EUR") |} ];
     pstmts := [ Send (MonVar "b1") (VSrc (SAccount (AccLit "a") OdNone)) (DAccount (AccLit "b")) ] |}.

Theorem C27_refuted_nil_balance :
  check c27_witness = true /\
  run c27_witness [] {| st_bal := [(("a", "USD"), 10); (("a", "EUR"), 5)]; st_meta := [] |} = Panic.
Proof. split; vm_compute; reflexivity. Qed.
Print Assumptions C27_refuted_nil_balance.

(* non-vacuity: a program with variables of several kinds satisfies the hypothesis and runs *)
Example C27_example :
  let p := {| pvars := [ {| vty := TAccount; vname := "acc"; vorigin := ONone |};
                         {| vty := TPortion; vname := "fee"; vorigin := OMeta (AccVar "acc") "fee" |} ];
              pstmts := [ Send (MonLit (AssetLit "USD") 10) (VSrc (SAccount (AccLit "world") OdNone))
                               (DAllot (DACons (PVar "fee") (To (DAccount (AccVar "acc"))) (DACons PRemaining Kept DANil))) ] |} in
  match run p [("acc", VAccount "a")] {| st_bal := []; st_meta := [(("a", "fee"), VPortion (1#4))] |} with
  | Ok r => map pamt (all_postings r) | _ => [] end = [3].
Proof. vm_compute. reflexivity. Qed.
