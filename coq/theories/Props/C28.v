(* C28 — Stored transactions only contain well-formed postings (machine-script path).
   Statements only; proofs in Machine/SemProofs.v. Recognisers valid_address / valid_asset / lexer_asset
   (Machine/Lex.v) are tied to pkg/accounts.Regexp, pkg/assets.Regexp and the ASSET lexer rule by the tie `nslex`. *)
From Coq Require Import List ZArith QArith String Bool.
From LV Require Import Machine.Syntax Machine.Allot Machine.Lex Machine.Sem Machine.SemProofs.
Import ListNotations.
Open Scope Z_scope.
Open Scope string_scope.

(* FULL STATEMENT (refuted below): every posting of a successful run has valid source/destination addresses,
   a valid asset and a non-negative amount.

   Proved (C28_partial): every posting has a non-negative amount and carries exactly the asset the statement's
   monetary evaluates to ([mon_asset]: the asset of its left-most operand); when that operand is a LITERAL
   [S n] the asset of every posting is the literal text S itself (C28_literal_asset) — accepted by the compiler
   as soon as the lexer rule [A-Z/0-9]+ matches, never compared with the asset pattern; when it comes from a
   plain variable, SetVarsFromJSON has validated it (C28_variables_validated). *)
Theorem C28_partial : forall p given s r, run p given s = Ok r ->
  exists e, Forall2 (fun st ps =>
    match st with
    | Send m _ _ => Forall (fun q => passet q = mon_asset e m /\ 0 <= pamt q) ps
    | SendAll _ _ _ => exists A, Forall (fun q => passet q = A /\ 0 <= pamt q) ps
    | _ => ps = []
    end) (pstmts p) (rposts r).
Proof.
  intros p given s r H. destruct (run_guarantee _ _ _ _ H) as [e HF]. exists e.
  eapply (Forall2_strengthen _ _ (fun _ => True)); [exact HF|apply Forall_forall; intros; exact I|].
  intros st ps _ Hg. destruct st; simpl in *; try assumption.
  - destruct Hg as [A [x [_ [HA [[Hf _] _]]]]]. subst A. assumption.
  - destruct Hg as [f [b [b1 [_ [_ [[Hf _] _]]]]]]. exists (fasset f). assumption.
Qed.
Print Assumptions C28_partial.

Theorem C28_literal_asset : forall e m s n, leftmost m = MonLit (AssetLit s) n -> mon_asset e m = s.
Proof. exact literal_statement_asset. Qed.
Print Assumptions C28_literal_asset.

Theorem C28_variables_validated : forall decls given, set_vars decls given = true ->
  forall d, In d decls -> vorigin d = ONone ->
  exists v, lookup given (vname d) = Some v /\ ty_of v = ty_of v /\ validate_value v = true.
Proof. exact set_vars_valid. Qed.
Print Assumptions C28_variables_validated.

(* Refutation (suspect S-28, replayed on the real code: known finding KF-C28-literal-asset):
     send [USD//2 10] ( source = @world  destination = @a )
   compiles (the lexer accepts USD//2), runs, and yields a posting whose asset fails assets.IsValid. *)
Definition c28_witness : program :=
  {| pvars := []; pstmts := [ Send (MonLit (AssetLit "USD//2") 10) (VSrc (SAccount (AccLit "world") OdNone)) (DAccount (AccLit "a")) ] |}.

Theorem C28_refuted_literal :
  check c28_witness = true /\ lexer_asset "USD//2" = true /\ valid_asset "USD//2" = false /\
  exists r, run c28_witness [] {| st_bal := []; st_meta := [] |} = Ok r /\
            all_postings r = [ {| psrc := "world"; pdst := "a"; passet := "USD//2"; pamt := 10 |} ].
Proof. repeat split; try (vm_compute; reflexivity). eexists. split; vm_compute; reflexivity. Qed.
Print Assumptions C28_refuted_literal.

(* non-vacuity: the recognisers on representative strings *)
Example C28_example :
  map valid_asset ["USD"; "EUR/2"; "USD_X/6"; "USD//2"; "12A"; "A/1234567"; "usd"] = [true; true; true; false; false; false; false] /\
  map valid_address ["world"; "a:b-1:c_2"; "a::b"; ":a"; ""] = [true; true; false; false; false] /\
  map lexer_asset ["USD//2"; "12A"; "9"; "1/2"; "USD_X"] = [true; true; false; false; false].
Proof. vm_compute. repeat split. Qed.
