(* C28 — Stored transactions only contain well-formed postings (machine-script path).
   Statements only; proofs in Machine/SemProofs.v, EnvProofs.v, RunProofs.v. Recognisers valid_address / valid_asset /
   lexer_asset (Machine/Lex.v) are tied to pkg/accounts.Regexp, pkg/assets.Regexp and the ASSET lexer rule by the tie `nslex`. *)
From Coq Require Import List ZArith QArith String Bool.
From LV Require Import Machine.Syntax Machine.Allot Machine.Lex Machine.Sem Machine.SemProofs Machine.EnvProofs Machine.RunProofs.
Import ListNotations.
Open Scope Z_scope.
Open Scope string_scope.

Definition wellformed (q : npost) : Prop :=
  valid_address (psrc q) = true /\ valid_address (pdst q) = true /\ valid_asset (passet q) = true /\ 0 <= pamt q.

(* every posting of every successful run of the (repaired: fixes/02) machine has a source and a destination matching
   the address pattern (literals: the lexer recogniser; variables and meta() values: validation), an asset matching
   the asset pattern (literals are now validated at compile time; variables, monetary variables, balance()
   assets: validation) and a non-negative amount *)
Theorem C28_wellformed : forall p given s r, run p given s = Ok r -> Forall wellformed (all_postings r).
Proof.
  intros p given s r H. destruct (run_guarantee _ _ _ _ H) as [e HF]. unfold all_postings.
  induction HF as [|st ps l L Hg _ IH]; simpl; [constructor|]. apply Forall_app. split; [|exact IH].
  destruct st; simpl in Hg; try (subst ps; constructor).
  - destruct Hg as [A [x [_ [_ [HA [Hf _]]]]]]. eapply Forall_impl; [|exact Hf].
    intros q [H1 [H2 [H3 H4]]]. unfold wellformed. rewrite H1. auto.
  - destruct Hg as [f [b [b1 [_ [_ [_ [HA [Hf _]]]]]]]]. eapply Forall_impl; [|exact Hf].
    intros q [H1 [H2 [H3 H4]]]. unfold wellformed. rewrite H1. auto.
Qed.
Print Assumptions C28_wellformed.

(* the environment of a run: declared variables hold values of their type that passed validation *)
Theorem C28_environment_valid : forall p given s r, run p given s = Ok r ->
  exists te e ms, chk_vars [] (pvars p) = Some te /\ Forall (fun st => chk_stmt te st = true) (pstmts p) /\
                  cons_env te e /\ env_valid e /\
                  exec_stmts e (pstmts p) (init_state (rinit r)) = Ok ms /\
                  rposts r = mposts ms /\ rbal r = mbal ms /\ rsaved r = msaved ms.
Proof. exact run_inv. Qed.
Print Assumptions C28_environment_valid.

(* regression of KF-C28-literal-asset (fixes/02, suspect S-28): a literal the lexer accepts but the asset pattern
   rejects is now a compile error *)
Example C28_literal_asset_rejected :
  lexer_asset "USD//2" = true /\ valid_asset "USD//2" = false /\
  run {| pvars := []; pstmts := [ Send (MonLit (AssetLit "USD//2") 10) (VSrc (SAccount (AccLit "world") OdNone)) (DAccount (AccLit "a")) ] |}
      [] {| st_bal := []; st_meta := [] |} = Err ECompile.
Proof. repeat split; vm_compute; reflexivity. Qed.

(* non-vacuity: the recognisers on representative strings *)
Example C28_example :
  map valid_asset ["USD"; "EUR/2"; "USD_X/6"; "USD//2"; "12A"; "A/1234567"; "usd"] = [true; true; true; false; false; false; false] /\
  map valid_address ["world"; "a:b-1:c_2"; "a::b"; ":a"; ""] = [true; true; false; false; false] /\
  map lexer_asset ["USD//2"; "12A"; "9"; "1/2"; "USD_X"] = [true; true; false; false; false].
Proof. vm_compute. repeat split. Qed.

(* ---------- the same of the compiled program on the bytecode VM (Machine/RunCorrect.v: vm_run = Sem.run) ---------- *)
From LV Require Import Machine.Vm Machine.Compile Machine.VmRun Machine.RunCorrect.
Theorem C28_machine_wellformed : forall p given s vr, vm_run p given s = Ok vr -> Forall wellformed (vr_posts vr).
Proof. intros p given s vr H. destruct (vm_run_ok _ _ _ _ H) as [r [Hr ->]]. exact (C28_wellformed _ _ _ _ Hr). Qed.
Print Assumptions C28_machine_wellformed.
