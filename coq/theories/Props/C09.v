(* C09 — The log hash chain is linear and verifiable.  Statements only; proofs live in Ledger/HashChain.v, HashProofs.v.

   Setting: HASH_LOGS = SYNC. H is ANY hash function (SHA-256 is not modelled), enc is ANY rendering of a model log as
   the byte-level record the trigger sees (type, memento bytes, date, idempotency key, schema version); the trigger's
   rule is Hash.sql_preimage (the effective set_log_hash of migration 37): hash(new) = H(pre(hash of the row with the
   greatest id, new)). Histories are the sequential histories of Ledger/Core.v (one log per committed write, ids drawn
   from the log sequence).
   CONCURRENCY: the part of the property that quantifies over interleavings is reduced to C09_linear_serialized, which
   holds for ANY list of atomic insert events (see the HOOK in Ledger/HashChain.v); that the advisory lock of
   InsertLog makes every schedule such a list is what the schedule harness checks on the real stack.
   The hook is DISCHARGED for the lock protocol itself in Props/C09c.v (exported below): on the interleaving model
   Ledger/ConcChain.v - single writes and atomic bulks, any number of them, every schedule - each log insert of a READ COMMITTED
   transaction holding the advisory lock IS HashChain.insert, so the table stays a linear chain (C09_conc_bulk_linear); at
   REPEATABLE READ it does not (C09_conc_repeatable_read_forks). *)
From Coq Require Import List ZArith Bool Lia Sorted String Ascii.
From LV Require Export Props.C09c.   (* concurrent part: theorems over all schedules of the lock-protocol model Ledger/ConcChain.v *)
From LV Require Import Base.Util Base.Json Ledger.Types Ledger.Core Ledger.Invariants Ledger.Hash Ledger.HashProofs Ledger.HashChain.
Import ListNotations.
Open Scope Z_scope.

Section C09.
  Variable H : bytes -> bytes.
  Variable enc : log -> hlog.
  Definition trigger_pre (p : option bytes) (l : log) : option bytes := sql_preimage p (enc l).
  Definition verifier_pre (p : option bytes) (l : log) : bytes := go_preimage p (enc l).      (* Log.ComputeHash *)

  (* every stored hash is the chain hash: the first log hashes from no predecessor, log n from the stored hash of
     log n-1, in id order; for every history, every feature set, every H *)
  Theorem C09_chain_seq : forall f h,
    chain_ok H trigger_pre (log_table H trigger_pre (run f h)) /\
    StronglySorted Z.lt (ids l_id (log_table H trigger_pre (run f h))).
  Proof. intros f h. destruct (run_chain H trigger_pre f h) as [Hs Hc]. split; assumption. Qed.

  (* appending the way Core.step does (one committed write = one atomic insert with the next id) keeps the chain *)
  Theorem C09_step_keeps_chain : forall f now s o s' lid tid,
    Invariants.Inv s -> ChainInv l_id H trigger_pre (log_table H trigger_pre s) ->
    o_dry o = false -> step f now s o = SR s' (ROk lid tid false) ->
    ChainInv l_id H trigger_pre (log_table H trigger_pre s').
  Proof.
    intros f now s o s' lid tid Hinv Hc Hd Hst.
    destruct (step_appends_event H trigger_pre f now s o s' lid tid Hd Hst) as [l [Hid ->]].
    apply insert_inv; [exact Hc|].
    (* stored ids are below the sequence *)
    pose proof (inv_logs _ (proj2 Hinv)) as Hb. rewrite Hid.
    assert (Hsub : forall ls t, Forall (fun y => y < s_next_log s) (ids l_id t) -> Forall (fun y => 0 < y < s_next_log s) (map l_id ls) ->
                     Forall (fun y => y < s_next_log s) (ids l_id (insert_all l_id H trigger_pre t ls))).
    { induction ls as [|x ls IH]; intros t Ht Hls; [exact Ht|]. simpl. inversion Hls; subst. apply IH; [|assumption].
      apply insert_ids_bound; [exact Ht | lia]. }
    apply Hsub; [constructor | exact Hb].
  Qed.

  (* linear: position i+1 chains from position i and from nothing else; positions are id order *)
  Theorem C09_linear : forall f h,
    let t := log_table H trigger_pre (run f h) in
    StronglySorted Z.lt (ids l_id t) /\
    (forall l x, nth_error t 0 = Some (l, x) -> exists y, trigger_pre None l = Some y /\ x = H y) /\
    (forall i l x l' x', nth_error t i = Some (l', x') -> nth_error t (S i) = Some (l, x) ->
       l_id l' < l_id l /\ exists y, trigger_pre (Some x') l = Some y /\ x = H y).
  Proof. intros f h. apply chain_linear. apply run_chain. Qed.

  (* the same for ANY sequence of atomic insert events with increasing ids: the form used for lock-serialised schedules *)
  Theorem C09_linear_serialized : forall ls : list log, StronglySorted Z.lt (map l_id ls) ->
    let t := insert_all l_id H trigger_pre [] ls in
    StronglySorted Z.lt (ids l_id t) /\
    (forall l x, nth_error t 0 = Some (l, x) -> exists y, trigger_pre None l = Some y /\ x = H y) /\
    (forall i l x l' x', nth_error t i = Some (l', x') -> nth_error t (S i) = Some (l, x) ->
       l_id l' < l_id l /\ exists y, trigger_pre (Some x') l = Some y /\ x = H y).
  Proof. intros ls Hs. apply chain_linear_serialized. exact Hs. Qed.

  (* recomputation from the exported logs with Go's ComputeHash reproduces every stored hash. PARTIAL in exactly the
     way C10 is: keys verbatim, no schema version, Hash field cleared before calling ComputeHash (it is part of Go's
     pre-image), dates from year 1, 32-byte digests. Without these hypotheses the statement is false (the C10_refuted theorems). *)
  Definition exportable (l : log) : Prop :=
    go_verbatim (h_ik (enc l)) = true /\ h_sv (enc l) = [] /\ h_hash (enc l) = None /\ 1 <= c_y (civil_of_us (h_date (enc l))).

  Theorem C09_recompute_partial : forall f h,
    (forall x, List.length (H x) = 32%nat) ->
    (forall l, In l (s_logs (run f h)) -> exportable l) ->
    map fst (log_table H trigger_pre (run f h)) = s_logs (run f h) /\
    recompute H verifier_pre None (s_logs (run f h)) = hashes H trigger_pre (run f h).
  Proof.
    intros f h Hlen Hex.
    assert (Hlogs : map fst (log_table H trigger_pre (run f h)) = s_logs (run f h)).
    { unfold log_table. rewrite insert_all_logs; [reflexivity|]. intros p l Hin. apply sql_preimage_defined. apply (Hex l Hin). }
    split; [exact Hlogs|]. unfold hashes. rewrite <- Hlogs at 1.
    apply (recompute_reproduces H trigger_pre verifier_pre (fun q => forall p, q = Some p -> (List.length (base64 p) < 76)%nat)).
    - intros x p E. inversion E; subst. apply base64_len32. apply Hlen.
    - discriminate.
    - exact (proj2 (run_chain H trigger_pre f h)).
    - intros q l Hq Hin x Hx. rewrite Hlogs in Hin. destruct (Hex l Hin) as (Hik & Hsv & Hh & Hy).
      unfold trigger_pre in Hx. rewrite (preimages_agree q (enc l) Hik Hsv Hh Hy Hq) in Hx. inversion Hx. reflexivity.
  Qed.
End C09.
Print Assumptions C09_chain_seq.
Print Assumptions C09_step_keeps_chain.
Print Assumptions C09_linear.
Print Assumptions C09_linear_serialized.
Print Assumptions C09_recompute_partial.

(* without serialisation the chain forks: two inserts that both read the same predecessor (what happens when the
   advisory lock is not taken) store hashes chained from the same row; so the serialisation hypothesis is not idle *)
Section Fork.
  Definition toyH (b : bytes) : bytes := b.
  Definition toy_pre (p : option bytes) (l : Z) : option bytes := Some (match p with None => [] | Some x => x end ++ [chr (Z.to_N l)]).
  Example C09_fork_without_lock :
    let t1 := insert (fun z => z) toyH toy_pre [] 65 in
    let racing := t1 ++ [(66, toyH (B "AB")); (67, toyH (B "AC"))] in     (* both read row 65 as predecessor *)
    chain_ok toyH toy_pre (insert_all (fun z => z) toyH toy_pre [] [65; 66; 67]) /\ ~ chain_ok toyH toy_pre racing.
  Proof.
    split.
    - vm_compute. repeat split; eexists; split; reflexivity.
    - vm_compute. intros (_ & _ & (x & E1 & E2) & _). rewrite <- E2 in E1. inversion E1.
  Qed.
End Fork.

(* non-vacuity: a history with three committed writes, a toy rendering, a toy 2-byte polynomial hash (with the identity
   as hash the predecessor would exceed 57 bytes and PostgreSQL's base64 line break would make the two sides differ:
   that is why C09_recompute_partial asks for 32-byte digests) *)
Definition polyH (b : bytes) : bytes :=
  let x := fold_left (fun a c => ((a * 31 + code c) mod 65536)%N) b 7%N in [chr (x / 256); chr (x mod 256)].
Local Open Scope string_scope.
Example C09_example :
  let f := {| f_moves := true; f_pcev := true; f_acc_hist := true; f_tx_hist := true; f_hash := true |} in
  let p := {| p_src := "world"; p_dst := "bob"; p_asset := "USD"; p_amt := 5 |} in
  let mk := fun ik => {| o_in := ICreate [p] None "" [] [] false; o_ik := ik; o_dry := false |} in
  let enc := fun l : log => {| h_type := TNewTx; h_memento := B "{}"; h_date := l_date l; h_ik := list_ascii_of_string (l_ik l); h_sv := []; h_hash := None |} in
  let s := run f [(1700000000000000, mk "k1"); (1700000001000000, mk ""); (1700000002000000, mk "k3")] in
  List.length (hashes polyH (trigger_pre enc) s) = 3%nat /\ NoDup (hashes polyH (trigger_pre enc) s) /\
  recompute polyH (verifier_pre enc) None (s_logs s) = hashes polyH (trigger_pre enc) s.
Proof. vm_compute. split; [reflexivity|]. split; [|reflexivity]. repeat constructor; simpl; intuition discriminate. Qed.
