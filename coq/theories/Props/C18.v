(* C18 — Account existence and first usage follow the history.
   Full statement: an account is listed iff it was involved in a committed transaction or had metadata written; its
   first usage is the EARLIEST effective timestamp among those events; its insertion date never changes.
   The faithful model REFUTES the 'earliest' part for revert transactions (C18_refuted_revert; known finding
   KF-C18-revert-before-first-usage, replayed on the real code by the harness): revertTransaction commits the revert
   without upserting its accounts.  What is proved (theorems C18_partial_...): existence, persistence, constant insertion date,
   first usage never increases and is at or below the effective timestamp of every committed CREATE involving it. *)
From Coq Require Import List ZArith String Bool Lia.
From LV Require Import Base.Util Ledger.Types Ledger.Core Ledger.Invariants Ledger.AccountProofs.
Import ListNotations.
Open Scope Z_scope.

(* accounts never disappear, keep address and insertion date, and their first usage only decreases; new ones are appended *)
Theorem C18_partial_persistence : forall f now s o s' r, step f now s o = SR s' r ->
  exists l l2, s_accounts s' = l ++ l2 /\
    Forall2 (fun x y => a_addr y = a_addr x /\ a_ins y = a_ins x /\ a_first y <= a_first x) (s_accounts s) l.
Proof.
  intros f now s o s' r H. destruct (step_acc_mono f now s o s' r H) as [l [F [l2 E]]].
  exists l, l2. split; [exact E|]. clear -F. induction F as [|x y r r' [K L] F IH]; constructor; [|exact IH].
  unfold acc_key in K. inversion K. auto.
Qed.
Print Assumptions C18_partial_persistence.

(* involvement in a committed create => listed, with first usage <= the transaction's effective timestamp *)
Theorem C18_partial_involved_listed : forall hist_on now accs hist a md e ins upd,
  exists y, find_account (fst (upsert_account hist_on now (accs, hist) a md (Some e) ins upd)) a = Some y /\ a_first y <= e.
Proof. exact upsert_account_listed. Qed.
Print Assumptions C18_partial_involved_listed.

(* metadata written on an unknown account creates it with first usage = insertion date = now *)
Theorem C18_partial_metadata_creates : forall hist_on now accs hist a md,
  find_account accs a = None ->
  fst (upsert_account hist_on now (accs, hist) a md (Some now) None None) =
  accs ++ [{| a_addr := a; a_meta := md; a_first := now; a_ins := now; a_upd := now |}].
Proof. intros hist_on now accs hist a md F. unfold upsert_account. rewrite F. reflexivity. Qed.
Print Assumptions C18_partial_metadata_creates.

(* metadata written on a known account counts as a usage at the time of the write: first usage <= now afterwards (since the
   repair of UpsertAccounts: a batch row without first_usage stands for transaction_date(), as on insertion) *)
Theorem C18_partial_metadata_lowers : forall hist_on now accs hist a md,
  exists y, find_account (fst (upsert_account hist_on now (accs, hist) a md (Some now) None None)) a = Some y /\ a_first y <= now.
Proof. intros. apply upsert_account_listed. Qed.
Print Assumptions C18_partial_metadata_lowers.

Local Open Scope string_scope.
(* refutation of the full statement: bob is credited by a transaction dated 50 (future-dated), which is reverted at 20
   (not at effective date): the revert transaction involves bob with effective timestamp 20, first usage stays 50 *)
Theorem C18_refuted_revert :
  exists f h a, let s := run f h in
    (exists t, In t (s_txs s) /\ t_ts t = 20 /\ In a (flat_map (fun p => [p_src p; p_dst p]) (t_postings t))) /\
    (exists x, find_account (s_accounts s) a = Some x /\ a_first x = 50).
Proof.
  exists {| f_moves := true; f_pcev := true; f_acc_hist := true; f_tx_hist := true; f_hash := true |}.
  exists [(10, {| o_in := ICreate [{| p_src := "world"; p_dst := "bob"; p_asset := "USD"; p_amt := 5 |}] (Some 50) "" [] [] false; o_ik := ""; o_dry := false |});
          (20, {| o_in := IRevert 1 false false []; o_ik := ""; o_dry := false |})].
  exists "bob". vm_compute. split.
  - eexists. split; [right; left; reflexivity|]. split; [reflexivity|]. left; reflexivity.
  - eexists. split; reflexivity.
Qed.
Print Assumptions C18_refuted_revert.
