(* C18 — Account existence and first usage follow the history.
   Full statement: an account is listed iff it was involved in a committed transaction or had metadata written; its
   first usage is the EARLIEST effective timestamp among those events; its insertion date never changes.
   The faithful model REFUTES the 'earliest' part for revert transactions (C18_refuted_revert; known finding
   KF-C18-revert-before-first-usage, replayed on the real code by the harness): revertTransaction commits the revert
   without upserting its accounts.  What is proved (theorems C18_partial_...): existence, persistence, constant insertion date,
   first usage never increases and is at or below the effective timestamp of every committed CREATE involving it. *)
From Coq Require Import List ZArith String Bool Lia.
From LV Require Import Base.Util Ledger.Types Ledger.Core Ledger.Invariants Ledger.AccountProofs Ledger.FirstUsageProofs.
Import ListNotations.
Open Scope Z_scope.

(* accounts never disappear, keep address and insertion date, and their first usage only decreases; new ones are appended *)
Theorem C18_partial_persistence : forall f now s o s' r, step f now s o = SR s' r ->
  exists l l2, s_accounts s' = l ++ l2 /\
    Forall2 (fun x y => a_addr y = a_addr x /\ a_ins y = a_ins x /\ a_first y <= a_first x) (s_accounts s) l.
Proof.
  intros f now s o s' r H. destruct (step_acc_mono f now s o s' r H) as [l [F [l2 E]]].
  exists l, l2. split; [exact E|]. clear -F. induction F as [|x y r r' [K L] F IH]; constructor; [|exact IH].
  unfold acc_key in K. inversion K. auto.
Qed.
Print Assumptions C18_partial_persistence.

(* involvement in a committed create => listed, with first usage <= the transaction's effective timestamp *)
Theorem C18_partial_involved_listed : forall hist_on now accs hist a md e ins upd,
  exists y, find_account (fst (upsert_account hist_on now (accs, hist) a md (Some e) ins upd)) a = Some y /\ a_first y <= e.
Proof. exact upsert_account_listed. Qed.
Print Assumptions C18_partial_involved_listed.

(* metadata written on an unknown account creates it with first usage = insertion date = now *)
Theorem C18_partial_metadata_creates : forall hist_on now accs hist a md,
  find_account accs a = None ->
  fst (upsert_account hist_on now (accs, hist) a md (Some now) None None) =
  accs ++ [{| a_addr := a; a_meta := md; a_first := now; a_ins := now; a_upd := now |}].
Proof. intros hist_on now accs hist a md F. unfold upsert_account. rewrite F. reflexivity. Qed.
Print Assumptions C18_partial_metadata_creates.

(* metadata written on a known account counts as a usage at the time of the write: first usage <= now afterwards (since the
   repair of UpsertAccounts: a batch row without first_usage stands for transaction_date(), as on insertion) *)
Theorem C18_partial_metadata_lowers : forall hist_on now accs hist a md,
  exists y, find_account (fst (upsert_account hist_on now (accs, hist) a md (Some now) None None)) a = Some y /\ a_first y <= now.
Proof. intros. apply upsert_account_listed. Qed.
Print Assumptions C18_partial_metadata_lowers.

(* THE FUNCTIONAL STATEMENT.  After any history, for every address: the account is listed exactly when the log holds an
   event involving it (a created transaction with it among its postings or account metadata, at the transaction's
   timestamp; metadata written on it, at the date of the write), and then its first usage IS the earliest of those
   events.  [log_events] leaves the accounts of revert transactions out: that is what the code does (KF-C18). *)
Theorem C18_first_usage_is_earliest_event : forall f h a,
  let s := run f h in
  match find_account (s_accounts s) a with
  | None => forall l e, In l (s_logs s) -> ~ In (a, e) (log_events l)
  | Some x => (exists l, In l (s_logs s) /\ In (a, a_first x) (log_events l)) /\
              (forall l e, In l (s_logs s) -> In (a, e) (log_events l) -> a_first x <= e)
  end.
Proof.
  intros f h a s. pose proof (run_fu f h a) as E. pose proof (min_events_spec log_events (s_logs s) a) as S.
  fold s in E. unfold fu in E. destruct (find_account (s_accounts s) a) as [x|]; cbn [option_map] in E; rewrite <- E in S; exact S.
Qed.
Print Assumptions C18_first_usage_is_earliest_event.

(* the property as worded (revert transactions count too) holds for every history whose log has no revert *)
Theorem C18_full_without_reverts : forall f h a,
  let s := run f h in
  Forall no_revert_log (s_logs s) ->
  match find_account (s_accounts s) a with
  | None => forall l e, In l (s_logs s) -> ~ In (a, e) (log_events_full l)
  | Some x => (exists l, In l (s_logs s) /\ In (a, a_first x) (log_events_full l)) /\
              (forall l e, In l (s_logs s) -> In (a, e) (log_events_full l) -> a_first x <= e)
  end.
Proof.
  intros f h a s Hn. pose proof (run_fu f h a) as E. pose proof (min_events_spec log_events_full (s_logs s) a) as S.
  fold s in E. rewrite (min_events_full _ _ Hn) in S. unfold fu in E.
  destruct (find_account (s_accounts s) a) as [x|]; cbn [option_map] in E; rewrite <- E in S; exact S.
Qed.
Print Assumptions C18_full_without_reverts.

Local Open Scope string_scope.
(* non-vacuity: a history with a back-dated and a future-dated transaction and a metadata write; bob's first usage is the
   metadata write at 20 (his only transaction is dated 50), carol's the back-dated 5 *)
Example C18_example_events :
  let s := run {| f_moves := true; f_pcev := true; f_acc_hist := true; f_tx_hist := true; f_hash := true |}
    [(10, {| o_in := ICreate [{| p_src := "world"; p_dst := "bob"; p_asset := "USD"; p_amt := 5 |}] (Some 50) "" [] [] false; o_ik := ""; o_dry := false |});
     (20, {| o_in := ISetMeta (TAcc "bob") [("k", "v")]; o_ik := ""; o_dry := false |});
     (30, {| o_in := ICreate [{| p_src := "world"; p_dst := "carol"; p_asset := "USD"; p_amt := 5 |}] (Some 5) "" [] [] false; o_ik := ""; o_dry := false |})] in
  map (fun x => (a_addr x, a_first x)) (s_accounts s) = [("world", 5); ("bob", 20); ("carol", 5)] /\ Forall no_revert_log (s_logs s).
Proof. vm_compute. split; [reflexivity | repeat constructor]. Qed.

(* refutation of the full statement: bob is credited by a transaction dated 50 (future-dated), which is reverted at 20
   (not at effective date): the revert transaction involves bob with effective timestamp 20, first usage stays 50 *)
Theorem C18_refuted_revert :
  exists f h a, let s := run f h in
    (exists t, In t (s_txs s) /\ t_ts t = 20 /\ In a (flat_map (fun p => [p_src p; p_dst p]) (t_postings t))) /\
    (exists x, find_account (s_accounts s) a = Some x /\ a_first x = 50).
Proof.
  exists {| f_moves := true; f_pcev := true; f_acc_hist := true; f_tx_hist := true; f_hash := true |}.
  exists [(10, {| o_in := ICreate [{| p_src := "world"; p_dst := "bob"; p_asset := "USD"; p_amt := 5 |}] (Some 50) "" [] [] false; o_ik := ""; o_dry := false |});
          (20, {| o_in := IRevert 1 false false []; o_ik := ""; o_dry := false |})].
  exists "bob". vm_compute. split.
  - eexists. split; [right; left; reflexivity|]. split; [reflexivity|]. left; reflexivity.
  - eexists. split; reflexivity.
Qed.
Print Assumptions C18_refuted_revert.
