(* C25 — A postings request is recorded exactly as submitted.  Statements only; proofs in Ledger/CreateProofs.v.
   In the model [feasible] stands for what TxToScriptData + the Numscript machine decide on the generated script;
   that identification is what the differential run checks on the real compiler and machine (and what C22's
   machine model is about). *)
From Coq Require Import List ZArith String Bool Lia.
From LV Require Import Base.Util Ledger.Types Ledger.Core Ledger.VolProofs Ledger.Invariants Ledger.CreateProofs.
Import ListNotations.
Open Scope Z_scope.

Definition create_op ps ts ref md amd force ik dry := {| o_in := ICreate ps ts ref md amd force; o_ik := ik; o_dry := dry |}.

(* (1) a successful, non-dry-run postings request appends exactly one transaction whose postings are the submitted list:
   same order, accounts, assets and amounts (zero amounts included), with the submitted timestamp/reference/metadata *)
Theorem C25_recorded_exactly : forall f now s ps ts ref md amd force ik s' lid tid hit,
  find_ik (s_logs s) ik = None -> ps <> [] ->
  step f now s (create_op ps ts ref md amd force ik false) = SR s' (ROk lid tid hit) ->
  exists t, s_txs s' = s_txs s ++ [t] /\ tid = Some (t_id t) /\ t_postings t = ps /\
            t_ts t = opt_default now ts /\ t_ref t = ref /\ t_meta t = md.
Proof.
  intros f now s ps ts ref md amd force ik s' lid tid hit Hik Hne H.
  pose proof (create_outcome f now s ps ts ref md amd force ik false Hik Hne) as O. unfold create_op in H. rewrite H in O.
  destruct O as (_ & _ & Htid & Hex). destruct (Hex eq_refl) as (t & A & B & C & D & E & F).
  exists t. rewrite B. repeat split; assumption.
Qed.
Print Assumptions C25_recorded_exactly.

(* (2) it fails with insufficient funds if and only if the in-order walk finds a posting that is not forced, not from
   world, of positive amount, and larger than the balance its source has after the postings before it *)
Theorem C25_insufficient_iff : forall f now s ps ts ref md amd force ik dry,
  find_ik (s_logs s) ik = None -> ps <> [] ->
  (exists s', step f now s (create_op ps ts ref md amd force ik dry) = SR s' (RErr EInsufficientFunds))
  <-> ~ (forall i p, nth_error ps i = Some p -> affordable force (s_vols s) ps i p).
Proof.
  intros f now s ps ts ref md amd force ik dry Hik Hne.
  pose proof (create_outcome f now s ps ts ref md amd force ik dry Hik Hne) as O. unfold create_op.
  rewrite <- feasible_spec. split.
  - intros (s' & H). rewrite H in O. destruct (feasible force (s_vols s) ps); [destruct O as (O & _); discriminate O | discriminate].
  - intros Hn. destruct (feasible force (s_vols s) ps) eqn:Fe; [contradiction Hn; reflexivity|].
    destruct (step f now s _) as [s' [lid tid hit|e]|]; [destruct O as (O & _); discriminate O | subst e; exists s'; reflexivity | contradiction].
Qed.
Print Assumptions C25_insufficient_iff.

(* (3) the balance the walk compares with is the stored balance plus the net effect of the earlier postings *)
Theorem C25_walk_balance : forall cur l k,
  balance_after cur l k = balance cur k + (fst (fold_postings l k) - snd (fold_postings l k)).
Proof. exact balance_after_fold. Qed.
Print Assumptions C25_walk_balance.

(* (4) with force the request can never fail for lack of funds *)
Theorem C25_force_never_insufficient : forall f now s ps ts ref md amd ik dry s',
  find_ik (s_logs s) ik = None -> ps <> [] ->
  step f now s (create_op ps ts ref md amd true ik dry) <> SR s' (RErr EInsufficientFunds).
Proof.
  intros f now s ps ts ref md amd ik dry s' Hik Hne H.
  pose proof (create_outcome f now s ps ts ref md amd true ik dry Hik Hne) as O. unfold create_op in H. rewrite H in O.
  rewrite feasible_force in O. destruct O as (O & _). discriminate O.
Qed.
Print Assumptions C25_force_never_insufficient.

Local Open Scope string_scope.
(* non-vacuity: alice receives 10 in the first posting and spends 7+3 in the next two (repeated account, zero amount,
   source = destination); recorded verbatim.  With 7+4 the third posting is not affordable. *)
Example C25_example :
  let f := {| f_moves := true; f_pcev := true; f_acc_hist := false; f_tx_hist := false; f_hash := false |} in
  let P := fun s d a => {| p_src := s; p_dst := d; p_asset := "USD"; p_amt := a |} in
  let ps := [P "world" "alice" 10; P "alice" "bob" 7; P "alice" "alice" 3; P "bob" "bob" 0] in
  let ps' := [P "world" "alice" 10; P "alice" "bob" 7; P "alice" "world" 4] in
  (match step f 10 init_state (create_op ps None "" [] [] false "" false) with
   | SR s' (ROk _ _ _) => map t_postings (s_txs s') = [ps] | _ => False end) /\
  (match step f 10 init_state (create_op ps' None "" [] [] false "" false) with
   | SR _ (RErr EInsufficientFunds) => True | _ => False end).
Proof. vm_compute. split; [reflexivity | exact I]. Qed.

(* ---------- machine side: [feasible] IS what the Numscript machine decides on the script TxToScriptData generates ----------
   Machine/TxScript.v models internal/controller/ledger/numscript.go:TxToScriptData (one `send $vm (source = $va
   [allowing unbounded overdraft] | @world, destination = $va | @world)` per posting; equal accounts / monetaries share
   a variable) and proves, for Sem.run (the machine semantics tied to compiler.Compile + vm.Machine by the tie `ns`):
   for ANY naming of the variables that is injective (Go: va%d / vm%d), any force flag, any non-empty list of valid
   postings and any store whose balances are those of the volumes table, the run yields exactly the submitted
   postings (same order, zero amounts included, no metadata) when the in-order walk succeeds and fails with
   insufficient funds otherwise. *)
From LV Require Machine.Sem Machine.TxScript Machine.TxScriptCore.
Theorem C25_machine_script : forall (nacc : string -> string) (nmon : string -> Z -> string),
  (forall a b, nacc a = nacc b -> a = b) -> (forall a x b y, nmon a x = nmon b y -> a = b /\ x = y) ->
  (forall a b x, nacc a <> nmon b x) ->
  forall force ps vols s,
  Forall (fun p => TxScript.valid_post (TxScriptCore.conv p)) ps -> ps <> [] ->
  (forall k, Sem.store_balance s k = balance vols k) ->
  (feasible force vols ps = true ->
     exists r, Sem.run (TxScript.script_of nacc nmon force (map TxScriptCore.conv ps))
                       (TxScript.given_of nacc nmon (map TxScriptCore.conv ps)) s = Sem.Ok r /\
               Sem.all_postings r = map TxScriptCore.conv ps /\ Sem.rtx r = [] /\ Sem.racc r = []) /\
  (feasible force vols ps = false ->
     Sem.run (TxScript.script_of nacc nmon force (map TxScriptCore.conv ps))
             (TxScript.given_of nacc nmon (map TxScriptCore.conv ps)) s = Sem.Err Sem.EInsufficient).
Proof. exact TxScriptCore.tx_script_feasible. Qed.
Print Assumptions C25_machine_script.

(* non-vacuity of the machine side: the request of C25_example through the generated script *)
Example C25_machine_example :
  let P := fun s d a => {| Sem.psrc := s; Sem.pdst := d; Sem.passet := "USD"; Sem.pamt := a |} in
  let ps := [P "world" "alice" 10; P "alice" "bob" 7; P "alice" "alice" 3; P "bob" "bob" 0] in
  let ps' := [P "world" "alice" 10; P "alice" "bob" 7; P "alice" "world" 4] in
  (match TxScriptCore.tx_run false ps {| Sem.st_bal := []; Sem.st_meta := [] |} with Sem.Ok r => Sem.all_postings r = ps | _ => False end) /\
  TxScriptCore.tx_run false ps' {| Sem.st_bal := []; Sem.st_meta := [] |} = Sem.Err Sem.EInsufficient /\
  (match TxScriptCore.tx_run true ps' {| Sem.st_bal := []; Sem.st_meta := [] |} with Sem.Ok r => Sem.all_postings r = ps' | _ => False end).
Proof. vm_compute. repeat split; reflexivity. Qed.
