(* C38 — Malformed client input yields a client error and no effect.  Statements only; proofs in Ledger/ApiProofs.v, ApiEffect.v.

   FULL STATEMENT (refuted by the unchanged code, see C38_refuted_v1_vars):
     forall body, every decoder of the v1 and v2 API answers  Ok request | ClientError _  — never Panic —
     and a request that is not accepted leaves the ledger unchanged.
   The theorems cover the DECODING layer (JSON tree -> request | client error | panic) and its composition with the
   controller step; chi routing, middlewares and go-libs helpers are exercised by the HTTP sweep (harness/go/vh/httpsweep.go),
   not modelled.  JSON lexing, duplicate and case-variant object keys are outside the model as well. *)
From Coq Require Import List ZArith String Bool.
From LV Require Import Base.Util Ledger.Types Ledger.Core Ledger.Invariants Base.JsonTree Ledger.Api Ledger.ApiProofs Ledger.ApiEffect.
Import ListNotations.
Open Scope string_scope.
Open Scope Z_scope.

(* partial (true) statement: every v2 decoder — transaction bodies (ajson.Unmarshal + TransactionRequest.ToCore + Postings.Validate),
   ScriptV1.ToCore, bulk bodies (BulkElement.UnmarshalJSON for the four actions), metadata bodies — is total without panic,
   for every JSON tree and every timestamp parser.  Structural: no bound on depth, width or magnitude. *)
Theorem C38_total_partial : forall (parse_time : string -> option Z) (body : ajson),
  decode_v2_tx parse_time body <> Panic /\
  decode_scriptv1 body <> Panic /\
  decode_bulk parse_time body <> Panic /\
  dec_metadata body <> Panic.
Proof.
  intros pt j. repeat split.
  - exact (decode_v2_tx_no_panic pt j).
  - exact (decode_scriptv1_no_panic j).
  - exact (decode_bulk_no_panic pt j).
  - exact (dec_metadata_no_panic j).
Qed.
Print Assumptions C38_total_partial.

(* v1 Script.ToCore panics exactly when some variable is a JSON number, boolean or array (anything that is neither a
   string, an object nor null): the missing hypothesis of the full statement *)
Theorem C38_v1_panic_exactly : forall s,
  v1_script_to_core s = Panic <-> exists kv, In kv (rr_vars s) /\ v1_bad_var (snd kv) = true.
Proof. exact v1_script_to_core_panic_iff. Qed.
Print Assumptions C38_v1_panic_exactly.

(* refutation of the full statement: POST /{ledger}/transactions {"script":{"plain":"…","vars":{"x":1}}} — the script object
   below — makes v1 Script.ToCore panic (replayed through the real router: HTTP 500 with an empty body) *)
Theorem C38_refuted_v1_vars : exists body, decode_v1_script body = Panic.
Proof.
  exists (AJObj [("plain", AJStr "send [USD 1] (source = @world destination = @bob)"); ("vars", AJObj [("x", AJNum 1 None)])]).
  vm_compute. reflexivity.
Qed.
Print Assumptions C38_refuted_v1_vars.

(* no effect: whatever the body, an answer that is not a success leaves all seven tables unchanged (frame theorem of C07 for
   the controller's errors; a body rejected by the decoder performs no store call at all, so the whole state is untouched) *)
Theorem C38_no_effect : forall pt f now s body ik dry s' a,
  handle_v2_create pt f now s body ik dry = (s', a) ->
  match a with Answered (ROk _ _ _) => True | _ => tables s' = tables s end.
Proof. exact handle_error_no_effect. Qed.
Print Assumptions C38_no_effect.

Theorem C38_rejected_before_store : forall pt f now s body ik dry s' e,
  handle_v2_create pt f now s body ik dry = (s', Rejected e) -> s' = s /\ decode_v2_tx pt body = ClientError e.
Proof. exact handle_rejected_identity. Qed.
Print Assumptions C38_rejected_before_store.

(* non-vacuity: a well-formed body is accepted and committed; the same body with an invalid asset, with the amount as a string,
   and with a number where the timestamp should be are client errors with the state untouched *)
Definition ex_body (asset amount ts : ajson) : ajson :=
  AJObj [("postings", AJArr [AJObj [("source", AJStr "world"); ("destination", AJStr "users:1"); ("asset", asset); ("amount", amount)]]);
        ("timestamp", ts); ("metadata", AJObj [("k", AJStr "v")])].
Definition ex_feat := {| f_moves := true; f_pcev := true; f_acc_hist := true; f_tx_hist := true; f_hash := true |}.
Example C38_example :
  let pt := fun _ : string => Some 5 in
  (exists s', handle_v2_create pt ex_feat 10 init_state (ex_body (AJStr "USD/2") (AJNum 18446744073709551617 None) (AJStr "t")) "" false
              = (s', Answered (ROk 1 (Some 1) false))) /\
  handle_v2_create pt ex_feat 10 init_state (ex_body (AJStr "usd") (AJNum 1 None) AJNull) "" false = (init_state, Rejected EValidation) /\
  handle_v2_create pt ex_feat 10 init_state (ex_body (AJStr "USD") (AJStr "1") AJNull) "" false = (init_state, Rejected EDecode) /\
  handle_v2_create pt ex_feat 10 init_state (ex_body (AJStr "USD") (AJNum 1 None) (AJNum 1700000000 None)) "" false = (init_state, Rejected EDecode).
Proof. cbv zeta. split; [eexists; vm_compute; reflexivity|]. repeat split; vm_compute; reflexivity. Qed.
