(* C38 — Malformed client input yields a client error and no effect.  Statements only; proofs in Ledger/ApiProofs.v, ApiEffect.v.

   STATEMENT: forall body, every decoder of the v1 and v2 API answers  Ok request | ClientError _  — never Panic —
   and a request that is not accepted leaves the ledger unchanged.
   History: on the tree before `fix: v1 Script.ToCore returns an error …` (fixes/01-v1-script-vars-panic) the v1 decoder was
   refuted (panic on a variable that is a JSON number/boolean/array, HTTP 500); the model follows the repaired code and the
   totality theorem now covers v1 as well.  A tree without that repair breaks the correspondence of the apidec tie.
   The theorems cover the DECODING layer (JSON tree -> request | client error | panic) and its composition with the
   controller step; chi routing, middlewares and go-libs helpers are exercised by the HTTP sweep (harness/go/vh/httpsweep.go),
   not modelled.  JSON lexing, duplicate and case-variant object keys are outside the model as well. *)
From Coq Require Import List ZArith String Bool.
From LV Require Import Base.Util Ledger.Types Ledger.Core Ledger.Invariants Base.JsonTree Ledger.Api Ledger.ApiProofs Ledger.ApiEffect Ledger.HttpView.
Import ListNotations.
Open Scope string_scope.
Open Scope Z_scope.

(* every decoder — v2 transaction bodies (json.Unmarshal + TransactionRequest.ToCore + Postings.Validate), ScriptV1.ToCore,
   bulk bodies (BulkElement.UnmarshalJSON for the four actions), metadata bodies, and the v1 Script (json.Unmarshal + Script.ToCore)
   — is total without panic, for every JSON tree, every timestamp parser and every spelling of non-integer literals.  Structural: no bound on depth, width or magnitude. *)
Theorem C38_total : forall (parse_time : string -> option Z) (spell : Z -> Z -> string) (body : ajson),
  decode_v2_tx parse_time spell body <> Panic /\
  decode_scriptv1 spell body <> Panic /\
  decode_bulk parse_time body <> Panic /\
  dec_metadata body <> Panic /\
  decode_v1_script body <> Panic.
Proof.
  intros pt sp j. repeat split.
  - exact (decode_v2_tx_no_panic pt sp j).
  - exact (decode_scriptv1_no_panic sp j).
  - exact (decode_bulk_no_panic pt j).
  - exact (dec_metadata_no_panic j).
  - exact (decode_v1_script_no_panic j).
Qed.
Print Assumptions C38_total.

(* no effect: whatever the body, an answer that is not a success leaves all seven tables unchanged (frame theorem of C07 for
   the controller's errors; a body rejected by the decoder performs no store call at all, so the whole state is untouched) *)
Theorem C38_no_effect : forall pt sp f now s body ik dry s' a,
  handle_v2_create pt sp f now s body ik dry = (s', a) ->
  match a with Answered (ROk _ _ _) => True | _ => tables s' = tables s end.
Proof. exact handle_error_no_effect. Qed.
Print Assumptions C38_no_effect.

Theorem C38_rejected_before_store : forall pt sp f now s body ik dry s' e,
  handle_v2_create pt sp f now s body ik dry = (s', Rejected e) -> s' = s /\ decode_v2_tx pt sp body = ClientError e.
Proof. exact handle_rejected_identity. Qed.
Print Assumptions C38_rejected_before_store.

(* THE STATUS LAYER (Ledger/HttpView.v: the status / errorCode each controller error is rendered with by the v1 and v2
   handlers; tied to the real router by the TIE-H runs, which compare exactly this projection).
   Whatever the API version, operation, state and history: the answer to a write is a 2xx or a 4xx, never a 5xx; and an answer
   that is an error status left all seven tables unchanged. *)
Theorem C38_write_answer_is_2xx_or_4xx : forall v i r,
  match http_answer_of v i r with HOk st _ _ => 200 <= st < 300 | HErr st _ => 400 <= st < 500 end.
Proof. exact http_answer_class. Qed.
Print Assumptions C38_write_answer_is_2xx_or_4xx.

Theorem C38_error_status_no_effect : forall v f now s o s' r st c,
  step f now s o = SR s' r -> http_answer_of v (o_in o) r = HErr st c -> 400 <= st < 500 /\ tables s' = tables s.
Proof. exact http_error_no_effect. Qed.
Print Assumptions C38_error_status_no_effect.

(* reusing an idempotency key with another input is 400 VALIDATION, reusing a reference 409 CONFLICT, a second revert 400 ALREADY_REVERT *)
Theorem C38_named_rejections : forall v,
  http_error v EIdempotencyInput = (400, "VALIDATION") /\ http_error v EReferenceConflict = (409, "CONFLICT") /\
  http_error v EAlreadyReverted = (400, "ALREADY_REVERT").
Proof.
  intros v. split; [apply idempotency_input_is_400_validation|]. split; [apply reference_conflict_is_409 | apply already_reverted_is_400].
Qed.
Print Assumptions C38_named_rejections.

(* non-vacuity: a well-formed body is accepted and committed; the same body with an invalid asset, with the amount as a string,
   and with a number where the timestamp should be are client errors with the state untouched *)
Definition ex_body (asset amount ts : ajson) : ajson :=
  AJObj [("postings", AJArr [AJObj [("source", AJStr "world"); ("destination", AJStr "users:1"); ("asset", asset); ("amount", amount)]]);
        ("timestamp", ts); ("metadata", AJObj [("k", AJStr "v")])].
Definition ex_feat := {| f_moves := true; f_pcev := true; f_acc_hist := true; f_tx_hist := true; f_hash := true |}.
Example C38_example :
  let pt := fun _ : string => Some 5 in
  let sp := fun _ _ : Z => "?" in
  (exists s', handle_v2_create pt sp ex_feat 10 init_state (ex_body (AJStr "USD/2") (AJNum 18446744073709551617 None) (AJStr "t")) "" false
              = (s', Answered (ROk 1 (Some 1) false))) /\
  handle_v2_create pt sp ex_feat 10 init_state (ex_body (AJStr "usd") (AJNum 1 None) AJNull) "" false = (init_state, Rejected EValidation) /\
  handle_v2_create pt sp ex_feat 10 init_state (ex_body (AJStr "USD") (AJStr "1") AJNull) "" false = (init_state, Rejected EDecode) /\
  handle_v2_create pt sp ex_feat 10 init_state (ex_body (AJStr "USD") (AJNum 1 None) (AJNum 1700000000 None)) "" false = (init_state, Rejected EDecode).
Proof. cbv zeta. split; [eexists; vm_compute; reflexivity|]. repeat split; vm_compute; reflexivity. Qed.

(* the former refutation witness {"plain":…,"vars":{"x":1}} of v1 Script.ToCore is a client error on the repaired code; well-formed
   variables are accepted *)
Example C38_example_v1 :
  decode_v1_script (AJObj [("plain", AJStr "send [USD 1] (source = @world destination = @bob)"); ("vars", AJObj [("x", AJNum 1 None)])]) = ClientError EValidation /\
  decode_v1_script (AJObj [("plain", AJStr "p"); ("vars", AJObj [("x", AJStr "alice"); ("m", AJObj [("asset", AJStr "USD"); ("amount", AJNum 18446744073709551617 None)])])])
    = Ok {| s_plain := "p"; s_template := ""; s_vars := [("m", "USD 18446744073709551617"); ("x", "alice")] |}.
Proof. split; vm_compute; reflexivity. Qed.
