(* C14 — Transaction references are unique per ledger (sequential part; the concurrent part is the unique-index
   rule of the database stand-in, exercised by the schedule runs).  Statements only. *)
From Coq Require Import List ZArith String Bool Lia.
From LV Require Import Base.Util Ledger.Types Ledger.Core Ledger.Invariants.
From LV Require Export Props.C14c.   (* concurrent part: theorems over all schedules of the interleaving model Ledger/Conc.v *)
Import ListNotations.
Open Scope Z_scope.

Theorem C14_unique_references : forall f h, NoDup (filter nonempty (map t_ref (s_txs (run f h)))).
Proof. intros f h. exact (inv_refs _ (proj1 (run_inv f h))). Qed.
Print Assumptions C14_unique_references.

(* reusing a reference: reference-conflict, and no effect (C07) *)
Theorem C14_reuse_is_conflict : forall f now s ps ts ref md amd force ik dry,
  ref <> ""%string -> ref_taken (s_txs s) ref = true -> ps <> [] -> feasible force (s_vols s) ps = true ->
  find_ik (s_logs s) ik = None ->
  exists s', step f now s {| o_in := ICreate ps ts ref md amd force; o_ik := ik; o_dry := dry |} = SR s' (RErr EReferenceConflict)
             /\ tables s' = tables s.
Proof.
  intros f now s ps ts ref md amd force ik dry Hne Ht Hps Hf Hik.
  unfold step; simpl. rewrite Hik. unfold create_tx. destruct ps as [|p ps']; [contradiction|]. rewrite Hf. simpl.
  unfold commit_transaction.
  assert (E : (negb (ref =? "")%string && ref_taken (s_txs s) ref)%bool = true).
  { rewrite Ht, andb_true_r. apply negb_true_iff. apply String.eqb_neq. exact Hne. }
  rewrite E. eexists. split; reflexivity.
Qed.
Print Assumptions C14_reuse_is_conflict.

(* the empty reference is exempt *)
Theorem C14_empty_reference_exempt : forall f now s ps md ts s1 o,
  commit_transaction f now s ps md ts ""%string = (s1, o) -> o <> None.
Proof. intros f now s ps md ts s1 o H. unfold commit_transaction in H. simpl in H.
  destruct (if f_moves f then _ else _) as [[a b] c]. inversion H. discriminate. Qed.
Print Assumptions C14_empty_reference_exempt.

Local Open Scope string_scope.
Example C14_example :
  let f := {| f_moves := true; f_pcev := true; f_acc_hist := true; f_tx_hist := true; f_hash := true |} in
  let p := {| p_src := "world"; p_dst := "bob"; p_asset := "USD"; p_amt := 5 |} in
  let mk := fun r => {| o_in := ICreate [p] None r [] [] false; o_ik := ""; o_dry := false |} in
  map t_ref (s_txs (run f [(1, mk "r1"); (2, mk "r1"); (3, mk ""); (4, mk "")])) = ["r1"; ""; ""].
Proof. vm_compute. reflexivity. Qed.
