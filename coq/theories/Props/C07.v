(* C07 — Failed and dry-run writes leave no trace.  Statements only.
   The model runs every operation inside one SQL transaction: the tables of the result are either those the
   operation built (commit) or exactly the previous ones (rollback); only sequences are not transactional. *)
From Coq Require Import List ZArith String Bool Lia.
From LV Require Import Base.Util Ledger.Types Ledger.Core Ledger.Invariants Ledger.ScriptProofs.
Import ListNotations.
Open Scope Z_scope.

(* tables = accounts_volumes, transactions, moves, accounts, both metadata histories, logs *)
Theorem C07_error_no_trace : forall f now s o s' e, step f now s o = SR s' (RErr e) -> tables s' = tables s.
Proof. exact step_error_no_trace. Qed.
Print Assumptions C07_error_no_trace.

Theorem C07_dry_run_no_trace : forall f now s o s' r, o_dry o = true -> step f now s o = SR s' r -> tables s' = tables s.
Proof. exact step_dry_no_trace. Qed.
Print Assumptions C07_dry_run_no_trace.

(* a dry run returns what the real write returns (same log id, same transaction id, same success/error) *)
Theorem C07_dry_run_same_answer : forall f now s i ik,
  find_ik (s_logs s) ik = None ->
  match step f now s {| o_in := i; o_ik := ik; o_dry := true |}, step f now s {| o_in := i; o_ik := ik; o_dry := false |} with
  | SR _ r1, SR _ r2 => r1 = r2
  | SPanic, SPanic => True
  | _, _ => False
  end.
Proof.
  intros f now s i ik Hik. unfold step; simpl. rewrite Hik.
  destruct (run_input f now s i) as [s1 p|s1 e|]; simpl; reflexivity || exact I.
Qed.
Print Assumptions C07_dry_run_same_answer.

(* an idempotent replay changes nothing at all *)
Theorem C07_replay_identity : forall f now s o s' lid tid, step f now s o = SR s' (ROk lid tid true) -> s' = s.
Proof. exact step_hit_identity. Qed.
Print Assumptions C07_replay_identity.

(* a request whose metadata would override a key its script set (set_tx_meta, non-empty value) is refused with
   METADATA_OVERRIDE before anything is written: no table changes and no transaction or log id is consumed *)
Theorem C07_metadata_override_no_trace : forall f now s ps ts ref md amd force smd samd ik dry k v w,
  find_ik (s_logs s) ik = None -> ps <> [] -> feasible force (s_vols s) ps = true ->
  mget smd k = Some v -> v <> ""%string -> In (k, w) md ->
  exists s', step f now s (script_op ps ts ref md amd force smd samd ik dry) = SR s' (RErr EMetadataOverride) /\
             tables s' = tables s /\ s_next_tx s' = s_next_tx s /\ s_next_log s' = s_next_log s.
Proof. exact script_override_no_trace. Qed.
Print Assumptions C07_metadata_override_no_trace.

Local Open Scope string_scope.
Example C07_override_example :
  let f := {| f_moves := true; f_pcev := true; f_acc_hist := true; f_tx_hist := true; f_hash := true |} in
  let p := {| p_src := "world"; p_dst := "bob"; p_asset := "USD"; p_amt := 5 |} in
  (exists s', step f 10 init_state (script_op [p] None "" [("k1", "v2")] [] false [("k1", "v1")] [] "" false) = SR s' (RErr EMetadataOverride)
              /\ tables s' = tables init_state) /\
  (* a key the script set to the EMPTY string may be overridden *)
  (exists s', step f 10 init_state (script_op [p] None "" [("k1", "v2")] [] false [("k1", "")] [] "" false) = SR s' (ROk 1 (Some 1) false)
              /\ map t_meta (s_txs s') = [[("k1", "v2")]]).
Proof. split; eexists; split; vm_compute; reflexivity. Qed.

Example C07_example :
  let f := {| f_moves := true; f_pcev := true; f_acc_hist := true; f_tx_hist := true; f_hash := true |} in
  let p := {| p_src := "alice"; p_dst := "bob"; p_asset := "USD"; p_amt := 5 |} in
  exists s', step f 10 init_state {| o_in := ICreate [p] None "" [] [] false; o_ik := ""; o_dry := false |} = SR s' (RErr EInsufficientFunds)
             /\ tables s' = tables init_state.
Proof. eexists. split; vm_compute; reflexivity. Qed.
