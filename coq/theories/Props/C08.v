(* C08 — The log is a complete, ordered journal.  Statements only. *)
From Coq Require Import List ZArith String Bool Lia Sorted.
From LV Require Import Base.Util Ledger.Types Ledger.Core Ledger.VolProofs Ledger.Invariants Ledger.ReplayProofs.
Import ListNotations.
Open Scope Z_scope.

(* every successful non-dry-run write appends exactly one log (with the returned id) *)
Theorem C08_commit_appends_one_log : forall f now s o s' lid tid,
  o_dry o = false -> step f now s o = SR s' (ROk lid tid false) ->
  exists l, s_logs s' = s_logs s ++ [l] /\ l_id l = lid /\ l_ik l = o_ik o /\ l_date l = now.
Proof.
  intros f now s o s' lid tid Hd H. destruct (step_commit_one_log f now s o s' lid tid Hd H) as [l (A & B & C & D & _)].
  exists l. repeat split; assumption.
Qed.
Print Assumptions C08_commit_appends_one_log.

(* and no other operation appends logs: failed writes, dry runs, idempotent replays *)
Theorem C08_nothing_else_appends : forall f now s o s' r, step f now s o = SR s' r ->
  (match r with RErr _ => True | ROk _ _ hit => hit = true \/ o_dry o = true end) -> s_logs s' = s_logs s.
Proof.
  intros f now s o s' r H Hr. destruct r as [lid tid hit|e].
  - destruct Hr as [->|Hd].
    + apply step_hit_identity in H. subst. reflexivity.
    + apply (step_dry_no_trace f now s o s' _ Hd) in H. unfold tables in H. inversion H. reflexivity.
  - apply step_error_no_trace in H. unfold tables in H. inversion H. reflexivity.
Qed.
Print Assumptions C08_nothing_else_appends.

(* log ids strictly increase in commit order *)
Theorem C08_log_ids_increase : forall f h, StronglySorted Z.lt (map l_id (s_logs (run f h))).
Proof. intros f h. exact (inv_logs_sorted _ (proj2 (run_inv f h))). Qed.
Print Assumptions C08_log_ids_increase.

(* the payloads alone determine the transactions (ids, postings, metadata, timestamps, references, revert marks):
   [replay] never looks at the tables *)
Theorem C08_replay_transactions : forall f h, map view (s_txs (run f h)) = replay (s_logs (run f h)).
Proof. exact run_journal. Qed.
Print Assumptions C08_replay_transactions.

(* ... and the volumes: they are the fold of the postings the replay produces *)
Theorem C08_replay_volumes : forall f h k,
  vget (s_vols (run f h)) k = fold_postings (flat_map v_postings (replay (s_logs (run f h)))) k.
Proof.
  intros f h k. rewrite <- run_journal, (inv_vols _ (proj1 (run_inv f h))). unfold all_postings.
  f_equal. induction (s_txs (run f h)) as [|t r IH]; [reflexivity|]. simpl. rewrite IH. reflexivity.
Qed.
Print Assumptions C08_replay_volumes.

Local Open Scope string_scope.
Example C08_example :
  let f := {| f_moves := true; f_pcev := true; f_acc_hist := true; f_tx_hist := true; f_hash := true |} in
  let p := {| p_src := "world"; p_dst := "bob"; p_asset := "USD"; p_amt := 5 |} in
  let h := [(1, {| o_in := ICreate [p] None "" [("k", "v")] [] false; o_ik := "a"; o_dry := false |});
            (2, {| o_in := ISetMeta (TTx 1) [("k", "w")]; o_ik := ""; o_dry := false |});
            (3, {| o_in := IRevert 1 true false []; o_ik := ""; o_dry := true |});
            (4, {| o_in := IRevert 1 true false []; o_ik := ""; o_dry := false |});
            (5, {| o_in := ICreate [p] None "" [("k", "v")] [] false; o_ik := "a"; o_dry := false |})] in
  map l_id (s_logs (run f h)) = [1; 2; 4] /\ map v_reverted (replay (s_logs (run f h))) = [true; false]
  /\ map v_meta (replay (s_logs (run f h))) = [[("k", "w")]; [("com.formance.spec/state/reverts", "1")]].
Proof. vm_compute. repeat split; reflexivity. Qed.
