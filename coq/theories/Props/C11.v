(* C11 — Export then import reproduces the ledger, and the copy stays writable.  Statements only; model Ledger/Import.v
   (tied to the real Export / Import / state tracker / Bulker by `vh importx`), proofs Ledger/ImportProofs.v, ImportSim.v.

   FULL STATEMENT (kept for reference; REFUTED in two places by the faithful model, each confirmed on the real stack; a third
   refutation, the atomic bulk, was repaired):
     forall f h, let a := source f h in  import i_init (export a) succeeds with a copy b such that
       every observable of b (volumes, transactions, accounts incl. first usage / dates, metadata and metadata histories,
       logs, hashes) equals that of a, and a write through the single, non-atomic-bulk and ATOMIC-bulk path on b gives
       what it gives on a, with log / transaction ids = max + 1.   (the atomic-bulk part held only after a repair)
   PROVED for EVERY feature set, history, hash function and import time (C11_roundtrip, no hypothesis on the history):
     the import of the export into the pristine ledger is ACCEPTED, leaves the ledger `initializing`, and reproduces
       volumes; every column of the transactions table except post-commit EFFECTIVE volumes (ids, postings, current metadata,
       timestamps, references, inserted_at, updated_at, reverted_at, post-commit volumes); the transaction metadata history
       (revisions and dates); the logs (ids, payloads, dates, idempotency keys and inputs); the hash column; of the accounts
       table, row by row: address, current metadata, insertion date (NOT first usage, updated_at, metadata history: see below).
   PROVED under a hypothesis:
     C11_roundtrip_moves            no dry run in the history, or MOVES_HISTORY off: additionally the moves table (seq included)
                                    and the effective volumes, i.e. the transactions table entirely (a dry run consumes
                                    moves.seq values on the source: the copy then renumbers seq, which no read exposes; the
                                    tie compares moves modulo seq on every case);
     C11_roundtrip_accounts_partial no DELETE_METADATA operation on accounts in the history (SET_METADATA on accounts and account
                                    metadata given with transactions are allowed: since the repair a33853d importLog replays the
                                    upsert of the write path dated at the log): additionally first usage and updated_at, i.e. the
                                    accounts table entirely, and the account metadata history;
     C11_roundtrip_tables_partial   both: all seven tables are identical.
   REFUTED without the accounts hypothesis: C11_refuted_updated_at (DELETE_METADATA on an account is dated at the import,
     also in the metadata history).
   LEDGERS WITH SCHEMAS (Ledger/SchemaCtrl.v histories: schema inserts with chart default metadata and templates, writes under a
     known or no schema version, strict / audit; model Ledger/ImportSchema.v, where importLog resolves the schema PER LOG):
     C11_roundtrip_schemas, for every enforcement mode, history and import time, no hypothesis: accepted, and the copy has the
     source's schemas table, INSERTED_SCHEMA logs and per-log schema versions, volumes, transactions (all columns but effective
     volumes), transaction metadata history, logs, and row by row the address / current metadata (chart defaults included) /
     insertion date of every account.
   Writability: C11_writable_single (facade: state flip, log id = max + 1, transaction id = max + 1; an element of a
     non-atomic bulk is such a write); C11_writable_atomic (since the repair fixes/01-facade-begintx the atomic bulk runs the
     same protocol: a one-element bulk IS the facade write); the behaviour before the repair (S-11: never-resynchronised
     sequences) is kept as C11_unrepaired_atomic_writable / C11_unrepaired_atomic_log_id. *)
From Coq Require Import List ZArith String Bool Ascii Lia Sorted.
From LV Require Import Base.Util Base.Json Ledger.Types Ledger.Core Ledger.Bulk Ledger.Invariants Ledger.HashChain Ledger.Chart Ledger.SchemaCtrl
                       Ledger.Import Ledger.ImportProofs Ledger.ImportSim Ledger.ImportSchema Ledger.ImportSchemaProofs.
Import ListNotations.
Open Scope Z_scope.
Open Scope list_scope.

(* hashes: for EVERY hash function H and trigger pre-image, every feature set and history: feeding the exported (log, hash)
   rows of the source, in order, to the hash comparison of importLog on an empty copy accepts all of them and rebuilds
   exactly the source's hash column *)
Theorem C11_hashes_roundtrip : forall (H : bytes -> bytes) (pre : option bytes -> log -> option bytes) f h,
  imp_hash_all H pre [] (log_table H pre (run f h)) = Some (log_table H pre (run f h)).
Proof. intros H pre f h. apply imp_hash_roundtrip. apply run_chain. Qed.
Print Assumptions C11_hashes_roundtrip.

(* a stream row is accepted only when its hash is the trigger's hash over the copy's current last hash *)
Theorem C11_hash_check_sound : forall (H : bytes -> bytes) pre t r t',
  imp_hash_insert H pre t r = Some t' ->
  t' = t ++ [r] /\ exists x, pre (prev_hash l_id t) (fst r) = Some x /\ beqb (H x) (snd r) = true.
Proof. intros H pre t r t'. apply imp_hash_insert_sound. Qed.
Print Assumptions C11_hash_check_sound.

(* THE ROUND TRIP, for every feature set, history, hash function, total trigger pre-image and import time: accepted, still
   initializing, and the observables listed in the header are those of the source. No hypothesis on the history. *)
Theorem C11_roundtrip : forall (H : bytes -> bytes) (pre : option bytes -> log -> option bytes) f h now,
  (forall p l, pre p l <> None) ->
  let a := source H pre f h in
  exists b, imp_import H pre f now i_init (imp_export_rows a) = (b, None) /\ i_l b = Initializing /\
    s_vols (i_s b) = s_vols (i_s a) /\
    map tx_core (s_txs (i_s b)) = map tx_core (s_txs (i_s a)) /\
    s_thist (i_s b) = s_thist (i_s a) /\
    s_logs (i_s b) = s_logs (i_s a) /\
    map av (s_accounts (i_s b)) = map av (s_accounts (i_s a)) /\
    i_tab b = i_tab a.
Proof.
  intros H pre f h now Hp a.
  destruct (import_roundtrip H pre Hp f false false now h) as (b & E & S & Et & El); [intros D; discriminate D | intros D; discriminate D |].
  exists b. destruct S as [Hv Ht Hh Hl _ _ Hav _]. repeat split; assumption.
Qed.
Print Assumptions C11_roundtrip.

(* what [av] keeps of an account row: address, current metadata, insertion date (not first usage, not updated_at) *)
Theorem C11_av_fields : forall x y, av x = av y -> a_addr x = a_addr y /\ a_meta x = a_meta y /\ a_ins x = a_ins y.
Proof. intros x y E. inversion E. repeat split; assumption. Qed.
Print Assumptions C11_av_fields.

(* what [tx_core] keeps: everything but the effective volumes *)
Theorem C11_tx_core_fields : forall x y, tx_core x = tx_core y ->
  t_id x = t_id y /\ t_postings x = t_postings y /\ t_meta x = t_meta y /\ t_ts x = t_ts y /\ t_ref x = t_ref y /\
  t_ins x = t_ins y /\ t_upd x = t_upd y /\ t_rev x = t_rev y /\ t_pcv x = t_pcv y.
Proof. intros x y E. inversion E. repeat split; assumption. Qed.
Print Assumptions C11_tx_core_fields.

(* moves and effective volumes: histories without dry runs, or ledgers without MOVES_HISTORY *)
Theorem C11_roundtrip_moves : forall (H : bytes -> bytes) pre f h now,
  (forall p l, pre p l <> None) -> f_moves f = false \/ dry_free h ->
  let a := source H pre f h in
  exists b, imp_import H pre f now i_init (imp_export_rows a) = (b, None) /\
    s_txs (i_s b) = s_txs (i_s a) /\ s_moves (i_s b) = s_moves (i_s a).
Proof.
  intros H pre f h now Hp Hm a.
  destruct (import_roundtrip H pre Hp f true false now h) as (b & E & S & _); [intros _; exact Hm | intros D; discriminate D |].
  exists b. destruct (sim_mv _ _ _ _ _ S eq_refl) as (A & B0 & _). repeat split; assumption.
Qed.
Print Assumptions C11_roundtrip_moves.

(* accounts (metadata, first usage, insertion date, updated_at) and their metadata history: histories without
   DELETE_METADATA operations on accounts; without the hypothesis: C11_refuted_updated_at *)
Theorem C11_roundtrip_accounts_partial : forall (H : bytes -> bytes) pre f h now,
  (forall p l, pre p l <> None) -> no_acc_meta_ops h ->
  let a := source H pre f h in
  exists b, imp_import H pre f now i_init (imp_export_rows a) = (b, None) /\
    s_accounts (i_s b) = s_accounts (i_s a) /\ s_ahist (i_s b) = s_ahist (i_s a).
Proof.
  intros H pre f h now Hp Ha a.
  destruct (import_roundtrip H pre Hp f false true now h) as (b & E & S & _); [intros D; discriminate D | intros _; exact Ha |].
  exists b. destruct (sim_acc _ _ _ _ _ S eq_refl) as (A & B0). repeat split; assumption.
Qed.
Print Assumptions C11_roundtrip_accounts_partial.

(* both hypotheses: the copy's seven tables and hash column ARE the source's *)
Theorem C11_roundtrip_tables_partial : forall (H : bytes -> bytes) pre f h now,
  (forall p l, pre p l <> None) -> f_moves f = false \/ dry_free h -> no_acc_meta_ops h ->
  let a := source H pre f h in
  exists b, imp_import H pre f now i_init (imp_export_rows a) = (b, None) /\ tables (i_s b) = tables (i_s a) /\ i_tab b = i_tab a.
Proof.
  intros H pre f h now Hp Hm Ha a.
  destruct (import_roundtrip H pre Hp f true true now h) as (b & E & S & Et & _); [intros _; exact Hm | intros _; exact Ha |].
  exists b. split; [exact E|]. split; [|exact Et].
  destruct S as [Hv _ Hh Hl Hmv Hacc _ _]. destruct (Hmv eq_refl) as (A & B0 & _). destruct (Hacc eq_refl) as (C & D).
  unfold tables. rewrite Hv, B0, A, C, D, Hh, Hl. reflexivity.
Qed.
Print Assumptions C11_roundtrip_tables_partial.

(* LEDGERS WITH SCHEMAS.  For every regexp engine, feature set, enforcement mode, history of schema inserts and writes
   (with a known / unknown / no schema version, templates, dry runs, idempotent replays) and import time: Export then Import
   into the pristine ledger is accepted and the copy reproduces the schemas table, the INSERTED_SCHEMA logs, the schema
   version stored with every log, and the base tables as in C11_roundtrip (accounts: address, current metadata INCLUDING the
   chart defaults the source gave them - and no other -, insertion date).  importLog resolves the schema per log. *)
Theorem C11_roundtrip_schemas : forall re_valid re_match f m h now,
  exists b, sroundtrip re_valid re_match f m h now = (srun re_valid re_match f m h, b, None) /\
    let a := srun re_valid re_match f m h in
    ss_schemas b = ss_schemas a /\ ss_slogs b = ss_slogs a /\ ss_logver b = ss_logver a /\
    s_vols (ss_base b) = s_vols (ss_base a) /\
    map tx_core (s_txs (ss_base b)) = map tx_core (s_txs (ss_base a)) /\
    s_thist (ss_base b) = s_thist (ss_base a) /\
    s_logs (ss_base b) = s_logs (ss_base a) /\
    map av (s_accounts (ss_base b)) = map av (s_accounts (ss_base a)).
Proof.
  intros re_valid re_match f m h now. destruct (simp_roundtrip re_valid re_match f m h now) as (b & E & [S A B0 C]).
  exists b. split; [exact E|]. destruct S as [Hv Ht Hh Hl _ _ Hav _]. repeat split; assumption.
Qed.
Print Assumptions C11_roundtrip_schemas.

(* writable through the facade (single request = element of a non-atomic bulk): the first committed write on the
   still-initializing copy flips it to in-use; its log id is max(stored log ids) + 1 and the id of the transaction it creates is max(stored transaction ids) + 1 *)
Theorem C11_writable_single : forall (H : bytes -> bytes) pre f now b o b' lid tid,
  coherent b -> i_l b = Initializing -> o_dry o = false -> w_single H pre f now b o = (b', Some (ROk lid tid false)) ->
  i_l b' = InUse /\
  (forall m, max_id l_id (s_logs (i_s b)) = Some m -> lid = m + 1) /\
  (forall t m, tid = Some t -> max_id t_id (s_txs (i_s b)) = Some m -> t = m + 1) /\
  (forall l, In l (s_logs (i_s b)) -> l_id l < lid) /\
  exists l, s_logs (i_s b') = s_logs (i_s b) ++ [l] /\ l_id l = lid.
Proof.
  intros H pre f now b o b' lid tid Co El Hd E.
  destruct (single_after_import_fresh_log H pre f now b o b' lid tid Co El Hd E) as (A & B0 & C).
  destruct (single_after_import_next_ids H pre f now b o b' lid tid Co El Hd E) as (D & D').
  repeat split; assumption.
Qed.
Print Assumptions C11_writable_single.

Theorem C11_resync_above : forall s,
  (forall t, In t (s_txs s) -> t_id t < s_next_tx (resync s)) /\ (forall l, In l (s_logs s) -> l_id l < s_next_log (resync s)).
Proof. exact resync_above. Qed.
Print Assumptions C11_resync_above.

(* ---------------------------------------------------------------- witnesses *)
Local Open Scope string_scope.
Definition fall := {| f_moves := true; f_pcev := true; f_acc_hist := true; f_tx_hist := true; f_hash := true |}.
Definition fnohash := {| f_moves := true; f_pcev := true; f_acc_hist := true; f_tx_hist := true; f_hash := false |}.
Definition P (s d : str) (n : Z) := {| p_src := s; p_dst := d; p_asset := "USD"; p_amt := n |}.
Definition mk (i : input) := {| o_in := i; o_ik := ""; o_dry := false |}.
Definition copy_of f h := let '(a, b, rs) := run_script f h [AImport 0 None 5000] in (a, b, rs).

(* a transaction dated in the future (t = 100) creates bob at time 10; metadata set at time 20.  Before the repair of
   UpsertAccounts (a batch row without first_usage now stands for transaction_date() on update as on insertion) the source
   kept first_usage = 100 while the copy had 20 (former witness C11_refuted_first_usage); now both have 20 *)
Example C11_first_usage_example : exists f h,
  let '(a, b, rs) := copy_of f h in
  (exists b0, rs = [RImport None b0]) /\ map a_first (s_accounts (i_s a)) = [100; 20] /\ map a_first (s_accounts (i_s b)) = [100; 20].
Proof.
  exists fall, [(10, mk (ICreate [P "world" "bob" 5] (Some 100) "" [] [] false)); (20, mk (ISetMeta (TAcc "bob") [("k", "v")]))].
  vm_compute. split; [eexists; reflexivity | split; reflexivity].
Qed.
Print Assumptions C11_first_usage_example.

(* account metadata deleted at time 20, import at time 5000: updated_at and the history revision are dated 5000 in the copy *)
Theorem C11_refuted_updated_at : exists f h,
  let '(a, b, rs) := copy_of f h in
  (exists b0, rs = [RImport None b0]) /\ map a_upd (s_accounts (i_s a)) = [20] /\ map a_upd (s_accounts (i_s b)) = [5000] /\
  map ah_date (s_ahist (i_s a)) = [10; 20] /\ map ah_date (s_ahist (i_s b)) = [10; 5000].
Proof.
  exists fall, [(10, mk (ISetMeta (TAcc "bob") [("k", "v")])); (20, mk (IDelMeta (TAcc "bob") "k"))].
  vm_compute. split; [eexists; reflexivity | repeat split; reflexivity].
Qed.
Print Assumptions C11_refuted_updated_at.

(* ATOMIC bulk, since the repair fixes/01-facade-begintx (the facade overrides BeginTX): a bulk of one element on the
   still-initializing copy IS the facade write of that element: same tables, same hash column, the ledger ROW in-use (only the
   facade's cached state is left as it was: BeginTX does not touch it), and by
   C11_writable_single log id = max + 1, transaction id = max + 1 *)
Theorem C11_writable_atomic : forall (H : bytes -> bytes) pre f now b o s' lid tid,
  coherent b -> i_l b = Initializing -> o_dry o = false -> step f now (resync (i_s b)) o = SR s' (ROk lid tid false) ->
  w_atomic H pre f now b [o] = (with_cache (fst (w_single H pre f now b o)) Initializing, AResults [ARes (BRes (Some (ROk lid tid false)))]).
Proof. intros H pre f now b o s' lid tid. apply atomic_single_element. Qed.
Print Assumptions C11_writable_atomic.

(* the two witnesses of the defect (S-11), now POSITIVE: after an import the same request through the atomic path and
   through the non-atomic path gives the same answer with the next ids ... *)
Theorem C11_atomic_after_import_next_ids : exists f h o,
  let '(a, b, rs) := run_script f h [AImport 0 None 5000; AAtomic 6000 [o]] in
  (exists b0, rs = [RImport None b0; RAtomic (AResults [ARes (BRes (Some (ROk 2 (Some 2) false)))])]) /\ i_l b = InUse /\
  let '(_, _, rs') := run_script f h [AImport 0 None 5000; ABulk 6000 [o]] in
  exists b0, rs' = [RImport None b0; RBulk [BRes (Some (ROk 2 (Some 2) false))]].
Proof.
  exists fall, [(10, mk (ICreate [P "world" "bob" 5] None "" [] [] false))], (mk (ICreate [P "world" "alice" 7] None "" [] [] false)).
  vm_compute. split; [eexists; reflexivity|]. split; [reflexivity | eexists; reflexivity].
Qed.
Print Assumptions C11_atomic_after_import_next_ids.

(* ... also when the imported ids do not start at 1: the new log gets id 3, above the imported log 2 *)
Theorem C11_atomic_after_import_log_order : exists f h o,
  let '(a, b, rs) := run_script f h [AImport 0 None 5000; AAtomic 6000 [o]] in
  map l_id (s_logs (i_s a)) = [2] /\ map l_id (s_logs (i_s b)) = [2; 3] /\
  exists b0, rs = [RImport None b0; RAtomic (AResults [ARes (BRes (Some (ROk 3 None false)))])].
Proof.
  exists fnohash, [(10, {| o_in := ISetMeta (TAcc "bob") [("k", "v")]; o_ik := ""; o_dry := true |}); (20, mk (ISetMeta (TAcc "bob") [("k", "v")]))],
         (mk (ISetMeta (TAcc "alice") [("k", "w")])).
  vm_compute. repeat split. eexists; reflexivity.
Qed.
Print Assumptions C11_atomic_after_import_log_order.

(* FOR THE RECORD, the code BEFORE the repair (w_atomic_unrepaired: BeginTX inherited, no flip, no resync), as confirmed on
   the real stack (known finding KF-C11-atomic-bulk-after-import-unsynced-sequences, fixed): transaction id 1 is drawn
   from the never-resynchronised sequence, hits the primary key (nil dereference in InsertTransaction, recovered by the
   worker pool) and the final COMMIT reports the rollback; or, when the imported ids do not start at 1, the bulk succeeds
   with log id 1 below the imported log 2 *)
Theorem C11_unrepaired_atomic_writable : exists f h o,
  let '(a, b, rs) := run_script f h [AImport 0 None 5000; AAtomicUnrepaired 6000 [o]] in
  exists b0, rs = [RImport None b0; RAtomic ACommitFailed].
Proof.
  exists fall, [(10, mk (ICreate [P "world" "bob" 5] None "" [] [] false))], (mk (ICreate [P "world" "alice" 7] None "" [] [] false)).
  vm_compute. eexists; reflexivity.
Qed.
Print Assumptions C11_unrepaired_atomic_writable.

Theorem C11_unrepaired_atomic_log_id : exists f h o,
  let '(a, b, rs) := run_script f h [AImport 0 None 5000; AAtomicUnrepaired 6000 [o]] in
  map l_id (s_logs (i_s a)) = [2] /\ map l_id (s_logs (i_s b)) = [2; 1] /\
  exists b0, rs = [RImport None b0; RAtomic (AResults [ARes (BRes (Some (ROk 1 None false)))])].
Proof.
  exists fnohash, [(10, {| o_in := ISetMeta (TAcc "bob") [("k", "v")]; o_ik := ""; o_dry := true |}); (20, mk (ISetMeta (TAcc "bob") [("k", "v")]))],
         (mk (ISetMeta (TAcc "alice") [("k", "w")])).
  vm_compute. repeat split. eexists; reflexivity.
Qed.
Print Assumptions C11_unrepaired_atomic_log_id.

Definition noseq (m : move) : move :=
  {| m_seq := 0; m_tx := m_tx m; m_acc := m_acc m; m_asset := m_asset m; m_amt := m_amt m; m_src := m_src m; m_ins := m_ins m;
     m_eff := m_eff m; m_pcv := m_pcv m; m_pcev := m_pcev m |}.
Definition tables_noseq (s : state) := (s_vols s, s_txs s, map noseq (s_moves s), s_accounts s, s_ahist s, s_thist s, s_logs s).

(* non-vacuity: a history with a back-dated transaction, account metadata, a revert, metadata on both kinds, an
   idempotency key and a dry run round-trips on EVERY table (moves in the same order with the same effective volumes; only moves.seq, which no read exposes, is renumbered because the dry run consumed values on the source) and hash, and the copy
   then accepts a write through the facade with the next ids *)
Example C11_example :
  let h := [(10, {| o_in := ICreate [P "world" "bob" 50; P "bob" "alice" 20] (Some 5) "r1" [("k", "v")] [("alice", [("role", "x")])] false; o_ik := "ik1"; o_dry := false |});
            (20, {| o_in := ICreate [P "world" "bob" 1] None "" [] [] false; o_ik := ""; o_dry := true |});
            (30, mk (ISetMeta (TTx 1) [("k", "w")]));
            (40, mk (IRevert 1 true false []));
            (50, mk (ISetMeta (TAcc "carol") [("a", "b")]));
            (60, mk (IDelMeta (TTx 1) "k"))] in
  let '(a, b, rs) := run_script fall h [AImport 0 None 5000; ASingle [(6000, mk (ICreate [P "world" "bob" 3] None "" [] [] false))]] in
  List.length (s_logs (i_s a)) = 5%nat /\
  (exists b0, rs = [RImport None b0; RSingle [Some (ROk 7 (Some 4) false)]] /\
     tables_noseq (i_s b0) = tables_noseq (i_s a) /\ map snd (i_tab b0) = map snd (i_tab a) /\ i_l b0 = Initializing) /\
  i_l b = InUse.
Proof. vm_compute. split; [reflexivity|]. split; [|reflexivity]. eexists. repeat split; reflexivity. Qed.

(* non-vacuity, and the shape the per-log resolution is about: schema v1 gives users:$id the default tier=standard; a
   transaction under v1 creates users:1 (stored WITH the default), a transaction WITHOUT version creates users:2 (stored
   WITHOUT it, audit mode); the copy has exactly the same two accounts.  (A stream-wide cached schema - the seeded change
   N-C11 - would give users:2 the default in the copy.) *)
Example C11_schemas_example :
  let re_valid := fun _ : str => true in let re_match := fun _ _ : str => true in
  let ch : chart := [("users"%string, Seg [] (Some ("id"%string, None, Seg [] None (Some {| ca_meta := Some [("tier"%string, Some "standard"%string)] |}))) None);
                     ("world"%string, Seg [] None (Some {| ca_meta := None |}))] in
  let mkc := fun d => {| o_in := ICreate [P "world" d 5] None "" [] [] false; o_ik := ""; o_dry := false |} in
  let h := [(10, SInsertSchema "v1" ch []); (20, SWrite "v1" "" (mkc "users:1")); (30, SWrite "" "" (mkc "users:2"))] in
  let '(a, b, e) := sroundtrip re_valid re_match fall Audit h 5000 in
  e = None /\ map (fun x => (a_addr x, a_meta x)) (s_accounts (ss_base a)) = [("world", []); ("users:1", [("tier", "standard")]); ("users:2", [])] /\
  map (fun x => (a_addr x, a_meta x)) (s_accounts (ss_base b)) = map (fun x => (a_addr x, a_meta x)) (s_accounts (ss_base a)) /\
  List.length (simp_export a) = 3%nat.
Proof. vm_compute. repeat split; reflexivity. Qed.
