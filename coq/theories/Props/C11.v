(* C11 — Export then import reproduces the ledger, and the copy stays writable.  Statements only; model Ledger/Import.v
   (tied to the real Export / Import / state tracker / Bulker by `vh importx`), proofs Ledger/ImportProofs.v.

   FULL STATEMENT (kept for reference; REFUTED in three places by the faithful model, each confirmed on the real stack):
     forall f h, let a := source f h in  import i_init (export a) succeeds with a copy b such that
       every observable of b (volumes, transactions, accounts incl. first usage / dates, metadata and metadata histories,
       logs, hashes) equals that of a, and a write through the single, non-atomic-bulk and ATOMIC-bulk path on b gives
       what it gives on a, with log / transaction ids above every imported id.
   Refuted by: C11_refuted_first_usage (SET_METADATA on an account lowers first_usage to the log date),
               C11_refuted_updated_at (DELETE_METADATA on an account is dated at the import, also in the metadata history),
               C11_refuted_atomic_writable / C11_refuted_atomic_log_id (atomic bulk on the still-initializing copy draws
               ids from sequences that were never resynchronised: S-11).
   PROVED here: the hash part for every hash function (C11_hashes_roundtrip), writability through the facade
   (C11_writable_single: state flip + log id above every imported id; bulk elements are such writes), and the concrete
   round trip of a non-trivial history (C11_example).  The table-level round-trip theorem over ALL histories is NOT proved
   in this file (see DESIGN §9 C11): the tie compares the complete copy with the model on every run instead. *)
From Coq Require Import List ZArith String Bool Ascii Lia Sorted.
From LV Require Import Base.Util Base.Json Ledger.Types Ledger.Core Ledger.Bulk Ledger.Invariants Ledger.HashChain Ledger.Import Ledger.ImportProofs.
Import ListNotations.
Open Scope Z_scope.

(* hashes: for EVERY hash function H and trigger pre-image, every feature set and history: feeding the exported (log, hash)
   rows of the source, in order, to the hash comparison of importLog on an empty copy accepts all of them and rebuilds
   exactly the source's hash column *)
Theorem C11_hashes_roundtrip : forall (H : bytes -> bytes) (pre : option bytes -> log -> option bytes) f h,
  imp_hash_all H pre [] (log_table H pre (run f h)) = Some (log_table H pre (run f h)).
Proof. intros H pre f h. apply imp_hash_roundtrip. apply run_chain. Qed.
Print Assumptions C11_hashes_roundtrip.

(* a stream row is accepted only when its hash is the trigger's hash over the copy's current last hash *)
Theorem C11_hash_check_sound : forall (H : bytes -> bytes) pre t r t',
  imp_hash_insert H pre t r = Some t' ->
  t' = t ++ [r] /\ exists x, pre (prev_hash l_id t) (fst r) = Some x /\ beqb (H x) (snd r) = true.
Proof. intros H pre t r t'. apply imp_hash_insert_sound. Qed.
Print Assumptions C11_hash_check_sound.

(* writable through the facade (single request = element of a non-atomic bulk): the first committed write on the
   still-initializing copy flips it to in-use and its log id exceeds every stored (imported) log id *)
Theorem C11_writable_single : forall (H : bytes -> bytes) pre f now b o b' lid tid,
  i_l b = Initializing -> o_dry o = false -> w_single H pre f now b o = (b', Some (ROk lid tid false)) ->
  i_l b' = InUse /\ (forall l, In l (s_logs (i_s b)) -> l_id l < lid) /\
  exists l, s_logs (i_s b') = s_logs (i_s b) ++ [l] /\ l_id l = lid.
Proof. intros H pre f now b o b' lid tid. apply single_after_import_fresh_log. Qed.
Print Assumptions C11_writable_single.

Theorem C11_resync_above : forall s,
  (forall t, In t (s_txs s) -> t_id t < s_next_tx (resync s)) /\ (forall l, In l (s_logs s) -> l_id l < s_next_log (resync s)).
Proof. exact resync_above. Qed.
Print Assumptions C11_resync_above.

(* ---------------------------------------------------------------- witnesses *)
Local Open Scope string_scope.
Definition fall := {| f_moves := true; f_pcev := true; f_acc_hist := true; f_tx_hist := true; f_hash := true |}.
Definition fnohash := {| f_moves := true; f_pcev := true; f_acc_hist := true; f_tx_hist := true; f_hash := false |}.
Definition P (s d : str) (n : Z) := {| p_src := s; p_dst := d; p_asset := "USD"; p_amt := n |}.
Definition mk (i : input) := {| o_in := i; o_ik := ""; o_dry := false |}.
Definition copy_of f h := let '(a, b, rs) := run_script f h [AImport 0 None 5000] in (a, b, rs).

(* a transaction dated in the future (t = 100) creates bob at time 10; metadata set at time 20: the source keeps
   first_usage = 100, the copy has 20 *)
Theorem C11_refuted_first_usage : exists f h,
  let '(a, b, rs) := copy_of f h in
  (exists b0, rs = [RImport None b0]) /\ map a_first (s_accounts (i_s a)) <> map a_first (s_accounts (i_s b)).
Proof.
  exists fall, [(10, mk (ICreate [P "world" "bob" 5] (Some 100) "" [] [] false)); (20, mk (ISetMeta (TAcc "bob") [("k", "v")]))].
  vm_compute. split; [eexists; reflexivity | intros E; discriminate].
Qed.
Print Assumptions C11_refuted_first_usage.

(* account metadata deleted at time 20, import at time 5000: updated_at and the history revision are dated 5000 in the copy *)
Theorem C11_refuted_updated_at : exists f h,
  let '(a, b, rs) := copy_of f h in
  (exists b0, rs = [RImport None b0]) /\ map a_upd (s_accounts (i_s a)) = [20] /\ map a_upd (s_accounts (i_s b)) = [5000] /\
  map ah_date (s_ahist (i_s a)) = [10; 20] /\ map ah_date (s_ahist (i_s b)) = [10; 5000].
Proof.
  exists fall, [(10, mk (ISetMeta (TAcc "bob") [("k", "v")])); (20, mk (IDelMeta (TAcc "bob") "k"))].
  vm_compute. split; [eexists; reflexivity | repeat split; reflexivity].
Qed.
Print Assumptions C11_refuted_updated_at.

(* S-11: after the import the copy is still `initializing`; an ATOMIC bulk goes to the inner controller, draws transaction
   id 1 from the never-resynchronised sequence, hits the primary key (nil dereference in InsertTransaction, recovered by
   the worker pool) and the final COMMIT reports the rollback; the same request through the facade succeeds with id 2 *)
Theorem C11_refuted_atomic_writable : exists f h o,
  let '(a, b, rs) := run_script f h [AImport 0 None 5000; AAtomic 6000 [o]] in
  (exists b0, rs = [RImport None b0; RAtomic ACommitFailed]) /\
  let '(_, _, rs') := run_script f h [AImport 0 None 5000; ABulk 6000 [o]] in
  exists b0, rs' = [RImport None b0; RBulk [BRes (Some (ROk 2 (Some 2) false))]].
Proof.
  exists fall, [(10, mk (ICreate [P "world" "bob" 5] None "" [] [] false))], (mk (ICreate [P "world" "alice" 7] None "" [] [] false)).
  vm_compute. split; eexists; reflexivity.
Qed.
Print Assumptions C11_refuted_atomic_writable.

(* the other face of S-11: when the imported ids do not start at 1 (the source spent log id 1 on a dry run) the atomic
   bulk SUCCEEDS with log id 1, below the imported log 2: the journal order no longer is the write order *)
Theorem C11_refuted_atomic_log_id : exists f h o,
  let '(a, b, rs) := run_script f h [AImport 0 None 5000; AAtomic 6000 [o]] in
  map l_id (s_logs (i_s a)) = [2] /\ map l_id (s_logs (i_s b)) = [2; 1] /\
  exists b0, rs = [RImport None b0; RAtomic (AResults [ARes (BRes (Some (ROk 1 None false)))])].
Proof.
  exists fnohash, [(10, {| o_in := ISetMeta (TAcc "bob") [("k", "v")]; o_ik := ""; o_dry := true |}); (20, mk (ISetMeta (TAcc "bob") [("k", "v")]))],
         (mk (ISetMeta (TAcc "alice") [("k", "w")])).
  vm_compute. repeat split. eexists; reflexivity.
Qed.
Print Assumptions C11_refuted_atomic_log_id.

Definition noseq (m : move) : move :=
  {| m_seq := 0; m_tx := m_tx m; m_acc := m_acc m; m_asset := m_asset m; m_amt := m_amt m; m_src := m_src m; m_ins := m_ins m;
     m_eff := m_eff m; m_pcv := m_pcv m; m_pcev := m_pcev m |}.
Definition tables_noseq (s : state) := (s_vols s, s_txs s, map noseq (s_moves s), s_accounts s, s_ahist s, s_thist s, s_logs s).

(* non-vacuity: a history with a back-dated transaction, account metadata, a revert, metadata on both kinds, an
   idempotency key and a dry run round-trips on EVERY table (moves in the same order with the same effective volumes; only moves.seq, which no read exposes, is renumbered because the dry run consumed values on the source) and hash, and the copy
   then accepts a write through the facade with the next ids *)
Example C11_example :
  let h := [(10, {| o_in := ICreate [P "world" "bob" 50; P "bob" "alice" 20] (Some 5) "r1" [("k", "v")] [("alice", [("role", "x")])] false; o_ik := "ik1"; o_dry := false |});
            (20, {| o_in := ICreate [P "world" "bob" 1] None "" [] [] false; o_ik := ""; o_dry := true |});
            (30, mk (ISetMeta (TTx 1) [("k", "w")]));
            (40, mk (IRevert 1 true false []));
            (50, mk (ISetMeta (TAcc "carol") [("a", "b")]));
            (60, mk (IDelMeta (TTx 1) "k"))] in
  let '(a, b, rs) := run_script fall h [AImport 0 None 5000; ASingle [(6000, mk (ICreate [P "world" "bob" 3] None "" [] [] false))]] in
  List.length (s_logs (i_s a)) = 5%nat /\
  (exists b0, rs = [RImport None b0; RSingle [Some (ROk 7 (Some 4) false)]] /\
     tables_noseq (i_s b0) = tables_noseq (i_s a) /\ map snd (i_tab b0) = map snd (i_tab a) /\ i_l b0 = Initializing) /\
  i_l b = InUse.
Proof. vm_compute. split; [reflexivity|]. split; [|reflexivity]. eexists. repeat split; reflexivity. Qed.
