(* C20 — List filters select exactly the matching entities.  Statements only; proofs live in Ledger/FilterProofs.v.

   FULL STATEMENT (what the property demands, for every resource R, every filter f, every entity e of R):
       flt_eval (flt_emit R f) (row_of e) = Some TTrue  <->  flt_sat R f e = true
   where [row_of e] is the dataset row of the entity: metadata never NULL (coalesce), address_array = the segments of
   the address, sources_arrays / destinations_arrays = the exploded sources / destinations, one balance row per asset.
   The faithful model of the code REFUTES it in two ways that are NOT repaired (witnesses below, each replayed on the
   real code by the `filters` harness, see known_findings.d/filter.json):
     - a `$not` above a comparison on an absent value (reference, reverted_at, balance[A] of an account without A):
       SQL NULL stays NULL under NOT, the entity is dropped                                  (C20_refuted_not_over_absent)
     - empty `$or`: Builder.Build emits "1 = 1"                                              (C20_refuted_empty_or)
   Five further defects found by this property were REPAIRED in /repo (fixes/01..04, filter-08), now positive theorems:
     - bare `balance` on accounts is an EXISTS over the per-asset rows (was: SQLSTATE 21000)  (C20_bare_balance)
     - `$in` on the log `type` no longer panics: it is emitted as `type IN (..)`               (C20_log_type_in)
     - `$exists` on balance is rejected by validation (was: panic)                            (C20_exists_on_balance_rejected)
     - `$in` on metadata[k] is rejected by validation (was: selected nothing)                 (C20_in_on_metadata_rejected)
     - the lateral push-down collects `$in` address arrays: with canPush the pre-filtered dataset lists exactly the
       matching entities (was: refuted by `$or[partial, $in]`)                                (C20_pushdown)
   STRONGEST TRUE STATEMENTS: C20_emit_sound (two-valued, no nullable leaf), C20_emit_sound_partial (nullable leaves not
   below a `$not`), both without any bound on depth, width or values. *)
From Coq Require Import List ZArith String Bool.
From LV Require Import Ledger.Filter Ledger.FilterProofs.
From LV Require Ledger.Types Ledger.Core Ledger.Reads Ledger.MetaFilterProofs.   (* qualified: the read model over histories *)
From Coq Require Import ZArith.
Import ListNotations.
Open Scope string_scope.

(* no nullable leaf anywhere: the emitted condition is TRUE / FALSE (never NULL, never an error) exactly as the
   reference meaning says — by induction on f *)
Theorem C20_emit_sound : forall R e f, ent_kind R e = true -> strict_f R f = true ->
  flt_eval (flt_emit R f) (row_of e) = Some (tri_of_bool (flt_sat R f e)).
Proof. intros R e f Hk Hs. exact (emit_strict R e Hk f Hs). Qed.
Print Assumptions C20_emit_sound.

(* nullable leaves (reference, reverted_at, balance[ASSET] on accounts) in positive position *)
Theorem C20_emit_sound_partial : forall R e f, ent_kind R e = true -> wf_entity e -> pos_f R f = true ->
  (flt_eval (flt_emit R f) (row_of e) = Some TTrue <-> flt_sat R f e = true).
Proof.
  intros R e f Hk Hwf Hp. destruct (emit_pos R e Hk Hwf f Hp) as [t [Ht Hag]]. rewrite Ht. unfold tri_agrees in Hag.
  split; [intros H; apply Hag; congruence|intros H; f_equal; now apply Hag].
Qed.
Print Assumptions C20_emit_sound_partial.

(* address forms, on accounts / volumes / aggregated (jsonb_array_length + jsonpath) and on transactions (jsonb @>) *)
Theorem C20_address_accounts : forall p a r,
  c_address r = Some a -> c_address_array r = Some (segs a) -> pat_ok p = true ->
  flt_eval (addr_cond p) r = Some (tri_of_bool (addr_match p a)).
Proof. exact addr_cond_eval. Qed.
Print Assumptions C20_address_accounts.
Theorem C20_address_transactions : forall p a, pat_ok p = true -> is_partial p = true ->
  obj_contains (tx_pat p) (explode (segs a)) = addr_match p a.
Proof. exact tx_pat_contains. Qed.
Print Assumptions C20_address_transactions.

(* list = exactly the matching entities, count = length of the list (model level), first without push-down ... *)
Theorem C20_list : forall R pit f es,
  flt_validate R f = FvOk -> flt_prefilter R pit f = None ->
  (forall e, In e es -> ent_kind R e = true /\ wf_entity e /\ pos_f R f = true) ->
  flt_list R pit f es = FrOk (flt_ref R f es).
Proof. exact list_sound. Qed.
Print Assumptions C20_list.
(* ... then C20_pushdown (DESIGN §9): whatever flt_prefilter decides — i.e. also when canPush (safe_lateral) holds and the
   dataset is inner-joined with the accounts matching the OR of all collected address filters — the list is the same.
   The key lemma (pushdown_covers): safe_lateral false f -> every entity satisfying f satisfies one collected address. *)
Theorem C20_pushdown : forall R pit f es,
  flt_validate R f = FvOk ->
  (forall e, In e es -> ent_kind R e = true /\ wf_entity e /\ pos_f R f = true) ->
  flt_list R pit f es = FrOk (flt_ref R f es).
Proof. exact list_sound_pushdown. Qed.
Print Assumptions C20_pushdown.
Theorem C20_pushdown_covers : forall R x f, (R = RVol \/ R = RAgg) ->
  pos_f R f = true -> safe_lateral false f = true -> contains_addr f = true ->
  flt_sat R f (EVol x) = true ->
  existsb (fun p => addr_match p (fv_account x)) (collect_addrs f) = true.
Proof. exact pushdown_covers. Qed.
Print Assumptions C20_pushdown_covers.
Theorem C20_count : forall R pit f es sel,
  flt_list R pit f es = FrOk sel -> flt_count R pit f es = Some (List.length sel).
Proof. exact count_is_length. Qed.
Print Assumptions C20_count.

(* ---------------- "with or without a point in time": metadata filters over the read model (Ledger/Reads.v)
   [Reads.mfilter] = metadata[k] match, `$exists` metadata k, `$and` / `$or` / `$not`; [mf_filter] embeds it in [filter];
   [Reads.msat q m] = its meaning on a metadata object.  For the three resources that carry ACCOUNT metadata (accounts, volumes,
   aggregated balances): the filter is valid, the condition the code emits is TRUE / FALSE exactly as [msat] says of the
   metadata COLUMN of the dataset row, and list = the entities whose column satisfies it ... *)
Theorem C20_metadata_filter_sql : forall R e q, ent_kind R e = true -> MetaFilterProofs.acc_res R = true ->
  flt_validate R (MetaFilterProofs.mf_filter q) = FvOk /\
  flt_eval (flt_emit R (MetaFilterProofs.mf_filter q)) (row_of e) = Some (tri_of_bool (Reads.msat q (MetaFilterProofs.ent_meta e))).
Proof. intros R e q Hk HR. split; [apply MetaFilterProofs.mf_valid; exact HR | apply MetaFilterProofs.mf_emit_sound; assumption]. Qed.
Print Assumptions C20_metadata_filter_sql.
Theorem C20_metadata_filter_list : forall R pit q es, MetaFilterProofs.acc_res R = true ->
  (forall e, In e es -> ent_kind R e = true /\ wf_entity e) ->
  flt_list R pit (MetaFilterProofs.mf_filter q) es = FrOk (List.filter (fun e => Reads.msat q (MetaFilterProofs.ent_meta e)) es).
Proof. exact MetaFilterProofs.mf_list. Qed.
Print Assumptions C20_metadata_filter_list.

(* ... and WHICH metadata that column holds at a point in time t is the subject of C17: with ACCOUNT_METADATA_HISTORY = SYNC,
   for every history split at t, a listing at t filtered by metadata selects exactly the rows of the unfiltered listing at t
   whose account satisfied the filter AT t ([acc_meta_cur (run f h1) a] = metadata of a in the state reached at t, '{}' if a
   did not exist then) — volumes (any start time, either date mode), accounts, aggregated balances *)
Theorem C20_pit_volumes_metadata_filter : forall f h1 h2 t w q u v,
  Types.f_acc_hist f = true -> Forall (fun no => (fst no <= t)%Z) h1 -> Forall (fun no => (t < fst no)%Z) h2 -> Reads.w_pit w = Some t ->
  Reads.read_volumes f (Core.run f (h1 ++ h2)) w = Some u -> Reads.read_volumes_q f (Core.run f (h1 ++ h2)) w (Some q) 0 = Some v ->
  forall kv, In kv v <-> In kv u /\ Reads.msat q (Reads.acc_meta_cur (Core.run f h1) (fst (fst kv))) = true.
Proof. exact MetaFilterProofs.read_volumes_q_as_of. Qed.
Print Assumptions C20_pit_volumes_metadata_filter.
Theorem C20_pit_accounts_metadata_filter : forall f h1 h2 t q r,
  Types.f_acc_hist f = true -> Forall (fun no => (fst no <= t)%Z) h1 -> Forall (fun no => (t < fst no)%Z) h2 ->
  (In r (Reads.read_accounts_q f (Core.run f (h1 ++ h2)) (Some t) q) <->
   In r (Reads.read_accounts f (Core.run f (h1 ++ h2)) (Some t)) /\ Reads.msat q (Reads.acc_meta_cur (Core.run f h1) (Reads.ar_addr r)) = true).
Proof. exact MetaFilterProofs.read_accounts_q_as_of. Qed.
Print Assumptions C20_pit_accounts_metadata_filter.
Theorem C20_pit_aggregated_metadata_filter : forall f h1 h2 t ins q,
  Types.f_acc_hist f = true -> Forall (fun no => (fst no <= t)%Z) h1 -> Forall (fun no => (t < fst no)%Z) h2 ->
  let s := Core.run f (h1 ++ h2) in
  Reads.read_aggregated_q f s (Some t) ins q =
  (if (if ins then Types.f_moves f else Types.f_pcev f)
   then Some (Reads.sum_by_asset (List.filter (fun kv : Types.key * Types.vol => Reads.msat q (Reads.acc_meta_cur (Core.run f h1) (fst (fst kv)))) (Reads.volumes_at s t ins)))
   else None).
Proof. exact MetaFilterProofs.read_aggregated_q_as_of. Qed.
Print Assumptions C20_pit_aggregated_metadata_filter.
(* the WHERE runs before the grouping: a filtered, grouped volumes listing is the grouping (C05 (6)) of the filtered listing *)
Theorem C20_filter_then_group : forall f s w q g v0,
  Reads.read_volumes_q f s w q 0 = Some v0 -> Reads.read_volumes_q f s w q g = Some (Reads.group_volumes g v0).
Proof. exact MetaFilterProofs.read_volumes_q_grouped. Qed.
Print Assumptions C20_filter_then_group.

(* ---------------- refutations of the full statement (vm_compute witnesses; replayed on the real code) *)
Definition w_tx : tx_ent := mkTx 1 None 100 100 100 None [] ["world"] ["bank"].
Theorem C20_refuted_not_over_absent :
  exists f e, ent_kind RTx e = true /\ flt_validate RTx f = FvOk /\
              flt_sat RTx f e = true /\ flt_eval (flt_emit RTx f) (row_of e) = Some TNull.
Proof. exists (FNot (FLt KRevertedAt (VTime 5))), (ETx w_tx). vm_compute. repeat split. Qed.
Print Assumptions C20_refuted_not_over_absent.

Definition w_acc : acc_ent := mkAcc "bank" [("role", "v1")] 100 100 100 [("EUR", 5%Z); ("USD", 7%Z)].
(* repaired (fixes/filter-08): bare `balance` on accounts is `exists (select 1 … where balance <op> v)`: two-valued for any
   number of assets (it was a scalar sub-select: SQLSTATE 21000 on multi-asset accounts, suspect S-20a) *)
Theorem C20_bare_balance : forall o v a,
  flt_eval (emit_leaf RAcc o KBalanceAny v) (row_of (EAcc a))
  = Some (tri_of_bool (existsb (fun ab => sat_num o (snd ab) v) (fa_balances a))).
Proof. intros o v a. exact (bal_any_pair o v a). Qed.
Print Assumptions C20_bare_balance.
Example C20_bare_balance_former_witness :
  strict_f RAcc (FGt KBalanceAny (VInt 0)) = true /\
  flt_list RAcc false (FGt KBalanceAny (VInt 0)) [EAcc w_acc] = FrOk [EAcc w_acc] /\
  flt_list RAcc false (FNot (FLt KBalanceAny (VInt 6))) [EAcc w_acc] = FrOk [].
Proof. vm_compute. repeat split. Qed.

(* repaired (fixes/04): `$in` on metadata[k] is not a valid filter any more, on any resource *)
Theorem C20_in_on_metadata_rejected : forall R k v, flt_validate R (FIn (KMeta k) v) = FvInvalid.
Proof. intros R k v. destruct R; reflexivity. Qed.
Print Assumptions C20_in_on_metadata_rejected.
(* repaired (fixes/02): `$exists` on balance / balance[ASSET] is rejected by validation (it used to panic) *)
Theorem C20_exists_on_balance_rejected : forall R v,
  (forall a, flt_validate R (FExists (KBalance a) v) = FvInvalid) /\ flt_validate R (FExists KBalanceAny v) = FvInvalid.
Proof. intros R v. split; [intros a|]; destruct R; reflexivity. Qed.
Print Assumptions C20_exists_on_balance_rejected.
(* repaired (fixes/01): `$in` on the log type is accepted and means membership (it used to panic) *)
Theorem C20_log_type_in : forall l e,
  flt_validate RLog (FIn KType (VStrs l)) = FvOk /\
  flt_eval (flt_emit RLog (FIn KType (VStrs l))) (row_of (ELog e)) = Some (tri_of_bool (smem (fl_type e) l)) /\
  flt_sat RLog (FIn KType (VStrs l)) (ELog e) = smem (fl_type e) l.
Proof. intros l e. repeat split. Qed.
Print Assumptions C20_log_type_in.

Theorem C20_refuted_empty_or :
  exists e, flt_validate RTx (FOr []) = FvOk /\ flt_sat RTx (FOr []) e = false /\
            flt_eval (flt_emit RTx (FOr [])) (row_of e) = Some TTrue.
Proof. exists (ETx w_tx). vm_compute. repeat split. Qed.
Print Assumptions C20_refuted_empty_or.

(* the former witness of the push-down defect now lists its row (pre-filter = "bank:" OR 'bank:eu:1' OR 'bank:eu') *)
Definition w_vol : vol_ent := mkVol "bank:eu:1" "EUR" 10 3 [] 100.
Example C20_pushdown_former_witness :
  let f := FOr [FMatch KAccount (VStr "bank:"); FIn KAddress (VStrs ["bank:eu:1"; "bank:eu"])] in
  flt_prefilter RVol false f = Some ["bank:"; "bank:eu:1"; "bank:eu"] /\
  flt_list RVol false f [EVol w_vol] = FrOk [EVol w_vol].
Proof. vm_compute. split; reflexivity. Qed.

(* ---------------- non-vacuity: a depth-4 filter with partial, prefix and exact addresses, $in, metadata, reverted, a
   nullable leaf in positive position, evaluated on two transactions *)
Definition ex_f : filter :=
  FAnd [ FOr [ FMatch KAccount (VStr "users::main"); FMatch KDestination (VStr "bank:...") ];
         FNot (FOr [ FMatch (KMeta "k1") (VStr "v2"); FMatch KReverted (VBool true) ]);
         FOr [ FIn KSource (VStrs ["world"; "shop:1"]); FMatch KReference (VStr "r1") ] ].
Definition ex_t1 : tx_ent := mkTx 1 (Some "r1") 100 101 101 None [("k1", "v1")] ["world"] ["users:1:main"].
Definition ex_t2 : tx_ent := mkTx 2 None 100 102 102 (Some 150%Z) [] ["users:1:main"] ["bank:eu:1"].
Example C20_example :
  pos_f RTx ex_f = true /\ flt_validate RTx ex_f = FvOk /\
  flt_list RTx false ex_f [ETx ex_t1; ETx ex_t2] = FrOk [ETx ex_t1] /\
  flt_ref RTx ex_f [ETx ex_t1; ETx ex_t2] = [ETx ex_t1] /\
  flt_count RTx false ex_f [ETx ex_t1; ETx ex_t2] = Some 1%nat.
Proof. vm_compute. repeat split. Qed.

(* non-vacuity of the metadata-filter theorems: a nested filter on two volume rows *)
Example C20_metadata_filter_example :
  let q := Reads.MfAnd (Reads.MfNot (Reads.MfMatch "role" "v2")) (Reads.MfOr (Reads.MfExists "k1") (Reads.MfMatch "role" "v1")) in
  let v1 := mkVol "users:1" "USD" 10 3 [("role", "v1")] 100 in
  let v2 := mkVol "bank" "USD" 5 0 [("role", "v2"); ("k1", "x")] 100 in
  flt_list RVol true (MetaFilterProofs.mf_filter q) [EVol v1; EVol v2] = FrOk [EVol v1] /\
  Reads.msat q (fv_metadata v1) = true /\ Reads.msat q (fv_metadata v2) = false /\
  flt_prefilter RVol true (MetaFilterProofs.mf_filter q) = None.
Proof. vm_compute. repeat split. Qed.
