(* C20 — List filters select exactly the matching entities.  Statements only; proofs live in Ledger/FilterProofs.v.

   FULL STATEMENT (what the property demands, for every resource R, every filter f, every entity e of R):
       flt_eval (flt_emit R f) (row_of e) = Some TTrue  <->  flt_sat R f e = true
   where [row_of e] is the dataset row of the entity: metadata never NULL (coalesce), address_array = the segments of
   the address, sources_arrays / destinations_arrays = the exploded sources / destinations, one balance row per asset.
   The faithful model of the unchanged code REFUTES it in five ways (witnesses below, each replayed on the real code by
   the `filters` harness, see known_findings.d/filter.json):
     - a `$not` above a comparison on an absent value (reference, reverted_at, balance[A] of an account without A):
       SQL NULL stays NULL under NOT, the entity is dropped                                  (C20_refuted_not_over_absent)
     - bare `balance` on accounts: scalar sub-select over all assets ⇒ SQLSTATE 21000        (C20_refuted_bare_balance)
     - `$in` on metadata[k]: emitted as containment of an ARRAY, never true                  (C20_refuted_in_on_metadata)
     - empty `$or`: Builder.Build emits "1 = 1"                                              (C20_refuted_empty_or)
     - lateral push-down ignores `$in` address filters when a partial address is present    (C20_pushdown_refuted)
   STRONGEST TRUE STATEMENTS: C20_emit_sound (two-valued, no nullable leaf), C20_emit_sound_partial (nullable leaves not
   below a `$not`; at most one asset for bare `balance`), both without any bound on depth, width or values. *)
From Coq Require Import List ZArith String Bool.
From LV Require Import Ledger.Filter Ledger.FilterProofs.
Import ListNotations.
Open Scope string_scope.

(* no nullable leaf anywhere: the emitted condition is TRUE / FALSE (never NULL, never an error) exactly as the
   reference meaning says — by induction on f *)
Theorem C20_emit_sound : forall R e f, ent_kind R e = true -> strict_f R f = true ->
  flt_eval (flt_emit R f) (row_of e) = Some (tri_of_bool (flt_sat R f e)).
Proof. intros R e f Hk Hs. exact (emit_strict R e Hk f Hs). Qed.
Print Assumptions C20_emit_sound.

(* nullable leaves (reference, reverted_at, balance on accounts) in positive position *)
Theorem C20_emit_sound_partial : forall R e f, ent_kind R e = true -> wf_entity e -> pos_f R e f = true ->
  (flt_eval (flt_emit R f) (row_of e) = Some TTrue <-> flt_sat R f e = true).
Proof.
  intros R e f Hk Hwf Hp. destruct (emit_pos R e Hk Hwf f Hp) as [t [Ht Hag]]. rewrite Ht. unfold tri_agrees in Hag.
  split; [intros H; apply Hag; congruence|intros H; f_equal; now apply Hag].
Qed.
Print Assumptions C20_emit_sound_partial.

(* address forms, on accounts / volumes / aggregated (jsonb_array_length + jsonpath) and on transactions (jsonb @>) *)
Theorem C20_address_accounts : forall p a r,
  c_address r = Some a -> c_address_array r = Some (segs a) -> pat_ok p = true ->
  flt_eval (addr_cond p) r = Some (tri_of_bool (addr_match p a)).
Proof. exact addr_cond_eval. Qed.
Print Assumptions C20_address_accounts.
Theorem C20_address_transactions : forall p a, pat_ok p = true -> is_partial p = true ->
  obj_contains (tx_pat p) (explode (segs a)) = addr_match p a.
Proof. exact tx_pat_contains. Qed.
Print Assumptions C20_address_transactions.

(* list = exactly the matching entities, count = length of the list (model level; no push-down in play) *)
Theorem C20_list : forall R pit f es,
  flt_validate R f = FvOk -> flt_prefilter R pit f = None ->
  (forall e, In e es -> ent_kind R e = true /\ wf_entity e /\ pos_f R e f = true) ->
  flt_list R pit f es = FrOk (flt_ref R f es).
Proof. exact list_sound. Qed.
Print Assumptions C20_list.
Theorem C20_count : forall R pit f es sel,
  flt_list R pit f es = FrOk sel -> flt_count R pit f es = Some (List.length sel).
Proof. exact count_is_length. Qed.
Print Assumptions C20_count.

(* ---------------- refutations of the full statement (vm_compute witnesses; replayed on the real code) *)
Definition w_tx : tx_ent := mkTx 1 None 100 100 100 None [] ["world"] ["bank"].
Theorem C20_refuted_not_over_absent :
  exists f e, ent_kind RTx e = true /\ flt_validate RTx f = FvOk /\
              flt_sat RTx f e = true /\ flt_eval (flt_emit RTx f) (row_of e) = Some TNull.
Proof. exists (FNot (FLt KRevertedAt (VTime 5))), (ETx w_tx). vm_compute. repeat split. Qed.
Print Assumptions C20_refuted_not_over_absent.

Definition w_acc : acc_ent := mkAcc "bank" [("role", "v1")] 100 100 100 [("EUR", 5%Z); ("USD", 7%Z)].
Theorem C20_refuted_bare_balance :
  exists f e, ent_kind RAcc e = true /\ wf_entity e /\ flt_validate RAcc f = FvOk /\
              flt_sat RAcc f e = true /\ flt_eval (flt_emit RAcc f) (row_of e) = None /\
              flt_list RAcc false f [e] = FrCardinality.
Proof.
  exists (FGt KBalanceAny (VInt 0)), (EAcc w_acc). split; [reflexivity|]. split.
  - simpl. repeat constructor; simpl; intuition discriminate.
  - vm_compute. repeat split.
Qed.
Print Assumptions C20_refuted_bare_balance.

Theorem C20_refuted_in_on_metadata :
  exists f e, ent_kind RAcc e = true /\ flt_validate RAcc f = FvOk /\
              flt_sat RAcc f e = true /\ flt_eval (flt_emit RAcc f) (row_of e) = Some TFalse.
Proof. exists (FIn (KMeta "role") (VStrs ["v1"; "v2"])), (EAcc w_acc). vm_compute. repeat split. Qed.
Print Assumptions C20_refuted_in_on_metadata.

Theorem C20_refuted_empty_or :
  exists e, flt_validate RTx (FOr []) = FvOk /\ flt_sat RTx (FOr []) e = false /\
            flt_eval (flt_emit RTx (FOr [])) (row_of e) = Some TTrue.
Proof. exists (ETx w_tx). vm_compute. repeat split. Qed.
Print Assumptions C20_refuted_empty_or.

(* C20_pushdown (DESIGN §9): "the dataset with the lateral pre-filter selects the same rows as without" — refuted:
   the `$in` branch of an `$or` is not collected, but the partial address of the other branch is pushed down *)
Definition w_vol : vol_ent := mkVol "bank:eu:1" "EUR" 10 3 [] 100.
Theorem C20_pushdown_refuted :
  exists f es, flt_validate RVol f = FvOk /\ safe_lateral false f = true /\
               flt_ref RVol f es = es /\ flt_list RVol false f es = FrOk [].
Proof.
  exists (FOr [FMatch KAccount (VStr "bank:"); FIn KAddress (VStrs ["bank:eu:1"; "bank:eu"])]), [EVol w_vol].
  vm_compute. repeat split.
Qed.
Print Assumptions C20_pushdown_refuted.

(* two accepted filters make ResolveFilter panic (ConvertOperatorToSQL: "unreachable") *)
Example C20_panics :
  flt_validate RLog (FIn KType (VStrs ["NEW_TRANSACTION"])) = FvPanic /\
  flt_validate RAcc (FExists (KBalance "USD") (VInt 1)) = FvPanic.
Proof. vm_compute. split; reflexivity. Qed.

(* ---------------- non-vacuity: a depth-4 filter with partial, prefix and exact addresses, $in, metadata, reverted, a
   nullable leaf in positive position, evaluated on two transactions *)
Definition ex_f : filter :=
  FAnd [ FOr [ FMatch KAccount (VStr "users::main"); FMatch KDestination (VStr "bank:...") ];
         FNot (FOr [ FMatch (KMeta "k1") (VStr "v2"); FMatch KReverted (VBool true) ]);
         FOr [ FIn KSource (VStrs ["world"; "shop:1"]); FMatch KReference (VStr "r1") ] ].
Definition ex_t1 : tx_ent := mkTx 1 (Some "r1") 100 101 101 None [("k1", "v1")] ["world"] ["users:1:main"].
Definition ex_t2 : tx_ent := mkTx 2 None 100 102 102 (Some 150%Z) [] ["users:1:main"] ["bank:eu:1"].
Example C20_example :
  pos_f RTx (ETx ex_t1) ex_f = true /\ flt_validate RTx ex_f = FvOk /\
  flt_list RTx false ex_f [ETx ex_t1; ETx ex_t2] = FrOk [ETx ex_t1] /\
  flt_ref RTx ex_f [ETx ex_t1; ETx ex_t2] = [ETx ex_t1] /\
  flt_count RTx false ex_f [ETx ex_t1; ETx ex_t2] = Some 1%nat.
Proof. vm_compute. repeat split. Qed.
