(* C37 — Query templates equal the direct query they describe.  Statements only; proofs live in
   Ledger/TemplateProofs.v, the model (ResolveFilterTemplate, Overwrite, RunQuery) in Ledger/Template.v *)
From Coq Require Import List ZArith NArith String Ascii Bool Lia.
From LV Require Import Ledger.Template Ledger.TemplateProofs.
Import ListNotations.
Open Scope Z_scope.

(* ---- substitution is a homomorphism over $and / $or / $not: the children are resolved left to
   right with the same variables, the first error wins, the connective is kept. No depth bound. *)
Theorem C37_subst_and : forall r env l,
  tpl_walk r env (TpAnd l) = tpl_lift TpAnd (tpl_map_err (tpl_walk r env) l).
Proof. exact tpl_walk_and. Qed.
Print Assumptions C37_subst_and.

Theorem C37_subst_or : forall r env l,
  tpl_walk r env (TpOr l) = tpl_lift TpOr (tpl_map_err (tpl_walk r env) l).
Proof. exact tpl_walk_or. Qed.
Print Assumptions C37_subst_or.

Theorem C37_subst_not : forall r env b,
  tpl_walk r env (TpNot b) = tpl_lift TpNot (tpl_walk r env b).
Proof. exact tpl_walk_not. Qed.
Print Assumptions C37_subst_not.

(* ---- a variable-free body (every leaf on a known field; strings only at string-typed positions
   and free of '$') is returned unchanged, byte for byte, whatever the variables -- non-ASCII text
   included (was refuted before fix 06-template-non-ascii: ParseTemplate re-encoded bytes >= 0x80). *)
Theorem C37_subst_identity : forall r b decls call env,
  tpl_make_env decls call = inr env -> tpl_plain r b = true ->
  tpl_resolve r (Some b) decls call = inr (Some b).
Proof. exact tpl_resolve_plain. Qed.
Print Assumptions C37_subst_identity.

(* ---- an integral float64 variable (what the API decodes request variables into) is rendered at a string position with
   the very digits of its value, whatever its magnitude: the same text as the json.Number form, and the value a numeric
   position gets (was refuted before fixes/filter-07: strconv.FormatInt(int64(v)) gave -9223372036854775808 from 2^63
   on).  Domain of TpvFloat z: z is the exact value of the float64 (the tie records the value the decoding yields). *)
Theorem C37_interpolate_exact : forall z,
  tpl_json_to_string (TpvFloat z) = inr (tpl_z_to_string z) /\
  tpl_json_to_string (TpvFloat z) = tpl_json_to_string (TpvNum z).
Proof. intros z. split; reflexivity. Qed.
Print Assumptions C37_interpolate_exact.

(* ---- Overwrite is right-biased FIELD by field (fix 05-template-params-fieldwise): the last object
   overrides exactly the fields it carries -- endTime, startTime, expand, pageSize, sort column and
   order, the volumes options -- and every other field keeps the value the earlier objects gave it;
   null/absent objects are skipped. *)
Theorem C37_overwrite_right_biased : forall p l j q,
  tpl_overwrite p (l ++ [None]) = tpl_overwrite p l /\
  (tpl_overwrite p (l ++ [Some j]) = inr q ->
   exists p', tpl_overwrite p l = inr p' /\
     tpp_pit q = (match tpj_end j with Some t => Some t | None => tpp_pit p' end) /\
     tpp_oot q = (match tpj_start j with Some t => Some t | None => tpp_oot p' end) /\
     tpp_expand q = (match tpj_expand j with [] => tpp_expand p' | e => e end) /\
     tpp_pagesize q = (if tpj_pagesize j =? 0 then tpp_pagesize p' else tpj_pagesize j) /\
     tpl_apply_sort (tpp_column p') (tpp_order p') (tpj_sort j) = inr (tpp_column q, tpp_order q) /\
     tpv_insertion (tpp_opts q) = tpl_opt_or (tpj_insertion j) (tpv_insertion (tpp_opts p')) /\
     tpv_group (tpp_opts q) = tpl_opt_or (tpj_group j) (tpv_group (tpp_opts p'))).
Proof.
  intros p l j q. split; [exact (tpl_overwrite_snoc_none p l)|]. intros H.
  destruct (tpl_overwrite_snoc_some p l j q H) as [p' [Hl Hu]].
  exists p'. split; [exact Hl|]. exact (tpl_unmarshal_fields p' j q Hu).
Qed.
Print Assumptions C37_overwrite_right_biased.

Theorem C37_overwrite_idempotent : forall p l j,
  tpl_overwrite p (l ++ [Some j; Some j]) = tpl_overwrite p (l ++ [Some j]).
Proof. exact tpl_overwrite_idem. Qed.
Print Assumptions C37_overwrite_idempotent.

(* ---- "template parameters overridden by the request parameters", field by field, for the call
   RunQuery makes (defaults, template object, request object): each of endTime, startTime, expand,
   pageSize is the request's when the request carries it, else the template's when the template
   carries it, else the default. (Refuted before the fix: any request object erased the template's
   four fields.) *)
Theorem C37_overwrite_fieldwise : forall r cfg t rq q,
  tpl_overwrite (tpl_run_defaults r cfg) [Some t; Some rq] = inr q ->
  tpp_pit q = (match tpj_end rq with Some x => Some x | None => tpj_end t end) /\
  tpp_oot q = (match tpj_start rq with Some x => Some x | None => tpj_start t end) /\
  tpp_expand q = (match tpj_expand rq with [] => tpj_expand t | e => e end) /\
  tpp_pagesize q = (if tpj_pagesize rq =? 0 then if tpj_pagesize t =? 0 then tpc_default cfg else tpj_pagesize t
                    else tpj_pagesize rq).
Proof.
  intros r cfg t rq q H. destruct (tpl_overwrite_two _ t rq q H) as (A & B & C & D).
  rewrite A, B, C, D. destruct r; simpl;
    destruct (tpj_end rq), (tpj_end t), (tpj_start rq), (tpj_start t), (tpj_expand rq), (tpj_expand t); repeat split; reflexivity.
Qed.
Print Assumptions C37_overwrite_fieldwise.

(* ---- params objects that carry no pageSize leave the configured default page size in place
   (refuted before the fix: the first such object reset it to 0, the store then used 15) *)
Theorem C37_default_pagesize : forall r cfg l q,
  Forall (fun o => match o with Some j => tpj_pagesize j = 0 | None => True end) l ->
  tpl_overwrite (tpl_run_defaults r cfg) l = inr q ->
  tpp_pagesize q = tpc_default cfg.
Proof.
  intros r cfg l q HF H. rewrite (tpl_overwrite_keeps_pagesize l _ q HF H). destruct r; reflexivity.
Qed.
Print Assumptions C37_default_pagesize.

(* ---- running a template = the direct list query with the resolved filter and the overwritten
   params: same filter, point in time, window start, expand, options, sort column and order, page
   size clamped to the configured maximum (0 becomes the store's 15); an error of the resolution or
   of the overwrite is the only way to fail; over any store ([sel] = the filtered, sorted rows a
   normalised query selects), following the returned cursors yields exactly the rows of that
   direct query, in order, each cursor carrying that same query. *)
Theorem C37_equiv : forall (row : Type) (sel : tpl_resource -> tpl_query -> list row) r body decls call tp rp cfg,
  0 <= tpc_default cfg ->
  match tpl_resolve r body decls call, tpl_overwrite (tpl_run_defaults r cfg) [tp; rp] with
  | inr f, inr p =>
      let q := tpl_to_query p f cfg in
      let page := tpl_direct row sel r q in
      tpl_run_query row sel r body decls call tp rp cfg = inr page /\
      tq_filter q = f /\ tq_pit q = tpp_pit p /\ tq_oot q = tpp_oot p /\ tq_expand q = tpp_expand p /\
      tq_opts q = tpp_opts p /\ tq_column q = tpp_column p /\ tq_order q = tpp_order p /\
      tq_pagesize q = Z.min (tpp_pagesize p) (tpc_max cfg) /\
      tpg_pagesize page = (if tq_pagesize q =? 0 then 15 else tq_pagesize q) /\
      tpg_data page = firstn (Z.to_nat (tpg_pagesize page)) (sel r (tpl_normalize r q)) /\
      (forall c, tpg_next page = Some c -> tcu_query c = tpl_normalize r q) /\
      (0 <= tpc_max cfg ->
       tpl_follow row sel (List.length (sel r (tpl_normalize r q))) r page = sel r (tpl_normalize r q))
  | inl e, _ => tpl_run_query row sel r body decls call tp rp cfg = inl e
  | inr _, inl e => tpl_run_query row sel r body decls call tp rp cfg = inl e
  end.
Proof.
  intros row sel r body decls call tp rp cfg Hd.
  destruct (tpl_resolve r body decls call) as [e|f] eqn:H1.
  - unfold tpl_run_query, tpl_run_plan. rewrite H1. reflexivity.
  - destruct (tpl_overwrite (tpl_run_defaults r cfg) [tp; rp]) as [e|p] eqn:H2.
    + unfold tpl_run_query, tpl_run_plan. rewrite H1, H2. reflexivity.
    + cbv zeta.
      destruct (tpl_to_query_fields p f cfg) as (A & B & C & D & E & F & G & I).
      destruct (tpl_direct_page row sel r (tpl_to_query p f cfg)) as (J & K & M).
      split; [exact (tpl_run_query_ok row sel r body decls call tp rp cfg f p H1 H2)|].
      split; [exact A|]. split; [exact B|]. split; [exact C|]. split; [exact D|]. split; [exact E|].
      split; [exact F|]. split; [exact G|]. split; [exact I|].
      split; [exact K|]. split; [rewrite J; reflexivity|]. split; [exact M|].
      intros Hmax. apply tpl_direct_follow. rewrite I.
      assert (0 <= tpp_pagesize p).
      { eapply tpl_apply_all_pagesize_nonneg; [|exact H2]. destruct r; exact Hd. }
      lia.
Qed.
Print Assumptions C37_equiv.

(* ---- non-vacuity: a template on accounts with an interpolated address "users:${id}:main", a typed
   integer variable used for a balance bound, a default (min = 0) overridden by nothing, a declared
   string variable bound by the call, an undeclared extra variable that is ignored; template params
   sort by first usage and expand volumes, the request only raises the page size (clamped to the maximum). *)
Local Open Scope string_scope.
Example C37_example :
  tpl_run_plan TpAccounts
    (Some (TpAnd [TpLeaf TpoMatch "address" (TpjAtom (TpaStr "users:${id}:main"));
                  TpNot (TpLeaf TpoLt "balance[USD]" (TpjAtom (TpaStr "${min}")));
                  TpLeaf TpoIn "metadata[role]" (TpjList [TpaStr "$role"; TpaStr "admin"])]))
    [("id", {| tpd_type := TpNumeric; tpd_default := TpvNull |});
     ("min", {| tpd_type := TpNumeric; tpd_default := TpvNum 0 |});
     ("role", {| tpd_type := TpString; tpd_default := TpvStr "user" |})]
    [("id", TpvFloat 2); ("extra", TpvStr "ignored")]
    (Some {| tpj_end := None; tpj_start := None; tpj_expand := ["volumes"]; tpj_sort := "firstUsage:desc"; tpj_pagesize := 50;
             tpj_group := None; tpj_insertion := None |})
    (Some {| tpj_end := None; tpj_start := None; tpj_expand := []; tpj_sort := ""; tpj_pagesize := 2000;
             tpj_group := None; tpj_insertion := None |})
    {| tpc_max := 1000; tpc_default := 15 |}
  = inr {| tq_filter := Some (TpAnd [TpLeaf TpoMatch "address" (TpjAtom (TpaStr "users:2:main"));
                                     TpNot (TpLeaf TpoLt "balance[USD]" (TpjAtom (TpaInt 0)));
                                     TpLeaf TpoIn "metadata[role]" (TpjList [TpaStr "user"; TpaStr "admin"])]);
           tq_pit := None; tq_oot := None; tq_expand := ["volumes"];   (* the template's expand is kept: C37_overwrite_fieldwise *)
           tq_opts := {| tpv_insertion := false; tpv_group := 0 |};
           tq_column := "first_usage"; tq_order := Some TpoDesc; tq_pagesize := 1000 |}.
Proof. vm_compute. reflexivity. Qed.

(* errors are reachable: a missing variable, an ill-typed call variable *)
Example C37_example_errors :
  tpl_resolve TpLogs (Some (TpLeaf TpoGte "date" (TpjAtom (TpaStr "${since}")))) [("since", {| tpd_type := TpDate; tpd_default := TpvNull |})] []
    = inl TpeMissingVariable /\
  tpl_resolve TpLogs (Some (TpLeaf TpoGte "date" (TpjAtom (TpaStr "${since}")))) [("since", {| tpd_type := TpDate; tpd_default := TpvNull |})]
    [("since", TpvStr "2023-02-30T00:00:00Z")] = inl TpeBadVarValue /\
  tpl_resolve TpLogs (Some (TpLeaf TpoGte "date" (TpjAtom (TpaStr "${since}")))) [("since", {| tpd_type := TpDate; tpd_default := TpvNull |})]
    [("since", TpvStr "2023-02-28T00:00:00.5+02:00")] = inr (Some (TpLeaf TpoGte "date" (TpjAtom (TpaStr "2023-02-28T00:00:00.5+02:00")))).
Proof. vm_compute. repeat split; reflexivity. Qed.

(* a literal with non-ASCII bytes ("\195\169 z" = e-acute, space, z) goes through unchanged *)
Example C37_example_non_ascii :
  let b := TpLeaf TpoMatch "metadata[k1]" (TpjAtom (TpaStr (String (ascii_of_N 195) (String (ascii_of_N 169) " z")))) in
  tpl_resolve TpTransactions (Some b) [] [] = inr (Some b).
Proof. vm_compute. reflexivity. Qed.

(* the former witness of the int overflow: 2^63 bound as a float64, interpolated into an address *)
Example C37_example_big_float :
  tpl_resolve TpAccounts (Some (TpLeaf TpoMatch "address" (TpjAtom (TpaStr "acct:${n}"))))
    [("n", {| tpd_type := TpNumeric; tpd_default := TpvNull |})] [("n", TpvFloat 9223372036854775808)]
  = inr (Some (TpLeaf TpoMatch "address" (TpjAtom (TpaStr "acct:9223372036854775808")))).
Proof. vm_compute. reflexivity. Qed.
