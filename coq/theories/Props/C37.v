(* C37 — Query templates equal the direct query they describe.  Statements only; proofs live in
   Ledger/TemplateProofs.v, the model (ResolveFilterTemplate, Overwrite, RunQuery) in Ledger/Template.v *)
From Coq Require Import List ZArith NArith String Ascii Bool Lia.
From LV Require Import Ledger.Template Ledger.TemplateProofs.
Import ListNotations.
Open Scope Z_scope.

(* ---- substitution is a homomorphism over $and / $or / $not: the children are resolved left to
   right with the same variables, the first error wins, the connective is kept. No depth bound. *)
Theorem C37_subst_and : forall r env l,
  tpl_walk r env (TpAnd l) = tpl_lift TpAnd (tpl_map_err (tpl_walk r env) l).
Proof. exact tpl_walk_and. Qed.
Print Assumptions C37_subst_and.

Theorem C37_subst_or : forall r env l,
  tpl_walk r env (TpOr l) = tpl_lift TpOr (tpl_map_err (tpl_walk r env) l).
Proof. exact tpl_walk_or. Qed.
Print Assumptions C37_subst_or.

Theorem C37_subst_not : forall r env b,
  tpl_walk r env (TpNot b) = tpl_lift TpNot (tpl_walk r env b).
Proof. exact tpl_walk_not. Qed.
Print Assumptions C37_subst_not.

(* ---- a variable-free body (every leaf on a known field; strings only at string-typed positions,
   free of '$' and of bytes >= 0x80) is returned unchanged, whatever the variables.
   FULL STATEMENT (refuted below): the same without the "bytes < 0x80" restriction. *)
Theorem C37_subst_identity : forall r b decls call env,
  tpl_make_env decls call = inr env -> tpl_plain r b = true ->
  tpl_resolve r (Some b) decls call = inr (Some b).
Proof. exact tpl_resolve_plain. Qed.
Print Assumptions C37_subst_identity.

(* a literal non-ASCII byte is re-encoded by ParseTemplate (currentStr += string(b), b a byte) *)
Theorem C37_subst_identity_refuted : exists r b,
  tpl_resolve r (Some b) [] [] <> inr (Some b) /\
  exists b', tpl_resolve r (Some b) [] [] = inr (Some b') .
Proof.
  exists TpTransactions.
  exists (TpLeaf TpoMatch "metadata[k1]" (TpjAtom (TpaStr (String (ascii_of_N 195) (String (ascii_of_N 169) EmptyString))))).
  split; [vm_compute; discriminate|]. eexists. vm_compute. reflexivity.
Qed.
Print Assumptions C37_subst_identity_refuted.

(* ---- Overwrite is right-biased record-wise: the LAST non-null object alone determines endTime,
   startTime, expand and pageSize; sort (column, order) and the volumes options are changed only by
   the fields it carries; null/absent objects are skipped. *)
Theorem C37_overwrite_right_biased : forall p l j q,
  tpl_overwrite p (l ++ [None]) = tpl_overwrite p l /\
  (tpl_overwrite p (l ++ [Some j]) = inr q ->
   tpp_pit q = tpj_end j /\ tpp_oot q = tpj_start j /\ tpp_expand q = tpj_expand j /\ tpp_pagesize q = tpj_pagesize j /\
   exists p', tpl_overwrite p l = inr p' /\
     tpl_apply_sort (tpp_column p') (tpp_order p') (tpj_sort j) = inr (tpp_column q, tpp_order q) /\
     tpv_insertion (tpp_opts q) = tpl_opt_or (tpj_insertion j) (tpv_insertion (tpp_opts p')) /\
     tpv_group (tpp_opts q) = tpl_opt_or (tpj_group j) (tpv_group (tpp_opts p'))).
Proof.
  intros p l j q. split; [exact (tpl_overwrite_snoc_none p l)|]. intros H.
  destruct (tpl_overwrite_snoc_some p l j q H) as [p' [Hl Hu]].
  destruct (tpl_unmarshal_fields p' j q Hu) as (A & B & C & D & E & F & G).
  repeat split; try assumption. exists p'. repeat split; assumption.
Qed.
Print Assumptions C37_overwrite_right_biased.

Theorem C37_overwrite_idempotent : forall p l j,
  tpl_overwrite p (l ++ [Some j; Some j]) = tpl_overwrite p (l ++ [Some j]).
Proof. exact tpl_overwrite_idem. Qed.
Print Assumptions C37_overwrite_idempotent.

(* ---- "template parameters overridden by the request parameters", read field by field:
   FULL STATEMENT (refuted):
     forall r cfg t rq q, tpl_overwrite (tpl_run_defaults r cfg) [Some t; Some rq] = inr q ->
                          tpl_fieldwise (tpl_run_defaults r cfg) [Some t; Some rq] = inr q.
   Witness: template {endTime: T}, request {pageSize: 5}: the template's point in time is gone.
   Second witness: a template object without pageSize resets the configured default page size. *)
Theorem C37_overwrite_fieldwise_refuted : exists r cfg t rq q q',
  tpl_overwrite (tpl_run_defaults r cfg) [Some t; Some rq] = inr q /\
  tpl_fieldwise (tpl_run_defaults r cfg) [Some t; Some rq] = inr q' /\
  tpj_end t <> None /\ tpj_end rq = None /\ tpp_pit q = None /\ tpp_pit q' = tpj_end t.
Proof.
  exists TpTransactions, {| tpc_max := 1000; tpc_default := 15 |}.
  exists {| tpj_end := Some 1700000002500000; tpj_start := None; tpj_expand := []; tpj_sort := ""; tpj_pagesize := 0; tpj_group := None; tpj_insertion := None |}.
  exists {| tpj_end := None; tpj_start := None; tpj_expand := []; tpj_sort := ""; tpj_pagesize := 5; tpj_group := None; tpj_insertion := None |}.
  eexists. eexists. vm_compute. repeat split; try reflexivity. discriminate.
Qed.
Print Assumptions C37_overwrite_fieldwise_refuted.

Theorem C37_default_pagesize_refuted : exists r cfg t q,
  tpj_pagesize t = 0 /\
  tpl_overwrite (tpl_run_defaults r cfg) [Some t; None] = inr q /\
  tpp_pagesize q <> tpc_default cfg /\
  tq_pagesize (tpl_normalize r (tpl_to_query q None cfg)) = tpl_query_default_pagesize.
Proof.
  exists TpTransactions, {| tpc_max := 1000; tpc_default := 3 |}.
  exists {| tpj_end := None; tpj_start := None; tpj_expand := []; tpj_sort := "timestamp:asc"; tpj_pagesize := 0; tpj_group := None; tpj_insertion := None |}.
  eexists. vm_compute. repeat split; try reflexivity. discriminate.
Qed.
Print Assumptions C37_default_pagesize_refuted.

(* what IS true of the field-wise reading: (1) one object that mentions every currently non-zero
   field among endTime/startTime/expand/pageSize is applied field-wise; (2) sort column, order and
   the volumes options of ANY sequence of objects are merged field-wise. *)
Theorem C37_overwrite_fieldwise_partial :
  (forall p j, tpl_dominates j p = true -> tpl_apply true p j = tpl_unmarshal p j) /\
  (forall p l q q', tpl_fieldwise p l = inr q -> tpl_overwrite p l = inr q' ->
     tpp_column q = tpp_column q' /\ tpp_order q = tpp_order q' /\ tpp_opts q = tpp_opts q').
Proof.
  split.
  - exact tpl_apply_dominates.
  - intros p l q q' H1 H2. exact (tpl_fieldwise_sort_opts l p p q q' eq_refl eq_refl eq_refl H1 H2).
Qed.
Print Assumptions C37_overwrite_fieldwise_partial.

(* ---- running a template = the direct list query with the resolved filter and the overwritten
   params: same filter, point in time, window start, expand, options, sort column and order, page
   size clamped to the configured maximum (0 becomes the store's 15); an error of the resolution or
   of the overwrite is the only way to fail; over any store ([sel] = the filtered, sorted rows a
   normalised query selects), following the returned cursors yields exactly the rows of that
   direct query, in order, each cursor carrying that same query. *)
Theorem C37_equiv : forall (row : Type) (sel : tpl_resource -> tpl_query -> list row) r body decls call tp rp cfg,
  0 <= tpc_default cfg ->
  match tpl_resolve r body decls call, tpl_overwrite (tpl_run_defaults r cfg) [tp; rp] with
  | inr f, inr p =>
      let q := tpl_to_query p f cfg in
      let page := tpl_direct row sel r q in
      tpl_run_query row sel r body decls call tp rp cfg = inr page /\
      tq_filter q = f /\ tq_pit q = tpp_pit p /\ tq_oot q = tpp_oot p /\ tq_expand q = tpp_expand p /\
      tq_opts q = tpp_opts p /\ tq_column q = tpp_column p /\ tq_order q = tpp_order p /\
      tq_pagesize q = Z.min (tpp_pagesize p) (tpc_max cfg) /\
      tpg_pagesize page = (if tq_pagesize q =? 0 then 15 else tq_pagesize q) /\
      tpg_data page = firstn (Z.to_nat (tpg_pagesize page)) (sel r (tpl_normalize r q)) /\
      (forall c, tpg_next page = Some c -> tcu_query c = tpl_normalize r q) /\
      (0 <= tpc_max cfg ->
       tpl_follow row sel (List.length (sel r (tpl_normalize r q))) r page = sel r (tpl_normalize r q))
  | inl e, _ => tpl_run_query row sel r body decls call tp rp cfg = inl e
  | inr _, inl e => tpl_run_query row sel r body decls call tp rp cfg = inl e
  end.
Proof.
  intros row sel r body decls call tp rp cfg Hd.
  destruct (tpl_resolve r body decls call) as [e|f] eqn:H1.
  - unfold tpl_run_query, tpl_run_plan. rewrite H1. reflexivity.
  - destruct (tpl_overwrite (tpl_run_defaults r cfg) [tp; rp]) as [e|p] eqn:H2.
    + unfold tpl_run_query, tpl_run_plan. rewrite H1, H2. reflexivity.
    + cbv zeta.
      destruct (tpl_to_query_fields p f cfg) as (A & B & C & D & E & F & G & I).
      destruct (tpl_direct_page row sel r (tpl_to_query p f cfg)) as (J & K & M).
      split; [exact (tpl_run_query_ok row sel r body decls call tp rp cfg f p H1 H2)|].
      split; [exact A|]. split; [exact B|]. split; [exact C|]. split; [exact D|]. split; [exact E|].
      split; [exact F|]. split; [exact G|]. split; [exact I|].
      split; [exact K|]. split; [rewrite J; reflexivity|]. split; [exact M|].
      intros Hmax. apply tpl_direct_follow. rewrite I.
      assert (0 <= tpp_pagesize p).
      { eapply (tpl_apply_all_pagesize_nonneg false); [|exact H2]. destruct r; exact Hd. }
      lia.
Qed.
Print Assumptions C37_equiv.

(* ---- non-vacuity: a template on accounts with an interpolated address "users:${id}:main", a typed
   integer variable used for a balance bound, a default (min = 0) overridden by nothing, a declared
   string variable bound by the call, an undeclared extra variable that is ignored; template params
   sort by first usage, request asks for 2 per page. *)
Local Open Scope string_scope.
Example C37_example :
  tpl_run_plan TpAccounts
    (Some (TpAnd [TpLeaf TpoMatch "address" (TpjAtom (TpaStr "users:${id}:main"));
                  TpNot (TpLeaf TpoLt "balance[USD]" (TpjAtom (TpaStr "${min}")));
                  TpLeaf TpoIn "metadata[role]" (TpjList [TpaStr "$role"; TpaStr "admin"])]))
    [("id", {| tpd_type := TpNumeric; tpd_default := TpvNull |});
     ("min", {| tpd_type := TpNumeric; tpd_default := TpvNum 0 |});
     ("role", {| tpd_type := TpString; tpd_default := TpvStr "user" |})]
    [("id", TpvFloat 2); ("extra", TpvStr "ignored")]
    (Some {| tpj_end := None; tpj_start := None; tpj_expand := ["volumes"]; tpj_sort := "firstUsage:desc"; tpj_pagesize := 50;
             tpj_group := None; tpj_insertion := None |})
    (Some {| tpj_end := None; tpj_start := None; tpj_expand := []; tpj_sort := ""; tpj_pagesize := 2000;
             tpj_group := None; tpj_insertion := None |})
    {| tpc_max := 1000; tpc_default := 15 |}
  = inr {| tq_filter := Some (TpAnd [TpLeaf TpoMatch "address" (TpjAtom (TpaStr "users:2:main"));
                                     TpNot (TpLeaf TpoLt "balance[USD]" (TpjAtom (TpaInt 0)));
                                     TpLeaf TpoIn "metadata[role]" (TpjList [TpaStr "user"; TpaStr "admin"])]);
           tq_pit := None; tq_oot := None; tq_expand := [];   (* the template's expand is gone: see C37_overwrite_fieldwise_refuted *)
           tq_opts := {| tpv_insertion := false; tpv_group := 0 |};
           tq_column := "first_usage"; tq_order := Some TpoDesc; tq_pagesize := 1000 |}.
Proof. vm_compute. reflexivity. Qed.

(* errors are reachable: a missing variable, an ill-typed call variable *)
Example C37_example_errors :
  tpl_resolve TpLogs (Some (TpLeaf TpoGte "date" (TpjAtom (TpaStr "${since}")))) [("since", {| tpd_type := TpDate; tpd_default := TpvNull |})] []
    = inl TpeMissingVariable /\
  tpl_resolve TpLogs (Some (TpLeaf TpoGte "date" (TpjAtom (TpaStr "${since}")))) [("since", {| tpd_type := TpDate; tpd_default := TpvNull |})]
    [("since", TpvStr "2023-02-30T00:00:00Z")] = inl TpeBadVarValue /\
  tpl_resolve TpLogs (Some (TpLeaf TpoGte "date" (TpjAtom (TpaStr "${since}")))) [("since", {| tpd_type := TpDate; tpd_default := TpvNull |})]
    [("since", TpvStr "2023-02-28T00:00:00.5+02:00")] = inr (Some (TpLeaf TpoGte "date" (TpjAtom (TpaStr "2023-02-28T00:00:00.5+02:00")))).
Proof. vm_compute. repeat split; reflexivity. Qed.
