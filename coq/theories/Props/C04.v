(* C04 — Effective volumes honour back-dated inserts.  Statements only; proofs in Ledger/EffProofs.v *)
From Coq Require Import List ZArith String Bool Lia.
From LV Require Import Base.Util Ledger.Types Ledger.Core Ledger.VolProofs Ledger.PcvProofs Ledger.Invariants Ledger.EffProofs.
Import ListNotations.
Open Scope Z_scope.

(* After ANY history (arbitrary past / equal / future effective timestamps, ties included) on a ledger with
   MOVES_HISTORY_POST_COMMIT_EFFECTIVE_VOLUMES = SYNC, every stored move carries, as post-commit effective volumes,
   the fold of all moves of the same account/asset whose (effective date, insertion seq) is at or before its own:
   effective-date order, not insertion order.  (eff_fold sums mdelta = (amount,0) for a destination move,
   (0,amount) for a source move.) *)
Theorem C04_effective_volumes : forall f h m, f_pcev f = true -> In m (s_moves (run f h)) ->
  m_pcev m = Some (eff_fold (s_moves (run f h)) m).
Proof. exact effective_volumes_are_fold. Qed.
Print Assumptions C04_effective_volumes.

(* The invariant is preserved by one multi-row INSERT INTO moves placed ANYWHERE in effective order: the BEFORE trigger
   (set_effective_volumes) computes the new rows, the AFTER trigger (update_effective_volumes) repairs every row that
   is effectively later *)
Theorem C04_insert_anywhere : forall ms seq txid ins eff ds ms2 newr seq',
  MInv ms seq -> insert_moves true ms seq txid ins eff ds = (ms2, newr, seq') ->
  (forall m, In m ms2 -> m_pcev m = Some (eff_fold ms2 m)) /\ NoDup (map m_seq ms2).
Proof.
  intros ms seq txid ins eff ds ms2 newr seq' HI H. destruct (insert_moves_inv _ _ _ _ _ _ _ _ _ HI H) as ([HP Hnd _] & _).
  split; [|exact Hnd]. intros m Hm. rewrite (HP m Hm). f_equal. apply wsum_nopend.
Qed.
Print Assumptions C04_insert_anywhere.

(* the moves of a transaction are its postings (source side then destination side, same account, asset, amount), so the
   fold over moves is the fold over postings the property speaks of *)
Theorem C04_moves_are_postings : forall pcv ps,
  map (fun d => (md_acc d, md_asset d, md_amt d, md_src d)) (moves_of pcv ps)
  = flat_map (fun p => [(p_src p, p_asset p, p_amt p, true); (p_dst p, p_asset p, p_amt p, false)]) ps.
Proof. exact moves_of_postings. Qed.
Print Assumptions C04_moves_are_postings.

(* non-vacuity: t1 at date 100, then a back-dated t0 at date 50, then t2 at date 200 on the same account: the effective
   volumes of alice are (10,0) at t0, (17,0) at t1 (repaired by the AFTER trigger), (18,0) at t2 *)
Local Open Scope string_scope.
Example C04_example :
  let f := {| f_moves := true; f_pcev := true; f_acc_hist := false; f_tx_hist := false; f_hash := false |} in
  let mk := fun amt ts => {| o_in := ICreate [{| p_src := "world"; p_dst := "alice"; p_asset := "USD"; p_amt := amt |}] (Some ts) "" [] [] false;
                             o_ik := ""; o_dry := false |} in
  let s := run f [(1000, mk 7 100); (1001, mk 10 50); (1002, mk 1 200)] in
  map (fun m => (m_tx m, m_pcev m)) (filter (fun m => String.eqb (m_acc m) "alice") (s_moves s))
  = [(1, Some (17, 0)); (2, Some (10, 0)); (3, Some (18, 0))].
Proof. vm_compute. reflexivity. Qed.
