(* C01 — Double-entry conservation per asset.  Statements only. *)
From Coq Require Import List ZArith String Bool Lia.
From LV Require Import Base.Util Ledger.Types Ledger.Core Ledger.VolProofs Ledger.Invariants Ledger.Reads Ledger.GroupProofs.
Import ListNotations.
Open Scope Z_scope.

(* After any history, under any feature set, for every asset: the inputs summed over all rows of accounts_volumes of
   that asset equal the outputs summed over the same rows (so balances, world included, sum to zero). *)
Theorem C01_conservation : forall f h c, total_in c (s_vols (run f h)) = total_out c (s_vols (run f h)).
Proof. intros f h c. apply conservation_of_inv; [exact (proj1 (run_inv f h)) | exact (run_invK f h)]. Qed.
Print Assumptions C01_conservation.

(* the same for any fold of postings (this is what point-in-time reads compute, see C05): over any duplicate-free
   set of keys covering the postings, inputs and outputs of an asset are both the total amount posted in it *)
Theorem C01_fold_conservation : forall c ps ks, NoDup ks ->
  (forall p, In p ps -> In (skey p) ks /\ In (dkey p) ks) ->
  zsum (map (fun k => on_asset c k (fst (fold_postings ps k))) ks) = zsum (map (fun k => on_asset c k (snd (fold_postings ps k))) ks).
Proof.
  intros c ps ks Hn Hc. rewrite sum_fold_in, sum_fold_out; try assumption; try reflexivity; intros p Hp; apply Hc; exact Hp.
Qed.
Print Assumptions C01_fold_conservation.

(* moves: every posting produces one source move and one destination move of its amount *)
Theorem C01_moves_pairs : forall pcv ps,
  map (fun d => (md_src d, md_amt d)) (moves_of pcv ps) = flat_map (fun p => [(true, p_amt p); (false, p_amt p)]) ps.
Proof.
  intros pcv ps. unfold moves_of.
  assert (G : forall cur l, map (fun d => (md_src d, md_amt d)) (unwind cur l) = flat_map (fun p => [(false, p_amt p); (true, p_amt p)]) l).
  { intros cur l; revert cur; induction l as [|p r IH]; intros cur; simpl; [reflexivity|]. rewrite IH. reflexivity. }
  rewrite map_rev, G. clear G. induction ps as [|p r IH]; [reflexivity|].
  simpl. rewrite flat_map_app, rev_app_distr, IH. simpl. reflexivity.
Qed.
Print Assumptions C01_moves_pairs.

(* grouped volume listings (GetVolumesWithBalances with groupBy = g, Reads.group_volumes): grouping keeps the total input and
   the total output of every asset, so after any history the grouped listing of the current volumes conserves every asset *)
Theorem C01_grouped_conservation : forall f h g c,
  total_in c (group_volumes g (s_vols (run f h))) = total_out c (group_volumes g (s_vols (run f h))).
Proof. exact grouped_conservation. Qed.
Print Assumptions C01_grouped_conservation.

Local Open Scope string_scope.
Example C01_example :
  let f := {| f_moves := true; f_pcev := true; f_acc_hist := false; f_tx_hist := false; f_hash := false |} in
  let p1 := {| p_src := "world"; p_dst := "alice"; p_asset := "USD"; p_amt := 100 |} in
  let p2 := {| p_src := "alice"; p_dst := "alice"; p_asset := "EUR"; p_amt := 0 |} in
  let h := [(10, {| o_in := ICreate [p1; p2] None "" [] [] true; o_ik := ""; o_dry := false |})] in
  total_in "USD" (s_vols (run f h)) = 100 /\ total_out "USD" (s_vols (run f h)) = 100 /\ List.length (s_vols (run f h)) = 3%nat.
Proof. vm_compute. repeat split; reflexivity. Qed.
Example C01_grouped_example :
  let f := {| f_moves := true; f_pcev := true; f_acc_hist := false; f_tx_hist := false; f_hash := false |} in
  let p1 := {| p_src := "world"; p_dst := "users:1"; p_asset := "USD"; p_amt := 100 |} in
  let p2 := {| p_src := "users:1"; p_dst := "users:2:main"; p_asset := "USD"; p_amt := 30 |} in
  let h := [(10, {| o_in := ICreate [p1; p2] None "" [] [] true; o_ik := ""; o_dry := false |})] in
  group_volumes 1 (s_vols (run f h)) = [(("world", "USD"), (0, 100)); (("users", "USD"), (130, 30))] /\
  total_in "USD" (group_volumes 1 (s_vols (run f h))) = 130 /\ total_out "USD" (group_volumes 1 (s_vols (run f h))) = 130.
Proof. vm_compute. repeat split; reflexivity. Qed.
