(* C13, concurrent part — N requests sharing an idempotency key.  Statements only (model Ledger/Conc.v). *)
From Coq Require Import List ZArith String Bool Lia.
From LV Require Import Ledger.Conc Ledger.ConcProofs.
Import ListNotations.
Open Scope Z_scope.
Local Open Scope string_scope.

(* at most one committed log per idempotency key, for ALL schedules and any number of requests: the unique index
   (ledger, idempotency_key) lets an INSERT in only when no live row carries the key; an inserter that finds an in-flight row
   waits for its transaction to finish and then either conflicts or goes in.  Invariant: ConcProofs.log_ok (lg_keys). *)
Theorem C13_conc_at_most_one_log : forall hash prefix writers sched,
  NoDup (filter nonempty (map l_ik (committed_logs (sched_outcome hash prefix writers sched)))).
Proof. intros. apply unique_keys_committed. apply outcome_log_inv. Qed.
Print Assumptions C13_conc_at_most_one_log.
Theorem C13_conc_at_most_one_log_from : forall g sched, log_inv g -> NoDup (filter nonempty (map l_ik (committed_logs (run g sched)))).
Proof. intros. apply unique_keys_committed. apply log_inv_all_schedules; auto. Qed.
Print Assumptions C13_conc_at_most_one_log_from.

(* OUTCOMES.  Statement: every caller gets the original result flagged as a hit or a retryable / conflict error, never a
   business error contradicting the committed outcome.  On the code as found it was refuted (known finding
   KF-C13-loser-business-error, fixed): a request that missed the key in its lookup and then waited for the winner's row lock
   read the state the winner left and returned "insufficient funds" / "already reverted".  The repaired forgeLog /
   forgeLogRetry (errorOrIKOutcome) look the key up once more before returning any error of a request that carries a key;
   Ledger/Conc.v follows the repaired code (do_rollback -> PFetch -> do_fetch).  Proved for every state, hence under every
   schedule: *)
Definition spend_k (i : Z) : cop :=
  {| o_kind := KCreate; o_mode := MPlain; o_src := "alice"; o_dst := "bob"; o_asset := "USD"; o_amt := 100; o_allow := 0;
     o_ref := ""; o_ik := "k"; o_inh := i; o_tx := 0 |}.
Definition fund_alice : cop :=
  {| o_kind := KCreate; o_mode := MPlain; o_src := "world"; o_dst := "alice"; o_asset := "USD"; o_amt := 100; o_allow := 0;
     o_ref := ""; o_ik := ""; o_inh := 0; o_tx := 0 |}.

Definition business (e : cerr) : bool :=
  match e with EInsufficient | ERefConflict | EAlreadyReverted | ENotFound => true | _ => false end.

(* (1) a request with a key never returns a business error straight from its rolled-back transaction: it goes to the lookup *)
Theorem C13_conc_error_goes_to_lookup : forall g w s e,
  get_w g w = Some s -> w_pc s = PRollback -> w_err s = Some e -> business e = true -> o_ik (w_op s) <> "" ->
  option_map w_pc (get_w (step g w) w) = Some PFetch /\ option_map w_res (get_w (step g w) w) = Some (w_res s).
Proof.
  intros g w s e Hs Hpc He Hb Hik. unfold step. rewrite Hs, Hpc. unfold do_rollback. rewrite He.
  assert (Hk : String.eqb (o_ik (w_op s)) "" = false) by (apply String.eqb_neq; auto).
  unfold get_w in *.
  destruct e; try discriminate; rewrite Hk; simpl; rewrite nth_upd_same, nth_clear, Hs; simpl; (split; [reflexivity|]); destruct (owner_is _ _); reflexivity.
Qed.
Print Assumptions C13_conc_error_goes_to_lookup.

(* (2) the lookup answers with the committed log of the key when there is one with the same input: an idempotency hit *)
Theorem C13_conc_lookup_returns_original : forall g w s l,
  get_w g w = Some s -> w_pc s = PFetch -> find_ik g (o_ik (w_op s)) = Some l -> l_inh l = o_inh (w_op s) ->
  option_map w_res (get_w (step g w) w) = Some (ROk (l_id l) (l_tx l) true).
Proof.
  intros g w s l Hs Hpc Hf Hi. unfold step. rewrite Hs, Hpc. unfold do_fetch. rewrite Hf.
  apply Z.eqb_eq in Hi. rewrite Hi. unfold get_w in *. simpl. rewrite nth_upd_same, Hs. reflexivity.
Qed.
Print Assumptions C13_conc_lookup_returns_original.

(* the schedule that used to make writer 0 answer "insufficient funds" now makes it answer with writer 1's log as a hit *)
Example C13c_example :
  let g := sched_outcome true [fund_alice] [spend_k 0; spend_k 0] [0; 1; 1; 1; 1; 1; 1; 1; 0; 0; 0]%nat in
  results g = [ROk 2 2 true; ROk 2 2 false] /\ map l_ik (committed_logs g) = [""; "k"] /\
  g_ev g = [(0, LIk, SDone); (1, LIk, SDone); (1, LBal, SDone); (1, LVol, SDone); (1, LTx, SDone); (1, LAdv, SDone); (1, LLog, SDone);
            (1, LCommit, SDone); (0, LBal, SDone); (0, LRollback, SDone); (0, LIk, SDone)]%nat.
Proof. vm_compute. repeat split; reflexivity. Qed.
