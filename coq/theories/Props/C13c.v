(* C13, concurrent part — N requests sharing an idempotency key.  Statements only (model Ledger/Conc.v). *)
From Coq Require Import List ZArith String Bool Lia.
From LV Require Import Ledger.Conc Ledger.ConcProofs.
Import ListNotations.
Open Scope Z_scope.
Local Open Scope string_scope.

(* at most one committed log per idempotency key, for ALL schedules and any number of requests: the unique index
   (ledger, idempotency_key) lets an INSERT in only when no live row carries the key; an inserter that finds an in-flight row
   waits for its transaction to finish and then either conflicts or goes in.  Invariant: ConcProofs.log_ok (lg_keys). *)
Theorem C13_conc_at_most_one_log : forall hash prefix writers sched,
  NoDup (filter nonempty (map l_ik (committed_logs (sched_outcome hash prefix writers sched)))).
Proof. intros. apply unique_keys_committed. apply outcome_log_inv. Qed.
Print Assumptions C13_conc_at_most_one_log.
Theorem C13_conc_at_most_one_log_from : forall g sched, log_inv g -> NoDup (filter nonempty (map l_ik (committed_logs (run g sched)))).
Proof. intros. apply unique_keys_committed. apply log_inv_all_schedules; auto. Qed.
Print Assumptions C13_conc_at_most_one_log_from.

(* FULL STATEMENT (outcomes): under every schedule every caller gets the original result flagged as a hit or a
   retryable / conflict error, never a business error contradicting the committed outcome.  Refuted: a request that
   missed the key in its lookup and then waits for the winner's row lock reads the balance the winner left and returns
   "insufficient funds" (forgeLog only retries on deadlock / key conflict). *)
Definition spend_k (i : Z) : cop :=
  {| o_kind := KCreate; o_mode := MPlain; o_src := "alice"; o_dst := "bob"; o_asset := "USD"; o_amt := 100; o_allow := 0;
     o_ref := ""; o_ik := "k"; o_inh := i; o_tx := 0 |}.
Definition fund_alice : cop :=
  {| o_kind := KCreate; o_mode := MPlain; o_src := "world"; o_dst := "alice"; o_asset := "USD"; o_amt := 100; o_allow := 0;
     o_ref := ""; o_ik := ""; o_inh := 0; o_tx := 0 |}.

Theorem C13_conc_refuted :
  exists hash prefix writers sched w,
    let g := sched_outcome hash prefix writers sched in
    nth_error (results g) w = Some (RErr EInsufficient) /\
    (exists l, In l (committed_logs g) /\ l_ik l = "k" /\ option_map (fun s => o_ik (w_op s)) (nth_error (g_ws g) w) = Some "k"
               /\ option_map (fun s => o_inh (w_op s)) (nth_error (g_ws g) w) = Some (l_inh l)).
Proof.
  exists true, [fund_alice], [spend_k 0; spend_k 0], [0; 1; 1; 1; 1; 1; 1; 1; 0; 0]%nat, 0%nat.
  vm_compute. split; [reflexivity|]. eexists. split; [right; left; reflexivity|]. repeat split; reflexivity.
Qed.
Print Assumptions C13_conc_refuted.

Example C13c_example :
  let g := sched_outcome true [fund_alice] [spend_k 0; spend_k 0] [0; 1; 1; 1; 1; 1; 1; 1; 0; 0]%nat in
  results g = [RErr EInsufficient; ROk 2 2 false] /\ map l_ik (committed_logs g) = [""; "k"].
Proof. vm_compute. split; reflexivity. Qed.
