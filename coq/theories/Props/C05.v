(* C05 — Point-in-time and window reads equal the history fold.  Statements only; proofs in Ledger/ReadProofs.v.
   Read-side model: Ledger/Reads.v (mirrors of the resource handlers).  postings_in s w = the postings of the stored
   transactions whose (effective | insertion) date lies in the window w = [oot, pit] (bounds included). *)
From Coq Require Import List ZArith String Bool Lia.
From LV Require Import Base.Util Ledger.Types Ledger.Core Ledger.VolProofs Ledger.PcvProofs Ledger.Invariants Ledger.EffProofs Ledger.Reads Ledger.ReadProofs Ledger.InsPitProofs Ledger.GroupProofs.
From LV Require Ledger.Filter.
Import ListNotations.
Open Scope Z_scope.

(* (1) volumes with a point in time and/or a start time, in either date mode: every returned row is the fold of the
   postings whose date falls in the window; boundary instants belong to the window *)
Theorem C05_window_volumes : forall f h w v k, f_moves f = true ->
  (w_pit w <> None \/ w_oot w <> None) -> read_volumes f (run f h) w = Some v ->
  vget v k = fold_postings (postings_in (run f h) w) k.
Proof.
  intros f h w v k Fm Hw H. unfold read_volumes in H. rewrite Fm in H.
  destruct (w_pit w) as [p|] eqn:P; destruct (w_oot w) as [o|] eqn:O; try (destruct Hw as [Hw|Hw]; contradiction Hw; reflexivity);
    inversion H; subst v; apply window_volumes_are_fold; apply run_mt; exact Fm.
Qed.
Print Assumptions C05_window_volumes.

(* (2) without a window the read returns the rows of accounts_volumes (which C02 shows to be the fold of all postings);
   with a window but without MOVES_HISTORY it is rejected *)
Theorem C05_no_window_is_current : forall f s ins, read_volumes f s {| w_pit := None; w_oot := None; w_ins := ins |} = Some (s_vols s).
Proof. reflexivity. Qed.
Theorem C05_window_needs_moves : forall f s w, f_moves f = false -> (w_pit w <> None \/ w_oot w <> None) -> read_volumes f s w = None.
Proof.
  intros f s w Fm Hw. unfold read_volumes. rewrite Fm.
  destruct (w_pit w), (w_oot w); try reflexivity. destruct Hw as [Hw|Hw]; contradiction Hw; reflexivity.
Qed.
Print Assumptions C05_window_needs_moves.

(* (3) effective point-in-time volumes (what aggregated balances and the accounts' effectiveVolumes expand read: first_value of
   post_commit_effective_volumes over (effective_date desc, seq desc)) = the fold of the postings effective at or before t;
   this rests on C04 (the stored effective volumes honour back-dated inserts) *)
Theorem C05_effective_point_in_time : forall f h p k, f_moves f = true -> f_pcev f = true ->
  vget (volumes_at (run f h) p false) k = fold_postings (postings_in (run f h) {| w_pit := Some p; w_oot := None; w_ins := false |}) k.
Proof. exact effective_pit_is_fold. Qed.
Print Assumptions C05_effective_point_in_time.

(* (3') insertion-date point-in-time volumes (what aggregated balances with useInsertionDate and the accounts' volumes expand
   read: first_value of post_commit_volumes over (seq desc) among the moves inserted at or before t) = the fold of the
   postings inserted at or before t, for every history whose clock never goes backwards ([mono]: each operation runs at a
   time >= the previous one); this rests on C03 (post-commit volumes are the forward running volumes) *)
Theorem C05_insertion_point_in_time : forall f h T0 p k, f_moves f = true -> mono T0 h ->
  vget (volumes_at (run f h) p true) k = fold_postings (postings_in (run f h) {| w_pit := Some p; w_oot := None; w_ins := true |}) k.
Proof. exact insertion_pit_is_fold. Qed.
Print Assumptions C05_insertion_point_in_time.

(* (4) accounts are listed at t iff first used at or before t *)
Theorem C05_accounts_listed_iff : forall f s p a,
  In a (map ar_addr (read_accounts f s (Some p))) <-> exists x, In x (s_accounts s) /\ a_addr x = a /\ a_first x <= p.
Proof.
  intros f s p a. unfold read_accounts. rewrite map_map. cbn [ar_addr]. rewrite in_map_iff. split.
  - intros (x & E & Hx). apply filter_In in Hx. destruct Hx as [Hx Hp]. exists x. cbn [le_opt] in Hp. repeat split; [exact Hx | exact E | lia].
  - intros (x & Hx & E & Hp). exists x. split; [exact E|]. apply filter_In. split; [exact Hx | cbn [le_opt]; lia].
Qed.
Print Assumptions C05_accounts_listed_iff.

(* (5) transactions are listed at t iff their timestamp is at or before t, flagged reverted iff reverted at or before t *)
Theorem C05_transactions_listed_iff : forall f s p id rv,
  In (id, rv) (map (fun r => (tr_id r, tr_rev r)) (read_transactions f s (Some p))) <->
  exists t, In t (s_txs s) /\ t_id t = id /\ t_ts t <= p /\
            rv = match t_rev t with Some r => if r <=? p then Some r else None | None => None end.
Proof.
  intros f s p id rv. unfold read_transactions. rewrite map_map. cbn [tr_id tr_rev]. rewrite in_map_iff. split.
  - intros (t & E & Ht). apply filter_In in Ht. destruct Ht as [Ht Hp]. cbn [le_opt] in Hp. inversion E; subst. exists t. repeat split; [exact Ht | lia].
  - intros (t & Ht & E1 & Hp & E2). exists t. split; [subst; reflexivity|]. apply filter_In. split; [exact Ht | cbn [le_opt]; lia].
Qed.
Print Assumptions C05_transactions_listed_iff.

(* (6) GROUPED volumes (GetVolumesWithBalances with groupBy = g; g = 0: no grouping).  [truncate_addr g a] = the first g
   ':'-separated segments of a ([Filter.segs] = strings.Split(a, ":")); [group_volumes g] = Project of resource_volumes.go.
   For every duplicate-free listing (every listing read_volumes returns is, (6c)): the grouped row of (prefix, asset) is the
   componentwise sum of the rows of the accounts whose truncated address is that prefix ... *)
Theorem C05_grouped_volumes_sum : forall g v p c, NoDup (map fst v) ->
  vget (group_volumes g v) (p, c) = vsum (map snd (filter (fun kv => key_eqb (truncate_addr g (fst (fst kv)), snd (fst kv)) (p, c)) v)).
Proof. exact group_volumes_vget. Qed.
Print Assumptions C05_grouped_volumes_sum.

(* (6b) ... the grouped listing has exactly the truncated keys, each once (no row is lost, none invented, none repeated) ... *)
Theorem C05_grouped_volumes_keys : forall g v, NoDup (map fst v) ->
  NoDup (map fst (group_volumes g v)) /\
  forall k, In k (map fst (group_volumes g v)) <-> exists a c, In (a, c) (map fst v) /\ k = (truncate_addr g a, c).
Proof. intros g v Hn. split; [apply group_volumes_nodup; exact Hn | intros k; apply group_volumes_keys]. Qed.
Print Assumptions C05_grouped_volumes_keys.

(* (6c) ... over histories: after any history, for any window and date mode, the grouped read is the grouping of the
   ungrouped read of the same query, whose rows are the folds of (1) / C02 and are pairwise distinct; hence the sum formula *)
Theorem C05_grouped_volumes_history : forall f h w g u, read_volumes f (run f h) w = Some u ->
  read_volumes_grouped f (run f h) w g = Some (group_volumes g u) /\ NoDup (map fst u) /\
  forall p c, vget (group_volumes g u) (p, c)
              = vsum (map snd (filter (fun kv => key_eqb (truncate_addr g (fst (fst kv)), snd (fst kv)) (p, c)) u)).
Proof.
  intros f h w g u Hu. pose proof (read_volumes_nodup f h w u Hu) as Hn. split; [|split].
  - unfold read_volumes_grouped. rewrite Hu. reflexivity.
  - exact Hn.
  - intros p c. apply group_volumes_vget. exact Hn.
Qed.
Print Assumptions C05_grouped_volumes_history.

(* (6d) grouping keeps the total input and the total output of every asset (so C01 carries over to grouped listings) *)
Theorem C05_grouped_totals_preserved : forall g c v,
  total_in c (group_volumes g v) = total_in c v /\ total_out c (group_volumes g v) = total_out c v.
Proof. exact group_volumes_totals. Qed.
Print Assumptions C05_grouped_totals_preserved.

(* (6e) the truncation: an address of at most g segments is its own group, a group address has at most g segments and
   grouping it again changes nothing; g = 0 is the identity *)
Theorem C05_truncate_addr : forall g a,
  truncate_addr 0 a = a /\
  ((List.length (Filter.segs a) <= g)%nat -> truncate_addr g a = a) /\
  Filter.segs (truncate_addr (S g) a) = firstn (S g) (Filter.segs a) /\
  truncate_addr g (truncate_addr g a) = truncate_addr g a.
Proof.
  intros g a. split; [reflexivity|]. split; [apply truncate_addr_short|]. split; [apply segs_truncate | apply truncate_addr_idem].
Qed.
Print Assumptions C05_truncate_addr.

Local Open Scope string_scope.
(* non-vacuity: t1 dated 100 (inserted at 1000), t2 back-dated 50 (inserted 1001), t3 dated 200 (inserted 1002) *)
Example C05_example :
  let f := {| f_moves := true; f_pcev := true; f_acc_hist := false; f_tx_hist := false; f_hash := false |} in
  let mk := fun amt ts => {| o_in := ICreate [{| p_src := "world"; p_dst := "alice"; p_asset := "USD"; p_amt := amt |}] (Some ts) "" [] [] false;
                             o_ik := ""; o_dry := false |} in
  let s := run f [(1000, mk 7 100); (1001, mk 10 50); (1002, mk 1 200)] in
  read_volumes f s {| w_pit := Some 100; w_oot := Some 60; w_ins := false |} = Some [(("world", "USD"), (0, 7)); (("alice", "USD"), (7, 0))] /\
  read_volumes f s {| w_pit := Some 1001; w_oot := None; w_ins := true |} = Some [(("world", "USD"), (0, 17)); (("alice", "USD"), (17, 0))] /\
  vget (volumes_at s 100 false) ("alice", "USD") = (17, 0) /\ vget (volumes_at s 1000 true) ("alice", "USD") = (7, 0) /\
  map ar_addr (read_accounts f s (Some 49)) = [] /\ map tr_id (read_transactions f s (Some 100)) = [1; 2].
Proof. vm_compute. repeat split; reflexivity. Qed.

(* grouped volumes on a non-trivial listing: users:1 and users:2:main / users:2:sav merge at level 1, the two users:2:* at
   level 2, nothing at level 3; totals are kept *)
Example C05_grouped_example :
  let v := [(("users:1", "USD"), (5, 1)); (("users:2:main", "USD"), (7, 0)); (("bank", "USD"), (0, 11)); (("users:2:sav", "USD"), (1, 2)); (("users:1", "EUR"), (2, 2))] in
  group_volumes 1 v = [(("users", "USD"), (13, 3)); (("bank", "USD"), (0, 11)); (("users", "EUR"), (2, 2))] /\
  group_volumes 2 v = [(("users:1", "USD"), (5, 1)); (("users:2", "USD"), (8, 2)); (("bank", "USD"), (0, 11)); (("users:1", "EUR"), (2, 2))] /\
  group_volumes 3 v = v /\ group_volumes 0 v = v /\
  truncate_addr 2 "users:2:main" = "users:2" /\ truncate_addr 5 "a:b" = "a:b" /\ truncate_addr 1 "" = "" /\
  total_in "USD" (group_volumes 1 v) = 13 /\ total_out "USD" v = 14.
Proof. vm_compute. repeat split; reflexivity. Qed.
