(* C02 — Account volumes equal the fold of committed postings.  Statements only. *)
From Coq Require Import List ZArith String Bool Lia.
From LV Require Import Base.Util Ledger.Types Ledger.Core Ledger.VolProofs Ledger.Invariants.
Import ListNotations.
Open Scope Z_scope.

(* For every feature set, every history of operations (any length, any amounts) and every account/asset:
   the accounts_volumes row (what GetAccount/ListAccounts expand volumes, GetVolumesWithBalances and GetBalances read)
   holds exactly Σ credits as input and Σ debits as output over the postings of the stored transactions
   (revert transactions are stored transactions); a missing row reads as (0,0). *)
Theorem C02_volumes_are_fold : forall f h k,
  vget (s_vols (run f h)) k = fold_postings (all_postings (run f h)) k.
Proof. intros f h k. exact (inv_vols _ (proj1 (run_inv f h)) k). Qed.
Print Assumptions C02_volumes_are_fold.

(* the fold, spelled out: input = Σ amounts of postings crediting (account, asset), output = Σ debiting it *)
Theorem C02_fold_meaning : forall ps a c,
  fold_postings ps (a, c) =
  (zsum (map (fun p => if String.eqb (p_dst p) a && String.eqb (p_asset p) c then p_amt p else 0) ps),
   zsum (map (fun p => if String.eqb (p_src p) a && String.eqb (p_asset p) c then p_amt p else 0) ps)).
Proof.
  intros ps a c. induction ps as [|p r IH]; [reflexivity|].
  cbn [fold_postings map]. rewrite IH.
  change (zsum (?x :: ?l)) with (x + zsum l).
  set (zi := zsum (map _ r)). set (zo := zsum (map _ r)).
  unfold posting_delta, key_eqb, pair_eqb, skey, dkey, vplus; simpl.
  destruct (String.eqb (p_src p) a), (String.eqb (p_dst p) a), (String.eqb (p_asset p) c); simpl; f_equal; lia.
Qed.
Print Assumptions C02_fold_meaning.

Theorem C02_balance : forall m k, balance m k = fst (vget m k) - snd (vget m k).
Proof. reflexivity. Qed.

(* failed and dry-run writes contribute nothing: they leave every table unchanged *)
Theorem C02_failed_noop : forall f now s o s' e, step f now s o = SR s' (RErr e) -> s_vols s' = s_vols s /\ s_txs s' = s_txs s.
Proof. intros f now s o s' e H. apply step_error_no_trace in H. unfold tables in H. inversion H. split; reflexivity. Qed.
Print Assumptions C02_failed_noop.

Theorem C02_dry_noop : forall f now s o s' r, o_dry o = true -> step f now s o = SR s' r -> s_vols s' = s_vols s /\ s_txs s' = s_txs s.
Proof. intros f now s o s' r Hd H. apply (step_dry_no_trace f now s o s' r Hd) in H. unfold tables in H. inversion H. split; reflexivity. Qed.
Print Assumptions C02_dry_noop.

Local Open Scope string_scope.
(* non-vacuity: a two-operation history with a repeated account, an amount above 2^64 and a revert *)
Example C02_example :
  let f := {| f_moves := true; f_pcev := true; f_acc_hist := true; f_tx_hist := true; f_hash := true |} in
  let p1 := {| p_src := "world"; p_dst := "alice"; p_asset := "USD"; p_amt := 18446744073709551617 |} in
  let p2 := {| p_src := "alice"; p_dst := "bob"; p_asset := "USD"; p_amt := 7 |} in
  let h := [(10, {| o_in := ICreate [p1; p2] None "" [] [] false; o_ik := ""; o_dry := false |});
            (20, {| o_in := IRevert 1 false false []; o_ik := ""; o_dry := false |})] in
  vget (s_vols (run f h)) ("alice", "USD") = (18446744073709551617 + 7, 7 + 18446744073709551617)
  /\ List.length (s_txs (run f h)) = 2%nat.
Proof. vm_compute. split; reflexivity. Qed.
