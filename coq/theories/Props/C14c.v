(* C14, concurrent part — racing creates sharing a reference.  Statements only (model Ledger/Conc.v).
   Proved for all schedules here: the ids part (C16c).  The at-most-one-winner statement
     forall hash prefix writers sched, NoDup (nonempty references of committed_txs (sched_outcome hash prefix writers sched))
   is checked by exhaustive schedule exploration against the real stack (TIE-S) and evaluated on the model below; its
   all-schedules proof (unique-index wait rule: an INSERT publishes its row only when no live row carries the reference)
   is not done. *)
From Coq Require Import List ZArith String Bool Lia.
From LV Require Import Ledger.Conc Ledger.ConcProofs.
Import ListNotations.
Open Scope Z_scope.
Local Open Scope string_scope.

Definition with_ref (src : string) (i : Z) : cop :=
  {| o_kind := KCreate; o_mode := MForce; o_src := src; o_dst := src; o_asset := "USD"; o_amt := 10; o_allow := 0;
     o_ref := "r"; o_ik := ""; o_inh := i; o_tx := 0 |}.

(* the loser waits on the unique index for the in-flight winner, then gets the reference conflict; if the winner is still
   waiting when it aborts, the loser wins *)
Example C14_conc_example :
  let g := sched_outcome true [] [with_ref "alice" 0; with_ref "carol" 1] [0; 0; 1; 1; 0; 0; 0; 1; 1]%nat in
  results g = [ROk 1 1 false; RErr ERefConflict] /\ map t_ref (committed_txs g) = ["r"] /\
  g_ev g = [(0, LVol, SDone); (0, LTx, SDone); (1, LVol, SDone); (1, LTx, SBlocked); (0, LAdv, SDone); (0, LLog, SDone);
            (0, LCommit, SDone); (1, LTx, SDone); (1, LRollback, SDone)]%nat.
Proof. vm_compute. repeat split; reflexivity. Qed.

(* ids of the racers are distinct whatever the schedule *)
Theorem C14_conc_ids_unique : forall hash prefix writers sched,
  NoDup (map t_id (g_txs (sched_outcome hash prefix writers sched))).
Proof.
  intros. assert (H : ids_inv (sched_outcome hash prefix writers sched)).
  { apply ids_unique_all_schedules. apply ids_inv_reseat. apply ids_unique_all_schedules. apply ids_inv_init. }
  destruct H as [[A _] _]. exact A.
Qed.
Print Assumptions C14_conc_ids_unique.
