(* C14, concurrent part — racing creates sharing a reference.  Statements only (model Ledger/Conc.v).
   Proved for ALL schedules (induction over the schedule, ConcProofs.tx_ok): the unique-index wait rule -- an INSERT publishes
   its row only when no live row carries the reference; it waits for an in-flight one -- keeps non-empty references unique. *)
From Coq Require Import List ZArith String Bool Lia.
From LV Require Import Ledger.Conc Ledger.ConcProofs.
Import ListNotations.
Open Scope Z_scope.
Local Open Scope string_scope.

Definition with_ref (src : string) (i : Z) : cop :=
  {| o_kind := KCreate; o_mode := MForce; o_src := src; o_dst := src; o_asset := "USD"; o_amt := 10; o_allow := 0;
     o_ref := "r"; o_ik := ""; o_inh := i; o_tx := 0 |}.

(* the loser waits on the unique index for the in-flight winner, then gets the reference conflict; if the winner is still
   waiting when it aborts, the loser wins *)
Example C14_conc_example :
  let g := sched_outcome true [] [with_ref "alice" 0; with_ref "carol" 1] [0; 0; 1; 1; 0; 0; 0; 1; 1]%nat in
  results g = [ROk 1 1 false; RErr ERefConflict] /\ map t_ref (committed_txs g) = ["r"] /\
  g_ev g = [(0, LVol, SDone); (0, LTx, SDone); (1, LVol, SDone); (1, LTx, SBlocked); (0, LAdv, SDone); (0, LLog, SDone);
            (0, LCommit, SDone); (1, LTx, SDone); (1, LRollback, SDone)]%nat.
Proof. vm_compute. repeat split; reflexivity. Qed.

(* at most one committed transaction per non-empty reference, for ALL schedules and any number of racers *)
Theorem C14_conc_unique : forall hash prefix writers sched,
  NoDup (filter nonempty (map t_ref (committed_txs (sched_outcome hash prefix writers sched)))).
Proof. intros. apply unique_refs_committed. apply outcome_tx_inv. Qed.
Print Assumptions C14_conc_unique.
Theorem C14_conc_unique_from : forall g sched, tx_inv g -> NoDup (filter nonempty (map t_ref (committed_txs (run g sched)))).
Proof. intros. apply unique_refs_committed. apply tx_inv_all_schedules; auto. Qed.
Print Assumptions C14_conc_unique_from.

(* ids of the racers are distinct whatever the schedule *)
Theorem C14_conc_ids_unique : forall hash prefix writers sched,
  NoDup (map t_id (g_txs (sched_outcome hash prefix writers sched))).
Proof.
  intros. apply (tx_ids _ _ _ (outcome_tx_inv hash prefix writers sched)).
Qed.
Print Assumptions C14_conc_ids_unique.
