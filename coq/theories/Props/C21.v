(* C21 — Cursor pagination enumerates each result exactly once, in order.
   Statements only; proofs live in Ledger/PageProofs.v.  Model: Ledger/Page.v
   (paginator_column.go: Paginate + BuildCursor, paginator_offset.go, resource.go:Paginate).
   No bound on the number of rows, the keys or the page size; the fuel of the iteration only has to
   exceed the number of rows, and running out of fuel (or the Go panic) is excluded by the statement
   ([walk_next] returns [Some]). *)
From Coq Require Import List ZArith Bool Lia Sorting.Sorted Sorting.Permutation.
From LV Require Import Ledger.Page Ledger.PageProofs.
From LV Require Ledger.Types Ledger.Core Ledger.Reads Ledger.GroupProofs.   (* qualified: the volumes read model *)
Import ListNotations.
Open Scope Z_scope.

(* what "the full list sorted in the requested order, each element exactly once" means *)
Theorem C21_listing_is_sorted_permutation : forall ks asc, NoDup ks ->
  Permutation ks (sort_keys asc ks) /\
  StronglySorted (fun a b => if asc then a < b else b < a) (sort_keys asc ks).
Proof.
  intros ks asc Hnd. pose proof (sort_SS asc ks Hnd) as HS. split.
  - apply NoDup_Permutation; [assumption|apply (SS_NoDup asc); assumption|]. intros x. symmetry. apply sort_In.
  - unfold SS in HS. induction HS as [|a l Hl IH Hf]; constructor; [assumption|].
    eapply Forall_impl; [|exact Hf]. intros b Hb. unfold dlt in Hb. destruct asc; apply Z.ltb_lt; assumption.
Qed.
Print Assumptions C21_listing_is_sorted_permutation.

(* ---------------------------------------------------------------- column paginator (ids, dates) *)
(* following next from the first page: the concatenation of the pages is the sorted listing; every
   page holds at most [size] rows and every page after the first is non-empty *)
Theorem C21_next_enumerates : forall ks size asc fuel,
  NoDup ks -> (1 <= size)%nat -> (length ks < fuel)%nat ->
  exists pages, walk_next fuel ks (init_query size asc) = Some pages /\
    concat (map p_data pages) = sort_keys asc ks /\
    Forall (fun p => (length (p_data p) <= size)%nat) pages /\
    Forall (fun p => p_data p <> []) (tl pages).
Proof.
  intros ks size asc fuel Hnd Hs Hf.
  destruct (walk_init ks size asc Hnd Hs fuel Hf) as (p0 & r & Hw & Hc & _ & _ & _ & Hl & Hfa).
  exists (p0 :: r). split; [assumption|]. split; [assumption|]. split.
  - constructor; [assumption|]. eapply Forall_impl; [|exact Hfa]. intros p Hp; apply Hp.
  - simpl. eapply Forall_impl; [|exact Hfa]. intros p Hp; apply Hp.
Qed.
Print Assumptions C21_next_enumerates.

(* the first page has no previous cursor; the previous cursor of page k+1 exists and the page behind
   it carries exactly the data of page k (and reports more, with a next cursor) *)
Theorem C21_previous_is_page_before : forall ks size asc fuel pages,
  NoDup ks -> (1 <= size)%nat -> (length ks < fuel)%nat ->
  walk_next fuel ks (init_query size asc) = Some pages ->
  (forall p0, nth_error pages 0 = Some p0 -> p_prev p0 = None) /\
  (forall k pk pk1, nth_error pages k = Some pk -> nth_error pages (S k) = Some pk1 ->
     exists qp pp, p_prev pk1 = Some qp /\ page ks qp = Some pp /\ p_data pp = p_data pk /\
                   p_has_more pp = true /\ p_next pp <> None).
Proof.
  intros ks size asc fuel pages Hnd Hs Hf Hw.
  destruct (walk_init ks size asc Hnd Hs fuel Hf) as (p0 & r & Hw' & _ & Hp0 & Hch & _).
  rewrite Hw' in Hw. injection Hw as <-. split.
  - intros p Hp. simpl in Hp. injection Hp as <-. assumption.
  - intros k pk pk1 Hk Hk1. destruct k as [|k'].
    + simpl in Hk. injection Hk as <-. simpl in Hk1. destruct r as [|p1 r']; [discriminate|].
      simpl in Hk1. injection Hk1 as <-. destruct Hch as [H _]. exact H.
    + simpl in Hk, Hk1. eapply chain_nth; eassumption.
Qed.
Print Assumptions C21_previous_is_page_before.

(* following previous repeatedly from page k+1 visits pages k, k-1, ..., 1 and stops there *)
Theorem C21_previous_walks_back : forall ks size asc fuel pages k pk,
  NoDup ks -> (1 <= size)%nat -> (length ks < fuel)%nat ->
  walk_next fuel ks (init_query size asc) = Some pages -> nth_error pages k = Some pk ->
  exists back, walk_prev (S k) ks pk = Some back /\ map p_data back = rev (map p_data (firstn k pages)).
Proof.
  intros ks size asc fuel pages k pk Hnd Hs Hf Hw Hk.
  pose proof (walk_init_back ks size asc Hnd Hs fuel pages Hw) as Hb.
  destruct (back_ok_nth ks size Hs pages [] k pk Hb Hk (S k)) as (back & Hwp & Hm); [simpl; lia|].
  exists back. split; assumption.
Qed.
Print Assumptions C21_previous_walks_back.

(* HasMore of a page reached by next  <=>  there are rows after the page *)
Theorem C21_has_more_iff : forall ks size asc fuel pages k p,
  NoDup ks -> (1 <= size)%nat -> (length ks < fuel)%nat ->
  walk_next fuel ks (init_query size asc) = Some pages -> nth_error pages k = Some p ->
  (p_has_more p = true <-> concat (map p_data (skipn (S k) pages)) <> []).
Proof.
  intros ks size asc fuel pages k p Hnd Hs Hf Hw Hk.
  destruct (walk_init ks size asc Hnd Hs fuel Hf) as (p0 & r & Hw' & _ & _ & _ & Hmo & _ & Hfa).
  rewrite Hw' in Hw. injection Hw as <-.
  apply more_ok_nth; try assumption. simpl. eapply Forall_impl; [|exact Hfa]. intros q Hq; apply Hq.
Qed.
Print Assumptions C21_has_more_iff.

(* ---------------------------------------------------------------- offset paginator (addresses) *)
(* FULL STATEMENT (false of the code):
     forall ks size asc fuel, (1 <= size) -> (length ks < fuel) ->
       exists pages, owalk_next fuel ks (oinit size asc) = Some pages /\ concat (map op_data pages) = sort_keys asc ks.
   OffsetPaginator.Paginate refuses any offset above math.MaxInt32, so a listing by a non-numeric column
   (accounts, volumes: address) with more than MaxInt32 + pageSize rows cannot be walked to its end.
   The witness cannot be a vm_compute on a concrete list (2^31 elements); the refutation is proved
   for every such list instead. *)
Theorem C21_offset_next_enumerates_refuted : forall ks size asc fuel,
  (1 <= size)%nat -> Z.of_nat (length ks) > 2147483647 + Z.of_nat size ->
  owalk_next fuel ks (oinit size asc) = None.
Proof.
  intros ks size asc fuel Hs Hbig. change (oinit size asc) with (oq size asc 0).
  apply owalk_beyond_limit; assumption.
Qed.
Print Assumptions C21_offset_next_enumerates_refuted.

Theorem C21_offset_next_enumerates_partial : forall ks size asc fuel,
  (1 <= size)%nat -> Z.of_nat (length ks) <= 2147483648 -> (length ks < fuel)%nat ->
  exists pages, owalk_next fuel ks (oinit size asc) = Some pages /\
    concat (map op_data pages) = sort_keys asc ks /\
    Forall (fun p => (length (op_data p) <= size)%nat) pages /\
    Forall (fun p => op_data p <> []) (tl pages).
Proof.
  intros ks size asc fuel Hs Hlim Hf.
  destruct (owalk_init ks size asc Hs fuel Hlim Hf) as (p0 & r & Hw & Hc & _ & _ & _ & Hl & Hfa).
  exists (p0 :: r). split; [assumption|]. split; [assumption|]. split.
  - constructor; [assumption|]. eapply Forall_impl; [|exact Hfa]. intros p Hp; apply Hp.
  - simpl. eapply Forall_impl; [|exact Hfa]. intros p Hp; apply Hp.
Qed.
Print Assumptions C21_offset_next_enumerates_partial.

Theorem C21_offset_previous_is_page_before : forall ks size asc fuel pages,
  (1 <= size)%nat -> Z.of_nat (length ks) <= 2147483648 -> (length ks < fuel)%nat ->
  owalk_next fuel ks (oinit size asc) = Some pages ->
  (forall p0, nth_error pages 0 = Some p0 -> op_prev p0 = None) /\
  (forall k pk pk1, nth_error pages k = Some pk -> nth_error pages (S k) = Some pk1 ->
     exists qp pp, op_prev pk1 = Some qp /\ opage_of ks qp = Some pp /\ op_data pp = op_data pk /\
                   op_has_more pp = true).
Proof.
  intros ks size asc fuel pages Hs Hlim Hf Hw.
  destruct (owalk_init ks size asc Hs fuel Hlim Hf) as (p0 & r & Hw' & _ & Hp0 & Hch & _).
  rewrite Hw' in Hw. injection Hw as <-. split.
  - intros p Hp. simpl in Hp. injection Hp as <-. assumption.
  - intros k pk pk1 Hk Hk1. destruct k as [|k'].
    + simpl in Hk. injection Hk as <-. simpl in Hk1. destruct r as [|p1 r']; [discriminate|].
      simpl in Hk1. injection Hk1 as <-. destruct Hch as [H _]. exact H.
    + simpl in Hk, Hk1. eapply ochain_nth; eassumption.
Qed.
Print Assumptions C21_offset_previous_is_page_before.

Theorem C21_offset_has_more_iff : forall ks size asc fuel pages k p,
  (1 <= size)%nat -> Z.of_nat (length ks) <= 2147483648 -> (length ks < fuel)%nat ->
  owalk_next fuel ks (oinit size asc) = Some pages -> nth_error pages k = Some p ->
  (op_has_more p = true <-> concat (map op_data (skipn (S k) pages)) <> []).
Proof.
  intros ks size asc fuel pages k p Hs Hlim Hf Hw Hk.
  destruct (owalk_init ks size asc Hs fuel Hlim Hf) as (p0 & r & Hw' & _ & _ & _ & Hmo & _ & Hfa).
  rewrite Hw' in Hw. injection Hw as <-.
  apply omore_ok_nth; try assumption. simpl. eapply Forall_impl; [|exact Hfa]. intros q Hq; apply Hq.
Qed.
Print Assumptions C21_offset_has_more_iff.

(* ---------------------------------------------------------------- the key of (grouped) volume listings is unique *)
(* "account/asset for volumes, including grouped volumes" IS a unique key: after any history, for any window, date mode and
   group level g (0 = ungrouped), the rows GetVolumesWithBalances lists (Reads.read_volumes_grouped, mirror of
   resource_volumes.go BuildDataset + Project) carry pairwise distinct (account, asset) pairs — the hypothesis [NoDup ks] of
   the theorems above for these listings (the offset paginator walks them by rank in (account, asset) order) *)
Theorem C21_grouped_volumes_unique_key : forall f h w g v,
  Reads.read_volumes_grouped f (Core.run f h) w g = Some v -> NoDup (map fst v).
Proof. exact GroupProofs.read_volumes_grouped_nodup. Qed.
Print Assumptions C21_grouped_volumes_unique_key.

(* ---------------------------------------------------------------- non-vacuity *)
(* 7 unsorted keys, page size 3, descending: three pages; the previous cursor of each page gives the
   page before; walking previous from the last page gives pages 2, 1 *)
Example C21_example_column :
  column_report [5; 3; 9; 1; 7; 11; 13] 3 false =
  Some {| r_pages := [[13; 11; 9]; [7; 5; 3]; [1]]; r_more := [true; true; false];
          r_prev1 := [None; Some [13; 11; 9]; Some [7; 5; 3]]; r_back := [[7; 5; 3]; [13; 11; 9]] |}.
Proof. vm_compute. reflexivity. Qed.

Example C21_example_offset :
  offset_report [5; 3; 9; 1; 7; 11; 13] 2 true =
  Some {| r_pages := [[1; 3]; [5; 7]; [9; 11]; [13]]; r_more := [true; true; true; false];
          r_prev1 := [None; Some [1; 3]; Some [5; 7]; Some [9; 11]]; r_back := [[9; 11]; [5; 7]; [1; 3]] |}.
Proof. vm_compute. reflexivity. Qed.

(* the hypotheses of the theorems are satisfiable on that dataset *)
Example C21_example_hyps : NoDup [5; 3; 9; 1; 7; 11; 13] /\ (1 <= 3)%nat /\ (length [5; 3; 9; 1; 7; 11; 13] < 9)%nat.
Proof. split; [|split; simpl; lia]. repeat constructor; simpl; intuition lia. Qed.

(* why the key must be unique (the statement's hypothesis): when a key is repeated more than [size]
   times (transactions sharing a timestamp, listed by timestamp with a small page size) the next
   cursor of a page is the query of that very page: the walk never ends *)
Example C21_duplicate_keys_loop :
  let q := {| q_size := 2; q_asc := true; q_pid := Some 2; q_bottom := Some 1; q_reverse := false |} in
  option_map p_next (page [1; 2; 2; 2; 3] (init_query 2 true)) = Some (Some q) /\
  option_map p_next (page [1; 2; 2; 2; 3] q) = Some (Some q) /\
  walk_next 100 [1; 2; 2; 2; 3] (init_query 2 true) = None.
Proof. vm_compute. repeat split. Qed.
