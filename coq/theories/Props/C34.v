(* C34 — Async log blocks cover every committed log exactly once.  Statements only; proofs live in Ledger/BlocksProofs.v.

   Model: Ledger/Blocks.v. Events Alloc w l / Commit w / Abort w (writers: explicit SQL transactions around the real
   InsertLog; ids drawn by nextval at insert time, no advisory lock with HASH_LOGS = ASYNC) and RunBlocks size (the
   procedure create_blocks of migration 38 as the worker calls it). H is ANY hash function; log contents are arbitrary.
   blocks_ok (0,0,None) bs says: the first block has previous = 0 and from_id = 0, every other block has previous = id of and
   from_id = to_id of the block before it, ids increase, every block is non-empty, its member ids increase strictly within
   (from_id, to_id], to_id is its last member, and its hash is H (bytea_out (previous block hash) ++ the members' texts) — the
   documented digest (Blocks.blk_pre).

   FULL STATEMENT (what the property demands; FALSE of the unchanged code, C34_refuted_reorder):
     forall evs size, 1 <= size -> let s := brun H (evs ++ [RunBlocks size]) in
       forall id, In id (map fst (s_com s)) -> In id (mids (s_blocks s))
   "no log skipped even if it committed after a higher id". *)
From Coq Require Import List Ascii String NArith ZArith Bool Lia.
From LV Require Import Base.Json Ledger.Hash Ledger.Blocks Ledger.BlocksProofs.
Import ListNotations.
Open Scope Z_scope.

(* commits in id order: after the builder has run, the blocks are a contiguous chain with the documented digests, the member
   ids are exactly the committed ids, each once, and each block's members are exactly the committed logs of its range.
   All event sequences of any length satisfying the order hypothesis, any number of writers, aborts, block sizes, any H. *)
Theorem C34_seq : forall (H : bytes -> bytes) evs size, inorder_from H binit evs -> 1 <= size ->
  let s := brun H (evs ++ [RunBlocks size]) in
  blocks_ok H (0, 0, None) (s_blocks s) /\
  (forall id, In id (map fst (s_com s)) <-> In id (mids (s_blocks s))) /\
  NoDup (mids (s_blocks s)) /\
  (forall b e, In b (s_blocks s) -> (In e (s_com s) /\ k_from b < fst e <= k_to b <-> In (fst e) (map fst (k_logs b)) /\ In e (s_com s))).
Proof. exact inorder_quiescent. Qed.
Print Assumptions C34_seq.

(* for ALL event sequences (any interleaving of commits): the chain is contiguous with the documented digests, members are
   committed logs, and no log is ever in two blocks (member ids strictly increase along the whole chain) *)
Theorem C34_once : forall (H : bytes -> bytes) evs,
  let s := brun H evs in
  blocks_ok H (0, 0, None) (s_blocks s) /\ (forall e, In e (members_of s) -> In e (s_com s)) /\
  incr 0 (members_of s) /\ NoDup (mids (s_blocks s)).
Proof.
  intros H evs s. pose proof (binv_run H evs) as Hi. destruct (members_once H _ Hi) as [H1 H2].
  split; [exact (bi_chain H _ Hi)|]. split; [exact (bi_sub H _ Hi)|]. split; assumption.
Qed.
Print Assumptions C34_once.

(* REFUTED (suspect S-34): writer 1 draws id 1, writer 2 draws id 2 and commits first, the builder runs (block (0,2] digests
   log 2 only), writer 1 commits, the builder runs again: log 1 is in no block, for every hash function. *)
Definition log0 : hlog := {| h_type := TSetMeta; h_memento := B "{}"; h_date := 1700000000000000; h_ik := []; h_sv := []; h_hash := None |}.
Definition reorder_witness : list event := [Alloc 1 log0; Alloc 2 log0; Commit 2; RunBlocks 10; Commit 1].

Theorem C34_refuted_reorder : forall H : bytes -> bytes,
  let s := brun H (reorder_witness ++ [RunBlocks 10]) in
  In 1 (map fst (s_com s)) /\ ~ In 1 (mids (s_blocks s)) /\ uncovered s = [1] /\
  map (fun b => (k_id b, k_prev b, k_from b, k_to b, map fst (k_logs b))) (s_blocks s) = [(1, 0, 0, 2, [2])].
Proof.
  intros H. cbv [brun reorder_witness app fold_left].
  repeat split; try (vm_compute; tauto). vm_compute. intros [E|[]]. discriminate E.
Qed.
Print Assumptions C34_refuted_reorder.

(* PARTIAL: the strongest statement true of every schedule. One run of the builder (size >= 1) from any reachable state covers
   every committed log that is above the previous high-water mark (to_id of the last block) or already covered, leaves no
   committed log above the new high-water mark, and covers NO committed log that was at or below the previous mark and
   uncovered; such a log stays uncovered whatever happens afterwards (C34_skipped_forever). *)
Theorem C34_partial : forall (H : bytes -> bytes) evs size, 1 <= size ->
  let s := brun H evs in
  let s' := bstep H s (RunBlocks size) in
  (forall e, In e (s_com s) -> In (fst e) (mids (s_blocks s)) \/ hw (last_prev (s_blocks s)) < fst e -> In (fst e) (mids (s_blocks s'))) /\
  (forall e, In e (s_com s') -> fst e <= hw (last_prev (s_blocks s'))) /\
  (forall e, In e (s_com s) -> fst e <= hw (last_prev (s_blocks s)) -> ~ In (fst e) (mids (s_blocks s)) -> ~ In (fst e) (mids (s_blocks s'))).
Proof. intros H evs size Hsz. exact (run_blocks_partial H (brun H evs) size (binv_run H evs) Hsz). Qed.
Print Assumptions C34_partial.

Theorem C34_skipped_forever : forall (H : bytes -> bytes) evs evs' e,
  let s := brun H evs in
  In e (s_com s) -> fst e <= hw (last_prev (s_blocks s)) -> ~ In (fst e) (mids (s_blocks s)) ->
  ~ In (fst e) (mids (s_blocks (brun H (evs ++ evs')))).
Proof.
  intros H evs evs' e s He Hle Hnot. unfold brun. rewrite fold_left_app.
  exact (skipped_forever H evs' (brun H evs) e (binv_run H evs) He Hle Hnot).
Qed.
Print Assumptions C34_skipped_forever.

(* non-vacuity of C34_seq: three writers, an abort, block size 2, in-order commits: two blocks, ids 1 2 4 5 covered (3 aborted) *)
Example C34_example :
  let evs := [Alloc 1 log0; Commit 1; Alloc 2 log0; Alloc 3 log0; Alloc 1 log0; Commit 2; Abort 3; RunBlocks 1; Commit 1; Alloc 2 log0; Commit 2] in
  let s := brun (fun b => b) (evs ++ [RunBlocks 2]) in
  inorder_from (fun b => b) binit evs /\
  map (fun b => (k_id b, k_prev b, k_from b, k_to b, map fst (k_logs b))) (s_blocks s) = [(1, 0, 0, 1, [1]); (2, 1, 1, 2, [2]); (3, 2, 2, 5, [4; 5])] /\
  uncovered s = [].
Proof.
  vm_compute. repeat split; intros e' Hin; repeat (destruct Hin as [<-|Hin]; [reflexivity|]); destruct Hin.
Qed.
