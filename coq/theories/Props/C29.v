(* C29 — Schema enforcement and chart semantics.  Statements only; proofs live in Ledger/SchemaProofs.v.
   Model: Ledger/SchemaCtrl.v (runLog schema lookup, strict/audit, createTransaction template rules, chart default metadata
   through UpsertAccounts) layered on Ledger/Core.v; the chart is Ledger/Chart.v; regexp engine universally quantified.

   FULL STATEMENT (property text):  strict mode: a write that (a) names no version while the ledger has schemas, (b) names an
   unknown version, (c) has a posting the chart rejects, or (d) uses no template although the schema defines templates, is
   rejected with no effect;  AUDIT MODE ACCEPTS ALL FOUR.  Defaults: default || given at first creation, never later.
   The strict half and the defaults are proved in full.  The audit half is proved for (a), (c) and — for the code repaired by
   fixes/01-audit-no-template.diff — (d); it is REFUTED by the faithful model for (b) (C29_audit_refuted_unknown_version:
   ErrSchemaNotFound is returned before any mode test; kept as a known finding, a design choice). *)
From Coq Require Import List ZArith String Bool.
From LV Require Import Base.Util Ledger.Types Ledger.Core Ledger.Invariants Ledger.Chart Ledger.SchemaCtrl Ledger.SchemaProofs Ledger.HttpView Ledger.HttpViewSchema.
Import ListNotations.
Open Scope Z_scope.

(* frame: any rejected write (whatever the reason, whatever the mode) leaves every table — volumes, transactions, moves,
   accounts, both metadata histories, logs, schemas, log schema versions — unchanged *)
Theorem C29_rejected_no_effect : forall rv rm f m now ss i ss' e,
  sstep rv rm f m now ss i = SSR ss' (SErr e) -> stables ss' = stables ss.
Proof. exact sstep_error_no_trace. Qed.
Print Assumptions C29_rejected_no_effect.

(* ... and over HTTP every such rejection is a 4xx (status layer: Ledger/HttpViewSchema.v, compared by the TIE-H schema histories) *)
Theorem C29_rejection_is_4xx_no_effect : forall rv rm f m now ss i ss' e,
  sstep rv rm f m now ss i = SSR ss' (SErr e) -> 400 <= fst (shttp_error e) < 500 /\ stables ss' = stables ss.
Proof.
  intros rv rm f m now ss i ss' e H. split; [exact (shttp_error_is_client_error e) | exact (sstep_error_no_trace _ _ _ _ _ _ _ _ _ H)].
Qed.
Print Assumptions C29_rejection_is_4xx_no_effect.

(* (a) strict: a ledger with schemas requires a schema version *)
Theorem C29_strict_version_required : forall rv rm f now ss template o,
  ss_schemas ss <> [] -> find_ik (s_logs (ss_base ss)) (o_ik o) = None ->
  sstep rv rm f Strict now ss (SWrite "" template o) = SSR ss (SErr ESchemaNotSpecified).
Proof. exact strict_version_required. Qed.
Print Assumptions C29_strict_version_required.

(* (b) an unknown version is rejected, state untouched (in either mode) *)
Theorem C29_unknown_version_rejected : forall rv rm f m now ss v template o,
  v <> ""%string -> find_schema (ss_schemas ss) v = None -> find_ik (s_logs (ss_base ss)) (o_ik o) = None ->
  sstep rv rm f m now ss (SWrite v template o) = SSR ss (SErr ESchemaNotFound).
Proof. exact unknown_version_rejected. Qed.
Print Assumptions C29_unknown_version_rejected.

(* (c) strict: a transaction that would commit but has a posting whose source or destination the chart rejects *)
Theorem C29_strict_chart_enforced : forall rv rm f now ss v template o r inp s1 p,
  v <> ""%string -> find_schema (ss_schemas ss) v = Some r -> find_ik (s_logs (ss_base ss)) (o_ik o) = None ->
  resolve_template Strict (Some r) template (o_in o) = Some inp ->
  run_input_d f now (ss_base ss) (chart_defaults rv rm (Some r)) inp = Done s1 p ->
  payload_valid rv rm r p = false ->
  exists ss', sstep rv rm f Strict now ss (SWrite v template o) = SSR ss' (SErr ESchemaValidation) /\ stables ss' = stables ss.
Proof. exact strict_chart_enforced. Qed.
Print Assumptions C29_strict_chart_enforced.

(* (d) strict: the schema defines templates and the transaction names none *)
Theorem C29_strict_template_required : forall rv rm f now ss v o r ps ts ref md amd force,
  v <> ""%string -> find_schema (ss_schemas ss) v = Some r -> find_ik (s_logs (ss_base ss)) (o_ik o) = None ->
  sc_templates r <> [] -> o_in o = ICreate ps ts ref md amd force ->
  sstep rv rm f Strict now ss (SWrite v "" o) = SSR ss (SErr ESchemaValidation).
Proof. exact strict_template_required. Qed.
Print Assumptions C29_strict_template_required.

(* audit (a): no version named = the same ledger without any schema (same answer, same tables, same sequences) *)
Theorem C29_audit_partial_unspecified : forall rv rm f m' now ss template o,
  match sstep rv rm f Audit now ss (SWrite "" template o), sstep rv rm f m' now (without_schemas ss) (SWrite "" template o) with
  | SSR s1 r1, SSR s2 r2 => r1 = r2 /\ ss_base s1 = ss_base s2 /\ ss_logver s1 = ss_logver s2
  | SSPanic, SSPanic => True
  | _, _ => False
  end.
Proof. exact audit_unspecified_as_without_schema. Qed.
Print Assumptions C29_audit_partial_unspecified.

(* audit (c): the chart verdict never changes the outcome *)
Theorem C29_audit_partial_chart_ignored : forall rv rm f now ss v template o r inp s1 p,
  v <> ""%string -> find_schema (ss_schemas ss) v = Some r -> find_ik (s_logs (ss_base ss)) (o_ik o) = None ->
  resolve_template Audit (Some r) template (o_in o) = Some inp ->
  run_input_d f now (ss_base ss) (chart_defaults rv rm (Some r)) inp = Done s1 p ->
  exists ss', sstep rv rm f Audit now ss (SWrite v template o) = SSR ss' (SOk (s_next_log s1) (payload_tx_id p) false).
Proof. exact audit_ignores_chart_verdict. Qed.
Print Assumptions C29_audit_partial_chart_ignored.

(* audit (d): the schema defines templates, the write names none: accepted, the submitted script runs (and resolves exactly as
   under the same schema without templates).  Holds of the code with fixes/01-audit-no-template.diff; the unpatched code
   returned "failed to find transaction template ``" here. *)
Theorem C29_audit_template_optional : forall rv rm f now ss v o r s1 p,
  v <> ""%string -> find_schema (ss_schemas ss) v = Some r -> find_ik (s_logs (ss_base ss)) (o_ik o) = None ->
  aget String.eqb (sc_templates r) ""%string = None ->
  run_input_d f now (ss_base ss) (chart_defaults rv rm (Some r)) (o_in o) = Done s1 p ->
  exists ss', sstep rv rm f Audit now ss (SWrite v "" o) = SSR ss' (SOk (s_next_log s1) (payload_tx_id p) false).
Proof. exact audit_template_optional. Qed.
Print Assumptions C29_audit_template_optional.

Theorem C29_audit_template_resolution : forall r i,
  aget String.eqb (sc_templates r) ""%string = None ->
  resolve_template Audit (Some r) "" i = Some i /\
  resolve_template Audit (Some r) "" i
  = resolve_template Audit (Some {| sc_version := sc_version r; sc_chart := sc_chart r; sc_templates := []; sc_created := sc_created r |}) "" i.
Proof. exact audit_no_template_resolves. Qed.
Print Assumptions C29_audit_template_resolution.

(* defaults: default || given when the account row is first created; on later upserts the defaults play no role and every
   key absent from the given metadata keeps its stored value *)
Theorem C29_defaults : forall hist_on now accs hist a dflt md first ins upd,
  let accs' := fst (upsert_account_d hist_on now (accs, hist) a dflt md first ins upd) in
  match find_account accs a with
  | None => exists y, find_account accs' a = Some y /\ a_meta y = mmerge dflt md
  | Some x => accs' = fst (upsert_account hist_on now (accs, hist) a md first ins upd) /\
              exists y, find_account accs' a = Some y /\ forall k, mget md k = None -> mget (a_meta y) k = mget (a_meta x) k
  end.
Proof. exact defaults_first_creation_only. Qed.
Print Assumptions C29_defaults.

(* ---------- witnesses ---------- *)
Local Open Scope string_scope.
Definition ex_f := {| f_moves := true; f_pcev := true; f_acc_hist := true; f_tx_hist := true; f_hash := true |}.
Definition ex_chart29 : chart :=
  [("bank", Seg [] None (Some {| ca_meta := Some [("kind", Some "bank")] |}));
   ("users", Seg [] (Some ("id", Some "^[0-9]+$", Seg [] None (Some {| ca_meta := Some [("role", Some "user")] |}))) None);
   ("world", Seg [] None (Some {| ca_meta := None |}))].
Definition ex_post (s d : str) := {| p_src := s; p_dst := d; p_asset := "USD"; p_amt := 5 |}.
Definition ex_create s d := {| o_in := ICreate [ex_post s d] None "" [] [] false; o_ik := ""; o_dry := false |}.
Definition sc_templates_nonempty (ss : sstate) : Prop := existsb (fun r => match sc_templates r with [] => false | _ => true end) (ss_schemas ss) = true.
Definition ex_run (m : mode) (l : list (Z * sinput)) : sstate * list sresult :=
  fold_left (fun acc ni => match sstep re_valid_small re_match_small ex_f m (fst ni) (fst acc) (snd ni) with
                           | SSR s r => (s, (snd acc ++ [r])%list) | SSPanic => acc end) l (sinit, []%list).

(* REFUTED (b): audit mode rejects a write naming an unknown version *)
Theorem C29_audit_refuted_unknown_version :
  exists ss o, ss_schemas ss <> [] /\
    sstep re_valid_small re_match_small ex_f Audit 20 ss (SWrite "v9" "" o) = SSR ss (SErr ESchemaNotFound).
Proof.
  exists (fst (ex_run Audit [(10, SInsertSchema "v1" ex_chart29 [])])), (ex_create "world" "bank").
  split; [vm_compute; discriminate | vm_compute; reflexivity].
Qed.
Print Assumptions C29_audit_refuted_unknown_version.

(* (d) repaired code (fixes/01-audit-no-template.diff): audit mode runs a template-less write under a schema with templates *)
Example C29_audit_no_template_witness :
  exists ss ss' o, sc_templates_nonempty ss /\
    sstep re_valid_small re_match_small ex_f Audit 20 ss (SWrite "v1" "" o) = SSR ss' (SOk 2 (Some 1) false).
Proof.
  exists (fst (ex_run Audit [(10, SInsertSchema "v1" ex_chart29 [("pay", [ex_post "world" "bank"])])])).
  eexists. exists (ex_create "world" "bank"). split; vm_compute; reflexivity.
Qed.

(* non-vacuity: one history exercising (a)-(d) and the defaults, strict vs audit *)
Example C29_example :
  let h := [(10, SInsertSchema "v1" ex_chart29 []);
            (11, SWrite "" "" (ex_create "world" "bank"));              (* (a) *)
            (12, SWrite "v1" "" (ex_create "world" "users:bob"));       (* (c) pattern mismatch *)
            (13, SWrite "v1" "" (ex_create "world" "users:42"));        (* accepted; users:42 created with role=user *)
            (14, SWrite "v1" "" {| o_in := ISetMeta (TAcc "users:42") [("role", "admin")]; o_ik := ""; o_dry := false |});
            (15, SWrite "v1" "" (ex_create "world" "users:42"))] in     (* later upsert: role stays admin *)
  snd (ex_run Strict h) = [SOk 1 None false; SErr ESchemaNotSpecified; SErr ESchemaValidation; SOk 2 (Some 2) false; SOk 3 None false; SOk 4 (Some 3) false]
  /\ snd (ex_run Audit h) = [SOk 1 None false; SOk 2 (Some 1) false; SOk 3 (Some 2) false; SOk 4 (Some 3) false; SOk 5 None false; SOk 6 (Some 4) false]
  /\ option_map a_meta (find_account (s_accounts (ss_base (fst (ex_run Strict h)))) "users:42") = Some [("role", "admin")]
  /\ option_map a_meta (find_account (s_accounts (ss_base (fst (ex_run Strict (firstn 4 h))))) "users:42") = Some [("role", "user")]
  /\ option_map a_meta (find_account (s_accounts (ss_base (fst (ex_run Audit h)))) "bank") = Some [].
Proof. repeat split; vm_compute; reflexivity. Qed.
