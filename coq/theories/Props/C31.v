(* C31 — Events are published exactly for committed writes, after commit.  Statements only; the model is
   Ledger/Events.v (ControllerWithEvents hasTx/parent/atCommit, the state tracker's handleState, forgeLog's
   transaction, Bulker.Run), the proofs are in Ledger/EventsProofs.v.

   The property is the executable judgement [check] on the observable trace (driver-level BEGIN / COMMIT ok /
   COMMIT failed / ROLLBACK, InsertLog executions, listener calls): a Publish is accepted only when its log was
   appended in a top-level transaction whose COMMIT has already succeeded and whose event has not been published
   yet; at the end every committed log has been published.  So: after the outermost commit; nothing for failed,
   dry-run, rolled-back and commit-failed writes; exactly one event per committed write.

   FULL STATEMENT (false of the code because of idempotent replays, see C31_refuted_replay):
     forall init ops, check (trace_of init ops) = VOk.
   The model follows the code AFTER the repair of KF-C31-first-write-event-before-commit (LockLedger propagates hasTx). *)
From Coq Require Import List ZArith Bool.
From LV Require Import Ledger.Events Ledger.EventsProofs.
Import ListNotations.
Open Scope Z_scope.

(* S-31b (still open, known finding KF-C31-replay-republishes): an idempotent replay (forgeLog answers from the stored log,
   idempotencyHit = true) publishes the event of that log a second time: ControllerWithEvents does not look at idempotencyHit. *)
Theorem C31_refuted_replay :
  exists ops,
    trace_of false ops = [SqlBegin; LogAppended 1; SqlCommitOk; Publish 1; SqlBegin; SqlRollback; Publish 1] /\
    check (trace_of false ops) = VNoWrite 1.
Proof. exists [OWrite wok; OWrite {| w_dry := false; w_out := WHit 1 |}]. vm_compute. split; reflexivity. Qed.
Print Assumptions C31_refuted_replay.

(* Strongest true statement: on ANY ledger (still initializing or already in use), every history of single writes (any
   outcome, dry-run or not), atomic and non-atomic bulks (continueOnFailure or not) and COMMIT faults at any position,
   without idempotent replays, satisfies the judgement.  No bound on the history or the bulks.  (Before the repair of
   KF-C31-first-write-event-before-commit this held for in-use ledgers only: see the historical part below.) *)
Theorem C31_partial : forall init ops,
  forallb eop_no_hit ops = true -> check (trace_of init ops) = VOk.
Proof. exact trace_check_ok. Qed.
Print Assumptions C31_partial.

(* the same from any position of the log sequence (the form the tie uses) *)
Theorem C31_partial_from : forall init n ops,
  forallb eop_no_hit ops = true -> check (trace_from init n ops) = VOk.
Proof. exact trace_from_check_ok. Qed.
Print Assumptions C31_partial_from.

(* what a passing trace means: each Publish is preceded by  LogAppended id ... COMMIT ok  with no transaction boundary in between *)
Theorem C31_after_commit : forall tr, check tr = VOk ->
  forall p id q, tr = p ++ Publish id :: q ->
  exists a b c, p = a ++ LogAppended id :: b ++ SqlCommitOk :: c /\ forallb (fun x => negb (is_boundary x)) b = true.
Proof. exact check_ok_publish_after_commit. Qed.
Print Assumptions C31_after_commit.

(* the grid of the property's quantifier: context x outcome *)
Theorem C31_scenarios : forall c o, check (scenario_trace c o) = VOk.
Proof. intros c o; destruct c, o; vm_compute; reflexivity. Qed.
Print Assumptions C31_scenarios.

(* non-vacuity: the first write of an initializing ledger queues its event on the BeginTX object and publishes after COMMIT;
   then a history mixing all contexts; committed writes 1,3,4,5,7 each publish once, after their commit *)
Example C31_example_first_write :
  trace_of true [OWrite wok] = [SqlBegin; LogAppended 1; SqlCommitOk; Publish 1] /\
  trace_of true [OFailCommit 0; OWrite wok] = [SqlBegin; LogAppended 1; SqlCommitFail].
Proof. vm_compute. split; reflexivity. Qed.

(* a context cancelled before COMMIT (database/sql has rolled back, Commit returns ErrTxDone) or while a statement runs:
   the transaction is rolled back, nothing is committed, nothing is published, the rest of the request does nothing *)
Example C31_example_cancel :
  trace_of true [OCancelCommit 0; OWrite wok] = [SqlBegin; LogAppended 1; SqlRollback] /\
  trace_of false [OCancelCommit 0; OBulk true false [wok; wok]] = [SqlBegin; LogAppended 1; LogAppended 2; SqlRollback] /\
  trace_of false [OBulk false true [wok; {| w_dry := false; w_out := WCancel true |}; wok]] =
    [SqlBegin; LogAppended 1; SqlCommitOk; Publish 1; SqlBegin; LogAppended 2; SqlRollback] /\
  check (trace_of false [OBulk false true [wok; {| w_dry := false; w_out := WCancel true |}; wok]]) = VOk.
Proof. vm_compute. repeat split. Qed.

Example C31_example :
  let ops := [OWrite wok; OWrite {| w_dry := true; w_out := WOk |}; OBulk true false [wok; wok];
              OWrite {| w_dry := false; w_out := WFail |}; OFailCommit 1; OBulk false true [wok; {| w_dry := false; w_out := WFail |}; wok; wok]] in
  forallb eop_no_hit ops = true /\
  trace_of false ops =
    [SqlBegin; LogAppended 1; SqlCommitOk; Publish 1;
     SqlBegin; LogAppended 2; SqlRollback;
     SqlBegin; LogAppended 3; LogAppended 4; SqlCommitOk; Publish 3; Publish 4;
     SqlBegin; SqlRollback;
     SqlBegin; LogAppended 5; SqlCommitOk; Publish 5; SqlBegin; SqlRollback; SqlBegin; LogAppended 6; SqlCommitFail;
     SqlBegin; LogAppended 7; SqlCommitOk; Publish 7] /\
  check (trace_of false ops) = VOk.
Proof. vm_compute. repeat split. Qed.

(* ---------- HISTORICAL: the model variant before the repair of KF-C31-first-write-event-before-commit ----------
   [trace_pre_fix] (LockLedger returning hasTx = false, suspect S-31a) is no longer tied to the code; the statements record
   what the defect was and that the pre-fix code was correct on in-use ledgers only. *)
Example C31_pre_fix_first_write :
  trace_pre_fix true [OWrite wok] = [SqlBegin; LogAppended 1; Publish 1; SqlCommitOk] /\
  check (trace_pre_fix true [OWrite wok]) = VBeforeCommit 1 /\
  trace_pre_fix true [OFailCommit 0; OWrite wok] = [SqlBegin; LogAppended 1; Publish 1; SqlCommitFail].
Proof. vm_compute. repeat split. Qed.

Example C31_pre_fix_in_use_only : forall ops, forallb eop_no_hit ops = true -> check (trace_pre_fix false ops) = VOk.
Proof. exact trace_pre_fix_check_ok. Qed.

Example C31_pre_fix_scenarios : forall c o, check (scenario_trace_pre_fix c o) = scenario_expected_pre_fix c o.
Proof. intros c o; destruct c, o; vm_compute; reflexivity. Qed.
