(* C31 — Events are published exactly for committed writes, after commit.  Statements only; the model is
   Ledger/Events.v (ControllerWithEvents hasTx/parent/atCommit, the state tracker's handleState, forgeLog's
   transaction, Bulker.Run), the proofs are in Ledger/EventsProofs.v.

   The property is the executable judgement [check] on the observable trace (driver-level BEGIN / COMMIT ok /
   COMMIT failed / ROLLBACK, InsertLog executions, listener calls): a Publish is accepted only when its log was
   appended in a top-level transaction whose COMMIT has already succeeded and whose event has not been published
   yet; at the end every committed log has been published.  So: after the outermost commit; nothing for failed,
   dry-run, rolled-back and commit-failed writes; exactly one event per committed write.

   The model follows the code AFTER the repairs of KF-C31-first-write-event-before-commit (LockLedger propagates hasTx)
   and KF-C31-replay-republishes (no event for an idempotent replay); the behaviour before them survives as the [pf]
   variant of the model in the HISTORICAL part at the end, which is not tied to the code. *)
From Coq Require Import List ZArith Bool.
From LV Require Import Ledger.Events Ledger.EventsProofs.
Import ListNotations.
Open Scope Z_scope.

(* FULL STATEMENT.  On ANY ledger (still initializing or already in use), EVERY history of single writes (any outcome:
   success, business failure, failing statement, dry run, idempotent replay, context cancelled at a statement), atomic and
   non-atomic bulks (continueOnFailure or not; prelude of an atomic bulk on an initializing ledger succeeding, failing or
   cancelled), COMMIT failures and context cancellations before any COMMIT satisfies the judgement.  No bound on the
   history or the bulks, no side condition. *)
Theorem C31_exactly_after_commit : forall init ops, check (trace_of init ops) = VOk.
Proof. exact trace_check_ok. Qed.
Print Assumptions C31_exactly_after_commit.

(* the same from any position of the log sequence (the form the tie uses) *)
Theorem C31_exactly_after_commit_from : forall init n ops, check (trace_from init n ops) = VOk.
Proof. exact trace_from_check_ok. Qed.
Print Assumptions C31_exactly_after_commit_from.

(* an idempotent replay (forgeLog answers from the stored log, idempotencyHit = true, nothing is written) publishes
   nothing: in any model state (ledger state, log sequence, armed fault switches), dry or not *)
Theorem C31_replay_silent : forall s dry id s' tr,
  eop_run false s (OWrite {| w_dry := dry; w_out := WHit id |}) = (s', tr) -> existsb is_publish tr = false.
Proof. exact replay_silent. Qed.
Print Assumptions C31_replay_silent.

(* what a passing trace means: each Publish is preceded by  LogAppended id ... COMMIT ok  with no transaction boundary in between *)
Theorem C31_after_commit : forall tr, check tr = VOk ->
  forall p id q, tr = p ++ Publish id :: q ->
  exists a b c, p = a ++ LogAppended id :: b ++ SqlCommitOk :: c /\ forallb (fun x => negb (is_boundary x)) b = true.
Proof. exact check_ok_publish_after_commit. Qed.
Print Assumptions C31_after_commit.

(* the grid of the property's quantifier: context x outcome *)
Theorem C31_scenarios : forall c o, check (scenario_trace c o) = VOk.
Proof. intros c o; destruct c, o; vm_compute; reflexivity. Qed.
Print Assumptions C31_scenarios.

(* non-vacuity: the first write of an initializing ledger queues its event on the BeginTX object and publishes after COMMIT;
   then a history mixing all contexts; committed writes 1,3,4,5,7 each publish once, after their commit *)
Example C31_example_first_write :
  trace_of true [OWrite wok] = [SqlBegin; LogAppended 1; SqlCommitOk; Publish 1] /\
  trace_of true [OFailCommit 0; OWrite wok] = [SqlBegin; LogAppended 1; SqlCommitFail].
Proof. vm_compute. split; reflexivity. Qed.

(* a context cancelled before COMMIT (database/sql has rolled back, Commit returns ErrTxDone) or while a statement runs:
   the transaction is rolled back, nothing is committed, nothing is published, the rest of the request does nothing *)
(* a write and its replay, alone and inside an atomic bulk: one event *)
Example C31_example_replay :
  trace_of false [OWrite wok; OWrite {| w_dry := false; w_out := WHit 1 |}] =
    [SqlBegin; LogAppended 1; SqlCommitOk; Publish 1; SqlBegin; SqlRollback] /\
  trace_of false [OBulk true false BPOk [wok; {| w_dry := false; w_out := WHit 1 |}; wok]] =
    [SqlBegin; LogAppended 1; LogAppended 2; SqlCommitOk; Publish 1; Publish 2] /\
  trace_of true [OWrite {| w_dry := false; w_out := WHit 7 |}] = [SqlBegin; SqlCommitOk].
Proof. vm_compute. repeat split. Qed.

(* atomic bulk on an initializing ledger: the prelude of the facade's BeginTX fails or is cancelled => nothing else happens *)
Example C31_example_bulk_prelude :
  trace_of true [OBulk true true BPFail [wok; wok]] = [SqlBegin; SqlRollback] /\
  trace_of true [OBulk true false BPCancel [wok; wok]] = [SqlBegin; SqlRollback] /\
  trace_of true [OBulk true false BPOk [wok; wok]] = [SqlBegin; LogAppended 1; LogAppended 2; SqlCommitOk; Publish 1; Publish 2] /\
  trace_of false [OBulk true false BPFail [wok]] = [SqlBegin; LogAppended 1; SqlCommitOk; Publish 1].
Proof. vm_compute. repeat split. Qed.

Example C31_example_cancel :
  trace_of true [OCancelCommit 0; OWrite wok] = [SqlBegin; LogAppended 1; SqlRollback] /\
  trace_of false [OCancelCommit 0; OBulk true false BPOk [wok; wok]] = [SqlBegin; LogAppended 1; LogAppended 2; SqlRollback] /\
  trace_of false [OBulk false true BPOk [wok; {| w_dry := false; w_out := WCancel true |}; wok]] =
    [SqlBegin; LogAppended 1; SqlCommitOk; Publish 1; SqlBegin; LogAppended 2; SqlRollback] /\
  check (trace_of false [OBulk false true BPOk [wok; {| w_dry := false; w_out := WCancel true |}; wok]]) = VOk.
Proof. vm_compute. repeat split. Qed.

Example C31_example :
  let ops := [OWrite wok; OWrite {| w_dry := true; w_out := WOk |}; OBulk true false BPOk [wok; wok];
              OWrite {| w_dry := false; w_out := WFail |}; OFailCommit 1; OBulk false true BPOk [wok; {| w_dry := false; w_out := WFail |}; wok; wok]] in
  trace_of false ops =
    [SqlBegin; LogAppended 1; SqlCommitOk; Publish 1;
     SqlBegin; LogAppended 2; SqlRollback;
     SqlBegin; LogAppended 3; LogAppended 4; SqlCommitOk; Publish 3; Publish 4;
     SqlBegin; SqlRollback;
     SqlBegin; LogAppended 5; SqlCommitOk; Publish 5; SqlBegin; SqlRollback; SqlBegin; LogAppended 6; SqlCommitFail;
     SqlBegin; LogAppended 7; SqlCommitOk; Publish 7] /\
  check (trace_of false ops) = VOk.
Proof. vm_compute. repeat split. Qed.

(* ---------- HISTORICAL: the model variant before the repairs of KF-C31-first-write-event-before-commit and
   KF-C31-replay-republishes ----------
   [trace_pre_fix] (LockLedger returning hasTx = false, suspect S-31a; idempotencyHit ignored, suspect S-31b) is no longer
   tied to the code; the statements record what the defects were and that the pre-fix code was correct on in-use ledgers
   without replays only. *)
Example C31_pre_fix_first_write :
  trace_pre_fix true [OWrite wok] = [SqlBegin; LogAppended 1; Publish 1; SqlCommitOk] /\
  check (trace_pre_fix true [OWrite wok]) = VBeforeCommit 1 /\
  trace_pre_fix true [OFailCommit 0; OWrite wok] = [SqlBegin; LogAppended 1; Publish 1; SqlCommitFail].
Proof. vm_compute. repeat split. Qed.

Example C31_pre_fix_replay :
  let ops := [OWrite wok; OWrite {| w_dry := false; w_out := WHit 1 |}] in
  trace_pre_fix false ops = [SqlBegin; LogAppended 1; SqlCommitOk; Publish 1; SqlBegin; SqlRollback; Publish 1] /\
  check (trace_pre_fix false ops) = VNoWrite 1.
Proof. vm_compute. split; reflexivity. Qed.

Example C31_pre_fix_in_use_no_replay_only : forall ops, forallb (eop_hit_ok true) ops = true -> check (trace_pre_fix false ops) = VOk.
Proof. exact trace_pre_fix_check_ok. Qed.

Example C31_pre_fix_scenarios : forall c o, check (scenario_trace_pre_fix c o) = scenario_expected_pre_fix c o.
Proof. intros c o; destruct c, o; vm_compute; reflexivity. Qed.
