(* C31 — Events are published exactly for committed writes, after commit.  Statements only; the model is
   Ledger/Events.v (ControllerWithEvents hasTx/parent/atCommit, the state tracker's handleState, forgeLog's
   transaction, Bulker.Run), the proofs are in Ledger/EventsProofs.v.

   The property is the executable judgement [check] on the observable trace (driver-level BEGIN / COMMIT ok /
   COMMIT failed / ROLLBACK, InsertLog executions, listener calls): a Publish is accepted only when its log was
   appended in a top-level transaction whose COMMIT has already succeeded and whose event has not been published
   yet; at the end every committed log has been published.  So: after the outermost commit; nothing for failed,
   dry-run, rolled-back and commit-failed writes; exactly one event per committed write.

   FULL STATEMENT (false of the unchanged code, see the two refutations below):
     forall init ops, check (trace_of false init ops) = VOk.                                                     *)
From Coq Require Import List ZArith Bool.
From LV Require Import Ledger.Events Ledger.EventsProofs.
Import ListNotations.
Open Scope Z_scope.

(* S-31a: LockLedger returns an events object with hasTx = false, so on the first write of an initializing ledger
   (handleState: BeginTX -> LockLedger -> write -> Commit) handleEvent fires inside the still-open transaction. *)
Theorem C31_refuted_first_write :
  exists ops, forallb eop_no_hit ops = true /\
    trace_of false true ops = [SqlBegin; LogAppended 1; Publish 1; SqlCommitOk] /\
    check (trace_of false true ops) = VBeforeCommit 1.
Proof. exists [OWrite wok]. vm_compute. repeat split. Qed.
Print Assumptions C31_refuted_first_write.

(* ... and when that COMMIT fails the event of a write that never became durable has already been delivered *)
Theorem C31_refuted_first_write_commit_failure :
  exists ops, forallb eop_no_hit ops = true /\
    trace_of false true ops = [SqlBegin; LogAppended 1; Publish 1; SqlCommitFail].
Proof. exists [OFailCommit 0; OWrite wok]. vm_compute. repeat split. Qed.
Print Assumptions C31_refuted_first_write_commit_failure.

(* S-31b: an idempotent replay (forgeLog answers from the stored log, idempotencyHit = true) publishes the event
   of that log a second time: ControllerWithEvents does not look at idempotencyHit. *)
Theorem C31_refuted_replay :
  exists ops,
    trace_of false false ops = [SqlBegin; LogAppended 1; SqlCommitOk; Publish 1; SqlBegin; SqlRollback; Publish 1] /\
    check (trace_of false false ops) = VNoWrite 1.
Proof. exists [OWrite wok; OWrite {| w_dry := false; w_out := WHit 1 |}]. vm_compute. split; reflexivity. Qed.
Print Assumptions C31_refuted_replay.

(* Strongest true statement about the unchanged code: on a ledger that is already in use, every history of single
   writes (any outcome, dry-run or not), atomic and non-atomic bulks (continueOnFailure or not) and COMMIT faults at
   any position, without idempotent replays, satisfies the judgement.  No bound on the history or the bulks. *)
Theorem C31_partial : forall ops,
  forallb eop_no_hit ops = true -> check (trace_of false false ops) = VOk.
Proof. intros ops H. apply trace_check_ok; [right; reflexivity | exact H]. Qed.
Print Assumptions C31_partial.

(* With the proposed repair (LockLedger propagates hasTx: `hasTx: c.hasTx` in the returned object) the restriction to
   in-use ledgers disappears. *)
Theorem C31_repaired : forall init ops,
  forallb eop_no_hit ops = true -> check (trace_of true init ops) = VOk.
Proof. intros init ops H. apply trace_check_ok; [left; reflexivity | exact H]. Qed.
Print Assumptions C31_repaired.

(* what a passing trace means: each Publish is preceded by  LogAppended id ... COMMIT ok  with no transaction boundary in between *)
Theorem C31_after_commit : forall tr, check tr = VOk ->
  forall p id q, tr = p ++ Publish id :: q ->
  exists a b c, p = a ++ LogAppended id :: b ++ SqlCommitOk :: c /\ forallb (fun x => negb (is_boundary x)) b = true.
Proof. exact check_ok_publish_after_commit. Qed.
Print Assumptions C31_after_commit.

(* the grid of the property's quantifier: context x outcome, faithful model and repaired model *)
Theorem C31_scenarios : forall c o,
  check (scenario_trace false c o) = scenario_expected c o /\ check (scenario_trace true c o) = VOk.
Proof. intros c o; destruct c, o; vm_compute; split; reflexivity. Qed.
Print Assumptions C31_scenarios.

(* non-vacuity: a history mixing all contexts on an in-use ledger; committed writes 1,3,4,5,7 each publish once, after their commit *)
Example C31_example :
  let ops := [OWrite wok; OWrite {| w_dry := true; w_out := WOk |}; OBulk true false [wok; wok];
              OWrite {| w_dry := false; w_out := WFail |}; OFailCommit 1; OBulk false true [wok; {| w_dry := false; w_out := WFail |}; wok; wok]] in
  forallb eop_no_hit ops = true /\
  trace_of false false ops =
    [SqlBegin; LogAppended 1; SqlCommitOk; Publish 1;
     SqlBegin; LogAppended 2; SqlRollback;
     SqlBegin; LogAppended 3; LogAppended 4; SqlCommitOk; Publish 3; Publish 4;
     SqlBegin; SqlRollback;
     SqlBegin; LogAppended 5; SqlCommitOk; Publish 5; SqlBegin; SqlRollback; SqlBegin; LogAppended 6; SqlCommitFail;
     SqlBegin; LogAppended 7; SqlCommitOk; Publish 7] /\
  check (trace_of false false ops) = VOk.
Proof. vm_compute. repeat split. Qed.
