(* C12, concurrent part - Import is only accepted on a pristine ledger, under every interleaving with first writes and atomic bulks.
   Statements only.  Model: Ledger/ConcImport.v (the ledger-lock protocol of internal/controller/system/state_tracker.go as an
   interleaving semantics over store calls); proofs: Ledger/ConcImportProofs.v (one invariant, induction over the schedule).
   Every theorem holds for ALL schedules, any number of importers and writers (single writes and atomic bulks, succeeding or
   failing), through facades whose cached state is initializing or (coherently) in-use.

   What the protocol guarantees, and what it does not need to: writes are never refused because of the state; an import is refused
   once the ROW says in-use.  The row is flipped inside the first write's transaction, under the ledger lock; Import reads the row
   under the same lock; a writer whose facade cached in-use takes no lock at all - it can only have cached in-use after a write
   committed, and then every import is refused anyway. *)
From Coq Require Import List ZArith Bool Lia.
From LV Require Import Ledger.ConcImport Ledger.ConcImportProofs.
Import ListNotations.
Open Scope Z_scope.

(* (a) mutual exclusion: at most one request is inside a critical section (importer: from the row read to the unlock; writer on an
   initializing cache: from markInUse to COMMIT / ROLLBACK), and it is the holder of the ledger advisory lock *)
Theorem C12_conc_mutual_exclusion : forall hash ops sched w1 s1 w2 s2,
  let g := ioutcome hash ops sched in
  nth_error (s_ws g) w1 = Some s1 -> crit s1 = true -> nth_error (s_ws g) w2 = Some s2 -> crit s2 = true ->
  w1 = w2 /\ s_lock g = Some w1.
Proof.
  intros hash ops sched w1 s1 w2 s2 g H1 C1 H2 C2.
  assert (I : iinv g) by (apply iinv_all_schedules; apply iinv_init).
  split; [eapply (excl g I); eauto|eapply (v_lock g I); eauto].
Qed.
Print Assumptions C12_conc_mutual_exclusion.

(* (b) an import that has been accepted (the row said initializing) and has not yet released the lock - in particular one that is
   about to release it with the answer "ok" - sees a ledger that is STILL initializing, with no state flip in flight, and whose
   stored logs are all imported ones: no write committed before its lock acquisition, none while it runs *)
Theorem C12_conc_accepted_is_pristine : forall hash ops sched w s,
  let g := ioutcome hash ops sched in
  nth_error (s_ws g) w = Some s -> accepted s = true ->
  s_row g = false /\ s_flip g = None /\ forall l, In l (s_logs g) -> lg_imp l = true.
Proof.
  intros hash ops sched w s g Hn Ha.
  assert (I : iinv g) by (apply iinv_all_schedules; apply iinv_init).
  destruct (v_acc g I w s Hn Ha) as [Hr Hf]. split; [auto|split; [auto|]]. apply (v_pristine g I Hr).
Qed.
Print Assumptions C12_conc_accepted_is_pristine.

(* ... and whatever commits afterwards lies above: every log of a write has an id above every imported log (the first write resyncs
   the sequences to the stored maxima inside its critical section); all ids of an in-use ledger are below the sequence *)
Theorem C12_conc_writes_above_imported : forall hash ops sched lw li,
  let g := ioutcome hash ops sched in
  In lw (s_logs g) -> In li (s_logs g) -> lg_imp lw = false -> lg_imp li = true -> lg_id li < lg_id lw.
Proof. intros hash ops sched lw li g. apply (v_order g). apply iinv_all_schedules. apply iinv_init. Qed.
Print Assumptions C12_conc_writes_above_imported.

(* once a write has committed the row says in-use (so every later import is refused: C12_conc_import_on_in_use_refused) *)
Theorem C12_conc_write_means_in_use : forall hash ops sched l,
  let g := ioutcome hash ops sched in In l (s_logs g) -> lg_imp l = false -> s_row g = true.
Proof.
  intros hash ops sched l g Hin Hi. assert (I : iinv g) by (apply iinv_all_schedules; apply iinv_init).
  destruct (s_row g) eqn:Hr; auto. rewrite (v_pristine g I Hr l Hin) in Hi. discriminate.
Qed.
Print Assumptions C12_conc_write_means_in_use.

(* the import's decision is taken on the row, under the lock: in any state, an importer that reads an in-use row is refused and its
   only remaining store call is the unlock *)
Theorem C12_conc_import_on_in_use_refused : forall g w s n sh,
  nth_error (s_ws g) w = Some s -> iw_op s = OImport n sh -> iw_pc s = IRow -> s_row g = true ->
  option_map (fun s' => (iw_pc s', iw_res s')) (nth_error (s_ws (istep g w)) w) = Some (IUnlock, RImpNotInit) /\
  s_logs (istep g w) = s_logs g /\ s_row (istep g w) = s_row g /\ s_seq (istep g w) = s_seq g.
Proof.
  intros g w s n sh Hn Hop Hpc Hr. unfold istep. rewrite Hn, Hop, Hpc. unfold do_irow. rewrite Hr. simpl.
  rewrite nth_iupd, Nat.eqb_refl, Hn. simpl. auto.
Qed.
Print Assumptions C12_conc_import_on_in_use_refused.

(* (c) a rejected import has no effect: an importer that answered not-initializing / log-exists / invalid-hash owns no stored log *)
Theorem C12_conc_rejected_no_effect : forall hash ops sched w s n sh,
  let g := ioutcome hash ops sched in
  nth_error (s_ws g) w = Some s -> iw_op s = OImport n sh -> iw_pc s = IDone -> rejected (iw_res s) = true ->
  forall l, In l (s_logs g) -> lg_imp l = true -> lg_own l <> w.
Proof.
  intros hash ops sched w s n sh g Hn Hop Hpc Hrej.
  assert (I : iinv g) by (apply iinv_all_schedules; apply iinv_init).
  apply (v_fresh g I w s Hn). unfold fresh_imp. rewrite Hop, Hpc. exact Hrej.
Qed.
Print Assumptions C12_conc_rejected_no_effect.

(* the cache of a facade never runs ahead of the row (the concurrent face of C12_coherent): this is why the lock-free fast path is safe *)
Theorem C12_conc_cache_coherent : forall hash ops sched w s,
  let g := ioutcome hash ops sched in nth_error (s_ws g) w = Some s -> iw_cache s = true -> s_row g = true.
Proof. intros hash ops sched w s g. apply (v_cache g). apply iinv_all_schedules. apply iinv_init. Qed.
Print Assumptions C12_conc_cache_coherent.

(* the same from any state satisfying the invariant (e.g. an in-use ledger with facades that cached in-use) *)
Theorem C12_conc_from : forall g sched, iinv g -> iinv (irun g sched).
Proof. exact iinv_all_schedules. Qed.
Print Assumptions C12_conc_from.

(* non-vacuity: importer (2 logs) vs a single write vs an atomic bulk of 2.  The bulk asks for the lock while the import runs and
   waits; the import is accepted and finishes; then the bulk flips the ledger, resyncs the sequences and gets ids 3, 4; the single
   write finds the row in use (no flip, no setval) and gets id 5.  In the other order the import is refused with no effect. *)
Example C12c_example :
  let ops := [OImport 2 0; OWrite 1 false; OWrite 2 false] in
  let g := ioutcome true ops [0; 2; 0; 0; 0; 0; 0; 2; 2; 2; 2; 2; 1; 1; 1]%nat in
  iresults g = [RImpOk; RWOk [5]; RWOk [3; 4]] /\ map lg_id (s_logs g) = [1; 2; 3; 4; 5] /\ map lg_imp (s_logs g) = [true; true; false; false; false] /\
  s_row g = true /\ s_commits g = [0; 0; 2; 1]%nat /\ nth_error (s_ev g) 1 = Some (2%nat, LXLock, ISBlocked) /\
  let g' := ioutcome true ops [1; 1; 1; 1; 1; 0; 0; 0]%nat in
  iresults g' = [RImpNotInit; RWOk [1]; RPending] /\ map lg_imp (s_logs g') = [false].
Proof. vm_compute. repeat split; reflexivity. Qed.

(* non-vacuity of the hypotheses of (a) and (b): a reachable state with an accepted importer inside its critical section *)
Example C12c_accepted_state :
  let g := ioutcome false [OImport 2 0; OWrite 1 false] [0; 0; 0; 0; 1]%nat in
  option_map accepted (nth_error (s_ws g) 0) = Some true /\ option_map crit (nth_error (s_ws g) 0) = Some true /\
  option_map crit (nth_error (s_ws g) 1) = Some false /\ s_lock g = Some 0%nat /\ map lg_id (s_logs g) = [1].
Proof. vm_compute. repeat split; reflexivity. Qed.
