(* C15 — Revert is an exact, single inverse (sequential part).  Statements only up to small local lemmas. *)
From Coq Require Import List ZArith String Bool Lia.
From LV Require Import Base.Util Ledger.Types Ledger.Core Ledger.VolProofs Ledger.Invariants Ledger.ReplayProofs.
From LV Require Export Props.C15c.   (* concurrent part: theorems over all schedules of the interleaving model Ledger/Conc.v *)
Import ListNotations.
Open Scope Z_scope.

Lemma find_tx_map_tx txs id fn : (forall t, t_id (fn t) = t_id t) -> find_tx (map_tx txs id fn) id = option_map fn (find_tx txs id).
Proof.
  intros K. unfold find_tx, map_tx. induction txs as [|t r IH]; simpl; [reflexivity|].
  destruct (t_id t =? id) eqn:E; simpl.
  - rewrite K, E. reflexivity.
  - rewrite E. exact IH.
Qed.

Lemma find_tx_app_some l l2 id t : find_tx l id = Some t -> find_tx (l ++ l2) id = Some t.
Proof. unfold find_tx. induction l as [|x r IH]; simpl; [discriminate|]. destruct (t_id x =? id); [auto|exact IH]. Qed.

Lemma mget_aset_same (m : meta) k v : mget (aset String.eqb m k v) k = Some v.
Proof. unfold mget. induction m as [|[k' v'] r IH]; simpl; [rewrite String.eqb_refl; reflexivity|].
  destruct (String.eqb k' k) eqn:E; simpl; rewrite E; [reflexivity | exact IH]. Qed.
Lemma mget_mmerge_mark (m : meta) k v : mget (mmerge m [(k, v)]) k = Some v.
Proof. unfold mmerge. simpl. apply mget_aset_same. Qed.

(* shape of a successful revert: the caller's metadata with the revert mark merged over it *)
Theorem C15_shape : forall f now s id force at_eff rmeta s1 p,
  run_input f now s (IRevert id force at_eff rmeta) = Done s1 p ->
  exists t r, find_tx (s_txs s) id = Some t /\ t_rev t = None /\
    p = PRevert (tx_with t (t_meta t) now (Some now)) r /\
    t_postings r = reverse_postings (t_postings t) /\
    t_meta r = mmerge rmeta [(reverts_key, string_of_Z id)] /\ mget (t_meta r) reverts_key = Some (string_of_Z id) /\
    t_ts r = (if at_eff then t_ts t else now) /\
    s_txs s1 = map_tx (s_txs s) (t_id t) (fun x => tx_with x (t_meta x) now (Some now)) ++ [r].
Proof.
  intros f now s id force at_eff rmeta s1 p. simpl.
  destruct (find_tx (s_txs s) id) as [t|] eqn:F; [|discriminate].
  destruct (t_rev t) eqn:R; [discriminate|].
  match goal with |- context [match ?c with RCOk => _ | RCInsufficient => _ | RCPanic => _ end] => destruct c end; try discriminate.
  match goal with |- context [commit_transaction ?a ?b ?c ?d ?e ?g ?h] => destruct (commit_transaction a b c d e g h) as [s2 [r|]] eqn:E end; [|discriminate].
  intros H; inversion H; subst; clear H.
  apply commit_some in E. destruct E as (Htx & Hps & _ & _ & Hmd & _ & Hts & _).
  exists t, r. repeat split; try assumption; try reflexivity.
  rewrite Hmd. apply mget_mmerge_mark.
Qed.
Print Assumptions C15_shape.

(* reverse_postings: same postings, source and destination swapped, in reverse order *)
Theorem C15_reverse_postings : forall ps,
  reverse_postings ps = rev (map (fun p => {| p_src := p_dst p; p_dst := p_src p; p_asset := p_asset p; p_amt := p_amt p |}) ps)
  /\ List.length (reverse_postings ps) = List.length ps.
Proof. intros ps. split; [reflexivity|]. unfold reverse_postings. rewrite rev_length, map_length. reflexivity. Qed.
Print Assumptions C15_reverse_postings.

(* once reverted, a second revert fails with already-reverted and no effect *)
Theorem C15_once : forall f now s id force at_eff rmeta s1 p now' force' at_eff' rmeta',
  run_input f now s (IRevert id force at_eff rmeta) = Done s1 p ->
  run_input f now' s1 (IRevert id force' at_eff' rmeta') = Failed s1 EAlreadyReverted.
Proof.
  intros f now s id force at_eff rmeta s1 p now' force' at_eff' rmeta' H.
  destruct (C15_shape _ _ _ _ _ _ _ _ _ H) as (t & r & F & _ & _ & _ & _ & _ & _ & Htx).
  simpl. rewrite Htx.
  assert (Hid : t_id t = id) by (eapply find_tx_id; exact F).
  rewrite (find_tx_app_some _ [r] id (tx_with t (t_meta t) now (Some now))).
  - reflexivity.
  - rewrite Hid, find_tx_map_tx by (intros x; reflexivity). rewrite F. reflexivity.
Qed.
Print Assumptions C15_once.

(* T followed by its revert leaves every balance unchanged: the revert's inputs are T's outputs and vice versa *)
Lemma fold_postings_reverse ps k :
  fold_postings (reverse_postings ps) k = (snd (fold_postings ps k), fst (fold_postings ps k)).
Proof.
  unfold reverse_postings. induction ps as [|p r IH]; [reflexivity|].
  cbn [map rev]. rewrite fold_postings_app, IH. cbn [fold_postings].
  unfold posting_delta, skey, dkey; simpl.
  destruct (key_eqb (p_dst p, p_asset p) k), (key_eqb (p_src p, p_asset p) k), (fold_postings r k); unfold vplus; simpl; f_equal; lia.
Qed.

Theorem C15_neutral : forall ps k,
  let v := fold_postings (ps ++ reverse_postings ps) k in fst v - snd v = 0.
Proof.
  intros ps k. cbv zeta. rewrite fold_postings_app, fold_postings_reverse.
  destruct (fold_postings ps k). unfold vplus; simpl. lia.
Qed.
Print Assumptions C15_neutral.

Local Open Scope string_scope.
Example C15_example :
  let f := {| f_moves := true; f_pcev := true; f_acc_hist := true; f_tx_hist := true; f_hash := true |} in
  let p1 := {| p_src := "world"; p_dst := "bob"; p_asset := "USD"; p_amt := 5 |} in
  let p2 := {| p_src := "bob"; p_dst := "alice"; p_asset := "USD"; p_amt := 2 |} in
  let h := [(1, {| o_in := ICreate [p1; p2] (Some 0) "" [] [] false; o_ik := ""; o_dry := false |});
            (9, {| o_in := IRevert 1 false true []; o_ik := ""; o_dry := false |});
            (10, {| o_in := IRevert 1 true false []; o_ik := ""; o_dry := false |})] in
  map (fun t => (t_postings t, t_ts t, t_rev t)) (s_txs (run f h)) =
    [([p1; p2], 0, Some 9);
     ([{| p_src := "alice"; p_dst := "bob"; p_asset := "USD"; p_amt := 2 |}; {| p_src := "bob"; p_dst := "world"; p_asset := "USD"; p_amt := 5 |}], 0, None)].
Proof. vm_compute. reflexivity. Qed.
