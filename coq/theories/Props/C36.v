(* C36 — Amounts are exact at any magnitude.  Statements only; proofs in Ledger/ApiProofs.v.

   The ledger model (Ledger/Core.v, C01..C18) is over Z: every theorem there holds at any magnitude.  What remains is the
   boundary where an amount is TEXT: JSON bodies, SQL literals / numeric results, the `volumes` composite, JSON responses.
   FULL STATEMENT (refuted by the unchanged code, see C36_refuted_float):
     forall n : Z, every path that carries the amount n from a request body into the ledger and back carries exactly n.
   Proved: for ALL n the text codecs are exact and so are postings amounts, v1 monetary variables and string-form amounts;
   the JSON-NUMBER form of a monetary variable in vm.ScriptV1.ToCore (v2, bulk) is exact only below 2^53. *)
From Coq Require Import List ZArith String Bool.
From LV Require Import Base.JsonTree Ledger.Api Ledger.ApiProofs.
Import ListNotations.
Open Scope string_scope.
Open Scope Z_scope.

(* big.Int.String / SetString(…, 10): JSON big-integer rendering and parsing, SQL numeric literals and results, and the
   Formance-Bigint-As-String rendering all go through this pair *)
Theorem C36_decimal_roundtrip : forall n : Z, zparse (zstr n) = Some n.
Proof. exact zparse_zstr. Qed.
Print Assumptions C36_decimal_roundtrip.

(* Volumes.Value -> PostgreSQL composite input/output for volumes(numeric, numeric) -> Volumes.Scan *)
Theorem C36_volumes_roundtrip : forall i o : Z,
  match pg_volumes_io (volumes_value (i, o)) with Some t => volumes_scan t | None => None end = Some (i, o).
Proof. exact volumes_roundtrip. Qed.
Print Assumptions C36_volumes_roundtrip.

(* postings of a v2 / bulk body: the decoded amount is the integer literal, and validation keeps it *)
Theorem C36_posting_amount_exact : forall l n p q,
  jfield "amount" l = Some (AJNum n None) -> dec_posting (AJObj l) = Ok p -> validate_posting p = Ok q -> vp_amt q = n.
Proof.
  intros l n p q H D V. pose proof (v2_posting_amount_exact l n p H D) as E.
  destruct (validate_keeps_amount p q V) as [E' _]. rewrite E in E'. injection E' as E'. symmetry. exact E'.
Qed.
Print Assumptions C36_posting_amount_exact.

(* v1 script variables {"asset": a, "amount": n}: exact for every n *)
Theorem C36_v1_monetary_exact : forall m a n,
  jfield "asset" m = Some (AJStr a) -> jfield "amount" m = Some (AJNum n None) -> v1_var (AJObj m) = Ok (a ++ " " ++ zstr n).
Proof. exact v1_monetary_exact. Qed.
Print Assumptions C36_v1_monetary_exact.

(* ScriptV1 (v2, bulk) variables with the amount as a decimal string: exact for every n *)
Theorem C36_scriptv1_string_exact : forall m a n,
  jfield "asset" m = Some (AJStr a) -> jfield "amount" m = Some (AJStr (zstr n)) -> scriptv1_var (AJObj m) = Some (a ++ " " ++ zstr n).
Proof. intros m a n. exact (scriptv1_string_exact m a (zstr n)). Qed.
Print Assumptions C36_scriptv1_string_exact.

(* partial: the JSON-number form is exact below 2^53 *)
Theorem C36_scriptv1_number_partial : forall m a n,
  Z.abs n < 2 ^ 53 ->
  jfield "asset" m = Some (AJStr a) -> jfield "amount" m = Some (AJNum n None) -> scriptv1_var (AJObj m) = Some (a ++ " " ++ zstr n).
Proof. exact scriptv1_number_exact_below_2_53. Qed.
Print Assumptions C36_scriptv1_number_partial.

(* refutation of the full statement: 2^53+1 as a JSON number becomes 2^53 (float64 rounding); 2^64+1 becomes -2^63
   (int() of an out-of-range float64 on amd64); replayed on the real code through POST /v2/{ledger}/transactions *)
Theorem C36_refuted_float :
  exists n, 0 <= n /\
    scriptv1_var (AJObj [("asset", AJStr "USD"); ("amount", AJNum n None)]) <> Some ("USD " ++ zstr n) /\
    decode_scriptv1 (AJObj [("plain", AJStr "p"); ("vars", AJObj [("x", AJObj [("asset", AJStr "USD"); ("amount", AJNum n None)])])])
      = Ok {| s_plain := "p"; s_template := ""; s_vars := [("x", "USD 9007199254740992")] |}.
Proof. exists 9007199254740993. split; [discriminate|]. split; [vm_compute; discriminate|vm_compute; reflexivity]. Qed.
Print Assumptions C36_refuted_float.

(* non-vacuity / magnitude: amounts above 2^64 through each exact path, and the two lossy outcomes *)
Example C36_example :
  zparse (zstr (2 ^ 64 + 1)) = Some 18446744073709551617 /\
  volumes_value (10 ^ 30, 2 ^ 64 + 1) = "(1000000000000000000000000000000, 18446744073709551617)" /\
  volumes_scan (volumes_value (1, 2)) = None /\           (* Scan is NOT the inverse of Value without PostgreSQL's normalisation *)
  v1_var (AJObj [("asset", AJStr "USD"); ("amount", AJNum (2 ^ 64 + 1) None)]) = Ok "USD 18446744073709551617" /\
  scriptv1_var (AJObj [("asset", AJStr "USD"); ("amount", AJNum (2 ^ 53 - 1) None)]) = Some "USD 9007199254740991" /\
  scriptv1_var (AJObj [("asset", AJStr "USD"); ("amount", AJNum (2 ^ 64 + 1) None)]) = Some "USD -9223372036854775808" /\
  scriptv1_var (AJNum (2 ^ 64 + 1) None) = Some "1.8446744073709552e+19".
Proof. repeat split; vm_compute; reflexivity. Qed.
