(* C36 — Amounts are exact at any magnitude.  Statements only; proofs in Ledger/ApiProofs.v.

   The ledger model (Ledger/Core.v, C01..C18) is over Z: every theorem there holds at any magnitude.  What remains is the
   boundary where an amount is TEXT: JSON bodies, SQL literals / numeric results, the `volumes` composite, JSON responses.
   STATEMENT: forall n : Z, every path that carries the amount n from a request body into the ledger and back carries exactly n.
   Proved for ALL n: the text codecs, postings amounts, v1 monetary variables, and the string AND JSON-number forms of script
   variables of the v2 / bulk API.  History: before `fix: script variables keep JSON numbers as exact text` (fixes/09) vm.ScriptV1
   decoded numbers into float64 and rendered them with int(): exact only below 2^53 (2^53+1 -> 2^53, >= 2^63 -> -2^63); the
   model follows the repaired code (json.Number), a tree without the repair breaks the apidec correspondence and the monitors. *)
From Coq Require Import List ZArith String Bool.
From LV Require Import Base.JsonTree Ledger.Api Ledger.ApiProofs.
Import ListNotations.
Open Scope string_scope.
Open Scope Z_scope.

(* big.Int.String / SetString(…, 10): JSON big-integer rendering and parsing, SQL numeric literals and results, and the
   Formance-Bigint-As-String rendering all go through this pair *)
Theorem C36_decimal_roundtrip : forall n : Z, zparse (zstr n) = Some n.
Proof. exact zparse_zstr. Qed.
Print Assumptions C36_decimal_roundtrip.

(* Volumes.Value -> PostgreSQL composite input/output for volumes(numeric, numeric) -> Volumes.Scan *)
Theorem C36_volumes_roundtrip : forall i o : Z,
  match pg_volumes_io (volumes_value (i, o)) with Some t => volumes_scan t | None => None end = Some (i, o).
Proof. exact volumes_roundtrip. Qed.
Print Assumptions C36_volumes_roundtrip.

(* postings of a v2 / bulk body: the decoded amount is the integer literal, and validation keeps it *)
Theorem C36_posting_amount_exact : forall l n p q,
  jfield "amount" l = Some (AJNum n None) -> dec_posting (AJObj l) = Ok p -> validate_posting p = Ok q -> vp_amt q = n.
Proof.
  intros l n p q H D V. pose proof (v2_posting_amount_exact l n p H D) as E.
  destruct (validate_keeps_amount p q V) as [E' _]. rewrite E in E'. injection E' as E'. symmetry. exact E'.
Qed.
Print Assumptions C36_posting_amount_exact.

(* v1 script variables {"asset": a, "amount": n}: exact for every n *)
Theorem C36_v1_monetary_exact : forall m a n,
  jfield "asset" m = Some (AJStr a) -> jfield "amount" m = Some (AJNum n None) -> v1_var (AJObj m) = Ok (a ++ " " ++ zstr n).
Proof. exact v1_monetary_exact. Qed.
Print Assumptions C36_v1_monetary_exact.

(* ScriptV1 (v2, bulk) variables with the amount as a decimal string: exact for every n *)
Theorem C36_scriptv1_string_exact : forall spell m a n,
  jfield "asset" m = Some (AJStr a) -> jfield "amount" m = Some (AJStr (zstr n)) -> scriptv1_var spell (AJObj m) = Some (a ++ " " ++ zstr n).
Proof. intros sp m a n. exact (scriptv1_string_exact sp m a (zstr n)). Qed.
Print Assumptions C36_scriptv1_string_exact.

(* ... and with the amount as a JSON number, and bare numeric variables: exact for every n (json.Number, no float64) *)
Theorem C36_scriptv1_number_exact : forall spell m a n,
  jfield "asset" m = Some (AJStr a) -> jfield "amount" m = Some (AJNum n None) -> scriptv1_var spell (AJObj m) = Some (a ++ " " ++ zstr n).
Proof. exact scriptv1_number_exact. Qed.
Print Assumptions C36_scriptv1_number_exact.

Theorem C36_scriptv1_bare_number_exact : forall spell n, scriptv1_var spell (AJNum n None) = Some (zstr n).
Proof. exact scriptv1_bare_number_exact. Qed.
Print Assumptions C36_scriptv1_bare_number_exact.

(* an integer written with an exponent or a zero fraction (1e3, 100.0 = 1000e-1 ...) is rendered as the integer it denotes *)
Theorem C36_number_text_integer : forall spell m e, 0 <= e <= 999 -> number_text spell m (Some e) = zstr (m * 10 ^ e).
Proof. exact number_text_integer. Qed.
Print Assumptions C36_number_text_integer.

(* non-vacuity / magnitude: amounts above 2^64 through each path; the former lossy inputs are exact; non-integers pass verbatim *)
Example C36_example :
  let sp := fun (m e : Z) => "<literal>" in
  zparse (zstr (2 ^ 64 + 1)) = Some 18446744073709551617 /\
  volumes_value (10 ^ 30, 2 ^ 64 + 1) = "(1000000000000000000000000000000, 18446744073709551617)" /\
  volumes_scan (volumes_value (1, 2)) = None /\           (* Scan is NOT the inverse of Value without PostgreSQL's normalisation *)
  v1_var (AJObj [("asset", AJStr "USD"); ("amount", AJNum (2 ^ 64 + 1) None)]) = Ok "USD 18446744073709551617" /\
  scriptv1_var sp (AJObj [("asset", AJStr "USD"); ("amount", AJNum (2 ^ 53 + 1) None)]) = Some "USD 9007199254740993" /\
  scriptv1_var sp (AJObj [("asset", AJStr "USD"); ("amount", AJNum (2 ^ 64 + 1) None)]) = Some "USD 18446744073709551617" /\
  scriptv1_var sp (AJNum (2 ^ 64 + 1) None) = Some "18446744073709551617" /\
  scriptv1_var sp (AJObj [("asset", AJStr "USD"); ("amount", AJNum 1000 (Some (-1)))]) = Some "USD 100" /\     (* 100.0 *)
  scriptv1_var sp (AJObj [("asset", AJStr "USD"); ("amount", AJNum 15 (Some (-1)))]) = Some "USD <literal>" /\  (* 1.5: verbatim, the machine rejects it *)
  decode_scriptv1 sp (AJObj [("plain", AJStr "p"); ("vars", AJObj [("x", AJObj [("asset", AJStr "USD"); ("amount", AJNum 9007199254740993 None)])])])
    = Ok {| s_plain := "p"; s_template := ""; s_vars := [("x", "USD 9007199254740993")] |}.
Proof. cbv zeta. repeat split; vm_compute; reflexivity. Qed.
