(* C19 — Ledgers are isolated, including within a shared bucket, including when ledgers are added over time.
   Model: Ledger/Multi.v (buckets of tagged rows; one alone-in-bucket flag per (process, bucket), written only by
   driver.CreateLedger / driver.OpenLedger of THAT process).  Statements only; proofs in Ledger/MultiProofs.v.

   Full statement (as written in the property):
     (W) no write on L changes anything observable on L' <> L                                   -- PROVED  (C19_write_frame, C19_run_frame)
     (R) no read on L returns another ledger's rows, also when ledgers are added over time:
           forall evs p L e, project (mrun evs) L = Some e -> read_table tbl (mrun evs) p L = rows_of tbl e
                                                                                                 -- REFUTED (C19_read_scope_refuted)
         because the invariant the un-scoped reads rely on,   forall evs, Inv_flag (mrun evs),   -- REFUTED (C19_flag_maintained_refuted)
         is not maintained when ANOTHER process adds a ledger to the bucket.
     Strongest true statements: (R) under a truthful flag (C19_read_scope), the flag of a process is truthful as long as every
     ledger creation goes through that process (C19_flag_maintained_partial), and a read that immediately follows OpenLedger in
     the same process — what every API request does — is scoped whatever happened before (C19_fresh_open_scoped). *)
From Coq Require Import List ZArith String Bool Lia.
From LV Require Import Base.Util Ledger.Types Ledger.Core Ledger.Multi Ledger.MultiProofs.
Import ListNotations.
Open Scope Z_scope.

(* (W) every table and every sequence of every other ledger is unchanged by any event addressed to L:
   operations (whatever store they go through), ledger creation, opening *)
Theorem C19_write_frame : forall s ev L', addressed ev <> L' -> project (mstep s ev) L' = project s L'.
Proof. exact mstep_frame. Qed.
Print Assumptions C19_write_frame.

Theorem C19_run_frame : forall evs s L', (forall ev, In ev evs -> addressed ev <> L') -> project (mrun_from s evs) L' = project s L'.
Proof. exact mrun_frame. Qed.
Print Assumptions C19_run_frame.

(* and on the addressed ledger the step is the one-ledger step of Core.v, on its own rows *)
Theorem C19_own_step : forall s L now o, names_unique s -> project (mstep_op s L now o) L = option_map (step_entry now o) (project s L).
Proof. exact mstep_op_self. Qed.
Print Assumptions C19_own_step.

(* identifiers are per ledger: whatever happens on other ledgers in between, the next operation on L draws the same
   transaction id / log id, hits the same idempotency keys and meets the same reference conflicts *)
Theorem C19_ids_independent : forall evs s L now o,
  (forall ev, In ev evs -> addressed ev <> L) -> mresult (mrun_from s evs) L now o = mresult s L now o.
Proof. intros evs s L now o H. unfold mresult. now rewrite mrun_frame. Qed.
Print Assumptions C19_ids_independent.

(* the unique indexes of the shared tables are keyed (ledger, reference) / (ledger, idempotency_key): evaluated on the
   bucket's tagged rows they coincide with the one-ledger checks of Core.v *)
Theorem C19_references_independent : forall s L e r, names_unique s -> project s L = Some e ->
  bucket_ref_taken (ms_ledgers s) (le_bucket e) L r = ref_taken (s_txs (le_state e)) r.
Proof. exact bucket_ref_taken_is_local. Qed.
Print Assumptions C19_references_independent.

Theorem C19_idempotency_keys_independent : forall s L e ik, names_unique s -> project s L = Some e ->
  bucket_find_ik (ms_ledgers s) (le_bucket e) L ik = find_ik (s_logs (le_state e)) ik.
Proof. exact bucket_find_ik_is_local. Qed.
Print Assumptions C19_idempotency_keys_independent.

(* (R) under a truthful flag: a read on L through a store of process p returns exactly the rows of L, each tagged L,
   for every table (transactions, accounts, volumes, moves, logs, metadata histories, ...) *)
Theorem C19_read_scope : forall (A : Type) (tbl : state -> list A) s p L e,
  names_unique s -> Inv_flag_proc s p -> project s L = Some e ->
  read_table tbl s p L = rows_of tbl e /\ map snd (read_table tbl s p L) = tbl (le_state e) /\
  (forall r, In r (read_table tbl s p L) -> fst r = L).
Proof.
  intros A tbl s p L e Hnd Hinv Hp. rewrite (read_scope tbl s p L e Hnd Hinv Hp). split; [reflexivity|]. split.
  - apply rows_of_snd.
  - intros r Hr. apply rows_of_tag in Hr. rewrite Hr. apply (find_ledger_some _ _ _ Hp).
Qed.
Print Assumptions C19_read_scope.

(* every reachable state has unique ledger names (hypothesis of the theorems above) *)
Theorem C19_names_unique : forall evs, names_unique (mrun evs).
Proof. exact mrun_names_unique. Qed.
Print Assumptions C19_names_unique.

(* the flag AS THE CODE MAINTAINS IT: truthful for process p as long as every ledger creation is performed by p *)
Theorem C19_flag_maintained_partial : forall evs p,
  (forall q L b f, In (MCreate q L b f) evs -> q = p) -> Inv_flag_proc (mrun evs) p.
Proof. exact mrun_flag_proc. Qed.
Print Assumptions C19_flag_maintained_partial.

(* one event at a time: only a creation by ANOTHER process can make p's flag stale *)
Theorem C19_flag_step : forall s ev p,
  (forall q L b f, ev = MCreate q L b f -> q = p) -> Inv_flag_proc s p -> Inv_flag_proc (mstep s ev) p.
Proof. exact mstep_flag_proc. Qed.
Print Assumptions C19_flag_step.

(* the API path (GetLedgerController = OpenLedger, then the read, in the same process) is scoped from ANY state *)
Theorem C19_fresh_open_scoped : forall (A : Type) (tbl : state -> list A) s p L e,
  names_unique s -> project s L = Some e -> read_table tbl (mstep s (MOpen p L)) p L = rows_of tbl e.
Proof. intros A tbl. exact (fresh_open_scope tbl). Qed.
Print Assumptions C19_fresh_open_scoped.

(* ---------- refutation of the full statement ---------- *)
Local Open Scope string_scope.
Definition c19_feat := {| f_moves := true; f_pcev := true; f_acc_hist := true; f_tx_hist := true; f_hash := true |}.
Definition c19_create (dst ref : str) : op :=
  {| o_in := ICreate [{| p_src := "world"; p_dst := dst; p_asset := "USD"; p_amt := 5 |}] None ref [] [] false; o_ik := "ik1"; o_dry := false |}.
(* process 1 (e.g. the worker running a replication pipeline, or a second replica) opens "la" while it is alone and keeps
   the store; process 0 then creates "lb" in the same bucket and writes to it *)
Definition c19_witness : list mevent :=
  [MCreate 0 "la" "_default" c19_feat; MOp "la" 1 (c19_create "alice" "r1"); MOpen 1 "la";
   MCreate 0 "lb" "_default" c19_feat; MOp "lb" 2 (c19_create "bob" "r1")].

Theorem C19_flag_maintained_refuted : exists evs, ~ Inv_flag (mrun evs).
Proof.
  exists c19_witness. intros H. specialize (H 1 "_default").
  assert (flag (mrun c19_witness) 1 "_default" = true) as F by (vm_compute; reflexivity).
  apply H in F. vm_compute in F. discriminate F.
Qed.
Print Assumptions C19_flag_maintained_refuted.

Theorem C19_read_scope_refuted : exists evs p L r, In r (read_table s_txs (mrun evs) p L) /\ fst r <> L.
Proof.
  exists c19_witness, 1, "la", ("lb", {| t_id := 1; t_postings := [{| p_src := "world"; p_dst := "bob"; p_asset := "USD"; p_amt := 5 |}];
    t_meta := []; t_ts := 2; t_ref := "r1"; t_ins := 2; t_upd := 2; t_rev := None; t_pcv := [("world", "USD", (0, 5)); ("bob", "USD", (5, 0))];
    t_pcev := Some [("world", "USD", (0, 5)); ("bob", "USD", (5, 0))] |}).
  split; [vm_compute; right; left; reflexivity | simpl; discriminate].
Qed.
Print Assumptions C19_read_scope_refuted.

(* ---------- non-vacuity ---------- *)
(* three ledgers, two sharing a bucket and created over time, one process: hypotheses of C19_read_scope hold, the ledgers hold rows with the
   same transaction id, reference and idempotency key, and each read returns its own ledger's row only *)
Definition c19_history : list mevent :=
  [MCreate 0 "la" "_default" c19_feat; MOp "la" 1 (c19_create "alice" "r1"); MOpen 0 "la";
   MCreate 0 "lz" "b2" c19_feat; MOp "lz" 1 (c19_create "carol" "r1");
   MCreate 0 "lb" "_default" c19_feat; MOp "lb" 2 (c19_create "bob" "r1"); MOp "la" 3 (c19_create "alice" "r1")].

Example C19_example_ids :
  map (fun L => (held_tx_ids (mrun c19_history) 0 L, map (fun r => t_ref (snd r)) (read_table s_txs (mrun c19_history) 0 L),
                 map (fun r => l_ik (snd r)) (read_table s_logs (mrun c19_history) 0 L))) ["la"; "lb"; "lz"]
  = [([1], ["r1"], ["ik1"]); ([1], ["r1"], ["ik1"]); ([1], ["r1"], ["ik1"])]
  /\ flag (mrun c19_history) 0 "b2" = true /\ flag (mrun c19_history) 0 "_default" = false
  /\ count_in (ms_ledgers (mrun c19_history)) "_default" = 2.
Proof. vm_compute. repeat split; reflexivity. Qed.

Example C19_example_inv : Inv_flag_proc (mrun c19_history) 0 /\ names_unique (mrun c19_history).
Proof.
  split; [apply C19_flag_maintained_partial | apply C19_names_unique].
  intros q L b f H. simpl in H. repeat (destruct H as [H|H]; [inversion H; reflexivity || discriminate H|]). contradiction.
Qed.

(* the statement distinguishes: an index ignoring the ledger would see a conflict between ledgers where the real key does not *)
Example C19_example_unscoped_index :
  bucket_ref_taken_unscoped (ms_ledgers (mrun c19_witness)) "_default" "r1" = true /\
  bucket_ref_taken (ms_ledgers (mrun (firstn 4 c19_witness))) "_default" "lb" "r1" = false.
Proof. vm_compute. split; reflexivity. Qed.

(* the stale flag of the witness: process 1 lists both ledgers' transaction ids through its kept store, process 0 only la's *)
Example C19_example_stale : held_tx_ids (mrun c19_witness) 1 "la" = [1; 1] /\ held_tx_ids (mrun c19_witness) 0 "la" = [1].
Proof. vm_compute. split; reflexivity. Qed.
