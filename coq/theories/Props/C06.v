(* C06 — No account is overdrawn beyond its allowance, under any interleaving.  Statements only.
   Sequential part: Ledger/Core.v (the machine's feasibility walk on a postings request, the revert check).
   Concurrent part: Ledger/Conc.v (interleaving semantics over store calls with the PostgreSQL locking discipline),
   proofs in Ledger/ConcProofs.v. *)
From Coq Require Import List ZArith String Bool Lia.
From LV Require Import Base.Util Ledger.Types Ledger.Core Ledger.VolProofs.
From LV Require Ledger.Conc Ledger.ConcProofs.
Import ListNotations.
Open Scope Z_scope.

(* (i) sequential, create: a postings request accepted without force (Core.feasible) never takes a non-world account below
   min(0, what it had): a non-negative balance stays non-negative, an already negative one is not lowered.  The walk checks
   every posting against the balance as updated by the preceding postings of the same request. *)
Theorem C06_seq : forall ps cur k,
  Forall (fun p => 0 <= p_amt p) ps -> feasible false cur ps = true -> fst k <> world ->
  Z.min 0 (balance cur k) <= balance (fold_left apply_posting ps cur) k.
Proof.
  induction ps as [|p r IH]; simpl; intros cur k Hpos Hf Hk; [lia|].
  inversion Hpos as [|? ? Hp Hr]; subst.
  apply andb_true_iff in Hf. destruct Hf as [Hok Hrest].
  specialize (IH (apply_posting cur p) k Hr Hrest Hk).
  assert (Hstep : Z.min 0 (balance cur k) <= Z.min 0 (balance (apply_posting cur p) k)); [|lia].
  unfold balance in *. rewrite vget_apply_posting. unfold posting_delta.
  destruct (key_eqb (skey p) k) eqn:Es, (key_eqb (dkey p) k) eqn:Ed, (vget cur k) as [i o] eqn:Ev; unfold vplus; simpl; try lia.
  - (* k is the source (and not the destination): the posting passed the funds check on the current balance *)
    apply pair_eqb_eq in Es. subst k. simpl in Hok.
    apply orb_true_iff in Hok. destruct Hok as [Hok|Hok].
    + apply orb_true_iff in Hok. destruct Hok as [Hok|Hok].
      * apply String.eqb_eq in Hok. unfold skey in Hk; simpl in Hk. contradiction.
      * apply Z.leb_le in Hok. lia.
    + apply Z.leb_le in Hok. unfold balance in Hok. rewrite Ev in Hok. simpl in Hok. lia.
Qed.
Print Assumptions C06_seq.

(* (i) sequential, revert: a non-forced revert is accepted only if, after the reversed postings, every non-world destination
   of the original transaction (= every source of the revert) has a non-negative balance on the balances that were read *)
Theorem C06_seq_revert : forall orig vols,
  revert_balances_ok orig vols = RCOk ->
  exists fin, revert_walk orig vols (reverse_postings orig) = Some fin /\
              forall p, In p orig -> p_dst p <> world -> 0 <= balance fin (dkey p).
Proof.
  intros orig vols H. unfold revert_balances_ok in H.
  destruct (revert_walk orig vols (reverse_postings orig)) as [fin|]; [|discriminate].
  exists fin. split; [reflexivity|]. intros p Hin Hw.
  destruct (forallb _ orig) eqn:F; [|discriminate].
  rewrite forallb_forall in F. specialize (F p Hin). apply orb_true_iff in F. destruct F as [F|F].
  - apply String.eqb_eq in F. contradiction.
  - apply Z.leb_le in F. exact F.
Qed.
Print Assumptions C06_seq_revert.

(* (ii) concurrent, for ALL schedules and any number of writers (induction over the schedule; ConcProofs.invA / invB).
   g_c06 records, at every COMMIT of a request whose source is bounded (allowance Some a), the committed balance of the source
   right after the COMMIT, and whether the request held the row lock of its source since GetBalances (c_locked). *)

(* the two-phase-locking invariant: between GetBalances (row lock taken, balance read = committed balance) and COMMIT nobody
   else changes the row, so the funds check ran on the balance the COMMIT applies to: whatever the schedule, a COMMIT that held
   the lock leaves its source at >= -allowance.  No hypothesis on the state. *)
Theorem C06_conc_locked : forall hash prefix writers sched,
  Forall (fun c => Conc.c_locked c = true -> - Conc.c_allow c <= Conc.c_after c) (Conc.g_c06 (Conc.sched_outcome hash prefix writers sched)).
Proof. intros. destruct (ConcProofs.outcome_invA hash prefix writers sched) as [_ [_ H]]. exact H. Qed.
Print Assumptions C06_conc_locked.

(* C06_conc: if the (account, asset) row of every bounded source EXISTS (committed) before the race, every COMMIT holds the lock
   (GetBalances finds the row in its snapshot, waits for its lock and re-reads it), hence after each COMMIT the committed balance
   of the committing request's bounded source is >= -allowance: 0 for plain postings and non-forced reverts, X for
   `allowing overdraft up to X`.  For ALL schedules. *)
Theorem C06_conc : forall hash prefix writers sched,
  ConcProofs.rows_exist (Conc.after_prefix hash prefix writers) writers ->
  Forall (fun c => - Conc.c_allow c <= Conc.c_after c) (Conc.g_c06 (Conc.sched_outcome hash prefix writers sched)).
Proof.
  intros hash prefix writers sched HR.
  destruct (ConcProofs.outcome_invA hash prefix writers sched) as [_ [_ HA]].
  destruct (ConcProofs.outcome_invB hash prefix writers sched HR) as [_ [_ HB]].
  rewrite Forall_forall in *. intros c Hc. apply HA; auto.
Qed.
Print Assumptions C06_conc.

(* the same from any state satisfying the invariants (e.g. any reachable one), any writers *)
Theorem C06_conc_from : forall g sched, ConcProofs.invA g -> ConcProofs.invB g ->
  Forall (fun c => - Conc.c_allow c <= Conc.c_after c) (Conc.g_c06 (Conc.run g sched)).
Proof.
  intros g sched HA HB.
  destruct (ConcProofs.invA_all_schedules g sched HA) as [_ [_ A]]. destruct (ConcProofs.invB_all_schedules g sched HB) as [_ [_ B]].
  rewrite Forall_forall in *. intros c Hc. apply A; auto.
Qed.
Print Assumptions C06_conc_from.

(* WITHOUT the hypothesis the statement is refuted (never-used pairs): *)
(* the never-used pair: two requests "send 50 from alice allowing overdraft up to 50"; alice has no USD row.  Writer 1's
   GetBalances starts while writer 0's zero row is in flight: its INSERT ... ON CONFLICT DO NOTHING waits, then skips; its
   SELECT ... FOR UPDATE runs on the snapshot taken before the wait, sees no row, locks nothing and reports 0. *)
Local Open Scope string_scope.
Definition od50 (dst : string) (i : Z) : Conc.cop :=
  {| Conc.o_kind := Conc.KCreate; Conc.o_mode := Conc.MOd; Conc.o_src := "alice"; Conc.o_dst := dst; Conc.o_asset := "USD";
     Conc.o_amt := 50; Conc.o_allow := 50; Conc.o_ref := ""; Conc.o_ik := ""; Conc.o_inh := i; Conc.o_tx := 0 |}.

Theorem C06_conc_fresh_refuted :
  exists hash prefix writers sched,
    ~ Forall (fun c => - Conc.c_allow c <= Conc.c_after c) (Conc.g_c06 (Conc.sched_outcome hash prefix writers sched)).
Proof.
  exists true, [], [od50 "bob" 0; od50 "carol" 1], [0; 1; 0; 0; 0; 0; 0; 1; 1; 1; 1; 1; 1]%nat.
  vm_compute. intros H. inversion H as [|? ? _ H2]; subst. inversion H2 as [|? ? H3 _]; subst. apply H3. reflexivity.
Qed.
Print Assumptions C06_conc_fresh_refuted.

(* what the witness run looks like: both commit, the second without a lock, alice ends at -100 with an allowance of 50 *)
Example C06_witness_outcome :
  let g := Conc.sched_outcome true [] [od50 "bob" 0; od50 "carol" 1] [0; 1; 0; 0; 0; 0; 0; 1; 1; 1; 1; 1; 1]%nat in
  Conc.results g = [Conc.ROk 1 1 false; Conc.ROk 2 2 false] /\
  map (fun c => (Conc.c_locked c, Conc.c_after c, Conc.c_allow c)) (Conc.g_c06 g) = [(true, -50, 50); (false, -100, 50)].
Proof. vm_compute. split; reflexivity. Qed.

(* non-vacuity of C06_conc: alice holds 50 USD (row exists); two "send 100 allowing overdraft up to 50" race; the hypothesis
   holds, both COMMIT records (under a schedule where the second one waits for the row lock) respect the allowance *)
Definition fund_alice50 : Conc.cop :=
  {| Conc.o_kind := Conc.KCreate; Conc.o_mode := Conc.MPlain; Conc.o_src := "world"; Conc.o_dst := "alice"; Conc.o_asset := "USD";
     Conc.o_amt := 50; Conc.o_allow := 0; Conc.o_ref := ""; Conc.o_ik := ""; Conc.o_inh := 0; Conc.o_tx := 0 |}.
Definition od100 (dst : string) (i : Z) : Conc.cop :=
  {| Conc.o_kind := Conc.KCreate; Conc.o_mode := Conc.MOd; Conc.o_src := "alice"; Conc.o_dst := dst; Conc.o_asset := "USD";
     Conc.o_amt := 100; Conc.o_allow := 50; Conc.o_ref := ""; Conc.o_ik := ""; Conc.o_inh := i; Conc.o_tx := 0 |}.
Example C06_conc_hypothesis_holds :
  ConcProofs.rows_exist (Conc.after_prefix true [fund_alice50] [od100 "bob" 0; od100 "carol" 1]) [od100 "bob" 0; od100 "carol" 1].
Proof.
  intros o a [<-|[<-|[]]] _; eexists; (split; [vm_compute; reflexivity|reflexivity]).
Qed.
Example C06_conc_example :
  let g := Conc.sched_outcome true [fund_alice50] [od100 "bob" 0; od100 "carol" 1] [0; 1; 0; 0; 0; 0; 0; 1; 1]%nat in
  Conc.results g = [Conc.ROk 2 2 false; Conc.RErr Conc.EInsufficient] /\
  map (fun c => (Conc.c_locked c, Conc.c_after c, Conc.c_allow c)) (Conc.g_c06 g) = [(true, -50, 50)] /\
  nth_error (Conc.g_ev g) 1 = Some (1%nat, Conc.LBal, Conc.SBlocked).
Proof. vm_compute. repeat split; reflexivity. Qed.
