(* C15, concurrent part — racing reverts of one transaction.  Statements only (model Ledger/Conc.v).
   g_revs: one entry per revert mark made visible by a COMMIT, naming the reverted transaction.  Proved for ALL schedules
   (ConcProofs.tx_ok): the UPDATE takes the row lock only on a row whose committed reverted_at is null and that nobody has
   locked; a waiter re-evaluates the predicate on the newest version; so a transaction is reverted at most once. *)
From Coq Require Import List ZArith String Bool Lia.
From LV Require Import Ledger.Conc Ledger.ConcProofs.
Import ListNotations.
Open Scope Z_scope.
Local Open Scope string_scope.

Definition mk (kind : okind) (mode : omode) (src dst : string) (amt tx : Z) : cop :=
  {| o_kind := kind; o_mode := mode; o_src := src; o_dst := dst; o_asset := "USD"; o_amt := amt; o_allow := 0;
     o_ref := ""; o_ik := ""; o_inh := 0; o_tx := tx |}.
Definition c15_prefix : list cop := [mk KCreate MPlain "world" "alice" 100 0; mk KCreate MPlain "world" "bob" 100 0; mk KCreate MPlain "alice" "bob" 100 0].
Definition rev3 : cop := mk KRevert MPlain "bob" "alice" 100 3.

(* the second UPDATE waits for the first one's row lock; once the first commits, "reverted_at is null" is re-evaluated on
   the new version and fails: already reverted, no effect; balances are back to what they were before T *)
Example C15_conc_example :
  let g := sched_outcome true c15_prefix [rev3; rev3] [0; 1; 0; 0; 0; 0; 0; 0; 1; 1]%nat in
  results g = [ROk 4 4 false; RErr EAlreadyReverted] /\ g_revs g = [3] /\
  committed_vols g = [(("alice", "USD"), 100); (("world", "USD"), -200); (("bob", "USD"), 100)] /\
  nth_error (g_ev g) 1 = Some (1%nat, LRev, SBlocked).
Proof. vm_compute. repeat split; reflexivity. Qed.

(* at most one committed revert of a transaction, for ALL schedules and any number of racers *)
Theorem C15_conc_once : forall hash prefix writers sched, NoDup (g_revs (sched_outcome hash prefix writers sched)).
Proof. intros. apply (tx_revs _ _ _ (outcome_tx_inv hash prefix writers sched)). Qed.
Print Assumptions C15_conc_once.
(* and a reverted target stays marked: every id in g_revs names a row whose committed reverted_at is set *)
Theorem C15_conc_marked : forall hash prefix writers sched t,
  let g := sched_outcome hash prefix writers sched in In t (g_txs g) -> In (t_id t) (g_revs g) -> t_rev t = true.
Proof. intros hash prefix writers sched t g. apply (tx_rev_marked _ _ _ (outcome_tx_inv hash prefix writers sched)). Qed.
Print Assumptions C15_conc_marked.
Theorem C15_conc_once_from : forall g sched, tx_inv g -> NoDup (g_revs (run g sched)).
Proof. intros g sched H. apply (tx_revs _ _ _ (tx_inv_all_schedules g sched H)). Qed.
Print Assumptions C15_conc_once_from.

Theorem C15_conc_ids_unique : forall hash prefix writers sched,
  NoDup (map t_id (g_txs (sched_outcome hash prefix writers sched))).
Proof.
  intros. apply (tx_ids _ _ _ (outcome_tx_inv hash prefix writers sched)).
Qed.
Print Assumptions C15_conc_ids_unique.
