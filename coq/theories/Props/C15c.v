(* C15, concurrent part — racing reverts of one transaction.  Statements only (model Ledger/Conc.v).
   The at-most-one-winner statement  forall ... sched, NoDup (g_revs (sched_outcome hash prefix writers sched))
   (g_revs: one entry per committed revert, naming its target) is checked by exhaustive schedule exploration against the
   real stack (TIE-S) and evaluated on the model below; its all-schedules proof (row lock of the UPDATE + re-evaluation
   of "reverted_at IS NULL" on the newest version) is not done. *)
From Coq Require Import List ZArith String Bool Lia.
From LV Require Import Ledger.Conc Ledger.ConcProofs.
Import ListNotations.
Open Scope Z_scope.
Local Open Scope string_scope.

Definition mk (kind : okind) (mode : omode) (src dst : string) (amt tx : Z) : cop :=
  {| o_kind := kind; o_mode := mode; o_src := src; o_dst := dst; o_asset := "USD"; o_amt := amt; o_allow := 0;
     o_ref := ""; o_ik := ""; o_inh := 0; o_tx := tx |}.
Definition c15_prefix : list cop := [mk KCreate MPlain "world" "alice" 100 0; mk KCreate MPlain "world" "bob" 100 0; mk KCreate MPlain "alice" "bob" 100 0].
Definition rev3 : cop := mk KRevert MPlain "bob" "alice" 100 3.

(* the second UPDATE waits for the first one's row lock; once the first commits, "reverted_at is null" is re-evaluated on
   the new version and fails: already reverted, no effect; balances are back to what they were before T *)
Example C15_conc_example :
  let g := sched_outcome true c15_prefix [rev3; rev3] [0; 1; 0; 0; 0; 0; 0; 0; 1; 1]%nat in
  results g = [ROk 4 4 false; RErr EAlreadyReverted] /\ g_revs g = [3] /\
  committed_vols g = [(("alice", "USD"), 100); (("world", "USD"), -200); (("bob", "USD"), 100)] /\
  nth_error (g_ev g) 1 = Some (1%nat, LRev, SBlocked).
Proof. vm_compute. repeat split; reflexivity. Qed.

Theorem C15_conc_ids_unique : forall hash prefix writers sched,
  NoDup (map t_id (g_txs (sched_outcome hash prefix writers sched))).
Proof.
  intros. assert (H : ids_inv (sched_outcome hash prefix writers sched)).
  { apply ids_unique_all_schedules. apply ids_inv_reseat. apply ids_unique_all_schedules. apply ids_inv_init. }
  destruct H as [[A _] _]. exact A.
Qed.
Print Assumptions C15_conc_ids_unique.
