(* C24 — Allotments split amounts exactly.  Statements only; proofs live in Machine/AllotProofs.v *)
From Coq Require Import List ZArith QArith Qround Lia.
From LV Require Import Machine.Allot Machine.AllotProofs.
Import ListNotations.
Open Scope Z_scope.

(* Each part is floor(amount*portion) plus at most one unit; the units go to the earliest parts;
   the parts sum to the amount.  No bound on the amount, the number of parts or the denominators. *)
Theorem C24_allocate : forall (amt : Z) (a : list Q),
  (qsum a == 1)%Q ->
  let deficit := amt - zsum (map (floor_part amt) a) in
  zsum (allocate amt a) = amt /\
  length (allocate amt a) = length a /\
  0 <= deficit <= Z.of_nat (length a) /\
  (forall i, (i < length a)%nat ->
     nth i (allocate amt a) 0
       = Qfloor (inject_Z amt * nth i a 0%Q) + (if Z.of_nat i <? deficit then 1 else 0)).
Proof.
  intros amt a H1 deficit. repeat split.
  - exact (allocate_sum amt a H1).
  - exact (allocate_length amt a).
  - exact (proj1 (deficit_range amt a H1)).
  - exact (proj2 (deficit_range amt a H1)).
  - intros i Hi. rewrite <- floor_part_Qfloor. exact (allocate_nth amt a i Hi).
Qed.
Print Assumptions C24_allocate.

Theorem C24_nonneg : forall amt a, 0 <= amt -> Forall (fun q => (0 <= q)%Q) a ->
  Forall (fun z => 0 <= z) (allocate amt a).
Proof. exact allocate_nonneg. Qed.
Print Assumptions C24_nonneg.

(* `remaining` is resolved to 1 - (sum of the others): the allotment then sums to 100%, so
   C24_allocate applies; without `remaining` NewAllotment only rejects totals above 100%
   (the compiler's VisitAllotment is what rejects totals below 100% for constant allotments). *)
Theorem C24_remaining : forall ps a, new_allotment ps = inr a ->
  count_remaining ps = 1%nat -> (qsum a == 1)%Q.
Proof. intros ps a H. exact (proj1 (new_allotment_total ps a H)). Qed.
Print Assumptions C24_remaining.

(* non-vacuity: a concrete allotment with `remaining`, an amount above 2^64 *)
Example C24_example :
  match new_allotment [Specific (1#3); Remaining; Specific (1#7)] with
  | inr a => allocate 18446744073709551623 a
  | inl _ => []
  end = [6148914691236517208; 9662580229085955612; 2635249153387078803].
Proof. vm_compute. reflexivity. Qed.
